/*
 * Free-running ThreadSanitizer twin for the properties whose API shares nothing between callers (DESIGN 4.5).
 *
 * Two threads, each with objects of its own, run the same kind of operation at the same time.  Nothing is shared through
 * the API, so there is nothing for a controlled scheduler to interleave: the only thing that can go wrong is state that
 * should be per call / per object / per thread and has become shared (a scratch buffer or a cache hoisted to static
 * storage).  A data race inside one library call is invisible to exploration at synchronisation points and to every
 * sequential enumeration; it is what ThreadSanitizer exists for.  Like the other twins this pass SAMPLES and decides nothing:
 * a report whose accessing frame lies in the repository's sources is printed as ASSUMPTION-BROKEN and marks the run as not
 * exhaustive (added after seven seeded changes of exactly this kind, round 7).
 *
 * One source, compiled per property with -DTWIN_Cnn.
 */
#include "vsx_free.h"
#include <aws/common/array_list.h>
#include <aws/common/byte_buf.h>
#include <aws/common/clock.h>
#include <aws/common/common.h>
#include <aws/common/date_time.h>
#include <aws/common/encoding.h>
#include <aws/common/hash_table.h>
#include <aws/common/json.h>
#include <aws/common/priority_queue.h>
#include <aws/common/ring_buffer.h>
#include <aws/common/string.h>
#include <aws/common/uri.h>
#include <aws/common/xml_parser.h>

static int g_warm; /* a first, single-threaded pass: whatever the library initialises lazily on first use (CPU feature cache, month
                      tables, ...) is initialised before the two threads start - a first-use race is not what this twin is about */
#define ROUNDS (g_warm ? 2 : 1500)
static pthread_barrier_t bar;
static void two(void *(*fn)(void *)) {
    pthread_t a, b;
    pthread_barrier_init(&bar, NULL, 2);
    pthread_create(&a, NULL, fn, (void *)(intptr_t)0);
    pthread_create(&b, NULL, fn, (void *)(intptr_t)1);
    pthread_join(a, NULL);
    pthread_join(b, NULL);
}

#if defined(TWIN_C05)
static void *w(void *p) {
    int id = (int)(intptr_t)p;
    uint8_t raw[101], txt[200], back[200];
    for (size_t i = 0; i < sizeof(raw); ++i) raw[i] = (uint8_t)(i * 7 + (size_t)id * 31);
    if (!g_warm) pthread_barrier_wait(&bar);
    for (int r = 0; r < ROUNDS; ++r) {
        size_t n = 40 + (size_t)(r % 60);
        struct aws_byte_buf t = aws_byte_buf_from_empty_array(txt, sizeof(txt)), b = aws_byte_buf_from_empty_array(back, sizeof(back));
        struct aws_byte_cursor c = aws_byte_cursor_from_array(raw, n);
        aws_base64_encode(&c, &t);
        struct aws_byte_cursor tc = aws_byte_cursor_from_buf(&t);
        aws_base64_decode(&tc, &b);
        t.len = 0;
        aws_hex_encode(&c, &t);
        struct aws_byte_cursor u = aws_byte_cursor_from_c_str("h\xC3\xA9llo w\xE2\x82\xACrld, plain ascii text follows here");
        aws_decode_utf8(u, NULL);
    }
    return NULL;
}
#elif defined(TWIN_C13)
static void *w(void *p) {
    int id = (int)(intptr_t)p;
    if (!g_warm) pthread_barrier_wait(&bar);
    for (int r = 0; r < ROUNDS; ++r) {
        struct aws_uri_builder_options o;
        AWS_ZERO_STRUCT(o);
        o.scheme = aws_byte_cursor_from_c_str("https");
        o.host_name = aws_byte_cursor_from_c_str(id ? "b.example.org" : "a.example.com");
        o.port = (uint32_t)(id ? 8443 + r : 65000 - r);
        o.path = aws_byte_cursor_from_c_str("/p/q");
        o.query_string = aws_byte_cursor_from_c_str("k=v&x=y");
        struct aws_uri u;
        if (aws_uri_init_from_builder_options(&u, aws_default_allocator(), &o) == AWS_OP_SUCCESS) {
            if (aws_uri_port(&u) != o.port) fprintf(stderr, "TWIN-MISMATCH URI built with port %u reads back port %u\n", (unsigned)o.port, (unsigned)aws_uri_port(&u));
            aws_uri_clean_up(&u);
        } else {
            fprintf(stderr, "TWIN-MISMATCH builder fails for port %u\n", (unsigned)o.port);
        }
        struct aws_byte_buf e;
        aws_byte_buf_init(&e, aws_default_allocator(), 8);
        struct aws_byte_cursor pc = aws_byte_cursor_from_c_str("/a b/\xC3\xA9?");
        aws_byte_buf_append_encoding_uri_path(&e, &pc);
        aws_byte_buf_clean_up(&e);
    }
    return NULL;
}
#elif defined(TWIN_C09) || defined(TWIN_C06)
struct big {
    uint8_t b[200];
};
static int cmp_big(const void *a, const void *b) { return (int)((const struct big *)a)->b[0] - (int)((const struct big *)b)->b[0]; }
static void *w(void *p) {
    int id = (int)(intptr_t)p;
    struct aws_array_list l;
    struct aws_priority_queue q;
    aws_array_list_init_dynamic(&l, aws_default_allocator(), 4, sizeof(struct big));
    aws_priority_queue_init_dynamic(&q, aws_default_allocator(), 4, sizeof(struct big), cmp_big);
    struct big e;
    for (int i = 0; i < 6; ++i) {
        memset(&e, i * 16 + id, sizeof(e));
        e.b[0] = (uint8_t)((i * 5) % 7);
        aws_array_list_push_back(&l, &e);
        aws_priority_queue_push(&q, &e);
    }
    if (!g_warm) pthread_barrier_wait(&bar);
    for (int r = 0; r < ROUNDS; ++r) {
        aws_array_list_swap(&l, (size_t)(r % 6), (size_t)((r + 1) % 6));
        aws_array_list_sort(&l, cmp_big);
        aws_priority_queue_pop(&q, &e);
        e.b[0] = (uint8_t)(r % 9);
        aws_priority_queue_push(&q, &e);
    }
    aws_array_list_clean_up(&l);
    aws_priority_queue_clean_up(&q);
    return NULL;
}
#elif defined(TWIN_C19)
static void *w(void *p) {
    int id = (int)(intptr_t)p;
    if (!g_warm) pthread_barrier_wait(&bar);
    for (int r = 0; r < ROUNDS; ++r) {
        struct aws_date_time d, back;
        aws_date_time_init_epoch_secs(&d, 1033545909.0 + (double)(id * 1000003 + r * 86461));
        static const enum aws_date_format F[3] = {AWS_DATE_FORMAT_RFC822, AWS_DATE_FORMAT_ISO_8601, AWS_DATE_FORMAT_ISO_8601_BASIC};
        for (int k = 0; k < 3; ++k) {
            uint8_t txt[AWS_DATE_TIME_STR_MAX_LEN];
            struct aws_byte_buf b = aws_byte_buf_from_empty_array(txt, sizeof(txt));
            aws_date_time_to_utc_time_str(&d, F[k], &b);
            struct aws_byte_cursor c = aws_byte_cursor_from_buf(&b);
            if (aws_date_time_init_from_str_cursor(&back, &c, F[k]) != AWS_OP_SUCCESS || (int64_t)aws_date_time_as_epoch_secs(&back) != (int64_t)aws_date_time_as_epoch_secs(&d))
                fprintf(stderr, "TWIN-MISMATCH instant %.0f formatted as \"%.*s\" reads back as %.0f\n", aws_date_time_as_epoch_secs(&d), (int)b.len, (const char *)txt, aws_date_time_as_epoch_secs(&back));
        }
    }
    return NULL;
}
#elif defined(TWIN_C02)
static int g_destroyed[2];
static void dv0(void *v) { (void)v, g_destroyed[0]++; }
static void dv1(void *v) { (void)v, g_destroyed[1]++; }
static void *w(void *p) {
    int id = (int)(intptr_t)p;
    struct aws_hash_table t;
    static int vals[2][64];
    aws_hash_table_init(&t, aws_default_allocator(), 2, aws_hash_ptr, aws_ptr_eq, NULL, id ? dv1 : dv0);
    if (!g_warm) pthread_barrier_wait(&bar);
    for (int r = 0; r < ROUNDS; ++r) {
        aws_hash_table_put(&t, (void *)(uintptr_t)(1 + r % 40), &vals[id][r % 64], NULL); /* creates, overwrites, grows */
        if (r % 97 == 96) aws_hash_table_clear(&t);
    }
    aws_hash_table_clean_up(&t);
    return NULL;
}
#elif defined(TWIN_C16)
static void *w(void *p) {
    int id = (int)(intptr_t)p;
    volatile uint64_t sink = 0;
    if (!g_warm) pthread_barrier_wait(&bar);
    for (int r = 0; r < ROUNDS * 4; ++r) {
        uint64_t rem = 0;
        sink += aws_timestamp_convert_u64(123456789ull + (uint64_t)r, id ? 1000000000ull : 24000000ull, id ? 1000ull : 1000000ull, &rem);
        sink += aws_timestamp_convert(5000000000ull + (uint64_t)r, AWS_TIMESTAMP_NANOS, id ? AWS_TIMESTAMP_SECS : AWS_TIMESTAMP_MILLIS, &rem);
    }
    return NULL;
}
#elif defined(TWIN_C01)
static void *w(void *p) {
    int id = (int)(intptr_t)p;
    if (!g_warm) pthread_barrier_wait(&bar);
    for (int r = 0; r < ROUNDS; ++r) {
        struct aws_byte_cursor in = aws_byte_cursor_from_c_str(id ? "k1=v1&k2=v2&k3" : "a;bb;;ccc;d"), sub;
        AWS_ZERO_STRUCT(sub);
        while (aws_byte_cursor_next_split(&in, id ? '&' : ';', &sub)) {
        }
        struct aws_byte_buf b;
        aws_byte_buf_init(&b, aws_default_allocator(), 4);
        aws_byte_buf_append_dynamic(&b, &in);
        aws_byte_buf_append_dynamic_secure(&b, &in);
        aws_byte_buf_clean_up_secure(&b);
    }
    return NULL;
}
#elif defined(TWIN_C12) || defined(TWIN_C04)
static int cb(struct aws_xml_node *n, void *ud) {
    size_t na = aws_xml_node_get_num_attributes(n);
    for (size_t i = 0; i < na; ++i) (void)aws_xml_node_get_attribute(n, i);
    struct aws_byte_cursor nm = aws_xml_node_get_name(n);
    if (nm.len == 1 && nm.ptr[0] == 'c') {
        struct aws_byte_cursor body;
        return aws_xml_node_as_body(n, &body);
    }
    return aws_xml_node_traverse(n, cb, ud);
}
static void *w(void *p) {
    int id = (int)(intptr_t)p;
    if (!g_warm) pthread_barrier_wait(&bar);
    for (int r = 0; r < ROUNDS; ++r) {
        struct aws_xml_parser_options o;
        AWS_ZERO_STRUCT(o);
        o.doc = aws_byte_cursor_from_c_str(id ? "<r a=\"1\" b=\"2\"><c>text</c><d e=\"f\"><c>u</c></d></r>" : "<x k=\"v\"><y><c>1</c></y><c>2</c></x>");
        o.on_root_encountered = cb;
        aws_xml_parse(aws_default_allocator(), &o);
#    if defined(TWIN_C04)
        struct aws_json_value *v = aws_json_value_new_from_string(aws_default_allocator(), aws_byte_cursor_from_c_str(id ? "{\"a\":[1,2,{\"b\":null}]}" : "[[],[1],{\"k\":\"v\"}]"));
        if (v) aws_json_value_destroy(v);
#    endif
    }
    return NULL;
}
#else
#    error "TWIN_Cnn not selected"
#endif

static void run(void) {
    aws_common_library_init(aws_default_allocator());
    g_warm = 1;
    w((void *)(intptr_t)0);
    w((void *)(intptr_t)1);
    g_warm = 0;
    two(w);
}

int main(int argc, char **argv) {
    v_init(argc, argv);
    struct vsx_scenario sc[] = {{.name = "two-threads-own-objects", .run = run, .bound_quick = 1, .bound_thorough = 1}};
    return vsx_main(sc, 1);
}
