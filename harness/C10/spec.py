LEVEL = "exploration"
RULE = ("odometer enumeration (no randomness); every case is one program of aws_cbor_encoder_write_* calls that is encoded, read "
        "back by an independent RFC 8949 reader and decoded by the real decoder in 4 access styles.  (a) values: "
        "ints = {uint,negint,tag,array-start,map-start} x {b-1,b,b+1 for b in 0,23,24,255,256,65535,65536,2^32-1,2^32,2^64-1; "
        "2^k-1,2^k,2^k+1 for k<64} x {alone, between two items}; intsweep = the 5 kinds x every argument 0..70000 "
        "(thorough: also 2^32-35000..2^32+35000); doubles = ~540 boundary doubles (closed under negation and one nextafter step each way) "
        "x 3 contexts; dgrid = sign x all 2048 biased exponents x 106 mantissa patterns (quick 22); strings = {bytes,text} x every "
        "length 0..2100 (quick 0..600) and 13 lengths around 4096/65536/131072 x 4 buffer pre-fill states, popped and skipped; "
        "simple = bool/null/undefined/break/4 indefinite starts.  (b) programs: seq = every sequence of <= 5 (quick <= 4) calls from a "
        "22-call alphabet, also re-encoded after aws_cbor_encoder_reset; nest = every ordered tree with <= 6 nodes and "
        "depth <= 4 (quick: <= 5 nodes, depth <= 3), every labelling with 14 leaf kinds and array/indefinite array/map/indefinite map/tag containers, followed by a "
        "sentinel, skipped cold and after a peek.  non-trivial = ints/intsweep: argument >= 24 (multi-byte head); doubles/dgrid: the "
        "documented form (integer/single/double) differs from that of a nextafter neighbour, or inf/NaN; strings: length >= 24; "
        "seq: >= 2 calls; nest: root is a container or tag with children; fill = each of the 22 calls issued with exactly 0..14 (0..17) "
        "free bytes left before the encoder buffer's first (second) growth point, all non-trivial.  The thorough tier repeats the "
        "quick-tier space against the Debug build of the library (its own assertions live).")
HARNESSES = [
    dict(name="cbor_rt", src=["cbor_rt.c"], variant="asan", deadline={"quick": 120, "thorough": 900}),
    # the quick-tier space once more against the Debug build: the library's own AWS_ASSERT / AWS_PRECONDITION lines
    # (e.g. "lookahead cache is empty when a libcbor callback fires", "exactly one byte was encoded") are live
    dict(name="cbor_rt_dbg", src=["cbor_rt.c"], variant="asan-dbg", tiers=["thorough"], args={"thorough": ["--small"]},
         deadline={"thorough": 300}),
]
ASSUMPTIONS = [
    "bounds: programs of <= 5 encoder calls from 22 representative calls; nestings of <= 6 nodes, depth <= 4; strings <= 131072 bytes; "
    "doubles: boundary set plus an exponent x mantissa-pattern grid, not all 2^64 bit patterns",
    "reading of cbor.h write_float ('integer/negative/float, order with priority, when the conversion will not cause precision loss', "
    "never half): integer head iff the value is integral and inside the int64 range; else single precision iff the value is exactly "
    "a binary32 value (bit-level test, cross-checked against (double)(float)v==v); else double; infinities and NaN as single. "
    "Integral doubles in [2^63,2^64) or [-2^64,-2^63) fit a CBOR integer but not int64: the header does not state the range, so both the "
    "integer form and the single/double form are accepted there (counted as dbl_uint64_only_zone)",
    "numeric value: -0.0 is integral and is accepted as integer 0; any NaN decodes to any NaN",
    "element-wise round trip is demanded for every call sequence, well-formed or not (the decoder API is element-wise); well-formedness "
    "per RFC 8949 is demanded only of the nest programs, which are well-formed by construction",
    "a pop of the wrong type must fail and leave the item poppable (header: 'If the next element doesn't match the expected type. Error "
    "will be raised'); after the last item a further peek_type must not succeed",
]
