/*
 * C10 — CBOR encoder and decoder round-trip every item sequence (DESIGN §5 C10).
 *
 * Every case is ONE program = a sequence of aws_cbor_encoder_write_* calls.  run_program():
 *   1. encodes it with the real encoder (recording the encoded length after every call),
 *   2. reads the produced bytes with ref_head()/ref_skip() — an independent RFC 8949 reader written for this
 *      harness that shares no code with the library or with libcbor — and compares item kind, argument, head
 *      width (must be the shortest), payload, float form (integer / single / double, never half) and extent,
 *   3. decodes the bytes (copied into an exact-size heap block) with the real decoder in four access styles
 *      (peek+pop, pop without peek, wrong-typed pop first, consume_next_single_element) and compares type, value
 *      and aws_cbor_decoder_get_remaining_length after every item, 0 exactly at the end, no further item,
 *   4. optionally skips one whole data item with aws_cbor_decoder_consume_next_whole_data_item and requires to land
 *      exactly on the item the reference skipper lands on.
 * Integers written through write_float are compared as integers (128-bit, negative = -1-n), never through double.
 */
#include "bee.h"
#include <aws/common/byte_buf.h>
#include <aws/common/cbor.h>
#include <aws/common/common.h>
#include <aws/common/error.h>
#include <float.h>
#include <math.h>

typedef unsigned __int128 u128;
typedef __int128 i128;

static struct aws_allocator *A;
static int small_space; /* --small: quick-tier bounds whatever the tier (used for the Debug-assertions pass) */
static bool big(void) { return v_thorough() && !small_space; }

/* ------------------------------------------------------------------ written items ------------------------- */
enum wk { W_UINT, W_NEGINT, W_FLOAT, W_BYTES, W_TEXT, W_ARRAY, W_MAP, W_TAG, W_BOOL, W_NULL, W_UNDEF, W_BREAK,
          W_IBYTES, W_ITEXT, W_IARRAY, W_IMAP };
static const char *wk_name[] = {"uint", "negint", "float", "bytes", "text", "array", "map", "tag", "bool", "null",
                                "undef", "break", "ibytes", "itext", "iarray", "imap"};
struct witem {
    int k;
    uint64_t u; /* integer argument / count / tag / bool */
    double d;
    uint8_t *p; /* exact-size heap block (strings) */
    size_t len;
};
#define MAXP 40

static struct witem wi(int k, uint64_t u) {
    struct witem w = {k, u, 0.0, NULL, 0};
    return w;
}
static struct witem wf(double d) {
    struct witem w = {W_FLOAT, 0, d, NULL, 0};
    return w;
}
static struct witem ws(int k, size_t len, unsigned seed) {
    struct witem w = {k, 0, 0.0, NULL, len};
    uint8_t *tmp = (uint8_t *)malloc(len ? len : 1);
    for (size_t i = 0; i < len; ++i)
        tmp[i] = k == W_TEXT ? (uint8_t)(0x21 + (i * 7 + seed + len) % 94) : (uint8_t)(i * 131 + seed + len + (i >> 8));
    w.p = bee_block(tmp, len);
    free(tmp);
    return w;
}
static void free_items(struct witem *w, int n) {
    for (int i = 0; i < n; ++i) {
        free(w[i].p);
        w[i].p = NULL;
    }
}
static void w_write(struct aws_cbor_encoder *e, const struct witem *w) {
    switch (w->k) {
        case W_UINT: aws_cbor_encoder_write_uint(e, w->u); break;
        case W_NEGINT: aws_cbor_encoder_write_negint(e, w->u); break;
        case W_FLOAT: aws_cbor_encoder_write_float(e, w->d); break;
        case W_BYTES: aws_cbor_encoder_write_bytes(e, aws_byte_cursor_from_array(w->p, w->len)); break;
        case W_TEXT: aws_cbor_encoder_write_text(e, aws_byte_cursor_from_array(w->p, w->len)); break;
        case W_ARRAY: aws_cbor_encoder_write_array_start(e, (size_t)w->u); break;
        case W_MAP: aws_cbor_encoder_write_map_start(e, (size_t)w->u); break;
        case W_TAG: aws_cbor_encoder_write_tag(e, w->u); break;
        case W_BOOL: aws_cbor_encoder_write_bool(e, w->u != 0); break;
        case W_NULL: aws_cbor_encoder_write_null(e); break;
        case W_UNDEF: aws_cbor_encoder_write_undefined(e); break;
        case W_BREAK: aws_cbor_encoder_write_break(e); break;
        case W_IBYTES: aws_cbor_encoder_write_indef_bytes_start(e); break;
        case W_ITEXT: aws_cbor_encoder_write_indef_text_start(e); break;
        case W_IARRAY: aws_cbor_encoder_write_indef_array_start(e); break;
        case W_IMAP: aws_cbor_encoder_write_indef_map_start(e); break;
    }
}
static const char *describe(const struct witem *w, int n) {
    static char b[1200];
    size_t o = 0;
    b[0] = 0;
    for (int i = 0; i < n && o + 90 < sizeof(b); ++i) {
        o += (size_t)snprintf(b + o, sizeof(b) - o, "%s%s", i ? " " : "", wk_name[w[i].k]);
        switch (w[i].k) {
            case W_UINT: case W_NEGINT: case W_ARRAY: case W_MAP: case W_TAG: case W_BOOL:
                o += (size_t)snprintf(b + o, sizeof(b) - o, "(%" PRIu64 ")", w[i].u);
                break;
            case W_FLOAT: o += (size_t)snprintf(b + o, sizeof(b) - o, "(%.17g=%a)", w[i].d, w[i].d); break;
            case W_BYTES: case W_TEXT: o += (size_t)snprintf(b + o, sizeof(b) - o, "(len %zu)", w[i].len); break;
            default: break;
        }
    }
    return b;
}
static const char *hexhead(const uint8_t *E, size_t n) {
    static char b[2][200];
    static int k;
    char *o = b[k ^= 1];
    v_hex(o, 160, E, n > 70 ? 70 : n);
    if (n > 70) strcat(o, "...");
    return o;
}

/* ------------------------------------------------------------------ independent RFC 8949 reader ----------- */
struct ritem {
    unsigned major, ai;
    uint64_t arg;
    size_t head;  /* bytes of initial byte + argument */
    int indef;    /* majors 2..5 with additional information 31 */
    int brk;      /* 0xff */
    int fwidth;   /* 2 / 4 / 8 for major 7 floats, else 0 */
    double f;
};
/* IEEE 754 interchange format -> value, from the bit fields (RFC 8949 §3.3; Appendix D for binary16) */
static double ref_ieee(uint64_t bits, int ebits, int mbits) {
    int sign = (int)((bits >> (ebits + mbits)) & 1);
    int e = (int)((bits >> mbits) & ((1u << ebits) - 1));
    uint64_t m = bits & ((1ull << mbits) - 1);
    int bias = (1 << (ebits - 1)) - 1;
    double v;
    if (e == (1 << ebits) - 1) v = m ? (double)NAN : (double)INFINITY;
    else if (e == 0) v = ldexp((double)m, 1 - bias - mbits);
    else v = ldexp((double)(m | (1ull << mbits)), e - bias - mbits);
    return sign ? -v : v;
}
/* one head at offset off; 0 = ok, -1 = truncated or not well-formed */
static int ref_head(const uint8_t *b, size_t n, size_t off, struct ritem *r) {
    memset(r, 0, sizeof(*r));
    if (off >= n) return -1;
    r->major = b[off] >> 5;
    r->ai = b[off] & 31;
    r->head = 1;
    if (r->ai < 24) r->arg = r->ai;
    else if (r->ai <= 27) {
        size_t nb = (size_t)1 << (r->ai - 24);
        if (n - off - 1 < nb) return -1;
        for (size_t i = 0; i < nb; ++i) r->arg = (r->arg << 8) | b[off + 1 + i];
        r->head = 1 + nb;
    } else if (r->ai < 31) return -1; /* 28..30 reserved */
    else {
        if (r->major >= 2 && r->major <= 5) r->indef = 1;
        else if (r->major == 7) r->brk = 1;
        else return -1;
    }
    if (r->major == 7 && !r->brk) {
        if (r->ai == 24 && r->arg < 32) return -1; /* two-byte simple value below 32 */
        if (r->ai == 25) r->fwidth = 2, r->f = ref_ieee(r->arg, 5, 10);
        if (r->ai == 26) r->fwidth = 4, r->f = ref_ieee(r->arg, 8, 23);
        if (r->ai == 27) r->fwidth = 8, r->f = ref_ieee(r->arg, 11, 52);
    }
    return 0;
}
/* end offset of the well-formed data item starting at off, or -1 */
static long ref_skip(const uint8_t *b, size_t n, size_t off, int depth) {
    struct ritem r, c;
    if (depth > 32 || ref_head(b, n, off, &r) || r.brk) return -1;
    size_t p = off + r.head;
    switch (r.major) {
        case 2: case 3:
            if (!r.indef) return r.arg > n - p ? -1 : (long)(p + r.arg);
            for (;;) { /* chunks: definite strings of the same major type */
                if (ref_head(b, n, p, &c)) return -1;
                if (c.brk) return (long)(p + 1);
                if (c.major != r.major || c.indef || c.arg > n - p - c.head) return -1;
                p += c.head + (size_t)c.arg;
            }
        case 4: case 5:
            if (!r.indef) {
                if (r.arg > n) return -1;
                for (uint64_t i = 0, cnt = r.arg * (r.major == 5 ? 2 : 1); i < cnt; ++i) {
                    long q = ref_skip(b, n, p, depth + 1);
                    if (q < 0) return -1;
                    p = (size_t)q;
                }
                return (long)p;
            }
            for (unsigned k = 0;; ++k) {
                if (ref_head(b, n, p, &c)) return -1;
                if (c.brk) return (r.major == 5 && (k & 1)) ? -1 : (long)(p + 1);
                long q = ref_skip(b, n, p, depth + 1);
                if (q < 0) return -1;
                p = (size_t)q;
            }
        case 6: return ref_skip(b, n, p, depth + 1);
        default: return (long)p; /* 0, 1, 7 */
    }
}
static size_t shortest_head(uint64_t a) { return a < 24 ? 1 : a <= 0xff ? 2 : a <= 0xffff ? 3 : a <= 0xffffffffu ? 5 : 9; }

/* ------------------------------------------------------------------ double narrowing oracle (bit level) --- */
enum regime { R_INT, R_SINGLE, R_DOUBLE };
struct dblx {
    enum regime r;   /* documented form */
    int alt_int;     /* integral, outside int64 but inside the CBOR integer range: header silent, integer form also accepted */
    i128 iv;         /* exact integer value when integral and |v| <= 2^64 */
    int integral;
};
static uint64_t dbits(double v) {
    uint64_t u;
    memcpy(&u, &v, 8);
    return u;
}
static int fits_binary32(double v) { /* finite v exactly representable as IEEE binary32 (normal or subnormal) */
    uint64_t u = dbits(v), m = u & ((1ull << 52) - 1);
    int be = (int)((u >> 52) & 0x7ff);
    if (be == 0) return m == 0;
    int E = be - 1023;
    if (E > 127) return 0;
    if (E >= -126) return (m & ((1ull << 29) - 1)) == 0;
    if (E >= -149) return ((m | (1ull << 52)) & ((1ull << (-97 - E)) - 1)) == 0;
    return 0;
}
static struct dblx dbl_expect(double v) {
    struct dblx x = {R_DOUBLE, 0, 0, 0};
    uint64_t u = dbits(v), m = u & ((1ull << 52) - 1);
    int be = (int)((u >> 52) & 0x7ff), neg = (int)(u >> 63);
    if (be == 0x7ff) { /* inf / NaN: single precision holds both; half is excluded by the header */
        x.r = R_SINGLE;
        return x;
    }
    int E = be - 1023;
    if (be == 0) x.integral = (m == 0);
    else if (E < 0) x.integral = 0;
    else if (E >= 52) x.integral = 1;
    else x.integral = (m & ((1ull << (52 - E)) - 1)) == 0;
    if (x.integral && (be == 0 || E <= 64)) {
        u128 mag = 0;
        if (be) mag = E >= 52 ? (u128)(m | (1ull << 52)) << (E - 52) : (u128)((m | (1ull << 52)) >> (52 - E));
        x.iv = neg ? -(i128)mag : (i128)mag;
        i128 lo64 = -((i128)1 << 63), hi64 = ((i128)1 << 63) - 1;
        if (x.iv >= lo64 && x.iv <= hi64) {
            x.r = R_INT;
            return x;
        }
        if (x.iv >= -((i128)1 << 64) && x.iv <= ((i128)1 << 64) - 1) x.alt_int = 1;
    }
    x.r = fits_binary32(v) ? R_SINGLE : R_DOUBLE;
    /* self-check of the bit-level rule against the C conversion the property text quotes */
    int cast_fits = (double)(float)v == v;
    if (cast_fits != (x.r == R_SINGLE)) bee_fail("oracle-self", "fits_binary32(%a)=%d but (double)(float)v==v is %d", v, x.r == R_SINGLE, cast_fits);
    return x;
}
static int same_double(double a, double b) { return (isnan(a) && isnan(b)) || a == b; }

/* ------------------------------------------------------------------ expected items ------------------------ */
struct xitem {
    enum aws_cbor_type t;
    int form;        /* 0 = head with argument (majors 0..6), 4 = single, 8 = double, 1 = one fixed byte */
    unsigned major;
    uint64_t arg;
    uint8_t ib;      /* form 1 */
    double f;        /* form 4/8 */
    int is_str;
};
static struct xitem x_of(const struct witem *w, const uint8_t *E, size_t n, size_t off) {
    struct xitem x;
    memset(&x, 0, sizeof(x));
    switch (w->k) {
        case W_UINT: x.t = AWS_CBOR_TYPE_UINT, x.major = 0, x.arg = w->u; break;
        case W_NEGINT: x.t = AWS_CBOR_TYPE_NEGINT, x.major = 1, x.arg = w->u; break;
        case W_BYTES: x.t = AWS_CBOR_TYPE_BYTES, x.major = 2, x.arg = w->len, x.is_str = 1; break;
        case W_TEXT: x.t = AWS_CBOR_TYPE_TEXT, x.major = 3, x.arg = w->len, x.is_str = 1; break;
        case W_ARRAY: x.t = AWS_CBOR_TYPE_ARRAY_START, x.major = 4, x.arg = w->u; break;
        case W_MAP: x.t = AWS_CBOR_TYPE_MAP_START, x.major = 5, x.arg = w->u; break;
        case W_TAG: x.t = AWS_CBOR_TYPE_TAG, x.major = 6, x.arg = w->u; break;
        case W_BOOL: x.t = AWS_CBOR_TYPE_BOOL, x.form = 1, x.ib = w->u ? 0xf5 : 0xf4, x.arg = w->u != 0; break;
        case W_NULL: x.t = AWS_CBOR_TYPE_NULL, x.form = 1, x.ib = 0xf6; break;
        case W_UNDEF: x.t = AWS_CBOR_TYPE_UNDEFINED, x.form = 1, x.ib = 0xf7; break;
        case W_BREAK: x.t = AWS_CBOR_TYPE_BREAK, x.form = 1, x.ib = 0xff; break;
        case W_IBYTES: x.t = AWS_CBOR_TYPE_INDEF_BYTES_START, x.form = 1, x.ib = 0x5f; break;
        case W_ITEXT: x.t = AWS_CBOR_TYPE_INDEF_TEXT_START, x.form = 1, x.ib = 0x7f; break;
        case W_IARRAY: x.t = AWS_CBOR_TYPE_INDEF_ARRAY_START, x.form = 1, x.ib = 0x9f; break;
        case W_IMAP: x.t = AWS_CBOR_TYPE_INDEF_MAP_START, x.form = 1, x.ib = 0xbf; break;
        case W_FLOAT: {
            struct dblx d = dbl_expect(w->d);
            int as_int = d.r == R_INT;
            if (d.alt_int) {
                V_COUNT("dbl_uint64_only_zone", 1);
                if (off < n && (E[off] >> 5) <= 1) {
                    as_int = 1;
                    V_COUNT("dbl_uint64_only_zone_as_int", 1);
                }
            }
            if (as_int) {
                x.t = d.iv < 0 ? AWS_CBOR_TYPE_NEGINT : AWS_CBOR_TYPE_UINT;
                x.major = d.iv < 0 ? 1 : 0;
                x.arg = d.iv < 0 ? (uint64_t)(-1 - d.iv) : (uint64_t)d.iv;
                V_COUNT("dbl_as_int", 1);
            } else {
                x.t = AWS_CBOR_TYPE_FLOAT, x.form = d.r == R_SINGLE ? 4 : 8, x.f = w->d;
                if (d.r == R_SINGLE) V_COUNT("dbl_as_single", 1);
                else V_COUNT("dbl_as_double", 1);
            }
            break;
        }
    }
    return x;
}

/* ------------------------------------------------------------------ reference read of one item ------------ */
#define FAILR(clause, ...)                                                                                       \
    do {                                                                                                         \
        bee_fail(clause, __VA_ARGS__);                                                                           \
        return 0;                                                                                                \
    } while (0)
static const char *form_name(int form, unsigned major) {
    return form == 4 ? "single" : form == 8 ? "double" : form == 1 ? "one-byte" : major == 0 ? "uint" : major == 1 ? "negint" : "head";
}
/* returns 1 if the bytes [off,end) are exactly the expected item */
static int ref_check_item(const struct witem *w, const struct xitem *x, const uint8_t *E, size_t n, size_t off,
                          size_t end, int i, const char *prog) {
    struct ritem r;
    if (end > n || off >= end) FAILR("enc-extent", "item %d of [%s]: encoded length went %zu -> %zu of %zu", i, prog, off, end, n);
    if (ref_head(E, end, off, &r))
        FAILR("ref-malformed", "item %d of [%s]: bytes %s at offset %zu are not a well-formed CBOR head", i, prog, hexhead(E + off, end - off), off);
    size_t len = r.head;
    if (w->k == W_FLOAT) {
        if (r.fwidth == 2) FAILR("float-half", "write_float(%a) produced a half-precision float %s", w->d, hexhead(E + off, end - off));
        int got_form = r.major == 7 ? r.fwidth : 0;
        if (got_form != x->form || (x->form == 0 && r.major != x->major))
            FAILR("float-form", "write_float(%.17g = %a) stored as %s (%s); documented smallest lossless form is %s", w->d, w->d,
                  form_name(got_form, r.major), hexhead(E + off, end - off), form_name(x->form, x->major));
        if (x->form == 0) {
            i128 got = r.major == 0 ? (i128)r.arg : -1 - (i128)r.arg;
            i128 want = x->major == 0 ? (i128)x->arg : -1 - (i128)x->arg;
            if (got != want)
                FAILR("float-int-value", "write_float(%.17g) stored as %s argument %" PRIu64 ", expected %s argument %" PRIu64, w->d,
                      form_name(0, r.major), r.arg, form_name(0, x->major), x->arg);
        } else if (!same_double(r.f, w->d))
            FAILR("float-value", "write_float(%.17g = %a) stored as %s reads back as %.17g = %a", w->d, w->d, hexhead(E + off, end - off), r.f, r.f);
    } else if (x->form == 1) {
        if (E[off] != x->ib) FAILR("ref-simple", "item %d (%s) of [%s] encoded as 0x%02x, expected 0x%02x", i, wk_name[w->k], prog, E[off], x->ib);
    } else {
        if (r.major != x->major || r.indef || r.brk)
            FAILR("ref-type", "item %d (%s) of [%s] encoded with major type %u%s, expected %u: %s", i, wk_name[w->k], prog, r.major, r.indef ? " indefinite" : "", x->major, hexhead(E + off, end - off));
        if (r.arg != x->arg)
            FAILR("ref-value", "item %d of [%s]: %s argument %" PRIu64 " encoded as %s = argument %" PRIu64, i, prog, wk_name[w->k], x->arg, hexhead(E + off, r.head), r.arg);
    }
    if (x->form == 0 && r.head != shortest_head(r.arg))
        FAILR("shortest-head", "item %d of [%s]: argument %" PRIu64 " encoded with a %zu-byte head %s, shortest is %zu", i, prog, r.arg, r.head, hexhead(E + off, r.head), shortest_head(r.arg));
    if (x->is_str) {
        if (r.arg > end - off - r.head) FAILR("ref-payload", "item %d of [%s]: string of length %" PRIu64 " but only %zu payload bytes were written", i, prog, r.arg, end - off - r.head);
        if (w->len && memcmp(E + off + r.head, w->p, w->len)) FAILR("ref-payload", "item %d of [%s]: string payload differs from the source bytes", i, prog);
        len += w->len;
    }
    if (off + len != end) FAILR("enc-extent", "item %d (%s) of [%s] is %zu bytes long but the encoder appended %zu", i, wk_name[w->k], prog, len, end - off);
    return 1;
}

/* ------------------------------------------------------------------ decoding with the real decoder -------- */
enum { M_PEEK_POP = 0, M_POP = 1, M_WRONG_FIRST = 2, M_SINGLE = 3 };
static const char *mode_name[] = {"peek+pop", "pop", "two-wrong-typed-pops-then-pop", "consume_single"};

/* pops item x (style mode); returns 1 ok */
static int dec_item(struct aws_cbor_decoder *d, const struct witem *w, const struct xitem *x, int mode, int i, const char *prog) {
    enum aws_cbor_type t = AWS_CBOR_TYPE_UNKNOWN;
    if (mode == M_PEEK_POP || mode == M_SINGLE) {
        size_t r0;
        if (aws_cbor_decoder_peek_type(d, &t) != AWS_OP_SUCCESS) FAILR("dec-peek-fails", "[%s] item %d: peek_type failed, error %s", prog, i, aws_error_name(aws_last_error()));
        if (t != x->t) FAILR("dec-type", "[%s] item %d: decoder reports %s, written as %s", prog, i, aws_cbor_type_cstr(t), aws_cbor_type_cstr(x->t));
        r0 = aws_cbor_decoder_get_remaining_length(d);
        enum aws_cbor_type t2 = AWS_CBOR_TYPE_UNKNOWN;
        if (aws_cbor_decoder_peek_type(d, &t2) != AWS_OP_SUCCESS || t2 != t || aws_cbor_decoder_get_remaining_length(d) != r0)
            FAILR("dec-peek-not-idempotent", "[%s] item %d: second peek_type gave %s / remaining %zu after %s / %zu", prog, i, aws_cbor_type_cstr(t2), aws_cbor_decoder_get_remaining_length(d), aws_cbor_type_cstr(t), r0);
    }
    if (mode == M_WRONG_FIRST) {
        int rc;
        uint64_t dummy_u = 0;
        double dummy_d = 0;
        if (x->t == AWS_CBOR_TYPE_INDEF_ARRAY_START) rc = aws_cbor_decoder_pop_next_array_start(d, &dummy_u);
        else if (x->t == AWS_CBOR_TYPE_INDEF_MAP_START) rc = aws_cbor_decoder_pop_next_map_start(d, &dummy_u);
        else if (x->t == AWS_CBOR_TYPE_FLOAT) rc = aws_cbor_decoder_pop_next_unsigned_int_val(d, &dummy_u);
        else rc = aws_cbor_decoder_pop_next_float_val(d, &dummy_d);
        if (rc == AWS_OP_SUCCESS) FAILR("dec-wrong-type-accepted", "[%s] item %d (%s): a pop for a different type succeeded", prog, i, aws_cbor_type_cstr(x->t));
        if ((x->t == AWS_CBOR_TYPE_INDEF_ARRAY_START || x->t == AWS_CBOR_TYPE_INDEF_MAP_START) && aws_last_error() != AWS_ERROR_CBOR_UNEXPECTED_TYPE)
            FAILR("dec-indef-start-error", "[%s] item %d: definite-start pop on %s raised %s, documented AWS_ERROR_CBOR_UNEXPECTED_TYPE", prog, i, aws_cbor_type_cstr(x->t), aws_error_name(aws_last_error()));
        /* a second refused pop, of yet another type, while the element is cached by the first one: still nothing consumed
         * (added after a seeded change that decoded the NEXT element over the cached one in exactly this situation) */
        size_t r1 = aws_cbor_decoder_get_remaining_length(d);
        bool dummy_b = false;
        struct aws_byte_cursor dummy_c;
        if (x->t == AWS_CBOR_TYPE_BOOL) rc = aws_cbor_decoder_pop_next_text_val(d, &dummy_c);
        else rc = aws_cbor_decoder_pop_next_boolean_val(d, &dummy_b);
        if (rc == AWS_OP_SUCCESS) FAILR("dec-wrong-type-accepted", "[%s] item %d (%s): a second pop for a different type succeeded", prog, i, aws_cbor_type_cstr(x->t));
        if (aws_cbor_decoder_get_remaining_length(d) != r1)
            FAILR("dec-refused-pop-consumed", "[%s] item %d (%s): a refused pop moved the decoder from %zu to %zu remaining bytes", prog, i, aws_cbor_type_cstr(x->t), r1, aws_cbor_decoder_get_remaining_length(d));
    }
    int rc = AWS_OP_SUCCESS;
    uint64_t u = 0;
    if (mode == M_SINGLE) {
        rc = aws_cbor_decoder_consume_next_single_element(d);
        if (rc) FAILR("dec-pop-fails", "[%s] item %d: consume_next_single_element failed: %s", prog, i, aws_error_name(aws_last_error()));
        return 1;
    }
    switch (x->t) {
        case AWS_CBOR_TYPE_UINT: rc = aws_cbor_decoder_pop_next_unsigned_int_val(d, &u); break;
        case AWS_CBOR_TYPE_NEGINT: rc = aws_cbor_decoder_pop_next_negative_int_val(d, &u); break;
        case AWS_CBOR_TYPE_ARRAY_START: rc = aws_cbor_decoder_pop_next_array_start(d, &u); break;
        case AWS_CBOR_TYPE_MAP_START: rc = aws_cbor_decoder_pop_next_map_start(d, &u); break;
        case AWS_CBOR_TYPE_TAG: rc = aws_cbor_decoder_pop_next_tag_val(d, &u); break;
        case AWS_CBOR_TYPE_BOOL: {
            bool b = false;
            rc = aws_cbor_decoder_pop_next_boolean_val(d, &b);
            u = b;
            break;
        }
        case AWS_CBOR_TYPE_FLOAT: {
            double f = 0;
            rc = aws_cbor_decoder_pop_next_float_val(d, &f);
            if (!rc && !same_double(f, x->f)) FAILR("dec-float-value", "[%s] item %d: wrote %.17g = %a, decoded %.17g = %a", prog, i, x->f, x->f, f, f);
            break;
        }
        case AWS_CBOR_TYPE_BYTES:
        case AWS_CBOR_TYPE_TEXT: {
            struct aws_byte_cursor c = {0, NULL};
            rc = x->t == AWS_CBOR_TYPE_BYTES ? aws_cbor_decoder_pop_next_bytes_val(d, &c) : aws_cbor_decoder_pop_next_text_val(d, &c);
            if (!rc && (c.len != w->len || (c.len && memcmp(c.ptr, w->p, c.len))))
                FAILR("dec-string-value", "[%s] item %d: wrote %zu bytes, decoded %zu bytes%s", prog, i, w->len, c.len, c.len == w->len ? " with different content" : "");
            break;
        }
        default: rc = aws_cbor_decoder_consume_next_single_element(d); break;
    }
    if (rc) FAILR("dec-pop-fails", "[%s] item %d (%s): typed pop failed: %s", prog, i, aws_cbor_type_cstr(x->t), aws_error_name(aws_last_error()));
    if (x->form == 0 && !x->is_str && u != x->arg) {
        /* as integers: uint = n, negint = -1-n */
        FAILR("dec-int-value", "[%s] item %d: wrote %s argument %" PRIu64 " (value %s%" PRIu64 "%s), decoded argument %" PRIu64, prog, i, aws_cbor_type_cstr(x->t), x->arg,
              x->major == 1 ? "-1-" : "", x->arg, "", u);
    }
    if (x->t == AWS_CBOR_TYPE_BOOL && u != x->arg) FAILR("dec-bool-value", "[%s] item %d: wrote %s decoded %s", prog, i, x->arg ? "true" : "false", u ? "true" : "false");
    return 1;
}

/* decode all items; items [skip_from, skip_to) are skipped by ONE consume_next_whole_data_item */
static int decode_all(const uint8_t *E, size_t n, const struct witem *w, const struct xitem *x, const size_t *end, int cnt,
                      int mode, int skip_from, int skip_to, int skip_peek, const char *prog) {
    struct aws_cbor_decoder *d = aws_cbor_decoder_new(A, aws_byte_cursor_from_array(E, n));
    int ok = 1;
    if (aws_cbor_decoder_get_remaining_length(d) != n) {
        bee_fail("dec-remaining", "[%s] fresh decoder over %zu bytes reports remaining %zu", prog, n, aws_cbor_decoder_get_remaining_length(d));
        ok = 0;
    }
    for (int i = 0; ok && i < cnt;) {
        if (i == skip_from) {
            enum aws_cbor_type t;
            if (skip_peek && (aws_cbor_decoder_peek_type(d, &t) || t != x[i].t)) {
                bee_fail("skip-peek", "[%s] peek before skip of item %d failed or gave %s", prog, i, aws_cbor_type_cstr(t));
                ok = 0;
                break;
            }
            if (aws_cbor_decoder_consume_next_whole_data_item(d)) {
                bee_fail("skip-fails", "[%s] consume_next_whole_data_item(%s) at item %d failed: %s; bytes %s", prog, skip_peek ? "after peek" : "cold", i, aws_error_name(aws_last_error()), hexhead(E, n));
                ok = 0;
                break;
            }
            size_t want = n - end[skip_to - 1], got = aws_cbor_decoder_get_remaining_length(d);
            if (got != want) {
                bee_fail("skip-extent", "[%s] consume_next_whole_data_item(%s) at item %d: %zu bytes remain, the data item ends with %zu remaining; bytes %s", prog, skip_peek ? "after peek" : "cold", i, got, want, hexhead(E, n));
                ok = 0;
                break;
            }
            i = skip_to;
            continue;
        }
        if (!dec_item(d, &w[i], &x[i], mode, i, prog)) {
            ok = 0;
            break;
        }
        size_t got = aws_cbor_decoder_get_remaining_length(d);
        if (got != n - end[i]) {
            bee_fail("dec-remaining", "[%s] after item %d (%s, %s): remaining_length %zu, expected %zu of %zu; bytes %s", prog, i, aws_cbor_type_cstr(x[i].t), mode_name[mode], got, n - end[i], n, hexhead(E, n));
            ok = 0;
            break;
        }
        ++i;
    }
    if (ok) {
        if (aws_cbor_decoder_get_remaining_length(d) != 0) {
            bee_fail("dec-remaining-end", "[%s] all items decoded but %zu bytes remain", prog, aws_cbor_decoder_get_remaining_length(d));
            ok = 0;
        }
        enum aws_cbor_type t = AWS_CBOR_TYPE_UNKNOWN;
        if (aws_cbor_decoder_peek_type(d, &t) == AWS_OP_SUCCESS) {
            bee_fail("dec-extra-item", "[%s] decoder yields a further item (%s) after the last written one", prog, aws_cbor_type_cstr(t));
            ok = 0;
        }
    }
    aws_cbor_decoder_destroy(d);
    return ok;
}

/* ------------------------------------------------------------------ one program --------------------------- */
#define RP_RESET 1u
static int run_program(const struct witem *w, int cnt, unsigned modes, int skip_from, int skip_to, unsigned flags) {
    size_t end[MAXP];
    struct xitem x[MAXP];
    const char *prog = describe(w, cnt);
    struct aws_cbor_encoder *enc = aws_cbor_encoder_new(A);
    int ok = 1;
    if (aws_cbor_encoder_get_encoded_data(enc).len != 0) bee_fail("enc-fresh-nonempty", "new encoder holds %zu bytes", aws_cbor_encoder_get_encoded_data(enc).len), ok = 0;
    for (int i = 0; i < cnt; ++i) {
        w_write(enc, &w[i]);
        end[i] = aws_cbor_encoder_get_encoded_data(enc).len;
    }
    struct aws_byte_cursor c = aws_cbor_encoder_get_encoded_data(enc);
    size_t n = c.len;
    uint8_t *E = bee_block(c.ptr, n);
    if (n > 256) V_COUNT("enc_buffer_grew", 1);
    if (flags & RP_RESET) {
        aws_cbor_encoder_reset(enc);
        if (aws_cbor_encoder_get_encoded_data(enc).len != 0) bee_fail("enc-reset", "[%s] %zu bytes after aws_cbor_encoder_reset", prog, aws_cbor_encoder_get_encoded_data(enc).len), ok = 0;
        for (int i = 0; i < cnt; ++i) w_write(enc, &w[i]);
        c = aws_cbor_encoder_get_encoded_data(enc);
        if (c.len != n || (n && memcmp(c.ptr, E, n))) bee_fail("enc-reset", "[%s] re-encoding after reset gives different bytes (%zu vs %zu)", prog, c.len, n), ok = 0;
    }
    aws_cbor_encoder_destroy(enc);

    /* independent reader, item by item, at the extents the encoder reported */
    for (int i = 0; i < cnt; ++i) {
        size_t off = i ? end[i - 1] : 0;
        x[i] = x_of(&w[i], E, n, off);
        if (!ref_check_item(&w[i], &x[i], E, n, off, end[i], i, prog)) ok = 0;
    }
    if (cnt && ok && end[cnt - 1] != n) bee_fail("enc-extent", "[%s] total %zu != last extent %zu", prog, n, end[cnt - 1]), ok = 0;
    if (ok && skip_from >= 0) {
        long q = ref_skip(E, n, skip_from ? end[skip_from - 1] : 0, 0);
        if (q < 0 || (size_t)q != end[skip_to - 1]) {
            bee_fail("ref-wellformed", "[%s] reference skipper: data item at item %d ends at %ld, generator says %zu; bytes %s", prog, skip_from, q, end[skip_to - 1], hexhead(E, n));
            ok = 0;
        }
    }
    if (ok) { /* a mis-encoded stream is not decoded: one defect, one signature */
        for (int m = 0; m < 4; ++m)
            if (modes & (1u << m)) ok &= decode_all(E, n, w, x, end, cnt, m, -1, -1, 0, prog);
        if (skip_from >= 0) {
            ok &= decode_all(E, n, w, x, end, cnt, M_PEEK_POP, skip_from, skip_to, 0, prog);
            ok &= decode_all(E, n, w, x, end, cnt, M_POP, skip_from, skip_to, 1, prog);
        }
    }
    free(E);
    return ok;
}
#define ALL_MODES 0xfu

/* ------------------------------------------------------------------ value tables -------------------------- */
static uint64_t ivals[260];
static int n_ivals;
static void add_ival(uint64_t v) {
    for (int i = 0; i < n_ivals; ++i)
        if (ivals[i] == v) return;
    ivals[n_ivals++] = v;
}
static double dvals[700];
static int n_dvals;
static void add_dval1(double v) {
    for (int i = 0; i < n_dvals; ++i)
        if (dbits(dvals[i]) == dbits(v)) return;
    if (n_dvals < 700) dvals[n_dvals++] = v;
}
static void add_dval(double s) { /* seed, both neighbours, and the negations of all three */
    double t[3] = {s, nextafter(s, INFINITY), nextafter(s, -INFINITY)};
    for (int i = 0; i < 3; ++i) add_dval1(t[i]), add_dval1(-t[i]);
}
static void build_tables(void) {
    static const uint64_t b[] = {0, 23, 24, 255, 256, 65535, 65536, 0xffffffffull, 0x100000000ull, UINT64_MAX};
    for (size_t i = 0; i < sizeof(b) / sizeof(b[0]); ++i) {
        if (b[i] != 0) add_ival(b[i] - 1);
        add_ival(b[i]);
        if (b[i] != UINT64_MAX) add_ival(b[i] + 1);
    }
    for (int k = 1; k < 64; ++k) add_ival((1ull << k) - 1), add_ival(1ull << k), add_ival((1ull << k) + 1);
    add_ival(UINT64_MAX - 1);

    const double p24 = 16777216.0, p53 = 9007199254740992.0, p63 = 9223372036854775808.0, p64 = 18446744073709551616.0;
    const double fltmax = (double)FLT_MAX, fltmin = (double)FLT_MIN, flttrue = ldexp(1.0, -149);
    double seeds[] = {
        0.0, ldexp(1.0, -1074), DBL_MIN - ldexp(1.0, -1074), DBL_MIN, DBL_MAX, 1e308,
        /* single-precision range */
        flttrue, flttrue / 2, flttrue * 1.5, flttrue * 2, flttrue * 3, fltmin - flttrue, fltmin, fltmin * 1.5, fltmin / 2,
        ldexp(1.0, -127), ldexp(1.0, -140) + ldexp(1.0, -149), ldexp(1.0, -140) + ldexp(1.0, -150),
        fltmax, fltmax + ldexp(1.0, 102), fltmax + ldexp(1.0, 103), ldexp(1.0, 127), ldexp(1.0, 128), ldexp(1.0, 129), 1e38, 3.4e38, 3.5e38, 1e39,
        1e-37, 1e-38, 1e-39, 1e-44, 1e-45, 1e-46,
        /* integers around head widths, written as doubles */
        1.0, 2.0, 3.0, 10.0, 22.0, 23.0, 24.0, 25.0, 255.0, 256.0, 65535.0, 65536.0, 4294967295.0, 4294967296.0, 4294967297.0,
        23.5, 255.5, 65535.5, 4294967295.5, 0.5, 1.5, 2.5, 0.1, 0.2, 1.0 / 3.0, 3.141592653589793, (double)0.1f, (double)3.1415927f, 1e10, 1e15, 1e16, 1e19, 1e20, 1e22,
        /* precision limits */
        p24 - 1, p24, p24 + 1, p24 + 2, p24 + 0.5, ldexp(1.0, 31), ldexp(1.0, 32) - 0.5, ldexp(1.0, 52), ldexp(1.0, 52) + 0.5, p53 - 1, p53, p53 + 2, p53 + 4,
        /* int64 / uint64 limits */
        ldexp(1.0, 62), p63 - 1024, p63, p63 + 2048, p63 + ldexp(1.0, 40), p63 * 1.5, p64 - 2048, p64, p64 + 4096, ldexp(1.0, 65), ldexp(1.0, 63) + ldexp(1.0, 62),
        9223372036854774784.0, 9223371487098961920.0 /* 2^63-2^39: largest float below 2^63 */, 18446742974197923840.0 /* 2^64-2^40 */,
        /* half-precision representable values: must still be stored as single */
        65504.0 + 0.5, 1.0009765625, ldexp(1.0, -14), ldexp(1.0, -24), 0.333251953125, 5.5,
        (double)INFINITY,
    };
    for (size_t i = 0; i < sizeof(seeds) / sizeof(seeds[0]); ++i) add_dval(seeds[i]);
    add_dval1((double)NAN);
    add_dval1(-(double)NAN);
    double snan;
    uint64_t sb = 0x7ff0000000000001ull; /* NaN with a payload single precision cannot hold */
    memcpy(&snan, &sb, 8);
    add_dval1(snan);
}

/* regime class used for the non-trivial rule: a double whose documented form differs from that of a neighbour */
static int regime_class(double v) {
    if (isnan(v)) return 3;
    struct dblx d = dbl_expect(v);
    return d.alt_int ? 4 + (int)d.r : (int)d.r;
}
static int dbl_on_boundary(double v) {
    if (isnan(v) || isinf(v)) return 1;
    int c = regime_class(v);
    return c != regime_class(nextafter(v, INFINITY)) || c != regime_class(nextafter(v, -INFINITY));
}

/* ------------------------------------------------------------------ section: ints ------------------------- */
static const int int_kinds[5] = {W_UINT, W_NEGINT, W_TAG, W_ARRAY, W_MAP};
static uint64_t ints_total(void) { return (uint64_t)n_ivals * 5 * 2; }
static void ints_eval(uint64_t idx, void *ctx) {
    (void)ctx;
    BEE_ITEM(idx);
    uint64_t i = idx;
    unsigned c = bee_digit(&i, 2), k = bee_digit(&i, 5);
    uint64_t v = ivals[i];
    struct witem w[3];
    int n = 0;
    if (c) w[n++] = wi(W_UINT, 1000);
    w[n++] = wi(int_kinds[k], v);
    if (c) w[n++] = ws(W_TEXT, 2, 0);
    run_program(w, n, ALL_MODES, -1, -1, 0);
    free_items(w, n);
    V_COUNT("evaluations", 1);
    if (v >= 24) V_COUNT("nontrivial", 1);
    if (idx == 47) v_sample("ints:47 = %s", describe(w, n));
}
/* every argument in a dense range around the 1/2/3/5-byte head boundaries */
/* thorough adds the same width of range around 2^32 (5-byte / 9-byte head) */
static uint64_t sweep_n(void) { return big() ? 2 * 70001 : 70001; }
static uint64_t sweep_val(uint64_t j) { return j <= 70000 ? j : 0xffffffffull - 35000 + (j - 70001); }
static uint64_t sweep_total(void) { return sweep_n() * 5; }
static void sweep_eval(uint64_t idx, void *ctx) {
    (void)ctx;
    BEE_ITEM(idx);
    uint64_t i = idx;
    unsigned k = bee_digit(&i, 5);
    uint64_t v = sweep_val(i);
    struct witem w[2] = {wi(int_kinds[k], v), wi(W_NULL, 0)};
    run_program(w, 2, 1u << M_PEEK_POP | 1u << M_POP, -1, -1, 0);
    V_COUNT("evaluations", 1);
    if (v >= 24) V_COUNT("nontrivial", 1);
}

/* ------------------------------------------------------------------ section: doubles ---------------------- */
static uint64_t doubles_total(void) { return (uint64_t)n_dvals * 3; }
static void dbl_case(double v, unsigned c) {
    struct witem w[3];
    int n = 0;
    if (c == 2) w[n++] = wi(W_UINT, 1000);
    w[n++] = wf(v);
    if (c >= 1) w[n++] = ws(W_TEXT, 2, 0);
    run_program(w, n, ALL_MODES, -1, -1, 0);
    free_items(w, n);
    V_COUNT("evaluations", 1);
    if (dbl_on_boundary(v)) V_COUNT("nontrivial", 1);
}
static void doubles_eval(uint64_t idx, void *ctx) {
    (void)ctx;
    BEE_ITEM(idx);
    uint64_t i = idx;
    unsigned c = bee_digit(&i, 3);
    dbl_case(dvals[i], c);
    if (idx == 3 * 30) v_sample("doubles:%" PRIu64 " = write_float(%.17g = %a)", idx, dvals[i], dvals[i]);
}
/* grid: sign x every biased exponent x mantissa patterns (single bit k; ones from bit k upward; all ones; zero) */
static unsigned grid_patterns(void) { return big() ? 106 : 22; }
static uint64_t grid_mant(unsigned p) {
    const uint64_t all = (1ull << 52) - 1;
    if (big()) {
        if (p < 52) return 1ull << p;                 /* single bit */
        if (p < 104) return all & ~((1ull << (p - 52)) - 1); /* ones from bit p-52 up (p=52: all ones) */
        return p == 104 ? 0 : (1ull << 29) - 1;       /* zero; exactly the bits single precision drops */
    }
    static const unsigned bit[] = {0, 1, 22, 23, 27, 28, 29, 30, 31, 32, 50, 51};
    if (p < 12) return 1ull << bit[p];
    if (p < 20) {
        static const unsigned from[] = {0, 1, 28, 29, 30, 40, 50, 51};
        return all & ~((1ull << from[p - 12]) - 1);
    }
    return p == 20 ? 0 : (1ull << 29) - 1;
}
static uint64_t dgrid_total(void) { return 2ull * 2048 * grid_patterns(); }
static void dgrid_eval(uint64_t idx, void *ctx) {
    (void)ctx;
    BEE_ITEM(idx);
    uint64_t i = idx;
    unsigned p = bee_digit(&i, grid_patterns()), s = bee_digit(&i, 2);
    uint64_t bits = ((uint64_t)s << 63) | (i << 52) | grid_mant(p);
    double v;
    memcpy(&v, &bits, 8);
    dbl_case(v, 1);
}

/* ------------------------------------------------------------------ section: strings ---------------------- */
static const size_t big_lens[] = {4086, 4087, 4088, 4095, 4096, 4097, 65534, 65535, 65536, 65537, 70000, 131071, 131072};
static uint64_t str_small(void) { return big() ? 2101 : 601; }
static uint64_t strings_total(void) { return (str_small() + sizeof(big_lens) / sizeof(big_lens[0])) * 2 * 4; }
static void strings_eval(uint64_t idx, void *ctx) {
    (void)ctx;
    BEE_ITEM(idx);
    uint64_t i = idx;
    unsigned pre = bee_digit(&i, 4), k = bee_digit(&i, 2);
    size_t len = i < str_small() ? (size_t)i : big_lens[i - str_small()];
    struct witem w[5];
    int n = 0;
    if (pre == 1) w[n++] = wi(W_UINT, 5);
    if (pre == 2) w[n++] = ws(W_TEXT, 230, 1);  /* 232 bytes used: reservation of 9+len crosses 256 from len 16 */
    if (pre == 3) w[n++] = ws(W_BYTES, 246, 2); /* 248 bytes used: even an empty string needs growth */
    int at = n;
    w[n++] = ws(k ? W_TEXT : W_BYTES, len, 3);
    w[n++] = ws(W_TEXT, 2, 0);
    w[n++] = wi(W_UINT, 1ull << 40);
    run_program(w, n, ALL_MODES, at, at + 1, 0);
    free_items(w, n);
    V_COUNT("evaluations", 1);
    if (len >= 24) V_COUNT("nontrivial", 1);
    if (idx == 8 * 300 + 5) v_sample("strings:%" PRIu64 " = %s then skip/pop item %d", idx, describe(w, n), at);
}

/* ------------------------------------------------------------------ section: simple ----------------------- */
static uint64_t simple_total(void) { return 9 * 2; }
static void simple_eval(uint64_t idx, void *ctx) {
    (void)ctx;
    BEE_ITEM(idx);
    uint64_t i = idx;
    unsigned c = bee_digit(&i, 2);
    static const struct { int k; uint64_t u; } s[9] = {{W_BOOL, 1}, {W_BOOL, 0}, {W_NULL, 0}, {W_UNDEF, 0}, {W_BREAK, 0}, {W_IBYTES, 0}, {W_ITEXT, 0}, {W_IARRAY, 0}, {W_IMAP, 0}};
    struct witem w[3];
    int n = 0;
    if (c) w[n++] = wi(W_NEGINT, 70000);
    w[n++] = wi(s[i].k, s[i].u);
    if (c) w[n++] = wi(W_UINT, 7);
    run_program(w, n, ALL_MODES, -1, -1, RP_RESET);
    V_COUNT("evaluations", 1);
    V_COUNT("nontrivial", 1);
}

/* ------------------------------------------------------------------ section: seq -------------------------- */
#define NALPHA 22
static struct witem alpha_item(unsigned a) {
    switch (a) {
        case 0: return wi(W_UINT, 10);
        case 1: return wi(W_UINT, 1000);
        case 2: return wi(W_UINT, 1ull << 40);
        case 3: return wi(W_NEGINT, 0);
        case 4: return wi(W_NEGINT, 70000);
        case 5: return wf(1.5);
        case 6: return wf(0.1);
        case 7: return wf(-3.0);
        case 8: return wf((double)NAN);
        case 9: return ws(W_BYTES, 3, 9);
        case 10: return ws(W_TEXT, 30, 10);
        case 11: return wi(W_ARRAY, 2);
        case 12: return wi(W_MAP, 300);
        case 13: return wi(W_TAG, 1);
        case 14: return wi(W_BOOL, 1);
        case 15: return wi(W_NULL, 0);
        case 16: return wi(W_UNDEF, 0);
        case 17: return wi(W_BREAK, 0);
        case 18: return wi(W_IBYTES, 0);
        case 19: return wi(W_ITEXT, 0);
        case 20: return wi(W_IARRAY, 0);
        default: return wi(W_IMAP, 0);
    }
}
static unsigned seq_maxlen(void) { return big() ? 5 : 4; }
static uint64_t seq_total(void) { return bee_strings_upto(NALPHA, seq_maxlen()); }
static void seq_eval(uint64_t idx, void *ctx) {
    (void)ctx;
    BEE_ITEM(idx);
    static const uint8_t ident[NALPHA] = {0, 1, 2, 3, 4, 5, 6, 7, 8, 9, 10, 11, 12, 13, 14, 15, 16, 17, 18, 19, 20, 21};
    uint8_t s[8] = {0};
    size_t n = bee_string_at(idx, ident, NALPHA, seq_maxlen(), s);
    struct witem w[8];
    for (size_t i = 0; i < n; ++i) w[i] = alpha_item(s[i]);
    run_program(w, (int)n, ALL_MODES, -1, -1, RP_RESET);
    free_items(w, (int)n);
    V_COUNT("evaluations", 1);
    if (n >= 2) V_COUNT("nontrivial", 1);
    if (idx == 5000) v_sample("seq:5000 = %s", describe(w, (int)n));
}

/* ------------------------------------------------------------------ section: fill ------------------------- */
/* every alphabet call issued when the encoder buffer has exactly r = 14..0 / 17..0 free bytes left before its first
 * (256) and second (512) growth point: the reserve-then-encode step must grow for every head width */
/* the alphabet calls plus container/tag/integer heads of every width (1, 2, 3, 5 and 9 bytes): a writer that reserves less
 * than its widest head only fails when few bytes are free (added after a seeded change in write_map_start's reserve) */
#define NFILL (NALPHA + 12)
static struct witem fill_item(unsigned a) {
    if (a < NALPHA) return alpha_item(a);
    switch (a - NALPHA) {
        case 0: return wi(W_ARRAY, 1ull << 32);
        case 1: return wi(W_MAP, 1ull << 32);
        case 2: return wi(W_TAG, 1ull << 32);
        case 3: return wi(W_NEGINT, 1ull << 33);
        case 4: return wi(W_ARRAY, 70000);
        case 5: return wi(W_MAP, 70000);
        case 6: return wi(W_TAG, 70000);
        case 7: return wi(W_ARRAY, 300);
        case 8: return wi(W_TAG, 300);
        case 9: return wi(W_UINT, UINT64_MAX);
        case 10: return wi(W_MAP, UINT64_MAX);
        default: return wi(W_ARRAY, 24);
    }
}
static uint64_t fill_total(void) { return 2ull * 18 * NFILL; }
static void fill_eval(uint64_t idx, void *ctx) {
    (void)ctx;
    BEE_ITEM(idx);
    uint64_t i = idx;
    unsigned a = bee_digit(&i, NFILL), j = bee_digit(&i, 18), base = (unsigned)i;
    if (base == 0 && j > 14) { /* 242 + j would pass 256: not a distinct state */
        V_COUNT("fill_skipped_duplicates", 1);
        return;
    }
    struct witem w[MAXP];
    int n = 0;
    w[n++] = ws(W_TEXT, 240, 11);               /* 242 bytes used, capacity 256 */
    if (base) w[n++] = ws(W_BYTES, 250, 12);    /* 495 bytes used, capacity 512 */
    for (unsigned k = 0; k < j; ++k) w[n++] = wi(W_NULL, 0);
    int at = n;
    w[n++] = fill_item(a);
    w[n++] = ws(W_TEXT, 2, 0);
    run_program(w, n, 1u << M_PEEK_POP | 1u << M_POP, -1, -1, RP_RESET);
    V_COUNT("evaluations", 1);
    V_COUNT("nontrivial", 1);
    if (idx == 300) v_sample("fill:300 = %s (item %d written with %u bytes free)", describe(w, n), at, (base ? 512 - 495 : 256 - 242) - j);
    free_items(w, n);
}

/* ------------------------------------------------------------------ section: nest ------------------------- */
#define NLEAF 14
struct shape {
    uint8_t n, cc[8];
    uint64_t count, first;
};
static struct shape shapes[400];
static int n_shapes;
static uint64_t nest_sum;
static int shape_parse(const uint8_t *cc, int n, int i, int depth, int maxdepth) {
    if (i >= n || depth > maxdepth) return -1;
    int j = i + 1;
    for (int k = 0; k < cc[i]; ++k) {
        j = shape_parse(cc, n, j, depth + 1, maxdepth);
        if (j < 0) return -1;
    }
    return j;
}
static unsigned node_labels(unsigned c) { return c == 0 ? NLEAF : c == 1 ? 3 : (c % 2 == 0) ? 4 : 2; }
static void build_shapes(void) {
    int maxn = big() ? 6 : 5, maxdepth = big() ? 4 : 3;
    for (int n = 1; n <= maxn; ++n) {
        uint64_t combos = bee_pow((uint64_t)n, (unsigned)n);
        for (uint64_t o = 0; o < combos; ++o) {
            uint8_t cc[8];
            uint64_t t = o;
            for (int i = 0; i < n; ++i) cc[i] = (uint8_t)bee_digit(&t, (unsigned)n);
            if (shape_parse(cc, n, 0, 1, maxdepth) != n) continue;
            struct shape *s = &shapes[n_shapes++];
            s->n = (uint8_t)n;
            memcpy(s->cc, cc, 8);
            s->count = 1;
            for (int i = 0; i < n; ++i) s->count *= node_labels(cc[i]);
            s->first = nest_sum;
            nest_sum += s->count;
        }
    }
}
struct nest_stats { int depth3, depth4, indef, tag, map; };
static int emit_tree(const struct shape *s, const uint8_t *lab, int i, int depth, struct witem *out, int *no, struct nest_stats *st) {
    unsigned c = s->cc[i];
    if (depth >= 3) st->depth3 = 1;
    if (depth >= 4) st->depth4 = 1;
    if (c == 0) {
        switch (lab[i]) {
            case 0: out[(*no)++] = wi(W_UINT, 7); break;
            case 1: out[(*no)++] = wi(W_UINT, 1ull << 33); break;
            case 2: out[(*no)++] = wi(W_NEGINT, 300); break;
            case 3: out[(*no)++] = ws(W_TEXT, 3, 3); break;
            case 4: out[(*no)++] = ws(W_BYTES, 2, 4); break;
            case 5: out[(*no)++] = wf(0.1); break;
            case 6: out[(*no)++] = wi(W_BOOL, 1); break;
            case 7: out[(*no)++] = wi(W_NULL, 0); break;
            case 8: out[(*no)++] = wi(W_ARRAY, 0); break;
            case 9: out[(*no)++] = wi(W_MAP, 0); break;
            case 10: out[(*no)++] = wi(W_IARRAY, 0), out[(*no)++] = wi(W_BREAK, 0), st->indef = 1; break;
            case 11: out[(*no)++] = wi(W_IMAP, 0), out[(*no)++] = wi(W_BREAK, 0), st->indef = 1; break;
            case 12: out[(*no)++] = wi(W_IBYTES, 0), out[(*no)++] = ws(W_BYTES, 2, 5), out[(*no)++] = ws(W_BYTES, 0, 6), out[(*no)++] = wi(W_BREAK, 0), st->indef = 1; break;
            default: out[(*no)++] = wi(W_ITEXT, 0), out[(*no)++] = ws(W_TEXT, 25, 7), out[(*no)++] = wi(W_BREAK, 0), st->indef = 1; break;
        }
        return i + 1;
    }
    int kind; /* container */
    if (c == 1) kind = lab[i] == 0 ? W_ARRAY : lab[i] == 1 ? W_IARRAY : W_TAG;
    else kind = lab[i] == 0 ? W_ARRAY : lab[i] == 1 ? W_IARRAY : lab[i] == 2 ? W_MAP : W_IMAP;
    if (kind == W_TAG) st->tag = 1, out[(*no)++] = wi(W_TAG, 55799);
    else if (kind == W_ARRAY) out[(*no)++] = wi(W_ARRAY, c);
    else if (kind == W_MAP) st->map = 1, out[(*no)++] = wi(W_MAP, c / 2);
    else st->indef = 1, out[(*no)++] = wi(kind, 0);
    int j = i + 1;
    for (unsigned k = 0; k < c; ++k) j = emit_tree(s, lab, j, depth + 1, out, no, st);
    if (kind == W_IARRAY || kind == W_IMAP) out[(*no)++] = wi(W_BREAK, 0);
    return j;
}
static uint64_t nest_total(void) { return nest_sum; }
static void nest_eval(uint64_t idx, void *ctx) {
    (void)ctx;
    BEE_ITEM(idx);
    int si = 0;
    while (si + 1 < n_shapes && shapes[si + 1].first <= idx) ++si;
    const struct shape *s = &shapes[si];
    uint64_t t = idx - s->first;
    uint8_t lab[8];
    for (int i = 0; i < s->n; ++i) lab[i] = (uint8_t)bee_digit(&t, node_labels(s->cc[i]));
    struct witem w[MAXP];
    int n = 0;
    struct nest_stats st = {0, 0, 0, 0, 0};
    emit_tree(s, lab, 0, 1, w, &n, &st);
    int sentinel = n;
    w[n++] = ws(W_TEXT, 2, 0);
    run_program(w, n, 1u << M_PEEK_POP, 0, sentinel, 0);
    V_COUNT("evaluations", 1);
    if (s->n > 1) V_COUNT("nontrivial", 1);
    if (st.depth3) V_COUNT("nest_depth3", 1);
    if (st.depth4) V_COUNT("nest_depth4", 1);
    if (st.indef) V_COUNT("nest_with_indefinite", 1);
    if (st.tag) V_COUNT("nest_with_tag", 1);
    if (st.map) V_COUNT("nest_with_map", 1);
    if (idx == 20000) v_sample("nest:20000 = skip [%s] up to the last item", describe(w, n));
    free_items(w, n);
}

/* ------------------------------------------------------------------ section: deepskip --------------------- */
/* "Skipping a whole data item advances past exactly that item however deeply it nests": items nested 1000 / 100000 /
 * 300000 levels deep in six shapes, written with the real encoder, followed by a sentinel; the skip must consume exactly
 * the item and leave the sentinel (a recursion per level dies of stack exhaustion here; added after a seeded change that
 * re-introduced recursion for tags only) */
static const unsigned DEEP_N[3] = {1000, 100000, 300000};
static const char *DEEP_SHAPE[6] = {"tag chain", "tag + array(1) alternating", "array(1) chain", "indefinite-array chain", "map(1) chain (nested value)", "tag + indefinite map alternating"};
static uint64_t deepskip_total(void) { return 6 * 3; }
static void deepskip_eval(uint64_t idx, void *ctx) {
    (void)ctx;
    BEE_ITEM(idx);
    unsigned shape = (unsigned)(idx % 6), depth = DEEP_N[idx / 6];
    V_COUNT("evaluations", 1);
    V_COUNT("nontrivial", 1);
    struct aws_cbor_encoder *enc = aws_cbor_encoder_new(A);
    for (unsigned i = 0; i < depth; ++i) {
        switch (shape) {
            case 0: aws_cbor_encoder_write_tag(enc, 100 + (i & 7)); break;
            case 1:
                if (i & 1) aws_cbor_encoder_write_array_start(enc, 1);
                else aws_cbor_encoder_write_tag(enc, 55799);
                break;
            case 2: aws_cbor_encoder_write_array_start(enc, 1); break;
            case 3: aws_cbor_encoder_write_indef_array_start(enc); break;
            case 4:
                aws_cbor_encoder_write_map_start(enc, 1);
                aws_cbor_encoder_write_uint(enc, i & 15); /* key */
                break;
            default:
                if (i & 1) {
                    aws_cbor_encoder_write_indef_map_start(enc);
                    aws_cbor_encoder_write_uint(enc, 7);
                } else
                    aws_cbor_encoder_write_tag(enc, 1);
                break;
        }
    }
    aws_cbor_encoder_write_uint(enc, 5); /* innermost item */
    for (unsigned i = depth; i-- > 0;)
        if (shape == 3 || (shape == 5 && (i & 1))) aws_cbor_encoder_write_break(enc);
    aws_cbor_encoder_write_uint(enc, 99); /* sentinel behind the item */
    struct aws_byte_cursor enc_bytes = aws_cbor_encoder_get_encoded_data(enc);
    uint8_t *blk = bee_block(enc_bytes.ptr, enc_bytes.len);
    struct aws_cbor_decoder *dec = aws_cbor_decoder_new(A, aws_byte_cursor_from_array(blk, enc_bytes.len));
    int rc = aws_cbor_decoder_consume_next_whole_data_item(dec);
    BEE_CHECK(rc == AWS_OP_SUCCESS, "deep-skip-fails", "%s, %u levels: consume_next_whole_data_item failed: %s", DEEP_SHAPE[shape], depth, aws_error_name(aws_last_error()));
    if (rc == AWS_OP_SUCCESS) {
        uint64_t v = 0;
        size_t rem = aws_cbor_decoder_get_remaining_length(dec);
        BEE_CHECK(rem == 2, "deep-skip-extent", "%s, %u levels: %zu bytes remain after the skip, the sentinel behind the item has 2", DEEP_SHAPE[shape], depth, rem);
        BEE_CHECK(aws_cbor_decoder_pop_next_unsigned_int_val(dec, &v) == AWS_OP_SUCCESS && v == 99, "deep-skip-extent", "%s, %u levels: the item after the skipped one does not read back as the sentinel", DEEP_SHAPE[shape], depth);
    }
    aws_cbor_decoder_destroy(dec);
    free(blk);
    aws_cbor_encoder_destroy(enc);
}

/* ---- section lives: an encoder's second life, and decoding with a stale error on the thread ----
 * first life: F bytes of text items, then aws_cbor_encoder_reset; second life: an array of N 100-byte texts, decoded again and
 * compared - whatever the first life did to the buffer's capacity, the second life's items are all there (added after a seeded
 * change whose reset shrank the storage but kept the old capacity).  The decode runs with the thread's last error set to
 * nothing / OVERFLOW_DETECTED / OOM / INVALID_INDEX, left there by unrelated earlier failures: a well-formed document decodes
 * whatever that value is (added after a seeded change that consulted aws_last_error() after a successful libcbor call). */
static uint64_t lives_total(void) { return 4 * 4 * 4 * 3; }
static void lives_eval(uint64_t idx, void *ctx) {
    (void)ctx;
    BEE_ITEM(idx);
    uint64_t x = idx;
    static const size_t FIRST[4] = {0, 300, 5000, 70000};
    static const unsigned SECOND[4] = {1, 3, 30, 50};
    static const int AMB[4] = {0, AWS_ERROR_OVERFLOW_DETECTED, AWS_ERROR_OOM, AWS_ERROR_INVALID_INDEX};
    size_t first = FIRST[bee_digit(&x, 4)];
    unsigned n2 = SECOND[bee_digit(&x, 4)];
    int amb = AMB[bee_digit(&x, 4)];
    unsigned which = bee_digit(&x, 3);
    struct aws_allocator *al = which == 0 ? aws_default_allocator() : which == 1 ? bee_min_allocator() : bee_moving_allocator();
    V_COUNT("evaluations", 1);
    V_COUNT("nontrivial", 1);
    struct aws_cbor_encoder *enc = aws_cbor_encoder_new(al);
    char chunk[100];
    memset(chunk, 'f', sizeof(chunk));
    for (size_t w = 0; w < first; w += sizeof(chunk)) aws_cbor_encoder_write_text(enc, aws_byte_cursor_from_array(chunk, sizeof(chunk)));
    aws_cbor_encoder_reset(enc);
    BEE_CHECK(aws_cbor_encoder_get_encoded_data(enc).len == 0, "enc-reset", "%zu bytes after aws_cbor_encoder_reset", aws_cbor_encoder_get_encoded_data(enc).len);
    aws_cbor_encoder_write_array_start(enc, n2);
    for (unsigned i = 0; i < n2; ++i) {
        memset(chunk, 'a' + (int)(i % 26), sizeof(chunk));
        aws_cbor_encoder_write_text(enc, aws_byte_cursor_from_array(chunk, sizeof(chunk)));
    }
    struct aws_byte_cursor out = aws_cbor_encoder_get_encoded_data(enc);
    uint8_t *copy = bee_block(out.ptr, out.len);
    size_t copy_len = out.len;
    aws_reset_error();
    if (amb) aws_raise_error(amb);
    struct aws_cbor_decoder *dec = aws_cbor_decoder_new(aws_default_allocator(), aws_byte_cursor_from_array(copy, copy_len));
    uint64_t cnt = 0;
    int rc = aws_cbor_decoder_pop_next_array_start(dec, &cnt);
    BEE_CHECK(rc == AWS_OP_SUCCESS && cnt == n2, "dec-second-life", "second life of an encoder (first life %zu bytes, stale error %d on the decoding thread): array start gives rc %d (error %d), %" PRIu64 " items, written %u", first,
              amb, rc, rc ? aws_last_error() : 0, cnt, n2);
    for (unsigned i = 0; i < n2 && rc == AWS_OP_SUCCESS && !v_sh->viol_count; ++i) {
        struct aws_byte_cursor t;
        AWS_ZERO_STRUCT(t);
        if (amb) aws_raise_error(amb);
        rc = aws_cbor_decoder_pop_next_text_val(dec, &t);
        int same = rc == AWS_OP_SUCCESS && t.len == sizeof(chunk);
        for (size_t k = 0; same && k < t.len; ++k) same = t.ptr[k] == (uint8_t)('a' + (int)(i % 26));
        BEE_CHECK(same, "dec-second-life", "second life of an encoder (first life %zu bytes, stale error %d): text item %u of %u decodes with rc %d (error %d), %zu bytes%s", first, amb, i, n2, rc,
                  rc ? aws_last_error() : 0, t.len, rc == AWS_OP_SUCCESS ? ", wrong content" : "");
    }
    if (rc == AWS_OP_SUCCESS) BEE_CHECK(aws_cbor_decoder_get_remaining_length(dec) == 0, "dec-second-life", "%zu bytes left after the last item", aws_cbor_decoder_get_remaining_length(dec));
    aws_cbor_decoder_destroy(dec);
    aws_cbor_encoder_destroy(enc);
    free(copy);
    aws_reset_error();
}

/* the sections in which the encoder's buffer grows, once more with an allocator that has no realloc of its own */
static void fill_min_eval(uint64_t idx, void *ctx) {
    A = bee_min_allocator();
    fill_eval(idx, ctx);
    A = aws_default_allocator();
}
static void strings_min_eval(uint64_t idx, void *ctx) {
    A = bee_min_allocator();
    strings_eval(idx, ctx);
    A = aws_default_allocator();
}

int main(int argc, char **argv) {
    v_init(argc, argv);
    for (int i = 1; i < argc; ++i)
        if (!strcmp(argv[i], "--small")) small_space = 1;
    A = aws_default_allocator();
    aws_common_library_init(A);
    build_tables();
    build_shapes();
    v_out("INFO tables: %d integer arguments, %d doubles, %d tree shapes", n_ivals, n_dvals, n_shapes);
    bee_register("ints", ints_total, ints_eval, 10);
    bee_register("intsweep", sweep_total, sweep_eval, 10);
    bee_register("doubles", doubles_total, doubles_eval, 10);
    bee_register("dgrid", dgrid_total, dgrid_eval, 10);
    bee_register("strings", strings_total, strings_eval, 20);
    bee_register("simple", simple_total, simple_eval, 10);
    bee_register("seq", seq_total, seq_eval, 10);
    bee_register("fill", fill_total, fill_eval, 10);
    bee_register("fill-minalloc", fill_total, fill_min_eval, 10);
    bee_register("strings-minalloc", strings_total, strings_min_eval, 20);
    bee_register("lives", lives_total, lives_eval, 20);
    bee_register("nest", nest_total, nest_eval, 10);
    bee_register("deepskip", deepskip_total, deepskip_eval, 60);
    return bee_main(argc, argv);
}
