/*
 * C04 input generators (odometers; nothing random).
 *
 *  - exact-size input blocks whose zero-length form points one-past-the-end of a live block, so that even a
 *    one-byte read of an empty input is an ASan report;
 *  - "all strings <= n over an alphabet" comes from bee.h (bee_string_at);
 *  - edit neighbourhoods of templates: identity, delete i, truncate to i, duplicate i, substitute (i,s),
 *    insert (i,s); single (depth 1), double (depth 2, the second edit ranges over the nominal length L+1 and
 *    positions that do not exist in the intermediate string are skipped) or the reduced single set without
 *    substitute/insert (depth 0, used for the very long templates).
 */
#ifndef C04_GEN_H
#define C04_GEN_H
#include "bee.h"

struct blk {
    uint8_t *base; /* what malloc returned */
    uint8_t *p;    /* start of the input view */
    size_t n;
};
static struct blk blk_new(const void *src, size_t n) {
    struct blk b;
    if (n) {
        b.base = (uint8_t *)malloc(n);
        memcpy(b.base, src, n);
        b.p = b.base;
    } else {
        b.base = (uint8_t *)malloc(8);
        b.p = b.base + 8; /* one past the end: any dereference is a heap-buffer-overflow */
    }
    b.n = n;
    return b;
}
static void blk_free(struct blk *b) {
    free(b->base);
    b->base = b->p = NULL;
}

struct tmpl {
    const char *label;
    const uint8_t *p;
    size_t n;
    int dq, dt;   /* edit depth in the quick / thorough tier: 0 reduced single, 1 single, 2 double */
    unsigned aux; /* parser specific (XML: max_depth option) */
};
struct esrc {
    struct tmpl *t;
    int nt;
    const uint8_t *alpha;
    unsigned k;
    unsigned mult; /* lowest odometer digit: callback policy etc. */
};

static uint64_t edit_n1(size_t L, unsigned k, int reduced) {
    return reduced ? 1 + 3 * (uint64_t)L : 1 + 3 * (uint64_t)L + (uint64_t)L * k + ((uint64_t)L + 1) * k;
}
static int tmpl_depth(const struct tmpl *t) { return v_thorough() ? t->dt : t->dq; }
static uint64_t esrc_count_t(const struct esrc *s, int ti) {
    const struct tmpl *t = &s->t[ti];
    int d = tmpl_depth(t);
    if (d < 0) return 0;
    if (d == 0) return edit_n1(t->n, s->k, 1);
    if (d == 1) return edit_n1(t->n, s->k, 0);
    return edit_n1(t->n, s->k, 0) * edit_n1(t->n + 1, s->k, 0);
}
static uint64_t esrc_total(const struct esrc *s) {
    uint64_t tot = 0;
    for (int i = 0; i < s->nt; ++i) tot += esrc_count_t(s, i);
    return tot * s->mult;
}

/* one edit; returns 0 if the edit does not exist for the actual length (or is the identity in disguise) */
static int edit_apply(uint8_t *w, size_t *len, uint64_t e, size_t Lnom, const uint8_t *alpha, unsigned k, int reduced) {
    size_t L = *len, i;
    if (e == 0) return 1;
    e -= 1;
    if (e < Lnom) { /* delete */
        i = (size_t)e;
        if (i >= L) return 0;
        memmove(w + i, w + i + 1, L - i - 1);
        *len = L - 1;
        return 1;
    }
    e -= Lnom;
    if (e < Lnom) { /* truncate to i bytes */
        i = (size_t)e;
        if (i >= L) return 0;
        *len = i;
        return 1;
    }
    e -= Lnom;
    if (e < Lnom) { /* duplicate byte i */
        i = (size_t)e;
        if (i >= L) return 0;
        memmove(w + i + 1, w + i, L - i);
        *len = L + 1;
        return 1;
    }
    e -= Lnom;
    if (reduced) return 0;
    if (e < (uint64_t)Lnom * k) { /* substitute */
        i = (size_t)(e / k);
        unsigned s = (unsigned)(e % k);
        if (i >= L || w[i] == alpha[s]) return 0;
        w[i] = alpha[s];
        return 1;
    }
    e -= (uint64_t)Lnom * k;
    i = (size_t)(e / k); /* insert before position i (i == L: append) */
    unsigned s = (unsigned)(e % k);
    if (i > L) return 0;
    memmove(w + i + 1, w + i, L - i);
    w[i] = alpha[s];
    *len = L + 1;
    return 1;
}

/* index -> (low digit, template, edited bytes).  Returns a malloc'd working buffer or NULL if the index is a
 * skipped combination. */
static uint8_t *esrc_get(const struct esrc *s, uint64_t idx, unsigned *low, int *ti_out, size_t *n_out) {
    *low = (unsigned)(idx % s->mult);
    idx /= s->mult;
    for (int ti = 0; ti < s->nt; ++ti) {
        uint64_t c = esrc_count_t(s, ti);
        if (idx >= c) {
            idx -= c;
            continue;
        }
        const struct tmpl *t = &s->t[ti];
        int d = tmpl_depth(t);
        uint8_t *w = (uint8_t *)malloc(t->n + 4);
        memcpy(w, t->p, t->n);
        size_t len = t->n;
        int ok;
        if (d == 0) {
            ok = edit_apply(w, &len, idx, t->n, s->alpha, s->k, 1);
        } else if (d == 1) {
            ok = edit_apply(w, &len, idx, t->n, s->alpha, s->k, 0);
        } else {
            uint64_t n2 = edit_n1(t->n + 1, s->k, 0);
            uint64_t e1 = idx / n2, e2 = idx % n2;
            ok = edit_apply(w, &len, e1, t->n, s->alpha, s->k, 0);
            /* the pair (e1, identity) repeats the single edit: keep it only once, under e1 */
            if (ok) ok = edit_apply(w, &len, e2, t->n + 1, s->alpha, s->k, 0);
        }
        if (!ok) {
            free(w);
            return NULL;
        }
        *ti_out = ti;
        *n_out = len;
        return w;
    }
    return NULL;
}

/* repeat a pattern: pre x count + mid + post x count */
static uint8_t *rep3(const char *pre, size_t count, const char *mid, const char *post, size_t *n_out) {
    size_t a = strlen(pre), m = strlen(mid), b = strlen(post);
    uint8_t *p = (uint8_t *)malloc(a * count + m + b * count + 1);
    size_t o = 0;
    for (size_t i = 0; i < count; ++i) {
        memcpy(p + o, pre, a);
        o += a;
    }
    memcpy(p + o, mid, m);
    o += m;
    for (size_t i = 0; i < count; ++i) {
        memcpy(p + o, post, b);
        o += b;
    }
    *n_out = o;
    return p;
}

#endif
