import os, subprocess

LEVEL = "exploration"
RULE = ("odometer enumeration (no randomness), every input in an exact-size heap block (empty input: one-past-the-end pointer "
        "and the NULL,0 view). Per parser (a) ALL strings up to length n over the bytes its control flow distinguishes and "
        "(b) the single / double edit neighbourhood {delete i, truncate to i, duplicate i, substitute (i,s), insert (i,s)} of "
        "well-formed templates. XML (aws_xml_parse): 10 symbols, n<=6 quick / 7 thorough, 16 templates (preamble, doctype, "
        "attributes x10/x11, depth 20/21, name length 256/257, max_depth option, self-closing, '>' inside text), each under 6 "
        "callback policies {skip, body, descend, descend-then-abort, descend-root-then-body, descend-root-then-skip}. JSON: 18 "
        "symbols, n<=5/6, 22 templates incl. array/object nesting 1000/1001, surrogates, raw UTF-8. CBOR decoder: every first "
        "byte 0x00-0xFF x followers from 16 bytes, total length <=4/5, 22 templates (indefinite/definite nesting and tag chains 8/64/1024, "
        "4096 in the thorough tier; 2^64-1 counts); per input every decoder operation as first call on a fresh decoder, then a typed peek+pop walk, a "
        "consume_whole loop and a consume_single loop; plus section cbor_deep: arrays / tags / indefinite arrays / one-pair maps "
        "nested 2^10..2^18 deep (CBOR documents no nesting limit) on the default 8 MiB stack. URI + query iteration + percent-decoding: 13 symbols, n<=6/7, 8 "
        "templates. date-time: 17 symbols, n<=5/6, 30 templates (length 100/101 included), each input x 4 format selectors x "
        "{byte_buf, cursor} entry point. UUID/IPv4/IPv6(zone, uri-encoded): 11 symbols, n<=6/7, 10 templates. unsigned parse "
        "(base 10/16): 16 symbols, n<=5/6, 4 boundary templates. base64/hex decode and one-shot UTF-8 on the shipped (AVX2) and "
        "the portable compilation (base64: all strings <=5 over 9 symbols, 8/9/12-character strings over 5, vector-body templates "
        "of 32..68 characters; hex: 16 symbols n<=5/6; UTF-8: 21 boundary bytes n<=4/5), output in an exact-size block of the "
        "predicted length and one byte less. Double edits: all templates up to ~40 bytes (quick: a subset for JSON/CBOR/date), "
        "single edits for the long ones, delete/truncate/duplicate only for the 1000-level JSON and >=1024-level CBOR templates. "
        "non-trivial = XML: at least one node reached a callback; JSON: document accepted; CBOR: at least one decoder call "
        "succeeded; URI: URI accepted, or query iteration yielded a parameter, or a %XX was decoded; date/UUID/IP/unsigned/"
        "base64/hex/UTF-8: accepted by at least one selector / recogniser / path (UTF-8: non-empty).")
EXPLANATION = ("oracle: terminates inside the watchdog; no ASan report, signal or abort; result is success or the documented "
               "failure channel (AWS_OP_ERR with aws_last_error()!=0, NULL, false); every cursor handed back lies inside the "
               "input block or the object's own copy (range check, then every byte of the view is read under ASan); XML callback "
               "nesting never exceeds max_depth.")


def prebuild(ctx):
    """second compilation of source/encoding.c WITHOUT USE_SIMD_ENCODING, all defined globals renamed p_* (as in C05)"""
    d = os.path.join(ctx["tmp"], "C04")
    os.makedirs(d, exist_ok=True)
    o = os.path.join(d, "encoding_portable.o")
    cmd = ["gcc", "-std=gnu99", "-c", os.path.join(ctx["repo"], "source", "encoding.c"), "-o", o] + ctx["cflags"]
    cmd = [c for c in cmd if c != "-DUSE_SIMD_ENCODING"]
    subprocess.run(cmd, check=True)
    syms = subprocess.run(["nm", "-g", "--defined-only", o], stdout=subprocess.PIPE, text=True, check=True).stdout
    m = os.path.join(d, "redefine.txt")
    with open(m, "w") as f:
        for ln in syms.splitlines():
            name = ln.split()[-1]
            f.write("%s p_%s\n" % (name, name))
    subprocess.run(["objcopy", "--redefine-syms=" + m, o], check=True)
    return [o]


HARNESSES = [
    dict(name="parsers", src=["c04.c"], variant="asan", prebuild=prebuild, deadline={"quick": 900, "thorough": 5400}),
    # free-running ThreadSanitizer twin: two threads, each with objects of its own (harness/common/twin.c; samples, decides nothing)
    dict(name="own-objects-tsan", src=["../common/twin.c"], variant="tsan", cflags=["-DTWIN_C04", "-DVSX_FREE_RUNS=6"], deadline={"quick": 60, "thorough": 120}),
]
ASSUMPTIONS = [
    "bounds: string lengths and template edit depths as listed in the rule; inputs longer than these are not enumerated "
    "(cJSON's 1000-level limit and the recursion of aws_cbor_decoder_consume_next_whole_data_item are probed by templates only, "
    "nesting <= 4096 for CBOR)",
    "readings: AWS_OP_ERR must come with a non-zero aws_last_error() (error reset before every call); "
    "aws_json_value_new_from_string fails by returning NULL; the IPv4/IPv6 recognisers fail by returning false",
    "a zero-length view is accepted when its pointer is NULL or lies in [input, input+len]",
    "XML callbacks follow the header: a failing callback raises an error before returning AWS_OP_ERR; a node is either "
    "traversed or read as body, never both; attribute indices stay below aws_xml_node_get_num_attributes",
    "the vectorised base64 path is the one the library selects on this AVX2 host; the portable path is source/encoding.c "
    "compiled a second time from the working tree without USE_SIMD_ENCODING",
    "recursion depth (cbor_deep: nesting 2^10..2^18) is judged on the Linux default 8 MiB main-thread stack; the harness lowers a "
    "larger / unlimited RLIMIT_STACK to 8 MiB",
    "allocation failure is not an event (aws_mem_acquire aborts on NULL); leak checking is not part of this property",
]
