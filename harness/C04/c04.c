/*
 * C04 — decoders and parsers are total and memory-safe on arbitrary input (DESIGN §5 C04).
 *
 * One binary, many BEE sections.  For each parser: every string up to a length over the bytes its control
 * flow distinguishes ("*_str" sections) and the single / double edit neighbourhood of well-formed templates
 * ("*_edit" sections).  Each input sits in an exact-size heap block (an empty input is a pointer one past the
 * end of a live block, and additionally the NULL,0 view), allocations go through aws_default_allocator()
 * (malloc under ASan).
 *
 * Oracle (nothing more than the property states):
 *   - the call returns inside the watchdog and without ASan report / signal / abort  (engine);
 *   - the result is success or the function's documented failure channel            (clause "channel:*");
 *   - every view handed back lies inside the input block / the object's own copy    (clause "view:*"),
 *     and every byte of an in-range view is read once so ASan sees a stale or foreign pointer;
 *   - XML: callbacks are never nested deeper than options.max_depth (default 20)     (clause "depth-limit").
 */
#include "gen.h"

#include <aws/common/array_list.h>
#include <aws/common/byte_buf.h>
#include <aws/common/cbor.h>
#include <aws/common/common.h>
#include <aws/common/date_time.h>
#include <aws/common/encoding.h>
#include <aws/common/error.h>
#include <aws/common/host_utils.h>
#include <aws/common/json.h>
#include <aws/common/uri.h>
#include <aws/common/uuid.h>
#include <aws/common/xml_parser.h>
#include <fcntl.h>
#include <sys/resource.h>

/* second compilation of source/encoding.c without USE_SIMD_ENCODING (spec.py prebuild) */
int p_aws_base64_decode(const struct aws_byte_cursor *to_decode, struct aws_byte_buf *output);
int p_aws_base64_compute_decoded_len(const struct aws_byte_cursor *to_decode, size_t *decoded_len);
int p_aws_hex_decode(const struct aws_byte_cursor *to_decode, struct aws_byte_buf *output);
int p_aws_hex_compute_decoded_len(size_t to_decode_len, size_t *decoded_len);
int p_aws_decode_utf8(struct aws_byte_cursor bytes, const struct aws_utf8_decoder_options *options);
bool aws_common_private_has_avx2(void);

static struct aws_allocator *A;

static int g_sample; /* set by a section for one fixed index: print that case verbatim as evidence */
static const char *show_in(const uint8_t *p, size_t n) { return v_show(p, n > 200 ? 200 : n); }

/* in --replay mode every case prints its decoded input before the parser runs (so it is visible even if the parser dies) */
static void replay_note(const char *parser, const uint8_t *p, size_t n, const char *extra) {
    if (!v_replay_token) return;
    char hex[600];
    v_hex(hex, sizeof(hex), p, n > 256 ? 256 : n);
    v_out("INFO case %s: parser=%s %s input (%zu bytes) text=%s hex=%s%s", v_replay_token, parser, extra, n, show_in(p, n), hex, n > 256 ? "..." : "");
}

/* ------------------------------------------------------------------ views ------------------------------- */
static volatile unsigned touch_sink;
static int view_inside(struct aws_byte_cursor c, const uint8_t *base, size_t n) {
    if (c.ptr == NULL) return c.len == 0;
    if (base == NULL) return c.len == 0; /* NULL,0 input: only empty views can be legitimate */
    if (c.ptr < base || c.ptr > base + n) return 0;
    return c.len <= (size_t)(base + n - c.ptr);
}
static void view_touch(struct aws_byte_cursor c) {
    unsigned s = 0;
    for (size_t i = 0; i < c.len; ++i) s += c.ptr[i];
    touch_sink += s;
}
#define VIEW_CHECK(c, base, n, clause, in_p, in_n)                                                               \
    do {                                                                                                         \
        struct aws_byte_cursor v__c = (c);                                                                       \
        if (view_inside(v__c, (base), (n)))                                                                      \
            view_touch(v__c);                                                                                    \
        else                                                                                                     \
            bee_fail(clause, "view {offset %td, len %zu (%#zx)} is outside the %zu-byte block; input (%zu bytes) %s", \
                     v__c.ptr ? (ptrdiff_t)(v__c.ptr - (const uint8_t *)(base)) : (ptrdiff_t)0, v__c.len, v__c.len, \
                     (size_t)(n), (size_t)(in_n), show_in((in_p), (in_n)));                                      \
    } while (0)

/* documented failure channel of the int-returning functions: AWS_OP_ERR together with a raised error */
#define CHANNEL(rc, clause, in_p, in_n)                                                                          \
    do {                                                                                                         \
        int v__rc = (rc);                                                                                        \
        if (!(v__rc == AWS_OP_SUCCESS || (v__rc == AWS_OP_ERR && aws_last_error() != 0)))                        \
            bee_fail(clause, "returned %d with aws_last_error()=%d (%s); input (%zu bytes) %s", v__rc,           \
                     aws_last_error(), aws_error_name(aws_last_error()), (size_t)(in_n), show_in((in_p), (in_n))); \
    } while (0)

/* =========================================================================================================
 *  XML
 * ========================================================================================================= */
enum { XP_SKIP, XP_BODY, XP_DESCEND, XP_DESCEND_ABORT, XP_DESC_BODY, XP_DESC_SKIP, XP_N };
static const char *xp_name[XP_N] = {"skip", "body", "descend", "descend-then-abort", "descend-root-then-body", "descend-root-then-skip"};
struct xctx {
    const uint8_t *base;
    size_t n;
    unsigned pol, depth, maxseen, nodes, attrs, bodies;
};
/* every callback first parses another document, held in a block of its own that is released again, and only then looks at
 * the node it was given: views of a node lie inside THAT node's input whatever other parses have happened in between (added
 * after a seeded change that moved the parser's attribute scratch space to file scope) */
static int xml_other_cb(struct aws_xml_node *node, void *ud) {
    (void)aws_xml_node_get_num_attributes(node);
    return aws_xml_node_traverse(node, xml_other_cb, ud);
}
static int xml_other_depth;
static void xml_other_parse(void) {
    static const char other[] = "<o k=\"v\" kk=\"vv\"><p q=\"r\">t</p></o>";
    if (xml_other_depth) return;
    ++xml_other_depth;
    int saved = aws_last_error();
    char *blk = (char *)malloc(sizeof(other) - 1);
    memcpy(blk, other, sizeof(other) - 1);
    struct aws_xml_parser_options o;
    memset(&o, 0, sizeof(o));
    o.doc = aws_byte_cursor_from_array(blk, sizeof(other) - 1);
    o.on_root_encountered = xml_other_cb;
    (void)aws_xml_parse(A, &o);
    free(blk);
    if (saved) aws_raise_error(saved);
    else aws_reset_error();
    --xml_other_depth;
}
static int xml_cb(struct aws_xml_node *node, void *ud) {
    struct xctx *x = (struct xctx *)ud;
    xml_other_parse();
    x->nodes++;
    x->depth++;
    if (x->depth > x->maxseen) x->maxseen = x->depth;
    VIEW_CHECK(aws_xml_node_get_name(node), x->base, x->n, "view:node-name", x->base, x->n);
    size_t na = aws_xml_node_get_num_attributes(node);
    for (size_t i = 0; i < na && i < 64; ++i) {
        struct aws_xml_attribute at = aws_xml_node_get_attribute(node, i);
        x->attrs++;
        VIEW_CHECK(at.name, x->base, x->n, "view:attribute-name", x->base, x->n);
        VIEW_CHECK(at.value, x->base, x->n, "view:attribute-value", x->base, x->n);
    }
    int rc = AWS_OP_SUCCESS;
    unsigned act = x->pol;
    if (act == XP_DESC_BODY) act = x->depth == 1 ? XP_DESCEND : XP_BODY;
    if (act == XP_DESC_SKIP) act = x->depth == 1 ? XP_DESCEND : XP_SKIP;
    switch (act) {
        case XP_SKIP:
            break;
        case XP_BODY: {
            struct aws_byte_cursor body;
            memset(&body, 0, sizeof(body));
            rc = aws_xml_node_as_body(node, &body);
            if (rc == AWS_OP_SUCCESS) {
                x->bodies++;
                VIEW_CHECK(body, x->base, x->n, "view:body", x->base, x->n);
            }
            break;
        }
        case XP_DESCEND:
            rc = aws_xml_node_traverse(node, xml_cb, x);
            break;
        case XP_DESCEND_ABORT:
            (void)aws_xml_node_traverse(node, xml_cb, x);
            rc = aws_raise_error(AWS_ERROR_INVALID_ARGUMENT); /* "fail the parse by returning AWS_OP_ERR (after an error has been raised)" */
            break;
    }
    x->depth--;
    return rc;
}
static void xml_once(const uint8_t *p, size_t n, const uint8_t *show, unsigned pol, size_t max_depth) {
    struct xctx x = {.base = p, .n = n, .pol = pol};
    struct aws_xml_parser_options o;
    memset(&o, 0, sizeof(o));
    o.doc = aws_byte_cursor_from_array(p, n);
    o.max_depth = max_depth;
    o.on_root_encountered = xml_cb;
    o.user_data = &x;
    aws_reset_error();
    int rc = aws_xml_parse(A, &o);
    V_COUNT("evaluations", 1);
    V_COUNT("xml_runs", 1);
    CHANNEL(rc, "channel:aws_xml_parse", show, n);
    size_t lim = max_depth ? max_depth : 20;
    BEE_CHECK(x.maxseen <= lim, "depth-limit", "callback nesting reached %u with max_depth %zu (policy %s); input %s", x.maxseen, lim, xp_name[pol], show_in(show, n));
    if (x.nodes) V_COUNT("nontrivial", 1); /* at least one node declaration was loaded and handed to a callback */
    if (rc == AWS_OP_SUCCESS) V_COUNT("xml_accepted", 1);
    V_COUNT("xml_nodes", x.nodes);
    V_COUNT("xml_attributes", x.attrs);
    V_COUNT("xml_bodies", x.bodies);
    V_MAXSTAT("max_xml_depth", x.maxseen);
    if (g_sample) v_sample("xml policy=%s doc=%s -> rc %d, %u nodes, %u attributes, %u bodies, depth %u", xp_name[pol], show_in(show, n), rc, x.nodes, x.attrs, x.bodies, x.maxseen);
}
static void run_xml(const uint8_t *bytes, size_t n, unsigned pol, size_t max_depth) {
    replay_note("xml", bytes, n, xp_name[pol]);
    struct blk b = blk_new(bytes, n);
    xml_once(b.p, n, bytes, pol, max_depth);
    blk_free(&b);
    if (n == 0) xml_once(NULL, 0, bytes, pol, max_depth);
}

static const uint8_t XML_ALPHA[10] = {'<', '>', '/', '?', '!', 'a', 'b', ' ', '=', '"'};
static unsigned xml_strlen_max(void) { return v_thorough() ? 7 : 6; }
static uint64_t xml_str_total(void) { return bee_strings_upto(10, xml_strlen_max()) * XP_N; }
static void xml_str_eval(uint64_t idx, void *ctx) {
    (void)ctx;
    BEE_ITEM(idx);
    unsigned pol = (unsigned)(idx % XP_N);
    uint8_t s[8];
    size_t n = bee_string_at(idx / XP_N, XML_ALPHA, 10, xml_strlen_max(), s);
    run_xml(s, n, pol, 0);
}

#define T(lbl, lit, dq, dt, aux) {lbl, (const uint8_t *)(lit), sizeof(lit) - 1, dq, dt, aux}
static struct tmpl XML_T[] = {
    T("preamble", "<?xml version=\"1.0\"?><a>b</a>", 2, 2, 0),
    T("doctype+attr", "<!DOCTYPE a><a b=\"c\">d</a>", 2, 2, 0),
    T("siblings", "<a><b>c</b><b/></a>", 2, 2, 0),
    T("same-name-nested", "<a b=\"c\"><a>x</a></a>", 2, 2, 0),
    T("prefix-name", "<a><ab></ab></a>", 2, 2, 0),
    T("gt-in-text", "<a>1>2<b>3</b></a>", 2, 2, 0),
    T("self-closing", "<a><b c=\"d\"/><e/></a>", 2, 2, 0),
    T("tiny", "<a></a>", 2, 2, 0),
    T("max-depth-2", "<a><b><c>x</c></b></a>", 2, 2, 2),
    T("spaces", "<a  b = \"c\" ><b/></a >", 2, 2, 0),
    T("attr-x10", "<a a0=\"v\" a1=\"v\" a2=\"v\" a3=\"v\" a4=\"v\" a5=\"v\" a6=\"v\" a7=\"v\" a8=\"v\" a9=\"v\">x</a>", 1, 2, 0),
    T("attr-x11", "<a a0=\"v\" a1=\"v\" a2=\"v\" a3=\"v\" a4=\"v\" a5=\"v\" a6=\"v\" a7=\"v\" a8=\"v\" a9=\"v\" aa=\"v\">x</a>", 1, 2, 0),
    {"depth-20", NULL, 0, 1, 1, 0},
    {"depth-21", NULL, 0, 1, 1, 0},
    {"name-256", NULL, 0, 0, 1, 0},
    {"name-257", NULL, 0, 0, 1, 0},
};
#define XML_NT ((int)(sizeof(XML_T) / sizeof(XML_T[0])))
static struct esrc XML_SRC = {XML_T, XML_NT, XML_ALPHA, 10, XP_N};
static uint8_t *xml_named(size_t namelen, size_t *n_out) {
    /* <nnn…n>x</nnn…n> */
    size_t n = 2 * namelen + 6;
    uint8_t *p = (uint8_t *)malloc(n), *q = p;
    *q++ = '<';
    memset(q, 'n', namelen);
    q += namelen;
    *q++ = '>';
    *q++ = 'x';
    *q++ = '<';
    *q++ = '/';
    memset(q, 'n', namelen);
    q += namelen;
    *q++ = '>';
    *n_out = n;
    return p;
}
static void xml_init(void) {
    XML_T[XML_NT - 4].p = rep3("<a>", 20, "x", "</a>", &XML_T[XML_NT - 4].n);
    XML_T[XML_NT - 3].p = rep3("<a>", 21, "x", "</a>", &XML_T[XML_NT - 3].n);
    XML_T[XML_NT - 2].p = xml_named(256, &XML_T[XML_NT - 2].n);
    XML_T[XML_NT - 1].p = xml_named(257, &XML_T[XML_NT - 1].n);
}
static uint64_t xml_edit_total(void) { return esrc_total(&XML_SRC); }
static void xml_edit_eval(uint64_t idx, void *ctx) {
    (void)ctx;
    BEE_ITEM(idx);
    unsigned pol;
    int ti;
    size_t n;
    uint8_t *w = esrc_get(&XML_SRC, idx, &pol, &ti, &n);
    if (!w) return;
    V_COUNT("xml_edit_cases", 1);
    g_sample = (idx == 2 || idx == 4);
    run_xml(w, n, pol, XML_T[ti].aux);
    free(w);
}

/* =========================================================================================================
 *  JSON
 * ========================================================================================================= */
struct jstat {
    unsigned values, strings, maxdepth, depth;
};
static void json_walk(const struct aws_json_value *v, struct jstat *s);
static int json_on_member(const struct aws_byte_cursor *key, const struct aws_json_value *value, bool *cont, void *ud) {
    (void)cont;
    view_touch(*key); /* the key lives in the document's own copy: reading it validates the pointer under ASan */
    json_walk(value, (struct jstat *)ud);
    return AWS_OP_SUCCESS;
}
static int json_on_value(size_t index, const struct aws_json_value *value, bool *cont, void *ud) {
    (void)index;
    (void)cont;
    json_walk(value, (struct jstat *)ud);
    return AWS_OP_SUCCESS;
}
static void json_walk(const struct aws_json_value *v, struct jstat *s) {
    s->values++;
    s->depth++;
    if (s->depth > s->maxdepth) s->maxdepth = s->depth;
    if (aws_json_value_is_string(v)) {
        struct aws_byte_cursor c;
        memset(&c, 0, sizeof(c));
        if (aws_json_value_get_string(v, &c) == AWS_OP_SUCCESS) {
            s->strings++;
            view_touch(c);
        }
    } else if (aws_json_value_is_number(v)) {
        double d = 0;
        (void)aws_json_value_get_number(v, &d);
    } else if (aws_json_value_is_boolean(v)) {
        bool b = false;
        (void)aws_json_value_get_boolean(v, &b);
    } else if (aws_json_value_is_array(v)) {
        (void)aws_json_const_iterate_array(v, json_on_value, s);
    } else if (aws_json_value_is_object(v)) {
        (void)aws_json_const_iterate_object(v, json_on_member, s);
    }
    s->depth--;
}
static void json_once(const uint8_t *p, size_t n, const uint8_t *show) {
    aws_reset_error();
    struct aws_json_value *v = aws_json_value_new_from_string(A, aws_byte_cursor_from_array(p, n));
    V_COUNT("evaluations", 1);
    V_COUNT("json_runs", 1);
    if (!v) return; /* NULL is the failure channel */
    V_COUNT("nontrivial", 1); /* accepted: the whole text went through the recursive-descent parser */
    V_COUNT("json_accepted", 1);
    struct jstat s = {0, 0, 0, 0};
    json_walk(v, &s);
    V_COUNT("json_values", s.values);
    V_MAXSTAT("max_json_depth", s.maxdepth);
    struct aws_byte_buf out;
    aws_byte_buf_init(&out, A, 16);
    aws_reset_error();
    int rc = aws_byte_buf_append_json_string(v, &out);
    CHANNEL(rc, "channel:aws_byte_buf_append_json_string", show, n);
    aws_byte_buf_clean_up(&out);
    if (g_sample) v_sample("json %s -> accepted, %u values, depth %u", show_in(show, n), s.values, s.maxdepth);
    aws_json_value_destroy(v);
}
static void run_json(const uint8_t *bytes, size_t n) {
    replay_note("json", bytes, n, "");
    struct blk b = blk_new(bytes, n);
    json_once(b.p, n, bytes);
    blk_free(&b);
    if (n == 0) json_once(NULL, 0, bytes);
}
static const uint8_t JSON_ALPHA[18] = {'{', '}', '[', ']', '"', '\\', ':', ',', '0', '1', '-', '.', 'e', 't', 'n', 'u', 'a', ' '};
static unsigned json_strlen_max(void) { return v_thorough() ? 6 : 5; }
static uint64_t json_str_total(void) { return bee_strings_upto(18, json_strlen_max()); }
static void json_str_eval(uint64_t idx, void *ctx) {
    (void)ctx;
    BEE_ITEM(idx);
    uint8_t s[8];
    size_t n = bee_string_at(idx, JSON_ALPHA, 18, json_strlen_max(), s);
    run_json(s, n);
}
static struct tmpl JSON_T[] = {
    T("object", "{\"a\":1}", 2, 2, 0),
    T("array", "[1,2,3]", 2, 2, 0),
    T("mixed", "{\"a\":{\"b\":[1,{\"c\":null}]}}", 1, 2, 0),
    T("escapes", "\"\\u00e9\\n\\t\\\\\\\"\\/\"", 1, 2, 0),
    T("surrogate-pair", "\"\\ud83d\\ude00\"", 2, 2, 0),
    T("raw-utf8-emoji", "\"\xf0\x9f\x98\x80\"", 2, 2, 0),
    T("lone-high", "\"\\ud83d\"", 2, 2, 0),
    T("lone-low", "\"\\ude00\"", 2, 2, 0),
    T("high-then-bmp", "\"\\ud83d\\u0041\"", 1, 2, 0),
    T("number", "-1.5e+10", 2, 2, 0),
    T("huge-exponent", "1e999", 2, 2, 0),
    T("long-integer", "123456789012345678901234567890", 1, 2, 0),
    T("literals", "[true,false,null]", 1, 2, 0),
    T("whitespace", " { \"a\" : [ ] , \"b\" : { } } ", 1, 2, 0),
    T("duplicate-key", "{\"a\":1,\"a\":2}", 1, 2, 0),
    T("nul-escape", "\"a\\u0000b\"", 2, 2, 0),
    T("bom", "\xef\xbb\xbf{}", 2, 2, 0),
    T("nest-10", "[[[[[[[[[[1]]]]]]]]]]", 1, 2, 0),
    {"nest-array-1000", NULL, 0, 0, 1, 0},
    {"nest-array-1001", NULL, 0, 0, 1, 0},
    {"nest-object-1000", NULL, 0, 0, 0, 0},
    {"nest-object-1001", NULL, 0, 0, 0, 0},
};
#define JSON_NT ((int)(sizeof(JSON_T) / sizeof(JSON_T[0])))
static struct esrc JSON_SRC = {JSON_T, JSON_NT, JSON_ALPHA, 18, 1};
static void json_init(void) {
    JSON_T[JSON_NT - 4].p = rep3("[", 1000, "", "]", &JSON_T[JSON_NT - 4].n);
    JSON_T[JSON_NT - 3].p = rep3("[", 1001, "", "]", &JSON_T[JSON_NT - 3].n);
    JSON_T[JSON_NT - 2].p = rep3("{\"a\":", 1000, "1", "}", &JSON_T[JSON_NT - 2].n);
    JSON_T[JSON_NT - 1].p = rep3("{\"a\":", 1001, "1", "}", &JSON_T[JSON_NT - 1].n);
}
static uint64_t json_edit_total(void) { return esrc_total(&JSON_SRC); }
static void json_edit_eval(uint64_t idx, void *ctx) {
    (void)ctx;
    BEE_ITEM(idx);
    unsigned low;
    int ti;
    size_t n;
    uint8_t *w = esrc_get(&JSON_SRC, idx, &low, &ti, &n);
    if (!w) return;
    V_COUNT("json_edit_cases", 1);
    g_sample = (idx == 0);
    run_json(w, n);
    free(w);
}

/* =========================================================================================================
 *  CBOR decoder
 * ========================================================================================================= */
enum { CO_PEEK, CO_UINT, CO_NEGINT, CO_FLOAT, CO_BOOL, CO_TEXT, CO_BYTES, CO_MAP, CO_ARRAY, CO_TAG, CO_WHOLE, CO_SINGLE, CO_N };
static const char *co_name[CO_N] = {"peek_type", "pop_unsigned", "pop_negint", "pop_float", "pop_boolean", "pop_text", "pop_bytes",
                                    "pop_map_start", "pop_array_start", "pop_tag", "consume_whole", "consume_single"};
static int cbor_op(struct aws_cbor_decoder *d, int op, struct aws_byte_cursor *view, int *has_view, enum aws_cbor_type *type) {
    uint64_t u = 0;
    double f = 0;
    bool b = false;
    *has_view = 0;
    switch (op) {
        case CO_PEEK: return aws_cbor_decoder_peek_type(d, type);
        case CO_UINT: return aws_cbor_decoder_pop_next_unsigned_int_val(d, &u);
        case CO_NEGINT: return aws_cbor_decoder_pop_next_negative_int_val(d, &u);
        case CO_FLOAT: return aws_cbor_decoder_pop_next_float_val(d, &f);
        case CO_BOOL: return aws_cbor_decoder_pop_next_boolean_val(d, &b);
        case CO_TEXT: *has_view = 1; return aws_cbor_decoder_pop_next_text_val(d, view);
        case CO_BYTES: *has_view = 1; return aws_cbor_decoder_pop_next_bytes_val(d, view);
        case CO_MAP: return aws_cbor_decoder_pop_next_map_start(d, &u);
        case CO_ARRAY: return aws_cbor_decoder_pop_next_array_start(d, &u);
        case CO_TAG: return aws_cbor_decoder_pop_next_tag_val(d, &u);
        case CO_WHOLE: return aws_cbor_decoder_consume_next_whole_data_item(d);
        default: return aws_cbor_decoder_consume_next_single_element(d);
    }
}
struct cstat {
    unsigned ok_ops, elements, views;
};
/* one call + oracle; returns rc */
static int cbor_step(struct aws_cbor_decoder *d, int op, const uint8_t *p, size_t n, const uint8_t *show, struct cstat *st, enum aws_cbor_type *type) {
    struct aws_byte_cursor view;
    memset(&view, 0, sizeof(view));
    int has_view = 0;
    aws_reset_error();
    int rc = cbor_op(d, op, &view, &has_view, type);
    if (!(rc == AWS_OP_SUCCESS || (rc == AWS_OP_ERR && aws_last_error() != 0)))
        bee_fail("channel:cbor", "%s returned %d with aws_last_error()=%d; input (%zu bytes) %s", co_name[op], rc, aws_last_error(), n, show_in(show, n));
    size_t rem = aws_cbor_decoder_get_remaining_length(d);
    BEE_CHECK(rem <= n, "cbor-remaining-length", "after %s remaining length %zu exceeds the %zu-byte input %s", co_name[op], rem, n, show_in(show, n));
    if (rc == AWS_OP_SUCCESS) {
        st->ok_ops++;
        if (has_view) {
            st->views++;
            if (!view_inside(view, p, n))
                bee_fail("view:cbor-text-or-bytes", "%s handed back {offset %td, len %zu} outside the %zu-byte input %s", co_name[op],
                         view.ptr && p ? view.ptr - p : (ptrdiff_t)0, view.len, n, show_in(show, n));
            else
                view_touch(view);
        }
    }
    return rc;
}
/* walk the rest of the stream the way the header describes: peek, then the matching typed pop */
static void cbor_drain_typed(struct aws_cbor_decoder *d, const uint8_t *p, size_t n, const uint8_t *show, struct cstat *st) {
    for (size_t it = 0; it < n + 2; ++it) {
        enum aws_cbor_type t = AWS_CBOR_TYPE_UNKNOWN;
        if (cbor_step(d, CO_PEEK, p, n, show, st, &t)) return;
        int op;
        switch (t) {
            case AWS_CBOR_TYPE_UINT: op = CO_UINT; break;
            case AWS_CBOR_TYPE_NEGINT: op = CO_NEGINT; break;
            case AWS_CBOR_TYPE_FLOAT: op = CO_FLOAT; break;
            case AWS_CBOR_TYPE_BOOL: op = CO_BOOL; break;
            case AWS_CBOR_TYPE_TEXT: op = CO_TEXT; break;
            case AWS_CBOR_TYPE_BYTES: op = CO_BYTES; break;
            case AWS_CBOR_TYPE_MAP_START: op = CO_MAP; break;
            case AWS_CBOR_TYPE_ARRAY_START: op = CO_ARRAY; break;
            case AWS_CBOR_TYPE_TAG: op = CO_TAG; break;
            default: op = CO_SINGLE; break;
        }
        if (cbor_step(d, op, p, n, show, st, &t)) return;
        st->elements++;
    }
}
static void cbor_once(const uint8_t *p, size_t n, const uint8_t *show) {
    struct cstat st = {0, 0, 0};
    struct aws_byte_cursor src = aws_byte_cursor_from_array(p, n);
    enum aws_cbor_type t;
    /* every operation as the first call on a fresh decoder, then the typed walk over what is left */
    for (int op = 0; op < CO_N; ++op) {
        struct aws_cbor_decoder *d = aws_cbor_decoder_new(A, src);
        (void)cbor_step(d, op, p, n, show, &st, &t);
        cbor_drain_typed(d, p, n, show, &st);
        aws_cbor_decoder_destroy(d);
    }
    /* whole-item consumption to the end of the input; single-element consumption to the end of the input */
    for (int op = CO_WHOLE; op <= CO_SINGLE; ++op) {
        struct aws_cbor_decoder *d = aws_cbor_decoder_new(A, src);
        for (size_t it = 0; it < n + 2; ++it)
            if (cbor_step(d, op, p, n, show, &st, &t)) break;
        /* sticky error: one more call of each kind after the failure */
        (void)cbor_step(d, CO_PEEK, p, n, show, &st, &t);
        (void)cbor_step(d, CO_WHOLE, p, n, show, &st, &t);
        aws_cbor_decoder_destroy(d);
    }
    V_COUNT("evaluations", 1);
    V_COUNT("cbor_runs", 1);
    if (st.ok_ops) V_COUNT("nontrivial", 1); /* at least one element was decoded successfully */
    V_COUNT("cbor_ok_calls", st.ok_ops);
    V_COUNT("cbor_views_checked", st.views);
    V_MAXSTAT("max_cbor_elements_walked", st.elements);
    if (g_sample) v_sample("cbor %s -> %u successful calls, %u text/bytes views inside the input", show_in(show, n), st.ok_ops, st.views);
}
static void run_cbor(const uint8_t *bytes, size_t n) {
    replay_note("cbor", bytes, n, "");
    struct blk b = blk_new(bytes, n);
    cbor_once(b.p, n, bytes);
    blk_free(&b);
    if (n == 0) cbor_once(NULL, 0, bytes);
}
/* followers: the design's nine (argument-width boundaries, indefinite, break) plus one head byte per major type
 * so that definite strings / arrays / maps / tags complete inside four bytes */
static const uint8_t CBOR_FOLLOW[16] = {0x00, 0x01, 0x17, 0x18, 0x19, 0x1a, 0x1b, 0x7f, 0xff, 0x41, 0x61, 0x81, 0xa1, 0xc0, 0xf5, 0x9f};
static unsigned cbor_len_max(void) { return v_thorough() ? 5 : 4; }
static uint64_t cbor_str_total(void) { return 1 + 256 * bee_strings_upto(16, cbor_len_max() - 1); }
static void cbor_str_eval(uint64_t idx, void *ctx) {
    (void)ctx;
    BEE_ITEM(idx);
    uint8_t s[8];
    size_t n = 0;
    if (idx > 0) {
        uint64_t x = idx - 1;
        uint64_t tail = x / 256; /* tails ordered by length, first byte is the low digit */
        s[0] = (uint8_t)(x % 256);
        n = 1 + bee_string_at(tail, CBOR_FOLLOW, 16, cbor_len_max() - 1, s + 1);
    }
    run_cbor(s, n);
}
/* every head byte x every truncation: the first byte decides how many argument bytes follow (0, 1, 2, 4 or 8); each of the 256
 * first bytes is followed by 0..9 bytes of three fill patterns, in an exact-size block, so that a decoder that reads more
 * argument bytes than it has checked for reads past the input (added after a seeded change in libcbor's 8-byte-tag case) */
static uint64_t cbor_head_total(void) { return 256ull * 10 * 3; }
static void cbor_head_eval(uint64_t idx, void *ctx) {
    (void)ctx;
    BEE_ITEM(idx);
    static const uint8_t fill[3] = {0x00, 0xff, 0x01};
    uint8_t s[12];
    unsigned pat = (unsigned)(idx % 3), len = (unsigned)(idx / 3 % 10);
    s[0] = (uint8_t)(idx / 30);
    memset(s + 1, fill[pat], len);
    V_COUNT("cbor_head_cases", 1);
    run_cbor(s, 1 + len);
}
static struct tmpl CBOR_T[] = {
    T("indef-map", "\xbf\x63\x46\x75\x6e\xf5\x63\x41\x6d\x74\x21\xff", 2, 2, 0),
    T("indef-text-chunks", "\x7f\x61\x61\x62\x62\x63\xff", 2, 2, 0),
    T("indef-bytes-chunks", "\x5f\x41\x00\x42\x01\x02\xff", 2, 2, 0),
    T("array-of-maps", "\x82\xa1\x61\x61\x01\xa1\x61\x62\x9f\x01\x02\xff", 2, 2, 0),
    T("tags", "\xc1\xc2\xd8\x20\x61\x61", 2, 2, 0),
    T("floats", "\x83\xf9\x3c\x00\xfa\x3f\x80\x00\x00\xfb\x3f\xf0\x00\x00\x00\x00\x00\x00", 1, 2, 0),
    T("array-2^64-1", "\x9b\xff\xff\xff\xff\xff\xff\xff\xff\x00\x00", 2, 2, 0),
    T("map-2^64-1", "\xbb\xff\xff\xff\xff\xff\xff\xff\xff\x00\x00", 2, 2, 0),
    T("text-2^64-1", "\x7b\xff\xff\xff\xff\xff\xff\xff\xff\x61", 2, 2, 0),
    T("bytes-2^32", "\x5a\xff\xff\xff\xff\x00", 2, 2, 0),
    T("text-24", "\x78\x18" "abcdefghijklmnopqrstuvwx", 1, 1, 0),
    T("ints", "\x18\xff\x19\x01\x00\x1a\x00\x01\x00\x00\x1b\x00\x00\x00\x01\x00\x00\x00\x00\x38\xff\x3b\xff\xff\xff\xff\xff\xff\xff\xff", 1, 1, 0),
    T("nest-definite-8", "\x81\x81\x81\x81\x81\x81\x81\x81\x00", 2, 2, 0),
    T("nest-indefinite-8", "\x9f\x9f\x9f\x9f\x9f\x9f\x9f\x9f\x00\xff\xff\xff\xff\xff\xff\xff\xff", 1, 2, 0),
    {"nest-definite-64", NULL, 0, 1, 1, 0},
    {"nest-indefinite-64", NULL, 0, 1, 1, 0},
    {"nest-definite-1024", NULL, 0, 0, 0, 0},
    {"nest-indefinite-1024", NULL, 0, 0, 0, 0},
    {"tag-chain-1024", NULL, 0, 0, 0, 0},
    {"nest-definite-4096", NULL, 0, -1, 0, 0},
    {"nest-indefinite-4096", NULL, 0, -1, 0, 0},
    {"tag-chain-4096", NULL, 0, -1, 0, 0},
};
#define CBOR_NT ((int)(sizeof(CBOR_T) / sizeof(CBOR_T[0])))
static struct esrc CBOR_SRC = {CBOR_T, CBOR_NT, CBOR_FOLLOW, 16, 1};
static void cbor_init(void) {
    CBOR_T[CBOR_NT - 8].p = rep3("\x81", 64, "\x00", "", &CBOR_T[CBOR_NT - 8].n);
    CBOR_T[CBOR_NT - 7].p = rep3("\x9f", 64, "\x00", "\xff", &CBOR_T[CBOR_NT - 7].n);
    CBOR_T[CBOR_NT - 6].p = rep3("\x81", 1024, "\x01", "", &CBOR_T[CBOR_NT - 6].n);
    CBOR_T[CBOR_NT - 5].p = rep3("\x9f", 1024, "\x01", "\xff", &CBOR_T[CBOR_NT - 5].n);
    CBOR_T[CBOR_NT - 4].p = rep3("\xc1", 1024, "\x01", "", &CBOR_T[CBOR_NT - 4].n);
    CBOR_T[CBOR_NT - 3].p = rep3("\x81", 4096, "\x01", "", &CBOR_T[CBOR_NT - 3].n);
    CBOR_T[CBOR_NT - 2].p = rep3("\x9f", 4096, "\x01", "\xff", &CBOR_T[CBOR_NT - 2].n);
    CBOR_T[CBOR_NT - 1].p = rep3("\xc1", 4096, "\x01", "", &CBOR_T[CBOR_NT - 1].n);
}
static uint64_t cbor_edit_total(void) { return esrc_total(&CBOR_SRC); }
static void cbor_edit_eval(uint64_t idx, void *ctx) {
    (void)ctx;
    BEE_ITEM(idx);
    unsigned low;
    int ti;
    size_t n;
    uint8_t *w = esrc_get(&CBOR_SRC, idx, &low, &ti, &n);
    if (!w) return;
    V_COUNT("cbor_edit_cases", 1);
    g_sample = (idx == 0);
    run_cbor(w, n);
    free(w);
}

/* deep nesting: CBOR documents no nesting limit, so nesting is bounded only by the input length.  One case per
 * (kind, depth = 2^10 … 2^18): whole-item consumption and the typed walk, on the default 8 MiB main-thread stack. */
static const char *deep_kind[4] = {"definite-array", "tag-chain", "indefinite-array", "single-pair-map"};
static uint64_t cbor_deep_total(void) { return 4 * 9; }
static void cbor_deep_eval(uint64_t idx, void *ctx) {
    (void)ctx;
    BEE_ITEM(idx);
    unsigned kind = (unsigned)(idx % 4);
    size_t depth = (size_t)1 << (10 + idx / 4);
    size_t n = 0;
    uint8_t *w = NULL;
    switch (kind) {
        case 0: w = rep3("\x81", depth, "\x01", "", &n); break;
        case 1: w = rep3("\xc1", depth, "\x01", "", &n); break;
        case 2: w = rep3("\x9f", depth, "\x01", "\xff", &n); break;
        default: w = rep3("\xa1\x01", depth, "\x01", "", &n); break;
    }
    if (v_replay_token) v_out("INFO case %s: parser=cbor %s nested %zu deep, input %zu bytes", v_replay_token, deep_kind[kind], depth, n);
    struct blk b = blk_new(w, n);
    struct cstat st = {0, 0, 0};
    enum aws_cbor_type t;
    struct aws_byte_cursor src = aws_byte_cursor_from_array(b.p, n);
    struct aws_cbor_decoder *d = aws_cbor_decoder_new(A, src);
    int rc = cbor_step(d, CO_WHOLE, b.p, n, w, &st, &t);
    size_t rem = aws_cbor_decoder_get_remaining_length(d);
    aws_cbor_decoder_destroy(d);
    d = aws_cbor_decoder_new(A, src);
    cbor_drain_typed(d, b.p, n, w, &st);
    aws_cbor_decoder_destroy(d);
    V_COUNT("evaluations", 1);
    V_COUNT("cbor_deep_cases", 1);
    V_MAXSTAT("max_cbor_nesting_consumed", rc == AWS_OP_SUCCESS && rem == 0 ? depth : 0);
    if (rc == AWS_OP_SUCCESS) V_COUNT("nontrivial", 1);
    blk_free(&b);
    free(w);
}

/* deep XML: nesting far beyond the depth limit, in three shapes, driven by the always-descend policy.  The parse has to end
 * (rejected at the limit) without the callback ever being nested deeper than the limit - a parser whose depth count gets out
 * of step with its recursion accepts such documents and, deep enough, dies of stack exhaustion (added after a seeded change
 * that removed two stack entries per finished descent) */
static const char *xml_deep_kind[3] = {"<a> nested in <a>", "a closed sibling <x></x> in front of every nested <a>", "a closed sibling behind every nested <a>"};
static uint64_t xml_deep_total(void) { return 3 * 4 * 2; }
static void xml_deep_eval(uint64_t idx, void *ctx) {
    (void)ctx;
    BEE_ITEM(idx);
    static const size_t depths[4] = {25, 64, 4096, 200000};
    unsigned kind = (unsigned)(idx % 3), md = (unsigned)(idx / 3 % 2);
    size_t depth = depths[idx / 6];
    size_t cap = depth * 24 + 16, n = 0;
    uint8_t *w = (uint8_t *)malloc(cap);
    memcpy(w + n, "<r>", 3), n += 3; /* one root around everything */
    for (size_t i = 0; i < depth; ++i) {
        if (kind == 1) memcpy(w + n, "<x></x>", 7), n += 7;
        memcpy(w + n, "<a>", 3), n += 3;
    }
    w[n++] = 't';
    for (size_t i = 0; i < depth; ++i) {
        memcpy(w + n, "</a>", 4), n += 4;
        if (kind == 2) memcpy(w + n, "<x></x>", 7), n += 7;
    }
    memcpy(w + n, "</r>", 4), n += 4;
    if (v_replay_token) v_out("INFO case %s: parser=xml %s, %zu levels, input %zu bytes, max_depth %s", v_replay_token, xml_deep_kind[kind], depth, n, md ? "50" : "default (20)");
    V_COUNT("xml_deep_cases", 1);
    struct blk b = blk_new(w, n);
    xml_once(b.p, n, w, XP_DESCEND, md ? 50 : 0);
    blk_free(&b);
    free(w);
}

/* deep JSON: nesting far beyond cJSON's 1000-level limit in six shapes, among them an empty / one-element container in front
 * of every nested one.  The parse has to end (refused at the limit) - a parser whose depth count gets out of step with its
 * recursion accepts such documents and, deep enough, dies of stack exhaustion (added after a seeded change in which every
 * empty array lowered the count by two) */
static const char *json_deep_kind[6] = {"[ nested in [",           "{\"a\": nested in {\"a\":", "an empty array in front of every nested array: [[],[[],[ ...",
                                        "an empty object member in front of every nested object", "[1, in front of every nested array", "alternating [ and {\"a\":"};
static uint64_t json_deep_total(void) { return 6 * 4; }
static void json_deep_eval(uint64_t idx, void *ctx) {
    (void)ctx;
    BEE_ITEM(idx);
    static const size_t depths[4] = {999, 1001, 20000, 200000};
    unsigned kind = (unsigned)(idx % 6);
    size_t depth = depths[idx / 6];
    size_t cap = depth * 16 + 16, n = 0;
    uint8_t *w = (uint8_t *)malloc(cap);
    char *close = (char *)malloc(depth + 1);
    for (size_t i = 0; i < depth; ++i) {
        int obj = kind == 1 || kind == 3 || (kind == 5 && (i & 1));
        if (kind == 2) memcpy(w + n, "[[],", 4), n += 4;
        else if (kind == 3) memcpy(w + n, "{\"e\":{},\"a\":", 12), n += 12;
        else if (kind == 4) memcpy(w + n, "[1,", 3), n += 3;
        else if (obj) memcpy(w + n, "{\"a\":", 5), n += 5;
        else w[n++] = '[';
        close[i] = obj ? '}' : ']';
    }
    w[n++] = '0';
    for (size_t i = depth; i-- > 0;) w[n++] = (uint8_t)close[i];
    if (v_replay_token) v_out("INFO case %s: parser=json %s, %zu levels, input %zu bytes", v_replay_token, json_deep_kind[kind], depth, n);
    V_COUNT("json_deep_cases", 1);
    struct blk b = blk_new(w, n);
    json_once(b.p, n, w);
    blk_free(&b);
    free(w);
    free(close);
}

/* second life of the library: aws_common_library_clean_up followed by aws_common_library_init, then every decoder family once
 * more on a few inputs (well-formed, truncated, empty).  Module-level state that is set up at init has to be set up again
 * (added after a seeded change whose JSON module kept its "initialised" flag across the clean-up and then ran without an
 * allocator) */
static uint64_t relife_total(void) { return 12; }
static void relife_eval(uint64_t idx, void *ctx) {
    (void)ctx;
    BEE_ITEM(idx);
    static const char *const inputs[6] = {"{\"a\":[1,2,{\"b\":null}]}", "[1,", "", "\"x\"", "<r a=\"1\"><c>t</c></r>", "<r><c>"};
    aws_common_library_clean_up();
    aws_common_library_init(A);
    if (idx >= 6) { /* and a third life */
        aws_common_library_clean_up();
        aws_common_library_init(A);
    }
    const char *in = inputs[idx % 6];
    size_t n = strlen(in);
    V_COUNT("relife_cases", 1);
    struct blk b = blk_new((const uint8_t *)in, n);
    if (idx % 6 < 4) json_once(b.p, n, (const uint8_t *)in);
    else xml_once(b.p, n, (const uint8_t *)in, XP_DESCEND, 0);
    blk_free(&b);
}

/* =========================================================================================================
 *  URI, query string, percent-decoding
 * ========================================================================================================= */
static unsigned query_iterate(struct aws_byte_cursor q, const uint8_t *base, size_t blen, const uint8_t *show, size_t n, const char *what) {
    struct aws_uri_param prm;
    memset(&prm, 0, sizeof(prm));
    unsigned cnt = 0;
    while (aws_query_string_next_param(q, &prm)) {
        ++cnt;
        VIEW_CHECK(prm.key, base, blen, "view:query-param-key", show, n);
        VIEW_CHECK(prm.value, base, blen, "view:query-param-value", show, n);
        if (cnt > q.len + 2) {
            bee_fail("query-iteration-unbounded", "%s: more than %zu params from a %zu-byte query string; input %s", what, q.len + 2, q.len, show_in(show, n));
            break;
        }
    }
    return cnt;
}
static void uri_once(const uint8_t *p, size_t n, const uint8_t *show) {
    struct aws_byte_cursor in = aws_byte_cursor_from_array(p, n);
    V_COUNT("evaluations", 1);
    V_COUNT("uri_runs", 1);
    int nontrivial = 0;
    /* (1) URI parse */
    struct aws_uri *u = (struct aws_uri *)malloc(sizeof(*u));
    memset(u, 0xA5, sizeof(*u));
    aws_reset_error();
    int rc = aws_uri_init_parse(u, A, &in);
    CHANNEL(rc, "channel:aws_uri_init_parse", show, n);
    if (rc == AWS_OP_SUCCESS) {
        nontrivial = 1;
        V_COUNT("uri_accepted", 1);
        const uint8_t *cb = u->uri_str.buffer;
        size_t cn = u->uri_str.len;
        BEE_CHECK(cn == n && (n == 0 || memcmp(cb, show, n) == 0), "uri-copy", "uri_str is not a copy of the input %s", show_in(show, n));
        VIEW_CHECK(*aws_uri_scheme(u), cb, cn, "view:uri-scheme", show, n);
        VIEW_CHECK(*aws_uri_authority(u), cb, cn, "view:uri-authority", show, n);
        VIEW_CHECK(u->userinfo, cb, cn, "view:uri-userinfo", show, n);
        VIEW_CHECK(u->user, cb, cn, "view:uri-user", show, n);
        VIEW_CHECK(u->password, cb, cn, "view:uri-password", show, n);
        VIEW_CHECK(*aws_uri_host_name(u), cb, cn, "view:uri-host-name", show, n);
        VIEW_CHECK(*aws_uri_path(u), cb, cn, "view:uri-path", show, n);
        VIEW_CHECK(*aws_uri_query_string(u), cb, cn, "view:uri-query-string", show, n);
        VIEW_CHECK(*aws_uri_path_and_query(u), cb, cn, "view:uri-path-and-query", show, n);
        (void)aws_uri_port(u);
        if (u->query_string.len) V_COUNT("uri_with_query", 1);
        if (u->port) V_COUNT("uri_with_port", 1);
        if (u->userinfo.len) V_COUNT("uri_with_userinfo", 1);
        /* iteration over the parsed query string, both APIs */
        struct aws_uri_param prm;
        memset(&prm, 0, sizeof(prm));
        unsigned cnt = 0;
        while (aws_uri_query_string_next_param(u, &prm)) {
            ++cnt;
            VIEW_CHECK(prm.key, cb, cn, "view:uri-param-key", show, n);
            VIEW_CHECK(prm.value, cb, cn, "view:uri-param-value", show, n);
            if (cnt > n + 2) {
                bee_fail("query-iteration-unbounded", "aws_uri_query_string_next_param: more than %zu params; input %s", n + 2, show_in(show, n));
                break;
            }
        }
        struct aws_array_list lst;
        aws_array_list_init_dynamic(&lst, A, 2, sizeof(struct aws_uri_param));
        aws_reset_error();
        int rc2 = aws_uri_query_string_params(u, &lst);
        CHANNEL(rc2, "channel:aws_uri_query_string_params", show, n);
        if (rc2 == AWS_OP_SUCCESS) {
            for (size_t i = 0; i < aws_array_list_length(&lst); ++i) {
                struct aws_uri_param e;
                aws_array_list_get_at(&lst, &e, i);
                VIEW_CHECK(e.key, cb, cn, "view:uri-param-key", show, n);
                VIEW_CHECK(e.value, cb, cn, "view:uri-param-value", show, n);
            }
            V_COUNT("uri_query_params", aws_array_list_length(&lst));
        }
        aws_array_list_clean_up(&lst);
        if (g_sample) v_sample("uri %s -> scheme %zu authority %zu host %zu port %u path %zu query %zu bytes, %u params", show_in(show, n), u->scheme.len, u->authority.len, u->host_name.len, u->port, u->path.len, u->query_string.len, cnt);
        aws_uri_clean_up(u);
    }
    free(u);
    /* (2) the input as a bare query string */
    unsigned qn = query_iterate(in, p, n, show, n, "aws_query_string_next_param");
    if (qn) {
        nontrivial = 1;
        V_COUNT("query_nonempty", 1);
    }
    /* (3) percent-decoding into a growing buffer: empty, and one that already holds 3 bytes in 5 */
    for (int start = 0; start < 2; ++start) {
        struct aws_byte_buf out;
        aws_byte_buf_init(&out, A, start ? 5 : 0);
        if (start) {
            struct aws_byte_cursor pre = aws_byte_cursor_from_c_str("xyz");
            aws_byte_buf_append(&out, &pre);
        }
        size_t len0 = out.len;
        aws_reset_error();
        int rc3 = aws_byte_buf_append_decoding_uri(&out, &in);
        CHANNEL(rc3, "channel:aws_byte_buf_append_decoding_uri", show, n);
        BEE_CHECK(out.len <= out.capacity, "decode-uri-length", "len %zu exceeds capacity %zu after decoding %zu bytes onto %zu; input %s", out.len, out.capacity, n, len0, show_in(show, n));
        if (rc3 == AWS_OP_SUCCESS) {
            view_touch(aws_byte_cursor_from_buf(&out));
            if (out.len < len0 + n) {
                nontrivial = 1; /* at least one %XX was decoded */
                if (!start) V_COUNT("percent_decoded", 1);
            }
        }
        aws_byte_buf_clean_up(&out);
    }
    if (nontrivial) V_COUNT("nontrivial", 1);
}
static void run_uri(const uint8_t *bytes, size_t n) {
    replay_note("uri", bytes, n, "");
    struct blk b = blk_new(bytes, n);
    uri_once(b.p, n, bytes);
    blk_free(&b);
    if (n == 0) uri_once(NULL, 0, bytes);
}
static const uint8_t URI_ALPHA[13] = {'a', ':', '/', '?', '@', '[', ']', '%', '2', 'G', '&', '=', '#'};
static unsigned uri_strlen_max(void) { return v_thorough() ? 7 : 6; }
static uint64_t uri_str_total(void) { return bee_strings_upto(13, uri_strlen_max()); }
static void uri_str_eval(uint64_t idx, void *ctx) {
    (void)ctx;
    BEE_ITEM(idx);
    uint8_t s[8];
    size_t n = bee_string_at(idx, URI_ALPHA, 13, uri_strlen_max(), s);
    run_uri(s, n);
}
static struct tmpl URI_T[] = {
    T("full", "a://a:a@[a:2]:22/a%2G?a=2&a=%2a#a", 1, 2, 0),
    T("short", "a://a/a?a", 2, 2, 0),
    T("port-max", "a:4294967295", 2, 2, 0),
    T("port-over", "a:4294967296", 2, 2, 0),
    T("ipv6-port", "[::]:2", 2, 2, 0),
    T("userinfo-query", "a@a:2?a=a&&=a&a", 2, 2, 0),
    T("query-only", "?a=2&%2G=&", 2, 2, 0),
    T("percent", "%2a%2%%G2", 2, 2, 0),
};
#define URI_NT ((int)(sizeof(URI_T) / sizeof(URI_T[0])))
static struct esrc URI_SRC = {URI_T, URI_NT, URI_ALPHA, 13, 1};
static uint64_t uri_edit_total(void) { return esrc_total(&URI_SRC); }
static void uri_edit_eval(uint64_t idx, void *ctx) {
    (void)ctx;
    BEE_ITEM(idx);
    unsigned low;
    int ti;
    size_t n;
    uint8_t *w = esrc_get(&URI_SRC, idx, &low, &ti, &n);
    if (!w) return;
    V_COUNT("uri_edit_cases", 1);
    g_sample = (idx == 0);
    run_uri(w, n);
    free(w);
}

/* =========================================================================================================
 *  date-time
 * ========================================================================================================= */
static const char *fmt_name[4] = {"RFC822", "ISO_8601", "ISO_8601_BASIC", "AUTO_DETECT"};
static void date_once(const uint8_t *p, size_t n, const uint8_t *show) {
    unsigned accepted = 0;
    for (int fmt = 0; fmt < 4; ++fmt) {
        for (int api = 0; api < 2; ++api) {
            struct aws_date_time *dt = (struct aws_date_time *)malloc(sizeof(*dt)); /* exact size: a write past tz[]…utc_assumed is caught */
            memset(dt, 0xA5, sizeof(*dt));
            aws_reset_error();
            int rc;
            if (api == 0) {
                struct aws_byte_cursor c = aws_byte_cursor_from_array(p, n);
                rc = aws_date_time_init_from_str_cursor(dt, &c, (enum aws_date_format)fmt);
            } else {
                struct aws_byte_buf b;
                memset(&b, 0, sizeof(b));
                b.buffer = (uint8_t *)p;
                b.len = n;
                b.capacity = n;
                rc = aws_date_time_init_from_str(dt, &b, (enum aws_date_format)fmt);
            }
            if (!(rc == AWS_OP_SUCCESS || (rc == AWS_OP_ERR && aws_last_error() != 0)))
                bee_fail("channel:aws_date_time_init_from_str", "format %s api %d returned %d with aws_last_error()=%d; input (%zu bytes) %s", fmt_name[fmt], api, rc, aws_last_error(), n, show_in(show, n));
            if (n > AWS_DATE_TIME_STR_MAX_LEN && rc == AWS_OP_ERR && api == 0) V_COUNT("date_over_100_bytes_refused", 1); /* beyond the documented limit: only safety is demanded */
            if (rc == AWS_OP_SUCCESS) {
                ++accepted;
                if (api == 0) {
                    if (fmt == 0) V_COUNT("date_accepted_rfc822", 1);
                    if (fmt == 1) V_COUNT("date_accepted_iso8601", 1);
                    if (fmt == 2) V_COUNT("date_accepted_iso8601_basic", 1);
                    if (fmt == 3) V_COUNT("date_accepted_auto", 1);
                }
            }
            free(dt);
        }
    }
    V_COUNT("evaluations", 1);
    V_COUNT("date_runs", 1);
    V_COUNT("date_parser_calls", 8);
    if (accepted) V_COUNT("nontrivial", 1); /* accepted under at least one format selector */
    if (g_sample) v_sample("date %s -> accepted by %u of the 8 (format selector x entry point) calls", show_in(show, n), accepted);
}
static void run_date(const uint8_t *bytes, size_t n) {
    replay_note("date", bytes, n, "");
    struct blk b = blk_new(bytes, n);
    date_once(b.p, n, bytes);
    blk_free(&b);
    if (n == 0) date_once(NULL, 0, bytes);
}
static const uint8_t DATE_ALPHA[17] = {'0', '9', '-', ':', 'T', 'Z', 'z', '+', '.', ',', ' ', 'J', 'a', 'G', 'M', 'U', 'n'};
static unsigned date_strlen_max(void) { return v_thorough() ? 6 : 5; }
static uint64_t date_str_total(void) { return bee_strings_upto(17, date_strlen_max()); }
static void date_str_eval(uint64_t idx, void *ctx) {
    (void)ctx;
    BEE_ITEM(idx);
    uint8_t s[8];
    size_t n = bee_string_at(idx, DATE_ALPHA, 17, date_strlen_max(), s);
    run_date(s, n);
}
static struct tmpl DATE_T[] = {
    T("iso-z", "2023-11-14T12:34:56Z", 2, 2, 0),
    T("iso-frac", "2023-11-14T12:34:56.789Z", 1, 2, 0),
    T("iso-comma-frac", "2023-11-14T12:34:56,7Z", 1, 2, 0),
    T("iso-offset", "2023-11-14T12:34:56+01:00", 2, 2, 0),
    T("iso-neg-offset-nocolon", "2023-11-14T12:34:56-0730", 1, 2, 0),
    T("iso-space-lower-z", "2023-11-14 12:34:56z", 1, 2, 0),
    T("iso-date-only", "2023-11-14", 2, 2, 0),
    T("iso-long-frac", "2023-11-14t12:34:56.123456789+00:00", 1, 2, 0),
    T("basic-z", "20231114T123456Z", 2, 2, 0),
    T("basic-date-only", "20231114", 2, 2, 0),
    T("basic-frac-offset", "20231114T123456.5+0100", 1, 2, 0),
    T("basic-neg-offset-colon", "20231114T123456-01:30", 1, 2, 0),
    T("rfc822-gmt", "Tue, 14 Nov 2023 12:34:56 GMT", 2, 2, 0),
    T("rfc822-utc", "Tue, 14 Nov 2023 12:34:56 UTC", 1, 2, 0),
    T("rfc822-ut", "Tue, 14 Nov 2023 12:34:56 UT", 1, 2, 0),
    T("rfc822-z", "Tue, 14 Nov 2023 12:34:56 Z", 1, 2, 0),
    T("rfc822-offset", "Tue, 14 Nov 2023 12:34:56 +0100", 2, 2, 0),
    T("rfc822-neg-offset", "Tue, 14 Nov 2023 12:34:56 -0730", 1, 2, 0),
    T("rfc822-no-weekday", "14 Nov 2023 12:34:56 GMT", 1, 2, 0),
    T("rfc822-2digit-year", "Tue, 14 Nov 23 12:34:56 GMT", 1, 2, 0),
    T("rfc822-date-only", "Tue, 14 Nov 2023", 1, 2, 0),
    T("rfc822-no-zone", "Tue, 14 Nov 2023 12:34:56", 1, 2, 0),
    T("rfc822-y2k", "Sat, 01 Jan 2000 00:00:00 GMT", 1, 2, 0),
    T("rfc822-9999", "Fri, 31 Dec 9999 23:59:59 GMT", 1, 2, 0),
    T("rfc822-epoch", "Thu, 01 Jan 1970 00:00:00 GMT", 1, 2, 0),
    T("rfc822-out-of-range", "Wed, 99 Jun 0000 99:99:99 +9999", 1, 2, 0),
    {"iso-len-100", NULL, 0, 1, 1, 0},
    {"iso-len-101", NULL, 0, 1, 1, 0},
    {"rfc822-len-100", NULL, 0, 1, 1, 0},
    {"rfc822-len-101", NULL, 0, 1, 1, 0},
};
#define DATE_NT ((int)(sizeof(DATE_T) / sizeof(DATE_T[0])))
static struct esrc DATE_SRC = {DATE_T, DATE_NT, DATE_ALPHA, 17, 1};
static uint8_t *date_long(int rfc, size_t total) {
    uint8_t *p = (uint8_t *)malloc(total + 1);
    if (!rfc) { /* 2023-11-14T12:34:56.ddd…dZ */
        const char *head = "2023-11-14T12:34:56.";
        size_t h = strlen(head);
        memcpy(p, head, h);
        for (size_t i = h; i + 1 < total; ++i) p[i] = (uint8_t)('0' + (i % 10));
        p[total - 1] = 'Z';
    } else { /* Tueeee…e, 14 Nov 2023 12:34:56 GMT */
        const char *tail = ", 14 Nov 2023 12:34:56 GMT";
        size_t t = strlen(tail);
        p[0] = 'T';
        p[1] = 'u';
        for (size_t i = 2; i < total - t; ++i) p[i] = 'e';
        memcpy(p + total - t, tail, t);
    }
    return p;
}
static void date_init(void) {
    for (int k = 0; k < 4; ++k) {
        size_t len = (k & 1) ? 101 : 100;
        DATE_T[DATE_NT - 4 + k].p = date_long(k >= 2, len);
        DATE_T[DATE_NT - 4 + k].n = len;
    }
}
static uint64_t date_edit_total(void) { return esrc_total(&DATE_SRC); }
static void date_edit_eval(uint64_t idx, void *ctx) {
    (void)ctx;
    BEE_ITEM(idx);
    unsigned low;
    int ti;
    size_t n;
    uint8_t *w = esrc_get(&DATE_SRC, idx, &low, &ti, &n);
    if (!w) return;
    V_COUNT("date_edit_cases", 1);
    g_sample = (idx == 0);
    run_date(w, n);
    free(w);
}

/* =========================================================================================================
 *  UUID, IPv4, IPv6
 * ========================================================================================================= */
static void host_once(const uint8_t *p, size_t n, const uint8_t *show) {
    struct aws_byte_cursor in = aws_byte_cursor_from_array(p, n);
    int nontrivial = 0;
    struct aws_uuid *u = (struct aws_uuid *)malloc(sizeof(*u));
    memset(u, 0xA5, sizeof(*u));
    aws_reset_error();
    int rc = aws_uuid_init_from_str(u, &in);
    CHANNEL(rc, "channel:aws_uuid_init_from_str", show, n);
    if (rc == AWS_OP_SUCCESS) {
        nontrivial = 1;
        V_COUNT("uuid_accepted", 1);
    }
    free(u);
    bool v4 = aws_host_utils_is_ipv4(in);
    bool v6 = aws_host_utils_is_ipv6(in, false);
    bool v6e = aws_host_utils_is_ipv6(in, true);
    if (v4) V_COUNT("ipv4_accepted", 1);
    if (v6) V_COUNT("ipv6_accepted", 1);
    if (v6e) V_COUNT("ipv6_uri_encoded_accepted", 1);
    if ((v6 || v6e) && n && memchr(show, '%', n)) V_COUNT("ipv6_with_zone_accepted", 1);
    if (v4 || v6 || v6e) nontrivial = 1;
    V_COUNT("evaluations", 1);
    V_COUNT("host_runs", 1);
    if (nontrivial) V_COUNT("nontrivial", 1); /* accepted by at least one of the four recognisers */
}
static void run_host(const uint8_t *bytes, size_t n) {
    replay_note("host", bytes, n, "");
    struct blk b = blk_new(bytes, n);
    host_once(b.p, n, bytes);
    blk_free(&b);
    if (n == 0) host_once(NULL, 0, bytes);
}
static const uint8_t HOST_ALPHA[11] = {'0', '9', 'a', 'f', 'g', '-', ':', '.', '%', '2', '5'};
static unsigned host_strlen_max(void) { return v_thorough() ? 7 : 6; }
static uint64_t host_str_total(void) { return bee_strings_upto(11, host_strlen_max()); }
static void host_str_eval(uint64_t idx, void *ctx) {
    (void)ctx;
    BEE_ITEM(idx);
    uint8_t s[8];
    size_t n = bee_string_at(idx, HOST_ALPHA, 11, host_strlen_max(), s);
    run_host(s, n);
}
static struct tmpl HOST_T[] = {
    T("uuid", "01234567-89ab-cdef-0123-456789abcdef", 1, 2, 0),
    T("uuid-upper", "FFFFFFFF-FFFF-FFFF-FFFF-FFFFFFFFFFFF", 1, 2, 0),
    T("ipv4", "192.168.0.1", 2, 2, 0),
    T("ipv4-max", "255.255.255.255", 2, 2, 0),
    T("ipv4-zero", "0.0.0.0", 2, 2, 0),
    T("ipv6-loopback", "::1", 2, 2, 0),
    T("ipv6-full", "2001:0db8:85a3:0000:0000:8a2e:0370:7334", 1, 2, 0),
    T("ipv6-8-groups", "1:2:3:4:5:6:7:8", 2, 2, 0),
    T("ipv6-zone", "fe80::1%a0", 2, 2, 0),
    T("ipv6-zone-encoded", "fe80::1%25a0", 2, 2, 0),
};
#define HOST_NT ((int)(sizeof(HOST_T) / sizeof(HOST_T[0])))
static struct esrc HOST_SRC = {HOST_T, HOST_NT, HOST_ALPHA, 11, 1};
static uint64_t host_edit_total(void) { return esrc_total(&HOST_SRC); }
static void host_edit_eval(uint64_t idx, void *ctx) {
    (void)ctx;
    BEE_ITEM(idx);
    unsigned low;
    int ti;
    size_t n;
    uint8_t *w = esrc_get(&HOST_SRC, idx, &low, &ti, &n);
    if (!w) return;
    V_COUNT("host_edit_cases", 1);
    run_host(w, n);
    free(w);
}

/* =========================================================================================================
 *  unsigned parse
 * ========================================================================================================= */
static void u64_once(const uint8_t *p, size_t n, const uint8_t *show) {
    struct aws_byte_cursor in = aws_byte_cursor_from_array(p, n);
    int ok = 0;
    for (int hex = 0; hex < 2; ++hex) {
        uint64_t *dst = (uint64_t *)malloc(sizeof(uint64_t));
        *dst = 0xA5A5A5A5A5A5A5A5ull;
        aws_reset_error();
        int rc = hex ? aws_byte_cursor_utf8_parse_u64_hex(in, dst) : aws_byte_cursor_utf8_parse_u64(in, dst);
        CHANNEL(rc, hex ? "channel:aws_byte_cursor_utf8_parse_u64_hex" : "channel:aws_byte_cursor_utf8_parse_u64", show, n);
        if (rc == AWS_OP_SUCCESS) {
            ++ok;
            V_COUNT(hex ? "u64_hex_accepted" : "u64_dec_accepted", 1);
        } else if (aws_last_error() == AWS_ERROR_OVERFLOW_DETECTED)
            V_COUNT("u64_overflow_reported", 1);
        free(dst);
    }
    V_COUNT("evaluations", 1);
    V_COUNT("u64_runs", 1);
    if (ok) V_COUNT("nontrivial", 1); /* accepted in base 10 or base 16 */
}
static void run_u64(const uint8_t *bytes, size_t n) {
    replay_note("u64", bytes, n, "");
    struct blk b = blk_new(bytes, n);
    u64_once(b.p, n, bytes);
    blk_free(&b);
    if (n == 0) u64_once(NULL, 0, bytes);
}
static const uint8_t U64_ALPHA[16] = {'0', '1', '9', 'a', 'f', 'F', 'g', 'G', '/', ':', '@', '`', '-', ' ', 0x00, 0xff};
static unsigned u64_strlen_max(void) { return v_thorough() ? 6 : 5; }
static uint64_t u64_str_total(void) { return bee_strings_upto(16, u64_strlen_max()); }
static void u64_str_eval(uint64_t idx, void *ctx) {
    (void)ctx;
    BEE_ITEM(idx);
    uint8_t s[8];
    size_t n = bee_string_at(idx, U64_ALPHA, 16, u64_strlen_max(), s);
    run_u64(s, n);
}
static struct tmpl U64_T[] = {
    T("dec-max", "18446744073709551615", 2, 2, 0),
    T("dec-max+1", "18446744073709551616", 2, 2, 0),
    T("hex-max", "ffffffffffffffff", 2, 2, 0),
    T("hex-max+1", "10000000000000000", 2, 2, 0),
};
static struct esrc U64_SRC = {U64_T, 4, U64_ALPHA, 16, 1};
static uint64_t u64_edit_total(void) { return esrc_total(&U64_SRC); }
static void u64_edit_eval(uint64_t idx, void *ctx) {
    (void)ctx;
    BEE_ITEM(idx);
    unsigned low;
    int ti;
    size_t n;
    uint8_t *w = esrc_get(&U64_SRC, idx, &low, &ti, &n);
    if (!w) return;
    run_u64(w, n);
    free(w);
}

/* =========================================================================================================
 *  base64 / hex decode, UTF-8 one-shot   (correctness is C05's subject; here: totality and memory safety)
 * ========================================================================================================= */
typedef int (*dec_fn)(const struct aws_byte_cursor *, struct aws_byte_buf *);
static void b64_once(const uint8_t *p, size_t n, const uint8_t *show) {
    struct aws_byte_cursor in = aws_byte_cursor_from_array(p, n);
    int ok = 0;
    for (int path = 0; path < 2; ++path) {
        size_t dl = 0;
        aws_reset_error();
        int rc = path ? p_aws_base64_compute_decoded_len(&in, &dl) : aws_base64_compute_decoded_len(&in, &dl);
        CHANNEL(rc, "channel:aws_base64_compute_decoded_len", show, n);
        if (rc != AWS_OP_SUCCESS) continue;
        for (int capsel = 0; capsel < 2; ++capsel) {
            if (capsel && dl == 0) continue;
            size_t cap = capsel ? dl - 1 : dl;
            struct blk ob = blk_new(NULL, 0);
            uint8_t *obuf = ob.p;
            if (cap) {
                blk_free(&ob);
                ob.base = ob.p = obuf = (uint8_t *)malloc(cap);
                memset(obuf, 0xC7, cap);
            }
            struct aws_byte_buf out = aws_byte_buf_from_empty_array(obuf, cap);
            aws_reset_error();
            int rc2 = path ? p_aws_base64_decode(&in, &out) : aws_base64_decode(&in, &out);
            CHANNEL(rc2, "channel:aws_base64_decode", show, n);
            BEE_CHECK(out.len <= cap, "b64-output-length", "output len %zu exceeds capacity %zu; input %s", out.len, cap, show_in(show, n));
            if (capsel && rc2 == AWS_OP_ERR) V_COUNT("b64_short_buffer_refused", 1);
            if (rc2 == AWS_OP_SUCCESS) ++ok;
            free(ob.base);
        }
    }
    V_COUNT("evaluations", 1);
    V_COUNT("b64_runs", 1);
    if (ok) {
        V_COUNT("nontrivial", 1); /* a decode succeeded on at least one path */
        V_COUNT("b64_accepted", 1);
    }
}
static void run_b64(const uint8_t *bytes, size_t n) {
    replay_note("b64", bytes, n, "");
    struct blk b = blk_new(bytes, n);
    b64_once(b.p, n, bytes);
    blk_free(&b);
    if (n == 0) b64_once(NULL, 0, bytes);
}
static const uint8_t B64_ALPHA[9] = {'A', 'B', 'Q', '/', '+', '=', 0x00, '-', 0xff};
static const uint8_t B64_ALPHA5[5] = {'A', '/', '=', 0x00, 0xff};
static uint64_t b64_str_total(void) { return bee_strings_upto(9, 5) + bee_pow(5, 8) + (v_thorough() ? bee_pow(5, 9) + bee_pow(5, 12) / 25 : 0); }
static void b64_str_eval(uint64_t idx, void *ctx) {
    (void)ctx;
    BEE_ITEM(idx);
    uint8_t s[16];
    size_t n;
    uint64_t a = bee_strings_upto(9, 5);
    if (idx < a) {
        n = bee_string_at(idx, B64_ALPHA, 9, 5, s);
    } else if (idx < a + bee_pow(5, 8)) {
        uint64_t x = idx - a;
        for (n = 0; n < 8; ++n) s[n] = B64_ALPHA5[bee_digit(&x, 5)];
    } else if (idx < a + bee_pow(5, 8) + bee_pow(5, 9)) {
        uint64_t x = idx - a - bee_pow(5, 8);
        for (n = 0; n < 9; ++n) s[n] = B64_ALPHA5[bee_digit(&x, 5)];
    } else { /* 12 characters: "AA" + 10 free symbols */
        uint64_t x = idx - a - bee_pow(5, 8) - bee_pow(5, 9);
        s[0] = s[1] = 'A';
        for (n = 2; n < 12; ++n) s[n] = B64_ALPHA5[bee_digit(&x, 5)];
    }
    run_b64(s, n);
}
/* vector-body lengths: 32-byte stride boundaries of the AVX2 decoder */
static struct tmpl B64_T[] = {
    T("len-32", "QUJDREVGR0hJSktMTU5PUFFSU1RVVldY", 1, 1, 0),
    T("len-36-pad1", "QUJDREVGR0hJSktMTU5PUFFSU1RVVldYWVo=", 1, 1, 0),
    T("len-44-pad2", "QUJDREVGR0hJSktMTU5PUFFSU1RVVldYWVphYmNkZWY=", 1, 2, 0),
    T("len-64", "QUJDREVGR0hJSktMTU5PUFFSU1RVVldYWVphYmNkZWZnaGlqa2xtbm9wcXJzdHV2", 1, 1, 0),
    T("len-68-pad2", "QUJDREVGR0hJSktMTU5PUFFSU1RVVldYWVphYmNkZWZnaGlqa2xtbm9wcXJzdHV2d3g=", 1, 1, 0),
    T("len-8-pad2", "QUJDRA==", 2, 2, 0),
};
static struct esrc B64_SRC = {B64_T, 6, B64_ALPHA, 9, 1};
static uint64_t b64_edit_total(void) { return esrc_total(&B64_SRC); }
static void b64_edit_eval(uint64_t idx, void *ctx) {
    (void)ctx;
    BEE_ITEM(idx);
    unsigned low;
    int ti;
    size_t n;
    uint8_t *w = esrc_get(&B64_SRC, idx, &low, &ti, &n);
    if (!w) return;
    run_b64(w, n);
    free(w);
}

static void hex_once(const uint8_t *p, size_t n, const uint8_t *show) {
    struct aws_byte_cursor in = aws_byte_cursor_from_array(p, n);
    int ok = 0;
    for (int path = 0; path < 2; ++path) {
        size_t dl = 0;
        aws_reset_error();
        int rc = path ? p_aws_hex_compute_decoded_len(n, &dl) : aws_hex_compute_decoded_len(n, &dl);
        CHANNEL(rc, "channel:aws_hex_compute_decoded_len", show, n);
        if (rc != AWS_OP_SUCCESS) continue;
        for (int capsel = 0; capsel < 2; ++capsel) {
            if (capsel && dl == 0) continue;
            size_t cap = capsel ? dl - 1 : dl;
            struct blk ob = blk_new(NULL, 0);
            uint8_t *obuf = ob.p;
            if (cap) {
                blk_free(&ob);
                ob.base = ob.p = obuf = (uint8_t *)malloc(cap);
                memset(obuf, 0xC7, cap);
            }
            struct aws_byte_buf out = aws_byte_buf_from_empty_array(obuf, cap);
            aws_reset_error();
            int rc2 = path ? p_aws_hex_decode(&in, &out) : aws_hex_decode(&in, &out);
            CHANNEL(rc2, "channel:aws_hex_decode", show, n);
            BEE_CHECK(out.len <= cap, "hex-output-length", "output len %zu exceeds capacity %zu; input %s", out.len, cap, show_in(show, n));
            if (capsel && rc2 == AWS_OP_ERR) V_COUNT("hex_short_buffer_refused", 1);
            if (rc2 == AWS_OP_SUCCESS) ++ok;
            free(ob.base);
        }
    }
    V_COUNT("evaluations", 1);
    V_COUNT("hex_runs", 1);
    if (ok) {
        V_COUNT("nontrivial", 1); /* accepted */
        V_COUNT("hex_accepted", 1);
    }
}
static const uint8_t HEX_ALPHA[16] = {'0', '9', 'a', 'f', 'A', 'F', 'g', 'G', '/', ':', '@', '`', ' ', 'x', 0x00, 0xff};
static unsigned hex_strlen_max(void) { return v_thorough() ? 6 : 5; }
static uint64_t hex_str_total(void) { return bee_strings_upto(16, hex_strlen_max()); }
static void hex_str_eval(uint64_t idx, void *ctx) {
    (void)ctx;
    BEE_ITEM(idx);
    uint8_t s[8];
    size_t n = bee_string_at(idx, HEX_ALPHA, 16, hex_strlen_max(), s);
    replay_note("hex", s, n, "");
    struct blk b = blk_new(s, n);
    hex_once(b.p, n, s);
    blk_free(&b);
    if (n == 0) hex_once(NULL, 0, s);
}

struct u8log {
    unsigned n;
};
static int u8_on_cp(uint32_t cp, void *ud) {
    (void)cp;
    ((struct u8log *)ud)->n++;
    return AWS_OP_SUCCESS;
}
static void utf8_once(const uint8_t *p, size_t n, const uint8_t *show) {
    struct aws_byte_cursor in = aws_byte_cursor_from_array(p, n);
    int ok = 0;
    for (int path = 0; path < 2; ++path) {
        for (int with_cb = 0; with_cb < 2; ++with_cb) {
            struct u8log l = {0};
            struct aws_utf8_decoder_options o = {.on_codepoint = u8_on_cp, .user_data = &l};
            aws_reset_error();
            int rc = path ? p_aws_decode_utf8(in, with_cb ? &o : NULL) : aws_decode_utf8(in, with_cb ? &o : NULL);
            CHANNEL(rc, "channel:aws_decode_utf8", show, n);
            BEE_CHECK(l.n <= n, "utf8-codepoint-count", "%u code points reported for %zu bytes %s", l.n, n, show_in(show, n));
            if (rc == AWS_OP_SUCCESS) ++ok;
        }
    }
    V_COUNT("evaluations", 1);
    V_COUNT("utf8_runs", 1);
    if (ok && n) {
        V_COUNT("nontrivial", 1); /* non-empty text accepted */
        V_COUNT("utf8_accepted", 1);
    }
}
static const uint8_t U8_ALPHA[21] = {0x00, 0x41, 0x7F, 0x80, 0x8F, 0x90, 0x9F, 0xA0, 0xBF, 0xC0, 0xC1, 0xC2, 0xDF, 0xE0, 0xED, 0xEF, 0xF0, 0xF4, 0xF5, 0xF8, 0xFF};
static unsigned utf8_strlen_max(void) { return v_thorough() ? 5 : 4; }
static uint64_t utf8_str_total(void) { return bee_strings_upto(21, utf8_strlen_max()); }
static void utf8_str_eval(uint64_t idx, void *ctx) {
    (void)ctx;
    BEE_ITEM(idx);
    uint8_t s[8];
    size_t n = bee_string_at(idx, U8_ALPHA, 21, utf8_strlen_max(), s);
    replay_note("utf8", s, n, "");
    struct blk b = blk_new(s, n);
    utf8_once(b.p, n, s);
    blk_free(&b);
    if (n == 0) utf8_once(NULL, 0, s);
}

/* ========================================================================================================= */
int main(int argc, char **argv) {
    v_init(argc, argv);
    if (!getenv("C04_STDERR")) { /* a defective tree produces 10^5 ASan reports; the engine keeps the one per item it needs */
        int fd = open("/dev/null", O_WRONLY);
        if (fd >= 0) {
            dup2(fd, 2);
            close(fd);
        }
    }
    { /* recursion depth is judged on the Linux default main-thread stack (8 MiB), whatever the caller's ulimit */
        struct rlimit rl;
        if (getrlimit(RLIMIT_STACK, &rl) == 0 && (rl.rlim_cur == RLIM_INFINITY || rl.rlim_cur > (8u << 20))) {
            rl.rlim_cur = 8u << 20;
            setrlimit(RLIMIT_STACK, &rl);
        }
    }
    A = aws_default_allocator();
    aws_common_library_init(A);
    v_max_samples = 16;
    xml_init();
    json_init();
    cbor_init();
    date_init();
    v_out("INFO shipped base64 path vectorised (AVX2): %d; tier %s", (int)aws_common_private_has_avx2(), v_tier);
#define REG(name, tot, ev, to)                                                                                  \
    do {                                                                                                         \
        if (!only || strncmp(name, only, strlen(only)) == 0) bee_register(name, tot, ev, to);                    \
    } while (0)
    const char *only = getenv("C04_ONLY"); /* development aid: run only the sections with this name prefix */
    REG("xml_str", xml_str_total, xml_str_eval, 10);
    REG("xml_edit", xml_edit_total, xml_edit_eval, 10);
    REG("json_str", json_str_total, json_str_eval, 10);
    REG("json_edit", json_edit_total, json_edit_eval, 10);
    REG("cbor_str", cbor_str_total, cbor_str_eval, 10);
    REG("cbor_edit", cbor_edit_total, cbor_edit_eval, 20);
    REG("cbor_head", cbor_head_total, cbor_head_eval, 10);
    REG("cbor_deep", cbor_deep_total, cbor_deep_eval, 30);
    REG("xml_deep", xml_deep_total, xml_deep_eval, 30);
    REG("json_deep", json_deep_total, json_deep_eval, 60);
    REG("relife", relife_total, relife_eval, 20);
    REG("uri_str", uri_str_total, uri_str_eval, 10);
    REG("uri_edit", uri_edit_total, uri_edit_eval, 10);
    REG("date_str", date_str_total, date_str_eval, 10);
    REG("date_edit", date_edit_total, date_edit_eval, 10);
    REG("host_str", host_str_total, host_str_eval, 10);
    REG("host_edit", host_edit_total, host_edit_eval, 10);
    REG("u64_str", u64_str_total, u64_str_eval, 10);
    REG("u64_edit", u64_edit_total, u64_edit_eval, 10);
    REG("b64_str", b64_str_total, b64_str_eval, 10);
    REG("b64_edit", b64_edit_total, b64_edit_eval, 10);
    REG("hex_str", hex_str_total, hex_str_eval, 10);
    REG("utf8_str", utf8_str_total, utf8_str_eval, 10);
    return bee_main(argc, argv);
}
