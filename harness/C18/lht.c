/*
 * C18 (a) — aws_linked_hash_table under ESX.
 *
 * Alphabet: put(k,twin,v)  find(k,twin)  find_and_move_to_back(k,twin)  remove(k,twin)  clear.
 * After EVERY operation (hence in every reachable state) the harness walks
 * aws_linked_hash_table_get_iteration_list() forwards and backwards and calls
 * aws_linked_hash_table_get_element_count(); both are pure observers, so they are part of the
 * post-operation check instead of being self-loop symbols of their own.
 *
 * Oracle (reference = ordered array, c18_common.h):
 *   element-count        get_element_count == number of reference entries
 *   contents             the set of keys in the iteration list == reference key set
 *   iteration-order      same keys, but not in insertion order (re-put / find_and_move_to_back move to the back)
 *   value-mismatch       an entry holds a value other than the one of the latest put
 *   stored-key-object    (key destructor installed) the entry still points at the key object that was destroyed
 *   find-result / find-value / put-result / remove-result
 *   key-destroy-missing|extra, value-destroy-missing|extra   per-operation destructor deltas
 *   key-used-after-destroy   hash/equals callback on a key after its destructor ran in that operation
 *   clean_up: every remaining entry destroyed exactly once (teardown; header: "cleanup callbacks will be invoked")
 *
 * Canonical state = slot layout of the underlying hash table (size, entry_count, per slot: key object and the
 * list position of the node it owns) + forward list (key object, value object per node) + reference list.
 * Two states with the same canon have the same futures: the library's behaviour depends on the hash state
 * (hash codes are a function of the key identity, so slot -> key object determines them; max_load and mask are
 * functions of size), on the list order and on each node's key/value/table fields, all of which are recorded;
 * node and table ADDRESSES differ between histories but nothing in the library or the harness compares or
 * orders them.  The oracle's future verdicts depend only on the reference list.  Destructor counters are compared
 * per operation and left out.
 */
#include "c18_common.h"

static struct aws_linked_hash_table T;
static int T_live;
static size_t g_init_count;
static char g_name[64];

enum { K_PUT, K_FIND, K_FMB, K_REMOVE, K_CLEAR };
struct opdesc {
    int kind, k, t, v;
};
static struct opdesc ops[80];
static int nops;

static void build_ops(void) {
    nops = 0;
    for (int k = 0; k < g_nk; ++k)
        for (int t = 0; t < NT; ++t)
            for (int v = 0; v < g_nv; ++v) ops[nops++] = (struct opdesc){K_PUT, k, t, v};
    for (int kind = K_FIND; kind <= K_REMOVE; ++kind)
        for (int k = 0; k < g_nk; ++k)
            for (int t = 0; t < NT; ++t) ops[nops++] = (struct opdesc){kind, k, t, 0};
    ops[nops++] = (struct opdesc){K_CLEAR, 0, 0, 0};
}

static void m_opname(int op, char *buf, size_t cap) {
    struct opdesc d = ops[op];
    switch (d.kind) {
        case K_PUT: snprintf(buf, cap, "put(k%d%c,v%d)", d.k, 'A' + d.t, d.v); break;
        case K_FIND: snprintf(buf, cap, "find(k%d%c)", d.k, 'A' + d.t); break;
        case K_FMB: snprintf(buf, cap, "find_and_move_to_back(k%d%c)", d.k, 'A' + d.t); break;
        case K_REMOVE: snprintf(buf, cap, "remove(k%d%c)", d.k, 'A' + d.t); break;
        default: snprintf(buf, cap, "clear"); break;
    }
}

static void m_reset(void) {
    galloc_reset();
    common_reset();
    AWS_ZERO_STRUCT(T);
    if (aws_linked_hash_table_init(&T, galloc_get(0, 1), h_hash, h_eq, g_kd ? h_key_destroy : NULL, g_vd ? h_val_destroy : NULL, g_init_count)) {
        fprintf(stderr, "init failed\n");
        _exit(2);
    }
    T_live = 1;
    g_probe_tbl = g_probe ? &T : NULL;
    two_reset(galloc_get(0, 1));
}

static bool m_enabled(int op) {
    (void)op;
    return true; /* no documented preconditions; the key/value alphabets bound the model */
}

static void invariant(void) {
    two_check();
    if (esx_failed) return;
    size_t cnt = aws_linked_hash_table_get_element_count(&T);
    ESX_CHECK(cnt == (size_t)nR, "element-count", "after %s: get_element_count() = %zu, reference has %d entries [%s]", g_opname, cnt, nR, show_ref());
    if (esx_failed) return;
    struct went w[MAXENT];
    int n = walk_checked(&T, w);
    if (n < 0) return;
    /* same key set? */
    bool same_set = n == nR;
    for (int i = 0; same_set && i < n; ++i) same_set = ref_find(w[i].k) >= 0;
    ESX_CHECK(same_set, "contents", "after %s: iteration list is [%s], reference ordered map is [%s]", g_opname, show_walk(w, n), show_ref());
    if (esx_failed) return;
    for (int i = 0; i < n; ++i)
        if (w[i].k != R[i].k) {
            esx_fail("iteration-order", "after %s: iteration list is [%s], insertion order is [%s]", g_opname, show_walk(w, n), show_ref());
            return;
        }
    for (int i = 0; i < n && !esx_failed; ++i) {
        ESX_CHECK(w[i].v == R[i].v, "value-mismatch", "after %s: entry k%d holds v%d, the latest put stored v%d", g_opname, w[i].k, w[i].v, R[i].v);
        int want = R[i].t;
        ESX_CHECK(stored_key_ok(&R[i], w[i].t), "stored-key-object",
                  "after %s: entry k%d points at key object k%d%c, but the object of the latest put is k%d%c (the other one was handed to the key destructor)",
                  g_opname, w[i].k, w[i].k, 'A' + w[i].t, w[i].k, 'A' + want);
    }
}

static void m_apply(int op) {
    struct opdesc d = ops[op];
    m_opname(op, g_opbuf, sizeof(g_opbuf));
    op_begin(g_opbuf);
    stat_table_before(&T);
    /* bulk removal runs the destructors while the slots of entries already destroyed are still in place: a lookup from inside is
     * not something the library supports there (it reads released nodes on the unchanged tree), so the probe is limited to
     * single-entry displacements: overwrite, eviction, remove */
    g_probe_tbl = (g_probe && d.kind != K_CLEAR) ? &T : NULL;
    if (d.k == g_null_k) d.t = 0; /* NULL has no twin */
    void *key = kptr(d.k, d.t);
    int i = d.kind == K_CLEAR ? -1 : ref_find(d.k);
    switch (d.kind) {
        case K_PUT: {
            if (i >= 0) {
                struct rent e = ref_remove_at(i);
                expect_replaced(e, d.t);
                if (e.t != d.t) {
                    C18_COUNT("twin_key_replacements", 1);
                    if (g_kd) C18_COUNT("twin_key_replacements_old_key_destroyed", 1);
                } else {
                    C18_COUNT("same_pointer_replacements", 1);
                }
                if (nR > 0 && i < nR) C18_COUNT("reput_moves_entry_to_back", 1);
            }
            ref_append(d.k, d.t, d.v);
            aws_reset_error();
            int rc = aws_linked_hash_table_put(&T, key, vptr(d.v));
            ESX_CHECK(rc == AWS_OP_SUCCESS, "put-result", "%s returned %d (error %d)", g_opname, rc, aws_last_error());
            C18_COUNT("puts", 1);
            break;
        }
        case K_FIND:
        case K_FMB: {
            static int sentinel;
            void *out = &sentinel;
            aws_reset_error();
            int rc = d.kind == K_FIND ? aws_linked_hash_table_find(&T, key, &out) : aws_linked_hash_table_find_and_move_to_back(&T, key, &out);
            ESX_CHECK(rc == AWS_OP_SUCCESS, "find-result", "%s returned %d (error %d)", g_opname, rc, aws_last_error());
            void *want = i >= 0 ? vptr(R[i].v) : NULL;
            if (!esx_failed) {
                struct vobj *g = as_val(out);
                ESX_CHECK(out == want, "find-value", "%s gave %s%d, reference says %s%d [%s]", g_opname, out == NULL ? "NULL " : (g ? "v" : "garbage "),
                          g ? g->id : 0, i >= 0 ? "v" : "NULL ", i >= 0 ? R[i].v : 0, show_ref());
            }
            if (i >= 0) {
                if (R[i].t != d.t) C18_COUNT("lookups_hit_through_twin_pointer", 1);
                if (d.kind == K_FMB) {
                    if (i != nR - 1) C18_COUNT("move_to_back_reorders", 1);
                    ref_move_to_back(i);
                }
            } else {
                C18_COUNT("lookups_missed", 1);
            }
            break;
        }
        case K_REMOVE: {
            if (i >= 0) {
                if (i == 0 && nR > 1) C18_COUNT("removes_of_front", 1);
                else if (i < nR - 1) C18_COUNT("removes_of_middle", 1);
                struct rent e = ref_remove_at(i);
                expect_displaced(e);
                if (e.t != d.t) C18_COUNT("removes_through_twin_pointer", 1);
            } else {
                C18_COUNT("removes_of_absent_key", 1);
            }
            aws_reset_error();
            int rc = aws_linked_hash_table_remove(&T, key);
            if (i >= 0) ESX_CHECK(rc == AWS_OP_SUCCESS, "remove-result", "%s of a stored key returned %d (error %d)", g_opname, rc, aws_last_error());
            break;
        }
        default: {
            if (nR > 1) C18_COUNT("clears_of_several_entries", 1);
            while (nR) expect_displaced(ref_remove_at(0));
            aws_linked_hash_table_clear(&T);
            break;
        }
    }
    if (!esx_failed) check_deltas();
    if (!esx_failed) invariant();
    if (!esx_failed) stat_table_after(&T);
    if (!esx_failed) V_MAXSTAT("max_entries", (uint64_t)nR);
}

static size_t m_canon(uint8_t *b, size_t cap) {
    (void)cap;
    return canon_table(&T, b);
}

static void m_teardown(void) {
    if (!T_live) return;
    T_live = 0;
    if (esx_failed) {
        TB_live = 0;
        return; /* the object may be damaged; galloc_reset() reclaims everything */
    }
    g_probe_tbl = NULL; /* no lookups in a table that is being dismantled */
    op_begin("clean_up");
    for (int i = 0; i < nR; ++i) expect_displaced(R[i]);
    aws_linked_hash_table_clean_up(&T);
    check_deltas();
    two_check();
    two_teardown();
}

static struct esx_model model = {
    .reset = m_reset, .enabled = m_enabled, .apply = m_apply, .canon = m_canon, .opname = m_opname, .teardown = m_teardown,
};

struct cfg {
    int dm;      /* bit0 key destructor, bit1 value destructor */
    int hm;      /* hash mode */
    size_t init; /* initial_item_count */
    int nk, nv;  /* alphabet */
    int quick;   /* part of the quick tier */
    int nullk;   /* key k0 is passed as a NULL pointer */
    int probe;   /* the value destructor looks keys up (c18_common.h) */
    int two;     /* the value destructor works on a second table (c18_common.h) */
};
/* The collision modes multiply the state count by the number of reachable slot layouts (x20 for four colliding keys), so
 * they run with two values; the spread mode runs the full alphabet. */
static const struct cfg cfgs[] = {
    {0, 0, 1, 4, 3, 1}, {3, 0, 1, 4, 3, 1}, {3, 1, 1, 3, 2, 1}, {3, 0, 1, 4, 3, 1, 1}, {3, 1, 1, 3, 2, 0, 1}, {3, 0, 1, 4, 3, 1, 0, 1}, {2, 1, 1, 3, 2, 0, 0, 1}, {3, 0, 1, 4, 3, 1, 0, 0, 1},
    {1, 0, 1, 4, 3, 0}, {2, 0, 1, 4, 3, 0},
    {0, 0, 8, 4, 3, 0}, {3, 0, 8, 4, 3, 0},
    {0, 1, 1, 4, 2, 0}, {3, 1, 1, 4, 2, 0}, {3, 1, 8, 3, 3, 0}, {3, 2, 1, 4, 2, 0}, {1, 2, 1, 3, 3, 0},
};

int main(int argc, char **argv) {
    v_init(argc, argv);
    aws_common_library_init(aws_default_allocator());
    static const char *dname[4] = {"none", "key", "val", "both"};
    int rc = 0;
    for (size_t c = 0; c < sizeof(cfgs) / sizeof(cfgs[0]); ++c) {
        g_kd = cfgs[c].dm & 1;
        g_vd = (cfgs[c].dm >> 1) & 1;
        g_hmode = cfgs[c].hm;
        g_init_count = cfgs[c].init;
        g_nk = cfgs[c].nk;
        g_nv = cfgs[c].nv;
        g_null_k = cfgs[c].nullk ? 0 : -1;
        g_probe = cfgs[c].probe;
        g_two = cfgs[c].two;
        snprintf(g_name, sizeof(g_name), "lht-d%s-h%d-i%zu-k%dv%d%s", dname[cfgs[c].dm], g_hmode, g_init_count, g_nk, g_nv, cfgs[c].nullk ? "-nullk" : cfgs[c].probe ? "-probe" : cfgs[c].two ? "-two" : "");
        model.name = g_name;
        build_ops();
        model.nops = nops;
        if (v_replay_token) {
            if (esx_token_is_for(v_replay_token, g_name)) rc |= esx_replay(&model, v_replay_token);
            continue;
        }
        if (!v_thorough() && !cfgs[c].quick) continue;
        esx_run(&model);
        ESX_CYCLES(&model);
    }
    v_finish();
    return (v_sh->viol_count || rc) ? 1 : 0;
}
