/*
 * C18 (b) — FIFO / LIFO / LRU caches (aws_cache_new_fifo / _lifo / _lru) under ESX.
 *
 * Alphabet: put(k,twin,v)  find(k,twin)  remove(k,twin)  clear, and for LRU use_lru_element, get_mru_element.
 * aws_cache_get_element_count() is called after EVERY operation (pure observer, so part of the post-operation
 * check rather than a self-loop symbol).
 *
 * Reference: ordered array (c18_common.h).  put of a stored key removes the old entry and appends the new one
 * ("If an element is already stored at key it will be replaced": the replacement is the newest insertion);
 * put of a new key appends and, if the count exceeds max_items, names the victim:
 *     FIFO  the front                 = the oldest inserted
 *     LIFO  the one before the back   = the most recently inserted before the new one
 *     LRU   the front, where find hits, puts and use_lru_element move an entry to the back (= count as use)
 * The ORDER of the cache's internal list is not compared with the reference (the property speaks about which entry
 * is evicted, not about internals); it is part of the canonical state, so any internal order that can ever lead to
 * a wrong victim is explored until it does.  The content (set of key -> value, stored key object) is read from the
 * cache's public `table` member without disturbing LRU order.
 *
 * Clauses:
 *   count-exceeds-max        get_element_count() > max_items after an operation
 *   element-count            get_element_count() != reference
 *   just-put-missing         the entry just put is absent (or holds another value)
 *   fifo-evicts-oldest / lifo-evicts-latest-before-put / lru-evicts-least-recently-used   wrong victim
 *   extra-eviction           more entries disappeared than the one the policy names
 *   spurious-eviction        an entry disappeared although the cache was not over its maximum
 *   contents                 any other difference between the cache contents and the reference
 *   value-mismatch, stored-key-object, find-result, find-value, put-result, remove-result
 *   use-lru-value / get-mru-value   value returned by the LRU-specific calls
 *   key-destroy-missing|extra, value-destroy-missing|extra, key-used-after-destroy (c18_common.h)
 *   destroy: every remaining entry destroyed exactly once (teardown; header: "cleanup callbacks will be invoked")
 *
 * Canonical state: as in lht.c (hash slots + internal list + reference list); policy and max_items are constants of
 * the configuration.  The same argument applies: the cache adds only max_items / vtable / impl, all constant.
 */
#include "c18_common.h"
#include <aws/common/fifo_cache.h>
#include <aws/common/lifo_cache.h>
#include <aws/common/lru_cache.h>

enum { P_FIFO, P_LIFO, P_LRU };
static int g_policy;
static size_t g_max;
static struct aws_cache *C;
static char g_name[64];

enum { K_PUT, K_FIND, K_REMOVE, K_CLEAR, K_USE_LRU, K_GET_MRU };
struct opdesc {
    int kind, k, t, v;
};
static struct opdesc ops[80];
static int nops;

static void build_ops(void) {
    nops = 0;
    for (int k = 0; k < g_nk; ++k)
        for (int t = 0; t < NT; ++t)
            for (int v = 0; v < g_nv; ++v) ops[nops++] = (struct opdesc){K_PUT, k, t, v};
    for (int kind = K_FIND; kind <= K_REMOVE; ++kind)
        for (int k = 0; k < g_nk; ++k)
            for (int t = 0; t < NT; ++t) ops[nops++] = (struct opdesc){kind, k, t, 0};
    ops[nops++] = (struct opdesc){K_CLEAR, 0, 0, 0};
    if (g_policy == P_LRU) {
        ops[nops++] = (struct opdesc){K_USE_LRU, 0, 0, 0};
        ops[nops++] = (struct opdesc){K_GET_MRU, 0, 0, 0};
    }
}

static void m_opname(int op, char *buf, size_t cap) {
    struct opdesc d = ops[op];
    switch (d.kind) {
        case K_PUT: snprintf(buf, cap, "put(k%d%c,v%d)", d.k, 'A' + d.t, d.v); break;
        case K_FIND: snprintf(buf, cap, "find(k%d%c)", d.k, 'A' + d.t); break;
        case K_REMOVE: snprintf(buf, cap, "remove(k%d%c)", d.k, 'A' + d.t); break;
        case K_CLEAR: snprintf(buf, cap, "clear"); break;
        case K_USE_LRU: snprintf(buf, cap, "use_lru_element"); break;
        default: snprintf(buf, cap, "get_mru_element"); break;
    }
}

static void m_reset(void) {
    galloc_reset();
    common_reset();
    struct aws_allocator *a = galloc_get(0, 1);
    aws_hash_callback_destroy_fn *kd = g_kd ? h_key_destroy : NULL, *vd = g_vd ? h_val_destroy : NULL;
    C = g_policy == P_FIFO   ? aws_cache_new_fifo(a, h_hash, h_eq, kd, vd, g_max)
        : g_policy == P_LIFO ? aws_cache_new_lifo(a, h_hash, h_eq, kd, vd, g_max)
                             : aws_cache_new_lru(a, h_hash, h_eq, kd, vd, g_max);
    if (!C) {
        fprintf(stderr, "cache_new failed\n");
        _exit(2);
    }
    g_probe_tbl = g_probe ? &C->table : NULL;
}

static bool m_enabled(int op) {
    (void)op;
    return true;
}

static const char *victim_clause(void) {
    return g_policy == P_FIFO ? "fifo-evicts-oldest" : g_policy == P_LIFO ? "lifo-evicts-latest-before-put" : "lru-evicts-least-recently-used";
}

/* contents against the reference, as a set */
static void invariant(void) {
    size_t cnt = aws_cache_get_element_count(C);
    ESX_CHECK(cnt <= g_max, "count-exceeds-max", "after %s: the cache holds %zu elements, max_items is %zu", g_opname, cnt, g_max);
    ESX_CHECK(cnt == (size_t)nR, "element-count", "after %s: get_element_count() = %zu, reference has %d entries [%s]", g_opname, cnt, nR, show_ref());
    if (esx_failed) return;
    struct went w[MAXENT];
    int n = walk_checked(&C->table, w);
    if (n < 0) return;
    bool same_set = n == nR;
    for (int i = 0; same_set && i < n; ++i) same_set = ref_find(w[i].k) >= 0;
    ESX_CHECK(same_set, "contents", "after %s: the cache holds {%s}, the reference holds {%s}", g_opname, show_walk(w, n), show_ref());
    for (int i = 0; i < n && !esx_failed; ++i) {
        struct rent *r = &R[ref_find(w[i].k)];
        ESX_CHECK(w[i].v == r->v, "value-mismatch", "after %s: entry k%d holds v%d, the latest put stored v%d", g_opname, w[i].k, w[i].v, r->v);
        int want = r->t;
        ESX_CHECK(stored_key_ok(r, w[i].t), "stored-key-object",
                  "after %s: entry k%d points at key object k%d%c, but the object of the latest put is k%d%c (the other one was handed to the key destructor)",
                  g_opname, w[i].k, w[i].k, 'A' + w[i].t, w[i].k, 'A' + want);
    }
}

static bool walk_has(const struct went *w, int n, int k) {
    for (int i = 0; i < n; ++i)
        if (w[i].k == k) return true;
    return false;
}

static void m_apply(int op) {
    struct opdesc d = ops[op];
    m_opname(op, g_opbuf, sizeof(g_opbuf));
    op_begin(g_opbuf);
    stat_table_before(&C->table);
    /* bulk removal runs the destructors while the slots of entries already destroyed are still in place: a lookup from inside is
     * not something the library supports there (it reads released nodes on the unchanged tree), so the probe is limited to
     * single-entry displacements: overwrite, eviction, remove */
    g_probe_tbl = (g_probe && d.kind != K_CLEAR) ? &C->table : NULL;
    if (d.k == g_null_k) d.t = 0; /* NULL has no twin */
    void *key = kptr(d.k, d.t);
    int i = (d.kind == K_PUT || d.kind == K_FIND || d.kind == K_REMOVE) ? ref_find(d.k) : -1;
    switch (d.kind) {
        case K_PUT: {
            struct went before[MAXENT], after[MAXENT];
            int nb = walk_forward(&C->table, before);
            int victim = -1; /* key id the policy names */
            if (i >= 0) {
                /* would this entry have been the next victim?  (statistics) */
                bool would_be_victim = g_policy == P_LIFO ? i == nR - 1 : i == 0;
                if (would_be_victim && nR == (int)g_max && nR > 1) C18_COUNT("overwrites_of_the_would_be_victim", 1);
                struct rent e = ref_remove_at(i);
                expect_replaced(e, d.t);
                if (e.t != d.t) {
                    C18_COUNT("twin_key_replacements", 1);
                    if (g_kd) C18_COUNT("twin_key_replacements_old_key_destroyed", 1);
                } else {
                    C18_COUNT("same_pointer_replacements", 1);
                }
                ref_append(d.k, d.t, d.v);
            } else {
                ref_append(d.k, d.t, d.v);
                if (nR > (int)g_max) {
                    int vi = g_policy == P_LIFO ? nR - 2 : 0;
                    struct rent e = ref_remove_at(vi);
                    victim = e.k;
                    expect_displaced(e);
                    if (g_policy == P_FIFO) C18_COUNT("fifo_evictions", 1);
                    if (g_policy == P_LIFO) C18_COUNT("lifo_evictions", 1);
                    if (g_policy == P_LRU) C18_COUNT("lru_evictions", 1);
                    if (g_max == 1) C18_COUNT("evictions_at_capacity_1", 1);
                }
            }
            aws_reset_error();
            int rc = aws_cache_put(C, key, vptr(d.v));
            ESX_CHECK(rc == AWS_OP_SUCCESS, "put-result", "%s returned %d (error %d)", g_opname, rc, aws_last_error());
            C18_COUNT("puts", 1);
            if (esx_failed) break;
            size_t cnt = aws_cache_get_element_count(C);
            ESX_CHECK(cnt <= g_max, "count-exceeds-max", "after %s: the cache holds %zu elements, max_items is %zu", g_opname, cnt, g_max);
            int na = walk_checked(&C->table, after);
            if (na < 0 || nb < 0) break;
            bool present = false;
            for (int j = 0; j < na; ++j)
                if (after[j].k == d.k && after[j].v == d.v) present = true;
            ESX_CHECK(present, "just-put-missing", "after %s the cache holds {%s}: the entry just put is not there", g_opname, show_walk(after, na));
            if (esx_failed) break;
            /* which entries disappeared? */
            int gone[MAXENT], ngone = 0;
            for (int j = 0; j < nb; ++j)
                if (before[j].k != d.k && !walk_has(after, na, before[j].k)) gone[ngone++] = before[j].k;
            if (victim >= 0) {
                bool victim_gone = false;
                for (int j = 0; j < ngone; ++j) victim_gone |= gone[j] == victim;
                if (ngone >= 1 && !victim_gone)
                    esx_fail(victim_clause(), "%s on a full cache {%s} evicted k%d; the policy names k%d (cache now {%s})", g_opname,
                             show_walk(before, nb), gone[0], victim, show_walk(after, na));
                else if (ngone > 1)
                    esx_fail("extra-eviction", "%s on a full cache {%s} evicted %d entries (cache now {%s})", g_opname, show_walk(before, nb), ngone,
                             show_walk(after, na));
                /* ngone == 0: count-exceeds-max or contents has / will have fired */
            } else if (ngone > 0) {
                esx_fail("spurious-eviction", "%s on {%s} (max_items %zu) lost k%d although nothing had to be evicted (cache now {%s})", g_opname,
                         show_walk(before, nb), g_max, gone[0], show_walk(after, na));
            }
            break;
        }
        case K_FIND: {
            static int sentinel;
            void *out = &sentinel;
            aws_reset_error();
            int rc = aws_cache_find(C, key, &out);
            ESX_CHECK(rc == AWS_OP_SUCCESS, "find-result", "%s returned %d (error %d)", g_opname, rc, aws_last_error());
            void *want = i >= 0 ? vptr(R[i].v) : NULL;
            if (!esx_failed) {
                struct vobj *g = as_val(out);
                ESX_CHECK(out == want, "find-value", "%s gave %s%d, reference says %s%d {%s}", g_opname, out == NULL ? "NULL " : (g ? "v" : "garbage "),
                          g ? g->id : 0, i >= 0 ? "v" : "NULL ", i >= 0 ? R[i].v : 0, show_ref());
            }
            if (i >= 0) {
                if (R[i].t != d.t) C18_COUNT("lookups_hit_through_twin_pointer", 1);
                if (g_policy == P_LRU) {
                    if (i != nR - 1) C18_COUNT("lru_finds_that_change_the_use_order", 1);
                    ref_move_to_back(i);
                }
            } else {
                C18_COUNT("lookups_missed", 1);
            }
            break;
        }
        case K_REMOVE: {
            if (i >= 0) {
                if (nR == (int)g_max) C18_COUNT("removes_from_a_full_cache", 1);
                struct rent e = ref_remove_at(i);
                expect_displaced(e);
                if (e.t != d.t) C18_COUNT("removes_through_twin_pointer", 1);
            } else {
                C18_COUNT("removes_of_absent_key", 1);
            }
            aws_reset_error();
            int rc = aws_cache_remove(C, key);
            if (i >= 0) ESX_CHECK(rc == AWS_OP_SUCCESS, "remove-result", "%s of a stored key returned %d (error %d)", g_opname, rc, aws_last_error());
            break;
        }
        case K_CLEAR: {
            if (nR > 1) C18_COUNT("clears_of_several_entries", 1);
            while (nR) expect_displaced(ref_remove_at(0));
            aws_cache_clear(C);
            break;
        }
        case K_USE_LRU: {
            void *got = aws_lru_cache_use_lru_element(C);
            void *want = nR ? vptr(R[0].v) : NULL;
            struct vobj *g = as_val(got);
            ESX_CHECK(got == want, "use-lru-value", "use_lru_element returned %s%d, the least recently used entry of {%s} holds %s%d", got ? (g ? "v" : "garbage ") : "NULL ",
                      g ? g->id : 0, show_ref(), nR ? "v" : "NULL ", nR ? R[0].v : 0);
            if (nR > 1) C18_COUNT("use_lru_reorders", 1);
            if (nR) ref_move_to_back(0);
            break;
        }
        default: {
            void *got = aws_lru_cache_get_mru_element(C);
            void *want = nR ? vptr(R[nR - 1].v) : NULL;
            struct vobj *g = as_val(got);
            ESX_CHECK(got == want, "get-mru-value", "get_mru_element returned %s%d, the most recently used entry of {%s} holds %s%d", got ? (g ? "v" : "garbage ") : "NULL ",
                      g ? g->id : 0, show_ref(), nR ? "v" : "NULL ", nR ? R[nR - 1].v : 0);
            break;
        }
    }
    if (!esx_failed) check_deltas();
    if (!esx_failed) invariant();
    if (!esx_failed) stat_table_after(&C->table);
    if (!esx_failed) V_MAXSTAT("max_entries", (uint64_t)nR);
}

static size_t m_canon(uint8_t *b, size_t cap) {
    (void)cap;
    return canon_table(&C->table, b);
}

static void m_teardown(void) {
    if (!C) return;
    struct aws_cache *c = C;
    C = NULL;
    if (esx_failed) return;
    g_probe_tbl = NULL; /* no lookups in a table that is being dismantled */
    op_begin("destroy");
    for (int i = 0; i < nR; ++i) expect_displaced(R[i]);
    aws_cache_destroy(c);
    check_deltas();
}

static struct esx_model model = {
    .reset = m_reset, .enabled = m_enabled, .apply = m_apply, .canon = m_canon, .opname = m_opname, .teardown = m_teardown,
};

int main(int argc, char **argv) {
    v_init(argc, argv);
    aws_common_library_init(aws_default_allocator());
    static const char *dname[4] = {"none", "key", "val", "both"};
    static const char *pname[3] = {"fifo", "lifo", "lru"};
    int rc = 0;
    for (int variant = 0; variant < 4; ++variant) { /* 0: plain, 1: value v2 is NULL, 2: key k0 is NULL, 3: the value destructor looks keys up */
    int nullv = variant == 1, nullk = variant == 2;
    g_probe = variant == 3;
    for (int p = 0; p < 3; ++p)
        for (size_t mx = 1; mx <= 3; ++mx)
            for (int dm = 0; dm < 4; ++dm)
                for (int hm = 0; hm < 3; ++hm) {
                    /* second pass: the same with value v2 stored as a NULL pointer (a cache must tell "present with a NULL
                     * value" from "absent"; added after a seeded change in the FIFO cache that did not) - both destructors, spread hash */
                    if ((nullv || nullk || g_probe) && !(dm == 3 && hm == 0)) continue;
                    g_null_v = nullv ? NV - 1 : -1;
                    g_null_k = nullk ? 0 : -1; /* (added after a seeded change in the hash table's growth that lost entries with a NULL key) */
                    /* quick: destructors none/both, spread hash (+ the colliding hash at max_items 2).  thorough adds key-only / value-only destructors and, with
                     * both destructors, the two collision hash modes (their slot layouts multiply the state count). */
                    bool in_quick = ((dm == 0 || dm == 3) && hm == 0) || (dm == 3 && hm == 1 && mx == 2);
                    bool in_thorough = hm == 0 || dm == 3;
                    if (!in_thorough) continue;
                    g_policy = p;
                    g_max = mx;
                    g_kd = dm & 1;
                    g_vd = (dm >> 1) & 1;
                    g_hmode = hm;
                    g_nk = NK;
                    g_nv = NV;
                    snprintf(g_name, sizeof(g_name), "%s-m%zu-d%s-h%d-k%dv%d%s", pname[p], mx, dname[dm], hm, g_nk, g_nv, nullv ? "-nullv" : nullk ? "-nullk" : g_probe ? "-probe" : "");
                    model.name = g_name;
                    build_ops();
                    model.nops = nops;
                    if (v_replay_token) {
                        if (esx_token_is_for(v_replay_token, g_name)) rc |= esx_replay(&model, v_replay_token);
                        continue;
                    }
                    if (!v_thorough() && !in_quick) continue;
                    esx_run(&model);
        ESX_CYCLES(&model);
                }
    }
    v_finish();
    return (v_sh->viol_count || rc) ? 1 : 0;
}
