/*
 * C18 — shared parts of the linked-hash-table model (lht.c) and the cache model (cache.c).
 *
 *  - key objects   KO[k][t]: k = identity seen by the harness hash / equality callbacks, t = twin index.
 *    KO[k][0] and KO[k][1] are equal by comparison and distinct as pointers.
 *  - value objects VO[v].
 *  - destroy callbacks count per object; the oracle compares the counters as PER-OPERATION DELTAS against the
 *    entries the reference says were displaced by that operation.  The counters never enter the canonical state.
 *  - a key object handed to a hash / equality callback after its destructor ran in the same operation is a
 *    use of a destroyed key (for any real destructor: use after free).
 *  - reference model: a plain ordered array of (key id, stored key object, value id).
 *  - white-box part of the canonical state: the slot layout of the underlying aws_hash_table (through the
 *    library's own private/hash_table_impl.h), because the layout (size, probe positions) is history dependent
 *    and decides which code paths later operations take.
 */
#ifndef C18_COMMON_H
#define C18_COMMON_H
#include "esx.h"
#include "galloc.h"
#include <aws/common/linked_hash_table.h>
#ifndef NO_WHITEBOX
#    include <aws/common/private/hash_table_impl.h>
#endif

#define NK 4
#define NT 2
#define NV 3
#define MAXENT (NK + 2)

struct kobj {
    int id, twin;
    uint32_t destroyed;    /* calls of the key destructor on this object since reset() */
    uint8_t dead_in_op;    /* destructor ran during the current operation */
};
struct vobj {
    int id;
    uint32_t destroyed;
};
static struct kobj KO[NK][NT];
static struct vobj VO[NV];

/* configuration shared by both models */
static int g_nk = NK, g_nv = NV; /* alphabet actually driven (tiers may shrink it) */
static int g_kd, g_vd;           /* key / value destructor installed */
static int g_hmode;              /* 0 spread, 1 all keys collide, 2 {k0,k1,k3 collide (k3 hashes to 0 -> 1), k2 next slot} */

static const char *g_opname = "?"; /* text of the operation being applied, for messages */
static char g_opbuf[64];

/* ---- "is this the new transition or a prefix replay?" (statistics only) ---------------------------
 * esx rewrites the crumb (history + new op) right before it applies the new op; reset() saw the crumb
 * without it.  Counters are bumped only for the new transition, so they count distinct transitions. */
static char g_crumb_at_reset[1024];
static bool c18_final_step(void) { return strcmp(g_crumb_at_reset, v_get_crumb()) != 0; }
#define C18_COUNT(name, n)                                                                                       \
    do {                                                                                                         \
        if (c18_final_step()) V_COUNT(name, n);                                                                  \
    } while (0)

/* ---- callbacks -------------------------------------------------------------------------------------- */
static int g_null_k = -1; /* configuration: the key with this id is passed as a NULL pointer (a legal key of the underlying hash table,
                             e.g. integer ids used as pointer keys); both "twins" of it are then the same object */
static struct kobj *as_key(const void *p) {
    const struct kobj *b = &KO[0][0];
    if (!p && g_null_k >= 0) return &KO[g_null_k][0];
    if ((const struct kobj *)p < b || (const struct kobj *)p >= b + NK * NT) return NULL;
    if (((const char *)p - (const char *)b) % sizeof(struct kobj)) return NULL;
    return (struct kobj *)p;
}
static void *kptr(int k, int t) { return k == g_null_k ? NULL : (void *)&KO[k][t]; }
static int g_null_v = -1; /* configuration: the value with this index is stored as a NULL pointer (a legal value), -1 = none */
static void *vptr(int v) { return v == g_null_v ? NULL : (void *)&VO[v]; }
static struct vobj *as_val(const void *p) {
    const struct vobj *b = &VO[0];
    if (!p && g_null_v >= 0) return &VO[g_null_v];
    if ((const struct vobj *)p < b || (const struct vobj *)p >= b + NV) return NULL;
    if (((const char *)p - (const char *)b) % sizeof(struct vobj)) return NULL;
    return (struct vobj *)p;
}

/* configuration "-probe": the value destructor is itself a (read-only) client of the table - it looks every key up while the
 * operation that displaced its value is still in progress.  Nothing documents what such a lookup answers for the entry
 * being displaced, so the oracle is memory safety (the table's memory is poisoned when released) plus: whatever is
 * answered is NULL or a value that was put, never garbage (added after a seeded change that released the list node
 * before calling the value destructor, leaving the hash element pointing at freed memory during the callback). */
static struct aws_linked_hash_table *g_probe_tbl;
static int g_probe; /* configuration flag; the model's reset() points g_probe_tbl at its table, teardown() clears it */
static int g_in_probe;
static void touch_key(const void *p, const char *who) {
    if (g_in_probe) return; /* lookups made from inside a destructor may legitimately meet the key destroyed a moment ago */
    struct kobj *k = as_key(p);
    if (!k) {
        esx_fail("callback-foreign-key", "%s: %s callback received a pointer that is not one of the harness key objects", g_opname, who);
        return;
    }
    if (k->dead_in_op)
        esx_fail("key-used-after-destroy", "%s: %s callback received key object k%d%c after its destructor ran in the same operation",
                 g_opname, who, k->id, 'A' + k->twin);
}
static uint64_t h_hash(const void *p) {
    touch_key(p, "hash");
    struct kobj *k = as_key(p);
    if (!k) return 99;
    switch (g_hmode) {
        case 0: return (uint64_t)k->id + 1;              /* four different home slots */
        case 1: return 7;                                /* one probe chain for all keys */
        default: {                                       /* k3 returns 0, which the table maps to 1 */
            static const uint64_t h[NK] = {1, 1, 2, 0};
            return h[k->id];
        }
    }
}
static bool h_eq(const void *a, const void *b) {
    touch_key(a, "equals");
    touch_key(b, "equals");
    struct kobj *x = as_key(a), *y = as_key(b);
    return x && y && x->id == y->id;
}
static void h_key_destroy(void *p) {
    struct kobj *k = as_key(p);
    if (!k) {
        esx_fail("destroy-foreign-key", "%s: key destructor received a pointer that is not a harness key object", g_opname);
        return;
    }
    k->destroyed++;
    k->dead_in_op = 1;
}
/* configuration "-two": a second linked hash table B lives next to the one under test, and A's value destructor works on it
 * (overwrite, remove, insert again) - also while A is being cleared, which is legitimate: B is a different object.  After every
 * operation on A, B must be what those nested operations left: one entry, its list one node long, found under its key (added
 * after a seeded change that kept an "all entries are being removed" flag at file scope: entries of B destroyed while A was
 * being cleared stayed linked in B's list) */
static int g_two;
static struct aws_linked_hash_table TB;
static int TB_live, TB_expected; /* entries B should hold */
static int tb_destroyed;
static void tb_val_destroy(void *p) {
    (void)p;
    ++tb_destroyed;
}
static int tb_key; /* B has a key object and callbacks of its own */
static uint64_t tb_hash(const void *k) {
    (void)k;
    return 3;
}
static bool tb_eq(const void *a, const void *b) { return a == b; }
static void two_activity(void) {
    if (!g_two || !TB_live) return;
    static int tbv[2];
    int rc = aws_linked_hash_table_put(&TB, &tb_key, &tbv[0]); /* overwrite (or first insert) */
    rc |= aws_linked_hash_table_remove(&TB, &tb_key);
    rc |= aws_linked_hash_table_put(&TB, &tb_key, &tbv[1]);
    TB_expected = 1;
    if (rc) esx_fail("second-table", "%s: an operation on the second table made from A's value destructor failed", g_opname);
}
static void two_check(void) {
    if (!g_two || !TB_live) return;
    size_t cnt = aws_linked_hash_table_get_element_count(&TB);
    const struct aws_linked_list *list = aws_linked_hash_table_get_iteration_list(&TB);
    int n = 0;
    for (const struct aws_linked_list_node *it = aws_linked_list_begin(list); it != aws_linked_list_end(list) && n < 8; it = aws_linked_list_next(it)) {
        const struct aws_linked_hash_table_node *node = AWS_CONTAINER_OF(it, struct aws_linked_hash_table_node, node);
        if (node->key != (void *)&tb_key) esx_fail("second-table", "%s: the second table's iteration list holds a node whose key was never put", g_opname);
        ++n;
    }
    void *v = NULL;
    int rc = aws_linked_hash_table_find(&TB, &tb_key, &v);
    if (cnt != (size_t)TB_expected || n != TB_expected || rc != AWS_OP_SUCCESS || (TB_expected && !v))
        esx_fail("second-table", "%s: the second table should hold %d entr%s: element count %zu, iteration list of %d node(s), lookup %s", g_opname, TB_expected, TB_expected == 1 ? "y" : "ies", cnt, n,
                 v ? "finds it" : "finds nothing");
}
static void two_reset(struct aws_allocator *a) {
    TB_live = TB_expected = tb_destroyed = 0;
    if (!g_two) return;
    AWS_ZERO_STRUCT(TB);
    if (aws_linked_hash_table_init(&TB, a, tb_hash, tb_eq, NULL, tb_val_destroy, 2)) _exit(2);
    TB_live = 1;
}
static void two_teardown(void) {
    if (!TB_live) return;
    TB_live = 0;
    aws_linked_hash_table_clean_up(&TB);
}
static void h_val_destroy(void *p) {
    struct vobj *v = as_val(p);
    if (!v) {
        esx_fail("destroy-foreign-value", "%s: value destructor received a pointer that is not a harness value object", g_opname);
        return;
    }
    v->destroyed++;
    if (g_two) two_activity();
    if (g_probe_tbl && !g_in_probe) {
        g_in_probe = 1;
        for (int k = 0; k < g_nk; ++k) {
            void *found = (void *)&KO[0][0]; /* neither NULL nor a value object */
            int rc = aws_linked_hash_table_find(g_probe_tbl, kptr(k, 0), &found);
            V_COUNT("lookups_from_inside_a_value_destructor", 1);
            if (rc != AWS_OP_SUCCESS || (found != NULL && !as_val(found)))
                esx_fail("lookup-during-destructor", "%s: a lookup of k%d made from inside the value destructor of v%d returned %d and a value pointer that was never put", g_opname, k,
                         v->id, rc);
        }
        g_in_probe = 0;
    }
}

/* ---- reference ordered map --------------------------------------------------------------------------- */
struct rent {
    int k, t, v;
};
static struct rent R[MAXENT];
static int nR;

static int ref_find(int k) {
    for (int i = 0; i < nR; ++i)
        if (R[i].k == k) return i;
    return -1;
}
static struct rent ref_remove_at(int i) {
    struct rent e = R[i];
    for (int j = i; j + 1 < nR; ++j) R[j] = R[j + 1];
    --nR;
    return e;
}
static void ref_append(int k, int t, int v) {
    R[nR].k = k;
    R[nR].t = t;
    R[nR].v = v;
    ++nR;
}
static void ref_move_to_back(int i) {
    struct rent e = ref_remove_at(i);
    R[nR++] = e;
}

/* ---- expected destructor deltas ------------------------------------------------------------------------ */
static uint32_t snap_k[NK][NT], snap_v[NV];
static int exp_k[NK][NT], exp_v[NV];

static void op_begin(const char *name) {
    g_opname = name;
    for (int k = 0; k < NK; ++k)
        for (int t = 0; t < NT; ++t) {
            snap_k[k][t] = KO[k][t].destroyed;
            exp_k[k][t] = 0;
            KO[k][t].dead_in_op = 0; /* the harness hands out "fresh" objects: an object destroyed earlier may be used again */
        }
    for (int v = 0; v < NV; ++v) {
        snap_v[v] = VO[v].destroyed;
        exp_v[v] = 0;
    }
}
/* the reference says entry e leaves the container in this operation */
static void expect_displaced(struct rent e) {
    if (g_kd) exp_k[e.k][e.t]++;
    if (g_vd) exp_v[e.v]++;
}
/* the reference says entry e is overwritten by a put with key object (e.k, newt) */
static void expect_replaced(struct rent e, int newt) {
    if (g_kd && e.t != newt) exp_k[e.k][e.t]++; /* same object put again: it stays the stored key, not destroyed */
    if (g_vd) exp_v[e.v]++;
}
static void check_deltas(void) {
    for (int k = 0; k < NK; ++k)
        for (int t = 0; t < NT; ++t) {
            int got = (int)(KO[k][t].destroyed - snap_k[k][t]);
            if (got < exp_k[k][t])
                esx_fail("key-destroy-missing", "%s: key object k%d%c destroyed %d times in this operation, reference says %d", g_opname, k,
                         'A' + t, got, exp_k[k][t]);
            else if (got > exp_k[k][t])
                esx_fail("key-destroy-extra", "%s: key object k%d%c destroyed %d times in this operation, reference says %d", g_opname, k,
                         'A' + t, got, exp_k[k][t]);
        }
    for (int v = 0; v < NV; ++v) {
        int got = (int)(VO[v].destroyed - snap_v[v]);
        if (got < exp_v[v])
            esx_fail("value-destroy-missing", "%s: value object v%d destroyed %d times in this operation, reference says %d", g_opname, v, got,
                     exp_v[v]);
        else if (got > exp_v[v])
            esx_fail("value-destroy-extra", "%s: value object v%d destroyed %d times in this operation, reference says %d", g_opname, v, got,
                     exp_v[v]);
    }
}

static void common_reset(void) {
    snprintf(g_crumb_at_reset, sizeof(g_crumb_at_reset), "%s", v_get_crumb());
    memset(KO, 0, sizeof(KO));
    memset(VO, 0, sizeof(VO));
    for (int k = 0; k < NK; ++k)
        for (int t = 0; t < NT; ++t) {
            KO[k][t].id = k;
            KO[k][t].twin = t;
        }
    for (int v = 0; v < NV; ++v) VO[v].id = v;
    memset(R, 0, sizeof(R));
    nR = 0;
    g_opname = "reset";
}

/* ---- walking the iteration list ------------------------------------------------------------------------- */
struct went {
    int k, t, v; /* -1: pointer is not a harness object */
    const struct aws_linked_hash_table_node *node;
};
/* forward walk; returns number of nodes, or -1 if the list does not end within MAXENT nodes */
static int walk_forward(const struct aws_linked_hash_table *tbl, struct went *out) {
    const struct aws_linked_list *list = aws_linked_hash_table_get_iteration_list(tbl);
    int n = 0;
    for (const struct aws_linked_list_node *it = aws_linked_list_begin(list); it != aws_linked_list_end(list);
         it = aws_linked_list_next(it)) {
        if (n >= MAXENT) return -1;
        const struct aws_linked_hash_table_node *node = AWS_CONTAINER_OF(it, struct aws_linked_hash_table_node, node);
        struct kobj *k = as_key(node->key);
        struct vobj *v = as_val(node->value);
        out[n].k = k ? k->id : -1;
        out[n].t = k ? k->twin : -1;
        out[n].v = v ? v->id : -1;
        out[n].node = node;
        ++n;
    }
    return n;
}
static int walk_backward(const struct aws_linked_hash_table *tbl, const struct aws_linked_hash_table_node **out) {
    const struct aws_linked_list *list = aws_linked_hash_table_get_iteration_list(tbl);
    int n = 0;
    for (const struct aws_linked_list_node *it = aws_linked_list_rbegin(list); it != aws_linked_list_rend(list);
         it = aws_linked_list_prev(it)) {
        if (n >= MAXENT) return -1;
        out[n++] = AWS_CONTAINER_OF(it, struct aws_linked_hash_table_node, node);
    }
    return n;
}

static const char *show_walk(const struct went *w, int n) {
    static char b[2][160];
    static int which;
    char *o = b[which ^= 1];
    size_t p = 0;
    o[0] = 0;
    for (int i = 0; i < n && p + 16 < sizeof(b[0]); ++i)
        p += (size_t)snprintf(o + p, sizeof(b[0]) - p, "%sk%d%c=v%d", i ? " " : "", w[i].k, w[i].t < 0 ? '?' : 'A' + w[i].t, w[i].v);
    if (!n) snprintf(o, sizeof(b[0]), "(empty)");
    return o;
}
static const char *show_ref(void) {
    struct went w[MAXENT];
    for (int i = 0; i < nR; ++i) {
        w[i].k = R[i].k;
        w[i].t = R[i].t;
        w[i].v = R[i].v;
    }
    return show_walk(w, nR);
}

/* Structural checks every model wants: the list is a well-formed doubly linked list of harness entries and every
 * node agrees with the hash element that owns it.  Returns the forward walk. */
static int walk_checked(struct aws_linked_hash_table *tbl, struct went *w) {
    int n = walk_forward(tbl, w);
    ESX_CHECK(n >= 0, "iteration-list-unbounded", "%s: the iteration list does not end after %d nodes", g_opname, MAXENT);
    if (n < 0) return -1;
    const struct aws_linked_hash_table_node *back[MAXENT];
    int nb = walk_backward(tbl, back);
    bool same = nb == n;
    for (int i = 0; same && i < n; ++i) same = back[n - 1 - i] == w[i].node;
    ESX_CHECK(same, "iteration-list-backward", "%s: walking the iteration list backwards does not give the reverse of the forward walk [%s]",
              g_opname, show_walk(w, n));
    for (int i = 0; i < n && !esx_failed; ++i) {
        ESX_CHECK(w[i].k >= 0 && w[i].v >= 0, "iteration-node-garbage", "%s: node %d of the iteration list holds a key/value pointer that was never put",
                  g_opname, i);
        for (int j = 0; j < i; ++j)
            ESX_CHECK(w[j].k != w[i].k, "duplicate-key", "%s: key k%d appears twice in the iteration list [%s]", g_opname, w[i].k, show_walk(w, n));
    }
    return esx_failed ? -1 : n;
}

/* which stored key object does the oracle accept at reference entry r when the container holds object t?
 * With a key destructor the old object was destroyed, so only the object of the latest put may be stored.
 * Without one nothing documents which of two equal objects is kept: either twin is accepted and the reference
 * follows the container (the canonical state records the object actually stored). */
static bool stored_key_ok(struct rent *r, int t) {
    if (r->t == t) return true;
    if (g_kd) return false;
    r->t = t;
    return true;
}

/* ---- canonical state: hash slots + forward list + reference list ------------------------------------------ */
static size_t canon_table(const struct aws_linked_hash_table *tbl, uint8_t *b) {
    size_t o = 0;
    struct went w[MAXENT];
    int n = walk_forward(tbl, w);
#ifndef NO_WHITEBOX
    const struct hash_table_state *st = (const struct hash_table_state *)tbl->table.p_impl;
    size_t size = st->size;
    b[o++] = (uint8_t)(size > 255 ? 255 : size);
    b[o++] = (uint8_t)st->entry_count;
    for (size_t i = 0; i < size && i < 64; ++i) {
        const struct hash_table_entry *e = &st->slots[i];
        if (!e->hash_code) {
            b[o++] = 0xff;
            b[o++] = 0xff;
            continue;
        }
        struct kobj *k = as_key(e->element.key);
        b[o++] = k ? (uint8_t)(k->id * NT + k->twin) : 0xfe;
        int pos = 0xfe; /* which list node this element owns */
        for (int j = 0; j < n; ++j)
            if ((const void *)w[j].node == e->element.value) pos = j;
        b[o++] = (uint8_t)pos;
    }
#else
    /* fallback build (private hash table layout not available in the expected form): the inner table is represented by its
     * public iteration order; the driver reports the run as degraded */
    b[o++] = (uint8_t)aws_hash_table_get_entry_count(&tbl->table);
    for (struct aws_hash_iter it = aws_hash_iter_begin(&tbl->table); !aws_hash_iter_done(&it); aws_hash_iter_next(&it)) {
        struct kobj *k = as_key(it.element.key);
        b[o++] = k ? (uint8_t)(k->id * NT + k->twin) : 0xfe;
        int pos = 0xfe;
        for (int j = 0; j < n; ++j)
            if ((const void *)w[j].node == it.element.value) pos = j;
        b[o++] = (uint8_t)pos;
    }
#endif
    b[o++] = (uint8_t)(n < 0 ? 0xfe : n);
    for (int i = 0; i < n; ++i) {
        b[o++] = (uint8_t)(w[i].k * NT + w[i].t);
        b[o++] = (uint8_t)w[i].v;
    }
    b[o++] = (uint8_t)nR;
    for (int i = 0; i < nR; ++i) {
        b[o++] = (uint8_t)(R[i].k * NT + R[i].t);
        b[o++] = (uint8_t)R[i].v;
    }
    return o;
}

/* statistics about the underlying table (new transitions only) */
static size_t g_size_before;
#ifndef NO_WHITEBOX
static void stat_table_before(const struct aws_linked_hash_table *tbl) {
    g_size_before = ((const struct hash_table_state *)tbl->table.p_impl)->size;
}
static void stat_table_after(const struct aws_linked_hash_table *tbl) {
    const struct hash_table_state *st = (const struct hash_table_state *)tbl->table.p_impl;
    if (st->size != g_size_before) C18_COUNT("hash_table_growths", 1);
    for (size_t i = 0; i < st->size; ++i)
        if (st->slots[i].hash_code && ((i - st->slots[i].hash_code) & st->mask) > 0) {
            C18_COUNT("states_with_displaced_hash_slots", 1);
            break;
        }
}
#else
static void stat_table_before(const struct aws_linked_hash_table *tbl) { (void)tbl; }
static void stat_table_after(const struct aws_linked_hash_table *tbl) { (void)tbl; }
#endif

#endif
