LEVEL = "model_checking"
# Two ESX models on the real library code (c18_common.h holds the shared key/value objects, callbacks, reference map):
#   lht    aws_linked_hash_table: put / find / find_and_move_to_back / remove / clear; the iteration list is walked
#          (forwards and backwards) and get_element_count is called after every operation, i.e. in every reachable state
#   cache  aws_cache_new_fifo / _lifo / _lru with max_items 1,2,3: put / find / remove / clear (+ use_lru_element,
#          get_mru_element for LRU); get_element_count after every operation
# Every configuration is finite and is run to its FIXPOINT (all histories of every length over the alphabet).
# The deadlines are generous on purpose (shared machine): the runs are CPU-bound, about 14 us of CPU per transition;
# quick = 24 configurations / 1.6e5 states / 7.3e6 transitions (about 75 CPU-s), thorough = 66 configurations /
# 1.07e6 states / 4.6e7 transitions (about 8 CPU-min); measured 19 s and 147 s wall on the shared 16-core machine.
HARNESSES = [
    dict(name="lht", src=["lht.c"], variant="asan", deadline={"quick": 300, "thorough": 1500}, fallback_cflags=["-DNO_WHITEBOX"]),
    dict(name="cache", src=["cache.c"], variant="asan", deadline={"quick": 300, "thorough": 1500}, fallback_cflags=["-DNO_WHITEBOX"]),
]
ASSUMPTIONS = [
    "bounds: key identities k0..k3, each with two equal-but-distinct key objects (A/B twins), values v0..v2, max_items 1..3, "
    "initial_item_count 1 or 8 for the bare table; hash callback either spreads the keys over four home slots (full alphabet) or makes them "
    "collide (all four on one chain / k0,k1,k3 on one chain with k3 hashing to 0; these run with 2 values or 3 keys because every reachable "
    "slot layout of the underlying hash table is a distinct canonical state); destructors none / both (quick) + key-only / value-only (thorough)",
    "states are de-duplicated on a 128-bit hash of the canonical state (hash compaction); the canonical state contains the slot layout of the "
    "underlying aws_hash_table read through the library's private/hash_table_impl.h, the internal list and the reference list",
    "reading (headers): a put on a stored key replaces the element, the replacement counts as the newest insertion (FIFO/LIFO) and as a use (LRU): "
    "it moves to the back of the order; FIFO evicts the front, LIFO the entry that was last before the put, LRU the front after find hits, puts "
    "and use_lru_element moved entries to the back",
    "reading (hash_table.h 'both old key and value objects will be destroyed', semantics preserved by linked_hash_table.h / *_cache.h): the OLD key "
    "object is destroyed exactly once when an equal-but-distinct key object replaces it; when the very same key object is put again it stays the "
    "stored key and is not destroyed; the old value is destroyed once in both cases (also when the same value object is put again)",
    "with a key destructor installed the stored key must be the object of the latest put (the other one was destroyed); without one the headers do "
    "not say which of two equal objects is kept, so either twin is accepted and the reference follows the container",
    "a key object reaching the hash/equals callback after its destructor ran in the same operation is reported (use of a destroyed key); "
    "destructor counters are compared as per-operation deltas and are not part of the canonical state",
    "the order of a cache's internal list is not compared with the reference (only the victim of each eviction, the returned values and the "
    "contents are); it is part of the canonical state, so an internal order that can lead to a wrong victim is followed until it does",
    "remove of an absent key: only 'nothing changes, nothing is destroyed' is demanded (its return code is not documented for the linked table); "
    "allocator balance is not part of C18 and is not checked; values are never NULL (find reports absence as NULL)",
]
