LEVEL = "model_checking"
HARNESSES = [
    dict(name="lht", src=["lht.c"], variant="asan", deadline={"quick": 300, "thorough": 1500}),
    dict(name="cache", src=["cache.c"], variant="asan", deadline={"quick": 300, "thorough": 1500}),
]
ASSUMPTIONS = []
