/*
 * C01 — helpers shared by the ESX harnesses (bufw.c, cur.c).
 */
#ifndef C01_COMMON_H
#define C01_COMMON_H
#include "esx.h"
#include "galloc.h"
#include <aws/common/array_list.h>
#include <aws/common/byte_buf.h>
#include <aws/common/error.h>
#include <aws/common/private/byte_buf.h>
#include <aws/common/string.h>

#define HALF (SIZE_MAX >> 1) /* SIZE_MAX/2: the largest length the SIZE_MAX/2 guards accept */

/* 3-symbol data alphabet: a lower-case hex letter, an upper-case hex letter, white space */
static const uint8_t SYM[3] = {'a', 'F', ' '};
/* data pattern handed to multi-byte operations (prefixes of it) */
static const uint8_t PAT[8] = {'a', 'F', ' ', 'F', 'a', ' ', 'a', 'F'};

/* vacuity counters count new transitions only, not the engine's prefix replays */
#define VC(name)                                                                                                 \
    do {                                                                                                         \
        if (!esx_in_replay) V_COUNT(name, 1);                                                                    \
    } while (0)

/* ---- transient operand blocks: exact-size galloc blocks, so that a 1-byte over-read is an ASan report ---- */
#define MAXTMP 12
static void *tmp_blk[MAXTMP];
static int ntmp;
static uint8_t *tmp_block(const void *src, size_t n) {
    uint8_t *p = (uint8_t *)galloc_acquire(&galloc_allocator, n); /* n==0: valid address, no readable byte */
    if (n) memcpy(p, src, n);
    if (ntmp >= MAXTMP) {
        fprintf(stderr, "tmp overflow\n");
        _exit(2);
    }
    tmp_blk[ntmp++] = p;
    return p;
}
static void tmp_free_all(void) {
    while (ntmp) galloc_release(&galloc_allocator, tmp_blk[--ntmp]);
}

/* a failure of an int-returning function must have raised a registered error code */
static bool err_registered(int code) { return code != 0 && strcmp(aws_error_name(code), "Unknown Error Code") != 0; }

/* the nine length arguments of the plan; fit = remaining space (buffers) or remaining length (cursors) */
enum { LA_0, LA_1, LA_2, LA_FIT, LA_FIT1, LA_HALF, LA_HALF1, LA_MAXM1, LA_MAX, LA_N };
static size_t la_value(int la, size_t fit) {
    switch (la) {
        case LA_0: return 0;
        case LA_1: return 1;
        case LA_2: return 2;
        case LA_FIT: return fit;
        case LA_FIT1: return fit + 1;
        case LA_HALF: return HALF;
        case LA_HALF1: return HALF + 1;
        case LA_MAXM1: return SIZE_MAX - 1;
        default: return SIZE_MAX;
    }
}
/* exact-fit / exact-fit+1 duplicate 0,1,2 for small fits: skip the duplicates */
static bool la_distinct(int la, size_t fit) {
    if (la == LA_FIT) return fit > 2;
    if (la == LA_FIT1) return fit + 1 > 2;
    return true;
}
static const char *la_name(int la) {
    static const char *n[] = {"0", "1", "2", "exact-fit", "exact-fit+1", "SIZE_MAX/2", "SIZE_MAX/2+1", "SIZE_MAX-1", "SIZE_MAX"};
    return n[la];
}
static bool la_huge(int la) { return la >= LA_HALF; }

#endif
