/*
 * C01 / filerd — aws_byte_buf_init_from_file[_with_size_hint] with the environment owned by the harness.
 *
 * source/file.c really calls: fopen (via aws_fopen_safe), fileno + fstat (aws_file_get_length, only for
 * init_from_file), fread, feof, ferror, fclose.  The harness links with
 *     -Wl,--wrap=fread,--wrap=feof,--wrap=ferror,--wrap=fstat
 * (libc is NOT re-defined: __wrap_* call __real_* whenever the simulation is off or the stream is not ours, so
 * ASan's interceptors stay in place).  fopen/fileno/fclose stay real: the library opens a real, empty scratch
 * file under build/tmp and the wrapped calls answer for it:
 *     - the file has n <= 5 bytes (contains NUL and 0xFF: binary safe);
 *     - every composition of n into short reads (a read never returns more than the current chunk);
 *     - the size the OS claims (fstat) / the size hint from {0, 1, n-1, n, n+1};
 *     - end-of-file signalled by the read that hits the end, only by a following zero-byte read, or eagerly
 *       together with the last byte even when the request was satisfied in full (the case file.c's final
 *       "grow by one for the terminator" exists for);
 *     - at most one injected fault: fstat fails; the j-th fread fails with ferror()+EIO; the j-th fread returns 0
 *       without error and without end-of-file.
 * Oracle (byte_buf.h): success => len == n, bytes == file, a NUL after them inside the capacity, one live block;
 * failure => AWS_OP_ERR with a registered error code, out_buf zeroed ("remains unused"), nothing left allocated.
 * __wrap_fread is instrumented harness code writing exactly what it was asked for at most: if the library
 * passes a size beyond the buffer's capacity, ASan reports it with the library frame on the stack.
 */
#include "bee.h"
#include "galloc.h"
#include <aws/common/byte_buf.h>
#include <aws/common/error.h>
#include <aws/common/file.h>
#include <sys/stat.h>

size_t __real_fread(void *ptr, size_t size, size_t nmemb, FILE *stream);
int __real_feof(FILE *stream);
int __real_ferror(FILE *stream);
int __real_fstat(int fd, struct stat *st);

static const uint8_t FILEBYTES[5] = {'a', 0x00, 'F', 0xFF, ' '};

static struct {
    int active;
    size_t n, pos;
    unsigned mask;     /* bit i set: a chunk ends after byte i */
    int eof_mode;      /* 0: EOF is signalled by the read that hits the end (asked for more than is left); 1 lazy: only by a
                          following zero-byte read; 2 eager: as soon as the last byte is delivered, even by a full read */
    size_t st_size;    /* what fstat claims */
    int inj_kind;      /* 0 none, 1 fstat fails, 2 fread fails with ferror, 3 fread returns 0 silently */
    int inj_call;      /* which fread call */
    int calls, fired, eof, err, short_reads, fstat_calls, bad_request, eager_full;
} sim;

size_t __wrap_fread(void *ptr, size_t size, size_t nmemb, FILE *stream) {
    if (!sim.active) return __real_fread(ptr, size, nmemb, stream);
    size_t req = size * nmemb;
    int call = sim.calls++;
    if (req == 0) sim.bad_request++;
    if ((sim.inj_kind == 2 || sim.inj_kind == 3) && call == sim.inj_call) {
        sim.fired = 1;
        if (sim.inj_kind == 2) {
            sim.err = 1;
            errno = EIO;
        }
        return 0;
    }
    size_t end = sim.pos; /* end of the current chunk */
    while (end < sim.n) {
        ++end;
        if (end < sim.n && (sim.mask >> (end - 1)) & 1) break;
    }
    size_t give = end - sim.pos;
    if (give > req) give = req;
    memcpy(ptr, FILEBYTES + sim.pos, give); /* instrumented: an over-long request overruns the library's buffer under ASan */
    sim.pos += give;
    if (give < req) {
        if (sim.pos == sim.n && (give == 0 || sim.eof_mode != 1)) sim.eof = 1;
        else sim.short_reads++;
    } else if (sim.pos == sim.n && sim.eof_mode == 2) {
        sim.eof = 1;
        sim.eager_full++;
    }
    return size ? give / size : 0;
}
int __wrap_feof(FILE *stream) { return sim.active ? sim.eof : __real_feof(stream); }
int __wrap_ferror(FILE *stream) { return sim.active ? sim.err : __real_ferror(stream); }
int __wrap_fstat(int fd, struct stat *st) {
    int r = __real_fstat(fd, st);
    if (!sim.active) return r;
    sim.fstat_calls++;
    if (sim.inj_kind == 1) {
        sim.fired = 1;
        errno = EIO;
        return -1;
    }
    st->st_size = (off_t)sim.st_size;
    return r;
}

static char scratch[200];     /* real, empty file the library opens while the simulation answers */
static char realfile[6][200]; /* real files of 0..5 bytes for the pass-through section */

static void check_result(int rc, struct aws_byte_buf *out, size_t n, bool must_fail, const char *what) {
    if (!must_fail) {
        BEE_CHECK(rc == AWS_OP_SUCCESS, "must-succeed", "%s: failed with %s", what, aws_error_name(aws_last_error()));
        if (rc != AWS_OP_SUCCESS) return;
        BEE_CHECK(out->len == n, "length", "%s: len %zu, the file has %zu bytes", what, out->len, n);
        BEE_CHECK(out->capacity > out->len && out->buffer != NULL, "terminator-room", "%s: capacity %zu leaves no room for the terminator after %zu bytes", what, out->capacity, out->len);
        if (out->len != n || !(out->capacity > out->len) || !out->buffer) return;
        BEE_CHECK(memcmp(out->buffer, FILEBYTES, n) == 0, "contents", "%s: buffer holds [%s], the file is [%s]", what, v_show(out->buffer, n), v_show(FILEBYTES, n));
        BEE_CHECK(out->buffer[n] == 0, "terminator", "%s: byte after the data is 0x%02x, not NUL", what, out->buffer[n]);
        BEE_CHECK(out->allocator == &galloc_allocator, "allocator-field", "%s: allocator not recorded", what);
        BEE_CHECK(aws_byte_buf_is_valid(out), "shape", "%s: result is not a valid aws_byte_buf", what);
        BEE_CHECK(ga.live_blocks == 1, "allocator-balance", "%s: %llu blocks live after success, expected 1", what, (unsigned long long)ga.live_blocks);
        aws_byte_buf_clean_up(out);
        BEE_CHECK(ga.live_blocks == 0, "leak", "%s: %llu blocks live after clean_up", what, (unsigned long long)ga.live_blocks);
    } else {
        BEE_CHECK(rc == AWS_OP_ERR, "must-refuse", "%s: succeeded although the environment failed", what);
        if (rc != AWS_OP_ERR) return;
        int e = aws_last_error();
        BEE_CHECK(e != 0 && strcmp(aws_error_name(e), "Unknown Error Code") != 0, "error-code", "%s: no registered error code (%d)", what, e);
        BEE_CHECK(out->len == 0 && out->capacity == 0 && out->buffer == NULL, "failed-call-left-buffer",
                  "%s: failed but out_buf is len %zu cap %zu buffer %s", what, out->len, out->capacity, out->buffer ? "set" : "NULL");
        BEE_CHECK(ga.live_blocks == 0, "leak", "%s: failed and left %llu blocks allocated", what, (unsigned long long)ga.live_blocks);
    }
}

/* ---- section sim: index -> (fault, eof mode, claimed size, api, composition) -------------------------------- */
#define NINJ 18
static uint64_t sim_total(void) { return (uint64_t)NINJ * 3 * 5 * 2 * 32; }
static void sim_eval(uint64_t idx, void *ctx) {
    (void)ctx;
    BEE_ITEM(idx);
    uint64_t x = idx;
    unsigned inj = bee_digit(&x, NINJ), eofl = bee_digit(&x, 3), hs = bee_digit(&x, 5), api = bee_digit(&x, 2), comp = bee_digit(&x, 32);
    size_t n = 0;
    unsigned mask = 0;
    if (comp >= 1) { /* comp 0: empty file; then n=1 (1), n=2 (2), n=3 (4), n=4 (8), n=5 (16 compositions) */
        unsigned c = comp - 1;
        n = 1;
        while (c >= (1u << (n - 1))) {
            c -= 1u << (n - 1);
            ++n;
        }
        mask = c;
    }
    size_t claimed = hs == 0 ? 0 : hs == 1 ? 1 : hs == 2 ? (n ? n - 1 : 0) : hs == 3 ? n : n + 1;
    memset(&sim, 0, sizeof(sim));
    sim.n = n;
    sim.mask = mask;
    sim.eof_mode = (int)eofl;
    sim.st_size = claimed;
    if (inj == 1) {
        if (api != 0) return; /* fstat is only called by init_from_file */
        sim.inj_kind = 1;
    } else if (inj >= 2) {
        sim.inj_kind = 2 + (int)((inj - 2) & 1);
        sim.inj_call = (int)((inj - 2) >> 1);
    }
    V_COUNT("evaluations", 1);
    galloc_reset();
    struct aws_allocator *al = galloc_get(2, 0);
    struct aws_byte_buf out;
    memset(&out, 0xAB, sizeof(out));
    aws_reset_error();
    sim.active = 1;
    int rc = api == 0 ? aws_byte_buf_init_from_file(&out, al, scratch) : aws_byte_buf_init_from_file_with_size_hint(&out, al, scratch, claimed);
    sim.active = 0;
    char what[200];
    snprintf(what, sizeof(what), "%s n=%zu chunks-mask=0x%x claimed/hint=%zu eof=%s fault=%s@%d", api ? "init_from_file_with_size_hint" : "init_from_file", n, mask, claimed,
             eofl == 1 ? "by extra zero read" : eofl == 2 ? "eagerly with the last byte" : "by the read that hits the end", sim.inj_kind == 0 ? "none" : sim.inj_kind == 1 ? "fstat" : sim.inj_kind == 2 ? "fread-error" : "fread-zero", sim.inj_call);
    BEE_CHECK(sim.calls <= 64, "read-loop", "%s: %d fread calls for a %zu-byte file", what, sim.calls, n);
    if (sim.bad_request) V_COUNT("zero_size_read_requests", 1);
    if (sim.short_reads) V_COUNT("short_reads", (uint64_t)sim.short_reads);
    if (sim.eager_full && !sim.fired) V_COUNT("eof_on_a_read_that_filled_the_buffer", 1); /* the terminator then needs one more byte */
    if (sim.fired) V_COUNT("injected_faults_fired", 1);
    if (ga.n_acquire > 1) V_COUNT("growth_events", 1);
    if (sim.short_reads || sim.fired || ga.n_acquire > 1) V_COUNT("nontrivial", 1);
    check_result(rc, &out, n, sim.fired != 0, what);
    if (idx % 977 == 0) v_sample("%s -> %s", what, rc == AWS_OP_SUCCESS ? "ok" : aws_error_name(aws_last_error()));
}

/* ---- section real: no simulation, real files (checks the pass-through and the simulation's realism) -------- */
static uint64_t real_total(void) { return 6 * 6 + 2; }
static void real_eval(uint64_t idx, void *ctx) {
    (void)ctx;
    BEE_ITEM(idx);
    V_COUNT("evaluations", 1);
    galloc_reset();
    struct aws_allocator *al = galloc_get(2, 0);
    struct aws_byte_buf out;
    memset(&out, 0xAB, sizeof(out));
    aws_reset_error();
    memset(&sim, 0, sizeof(sim));
    char what[300];
    if (idx >= 36) {
        const char *missing = "/verif/build/tmp/C01-no-such-file";
        int rc = idx == 36 ? aws_byte_buf_init_from_file(&out, al, missing) : aws_byte_buf_init_from_file_with_size_hint(&out, al, missing, 3);
        snprintf(what, sizeof(what), "%s on a missing file", idx == 36 ? "init_from_file" : "init_from_file_with_size_hint");
        check_result(rc, &out, 0, true, what);
        return;
    }
    size_t n = (size_t)(idx / 6);
    unsigned v = (unsigned)(idx % 6);
    size_t hint = v == 1 ? 0 : v == 2 ? 1 : v == 3 ? (n ? n - 1 : 0) : v == 4 ? n : n + 1;
    int rc = v == 0 ? aws_byte_buf_init_from_file(&out, al, realfile[n]) : aws_byte_buf_init_from_file_with_size_hint(&out, al, realfile[n], hint);
    snprintf(what, sizeof(what), "real %zu-byte file, %s hint=%zu", n, v ? "init_from_file_with_size_hint" : "init_from_file", hint);
    check_result(rc, &out, n, false, what);
}

static void write_file(const char *path, size_t n) {
    FILE *f = fopen(path, "wb");
    if (!f || fwrite(FILEBYTES, 1, n, f) != n) {
        perror(path);
        exit(2);
    }
    fclose(f);
}

int main(int argc, char **argv) {
    v_init(argc, argv);
    aws_common_library_init(aws_default_allocator());
    snprintf(scratch, sizeof(scratch), "/verif/build/tmp/C01-scratch-%d.dat", (int)getpid());
    write_file(scratch, 0);
    for (int n = 0; n <= 5; ++n) {
        snprintf(realfile[n], sizeof(realfile[n]), "/verif/build/tmp/C01-real-%d-%d.dat", (int)getpid(), n);
        write_file(realfile[n], (size_t)n);
    }
    bee_register("file-sim", sim_total, sim_eval, 20);
    bee_register("file-real", real_total, real_eval, 20);
    int rc = bee_main(argc, argv);
    unlink(scratch);
    for (int n = 0; n <= 5; ++n) unlink(realfile[n]);
    return rc;
}
