LEVEL = "model_checking"
HARNESSES = [
    dict(name="bufw", src=["bufw.c"], variant="asan", deadline={"quick": 70, "thorough": 600}),
]
ASSUMPTIONS = []
