LEVEL = "model_checking"
RULE = ("BEE parts, odometer enumeration (no randomness). parse: every string of length <=5 over {0 1 9 a f F g ' ' +} and "
        "every spelling adjacent to 2^64 (2^64-2..2^64+2 with 0-3 leading zeros, three letter cases, every one-character "
        "substitution / truncation / extension of 18446744073709551615 and FFFFFFFFFFFFFFFF, neighbouring powers of the base) "
        "through utf8_parse_u64 and utf8_parse_u64_hex against unsigned __int128 arithmetic; aws_nospec_mask on the square of "
        "{2^k-1, 2^k, 2^k+1, SIZE_MAX-2..SIZE_MAX, ...}; filerd: file length 0..5 x every composition into short reads x claimed "
        "size / size hint {0,1,n-1,n,n+1} x end-of-file signalled by the read that hits the end / by an extra zero-byte read / eagerly with the last byte x "
        "{no fault, fstat fails, k-th fread fails with ferror, k-th fread returns 0 silently} for both init_from_file functions, "
        "plus real files. non-trivial = the string consists only of digits of the base (accumulation code ran to the end) / "
        "the (index,bound) pair lies on a boundary of the mask's definition / the read sequence had a short read, a fired fault "
        "or a buffer growth.")

_WRAP = ["-Wl,--wrap=fread,--wrap=feof,--wrap=ferror,--wrap=fstat"]

HARNESSES = [
    dict(name="bufw", src=["bufw.c"], variant="asan", deadline={"quick": 70, "thorough": 660}),
    dict(name="cur", src=["cur.c"], variant="asan", deadline={"quick": 60, "thorough": 300}),
    dict(name="filerd", src=["filerd.c"], variant="asan", ldflags=_WRAP, deadline={"quick": 60, "thorough": 300}),
    dict(name="parse", src=["parse.c"], variant="asan", deadline={"quick": 60, "thorough": 300}),
    # Debug build of the library: its own AWS_PRECONDITION / AWS_POSTCONDITION (aws_byte_buf_is_valid,
    # aws_byte_cursor_is_valid ...) are live and abort on the first contradiction -> second oracle
    dict(name="bufw-dbg", src=["bufw.c"], variant="asan-dbg", tiers=["thorough"], args=["--dbg"], deadline={"quick": 70, "thorough": 400}),
    dict(name="cur-dbg", src=["cur.c"], variant="asan-dbg", tiers=["thorough"], deadline={"quick": 60, "thorough": 300}),
    dict(name="filerd-dbg", src=["filerd.c"], variant="asan-dbg", tiers=["thorough"], ldflags=_WRAP, deadline={"quick": 60, "thorough": 300}),
    # free-running ThreadSanitizer twin: two threads, each with objects of its own (harness/common/twin.c; samples, decides nothing)
    dict(name="own-objects-tsan", src=["../common/twin.c"], variant="tsan", cflags=["-DTWIN_C01", "-DVSX_FREE_RUNS=6"], deadline={"quick": 60, "thorough": 120}),
]

ASSUMPTIONS = [
    "bufw: ONE subject buffer per history (owned dynamic with three allocator realloc behaviours / over exact-size caller storage / "
    "over caller storage with 8 guard bytes each side); other operands are transient: prefixes of a fixed 3-symbol pattern "
    "('a','F',' '), the buffer's own bytes (self-append, cursor into the destination), {NULL,0}, or a fake-huge cursor "
    "(len in {SIZE_MAX/2, SIZE_MAX/2+1, SIZE_MAX-1, SIZE_MAX} over one valid byte) given only to calls that must refuse it",
    "bufw bounds: capacity <=3 (quick) / <=4 (thorough) explored to the FIXPOINT (histories of every length); capacity <=6 to "
    "depth 5 (quick) / 6 (thorough; 5 in the Debug-build pass); growth that would exceed the capacity bound, and huge reservations that would really "
    "allocate (OOM aborts in aws_mem_acquire), are not enabled",
    "cur: one cursor over every source of <=5 bytes from {'a','F',' '}, every sub-range, or {NULL,0}; explored to the fixpoint",
    "states are de-duplicated on a 128-bit hash of the canonical state (hash compaction)",
    "readings: bytes of a fresh allocation and bytes beyond len after a grow are unspecified (wild cards); reset(zero=true) must "
    "zero at least the old [0,len); on failure of aws_byte_buf_cat the parts before the one that did not fit stay appended and "
    "on failure of split_on_char[_n] the static list holds the first pieces (the two documented partial operations); "
    "split_on_char_n(n>0) yields n pieces plus the rest of the string; which error code a refusal raises is checked only where "
    "byte_buf.h names it (DEST_COPY_TOO_SMALL, STRING_MATCH_NOT_FOUND), otherwise any registered code; pure out-parameters of a "
    "failed call are not constrained except where the header says so (buf_advance nulls its output)",
    "where the header leaves the resulting capacity open (init_copy, init_cache_and_update_cursors, append_dynamic growth, "
    "reserve_smart) any capacity that holds the contents is accepted and followed (counter capacity_differs_from_reference_rule; "
    "0 on the current tree, which doubles); after clean_up only len/capacity/buffer are required to be cleared",
    "filerd: libc's fread/feof/ferror/fstat are interposed with -Wl,--wrap for the harness link only; fopen/fileno/fclose stay real; "
    "the 'eager' end-of-file mode (EOF flag already set by a read that was satisfied in full) is an environment glibc regular files "
    "do not produce; it is included because file.c's final grow-by-one for the terminator exists for it; a failed call must leave "
    "len/capacity/buffer of out_buf cleared and nothing allocated",
    "thorough tier repeats bufw (capacity<=3 fixpoint, capacity<=6 depth 5), cur and filerd against the Debug build of the library "
    "(its AWS_PRECONDITION/AWS_POSTCONDITION checks abort on the first contradiction)",
]
