/*
 * C01 / bufw — every history of buffer-writing operations on ONE subject buffer X under ESX.
 *
 * Configurations (one esx_run each):
 *   dyn-r<mode>   X is an owned dynamic buffer (aws_byte_buf_init & friends on the guard allocator; mode = how
 *                 the allocator's realloc behaves: 0 none (aws_mem_realloc emulates), 1 in place, 2 always moves)
 *   static-exact  X = aws_byte_buf_from_[empty_]array over an exact-size guard-allocator block: one byte past
 *                 either end is an ASan report
 *   static-guard  X over caller storage with 8 guard bytes on both sides inside one block: guards are compared
 *                 after every call
 * Operands other than X (source cursors, second buffers, strings) are transient: built for the call in
 * exact-size blocks from the 3-symbol pattern, from X's own bytes (the aliasing the API allows: self-append,
 * cursor into the destination), as a {NULL,0} view, or as a fake-huge cursor (len >= SIZE_MAX/2+1 over ONE valid
 * byte) which is handed only to calls that must refuse it without reading.
 *
 * Reference: (live, cap, len, b[], def[]); def[i]==0 means "the header does not say what this byte holds"
 * (fresh allocation, bytes beyond len after a grow).
 *
 * Bounds: each configuration is run twice — capacity <= 3 (quick) / <= 4 (thorough) to the FIXPOINT, and
 * capacity <= 6 to depth 5 (quick) / 6 (thorough).  A growing call may leave the bound once (up to 2*bound+1, so
 * doubling from every capacity of the model runs); that step is checked in full and closed by a clean_up.
 * Length arguments: {0, 1, 2, exact-fit, exact-fit+1, SIZE_MAX/2, SIZE_MAX/2+1, SIZE_MAX-1, SIZE_MAX}.
 *
 * Checked after every call: return value, registered error code, len <= capacity, aws_byte_buf_is_valid(),
 * buffer==NULL <=> capacity==0, allocator field, every defined byte of [0,capacity) against the reference, guard
 * bytes / ASan red zones, allocator balance; after a reported failure the struct bytes and the storage are
 * compared with the snapshot taken before the call (cat is the documented exception); 'secure' calls: the
 * allocator's release hook requires every byte of a block handed back to be zero.
 */
#include "c01_common.h"

#define MAXCAP 6
#define GUARD 8
#define REFCAP 64 /* room to follow a capacity the header leaves open (growth policy, init_copy) beyond the model bound */

struct cfg {
    char name[48];
    int kind; /* 0 dyn, 1 static-exact, 2 static-guard */
    int rmode;
    size_t maxcap; /* model bound on the capacity: MAXCAP (depth-bounded runs) or smaller (runs to a fixpoint) */
};
static struct cfg g_cfg;

static struct aws_byte_buf X;
static uint8_t *store_blk, *store;
static struct {
    int live;
    size_t cap, len;
    uint8_t b[REFCAP], def[REFCAP];
} R;

/* ------------------------------------------------------------------ operation table ----------- */
enum {
    F_INIT, F_INIT_COPY, F_INIT_COPY_CUR, F_INIT_CACHE, F_ATTACH_EMPTY, F_ATTACH_FULL, F_CLEAN, F_APPEND,
    F_APPEND_LOOKUP, F_APPEND_DYN, F_APPEND_BYTE_DYN, F_APPEND_UPDATE, F_NULL_TERM, F_CAT, F_RESERVE, F_RESERVE_REL,
    F_RESERVE_SMART, F_RESERVE_SMART_REL, F_WRITE, F_WRITE_U8, F_WRITE_U8_N, F_WRITE_NUM, F_WRITE_WHOLE_BUF,
    F_WRITE_WHOLE_CUR, F_WRITE_WHOLE_STR, F_WRITE_TO_CAP, F_ADVANCE, F_RESET, F_READ_FILL, F_EQ
};
enum { ARG_NULL0 = LA_N, ARG_SELF, ARG_SELF_FIRST, ARG_SELF_LAST, ARG_N };
struct opd {
    uint8_t fn, a, b;
};
static struct opd ops[512];
static int nops;
static void addop(int fn, int a, int b) {
    ops[nops].fn = (uint8_t)fn;
    ops[nops].a = (uint8_t)a;
    ops[nops].b = (uint8_t)b;
    ++nops;
}
static const size_t copy_src[5][2] = {{0, 0}, {1, 1}, {3, 1}, {6, 6}, {5, 0}};   /* init_copy: (capacity,len) of src */
static const size_t copy_cur[5] = {0, 0, 1, 4, 6};                                 /* init_copy_from_cursor lens; [0] is {NULL,0} */
static const size_t cache_len[4][2] = {{0, 0}, {1, 2}, {3, 3}, {SIZE_MAX, 1}};     /* init_cache_and_update_cursors */
static void build_ops(void) {
    nops = 0;
    if (g_cfg.kind == 0) {
        for (int c = 0; c <= MAXCAP; ++c) addop(F_INIT, c, 0);
        for (int v = 0; v < 5; ++v) addop(F_INIT_COPY, v, 0);
        for (int v = 0; v < 5; ++v) addop(F_INIT_COPY_CUR, v, 0);
        for (int v = 0; v < 4; ++v) addop(F_INIT_CACHE, v, 0);
    } else {
        for (int c = 0; c <= MAXCAP; ++c) addop(F_ATTACH_EMPTY, c, 0);
        for (int c = 0; c <= MAXCAP; ++c) addop(F_ATTACH_FULL, c, 0);
    }
    for (int s = 0; s < 3; ++s) addop(F_WRITE_U8, s, 0);
    for (int a = 0; a < ARG_N; ++a) addop(F_APPEND, a, 0);
    for (int a = 0; a < LA_N; ++a) addop(F_APPEND_LOOKUP, a, 0);
    for (int a = 0; a < ARG_N; ++a) addop(F_APPEND_UPDATE, a, 0);
    for (int v = 0; v < 8; ++v) addop(F_CAT, v, 0);
    for (int a = 0; a < LA_N; ++a) addop(F_WRITE, a, 0);
    for (int a = 0; a < LA_N; ++a) addop(F_WRITE_U8_N, a, 1);
    addop(F_WRITE_U8_N, LA_1, 0);
    addop(F_WRITE_U8_N, LA_FIT, 0);
    for (int v = 0; v < 7; ++v) addop(F_WRITE_NUM, v, 0);
    for (int v = 0; v < 4; ++v) addop(F_WRITE_WHOLE_BUF, v, 0);
    for (int a = 0; a <= ARG_NULL0; ++a) addop(F_WRITE_WHOLE_CUR, a, 0);
    for (int v = 0; v < 5; ++v) addop(F_WRITE_WHOLE_STR, v, 0);
    for (int v = 0; v < 8; ++v) addop(F_WRITE_TO_CAP, v, 0); /* 6, 7: fake-huge cursors (added after a seeded change that copied
                                                              * before the refused cursor advance) */
    for (int a = 0; a < LA_N; ++a) addop(F_ADVANCE, a, 0);
    for (int v = 0; v < 3; ++v) addop(F_RESET, v, 0);
    for (int v = 0; v < 5; ++v) addop(F_READ_FILL, v, 0);
    for (int v = 0; v < 6; ++v) addop(F_EQ, v, 0);
    addop(F_CLEAN, 0, 0);
    addop(F_CLEAN, 1, 0);
    if (g_cfg.kind == 0) {
        for (int sec = 0; sec < 2; ++sec) {
            for (int a = 0; a < ARG_N; ++a)
                if (a != LA_HALF && a != LA_HALF1 && a != ARG_SELF_FIRST) addop(F_APPEND_DYN, a, sec);
            for (int s = 0; s < 3; ++s) addop(F_APPEND_BYTE_DYN, s, sec);
        }
        addop(F_NULL_TERM, 0, 0);
        for (int v = 0; v < 6; ++v) addop(F_RESERVE, v, 0);
        for (int v = 0; v < 6; ++v) addop(F_RESERVE_SMART, v, 0);
        for (int a = 0; a < LA_N; ++a)
            if (a != LA_HALF && a != LA_HALF1) addop(F_RESERVE_REL, a, 0);
        for (int a = 0; a < LA_N; ++a)
            if (a != LA_HALF && a != LA_HALF1) addop(F_RESERVE_SMART_REL, a, 0);
    }
}

/* ------------------------------------------------------------------ release hook ------------ */
static int hook_armed, hook_secure, hook_count;
static void rel_hook(void *ptr, size_t size, void *ud) {
    (void)ud;
    if (!hook_armed) return;
    ++hook_count;
    if (hook_secure) {
        size_t bad = 0;
        for (size_t i = 0; i < size; ++i)
            if (((uint8_t *)ptr)[i]) ++bad;
        ESX_CHECK(bad == 0, "secure-release-not-zeroed", "a 'secure' call handed a %zu-byte block back to the allocator with %zu non-zero bytes", size, bad);
        VC("secure_releases_checked");
    }
}
#define LIB_BEGIN(sec)                                                                                           \
    do {                                                                                                         \
        hook_armed = 1;                                                                                          \
        hook_secure = (sec);                                                                                     \
        hook_count = 0;                                                                                          \
        aws_reset_error();                                                                                       \
    } while (0)
#define LIB_END() (hook_armed = 0)

/* ------------------------------------------------------------------ reset / teardown --------- */
static int g_out_of_model; /* the library chose a legal capacity the reference cannot represent: the state has no successors */
static void m_reset(void) {
    galloc_reset();
    galloc_get(g_cfg.rmode, 0);
    ga.release_hook = rel_hook;
    hook_armed = 0;
    ntmp = 0;
    AWS_ZERO_STRUCT(X);
    store_blk = store = NULL;
    memset(&R, 0, sizeof(R));
    g_out_of_model = 0;
}
static void drop_store(void) {
    if (store_blk) galloc_release(&galloc_allocator, store_blk);
    store_blk = store = NULL;
}
static void m_teardown(void) {
    hook_armed = 0;
    tmp_free_all();
    if (g_cfg.kind == 0 && X.allocator == &galloc_allocator && X.buffer && galloc_is_live(X.buffer)) aws_byte_buf_clean_up(&X);
    drop_store();
    ESX_CHECK(ga.live_blocks == 0, "leak", "%llu blocks still live after clean_up", (unsigned long long)ga.live_blocks);
}

/* ------------------------------------------------------------------ snapshots and invariants -- */
static struct aws_byte_buf snapX;
static uint8_t snapb[REFCAP];
static void snap(void) {
    snapX = X;
    if (X.buffer) memcpy(snapb, X.buffer, X.capacity < REFCAP ? X.capacity : REFCAP);
}
static void expect_unchanged(const char *nm) {
    if (esx_failed) return;
    VC("failed_calls_checked_unchanged");
    ESX_CHECK(memcmp(&X, &snapX, sizeof(X)) == 0, "failed-call-changed-struct",
              "%s reported failure but the buffer struct changed: len %zu->%zu capacity %zu->%zu buffer %s allocator %s", nm,
              snapX.len, X.len, snapX.capacity, X.capacity, snapX.buffer == X.buffer ? "same" : "CHANGED",
              snapX.allocator == X.allocator ? "same" : "CHANGED");
    if (!esx_failed && X.buffer)
        ESX_CHECK(memcmp(snapb, X.buffer, X.capacity) == 0, "failed-call-changed-bytes", "%s reported failure but storage bytes changed: [%s] -> [%s]",
                  nm, v_show(snapb, X.capacity), v_show(X.buffer, X.capacity));
}
static void check_guards(const char *nm) {
    if (g_cfg.kind != 2 || !store_blk) return;
    for (size_t i = 0; i < GUARD; ++i) {
        ESX_CHECK(store_blk[i] == 0xD7, "guard-before", "after %s: guard byte %zu before the storage overwritten (0x%02x)", nm, i, store_blk[i]);
        ESX_CHECK(store[R.cap + i] == 0xD7, "guard-after", "after %s: guard byte %zu after capacity overwritten (0x%02x)", nm, i, store[R.cap + i]);
    }
}
static void check_state(const char *nm) {
    if (esx_failed) return;
    ESX_CHECK(X.len <= X.capacity, "len-le-capacity", "after %s: len %zu > capacity %zu", nm, X.len, X.capacity);
    ESX_CHECK(X.len == R.len && X.capacity == R.cap, "fields", "after %s: len/capacity %zu/%zu, reference %zu/%zu", nm, X.len, X.capacity, R.len, R.cap);
    if (esx_failed) return;
    ESX_CHECK((X.buffer == NULL) == (X.capacity == 0), "null-iff-empty", "after %s: buffer %s with capacity %zu", nm, X.buffer ? "non-NULL" : "NULL", X.capacity);
    ESX_CHECK(aws_byte_buf_is_valid(&X), "shape", "after %s: aws_byte_buf_is_valid() is false", nm);
    if (R.live) {
        struct aws_allocator *want = g_cfg.kind == 0 ? &galloc_allocator : NULL;
        ESX_CHECK(X.allocator == want, "allocator-field", "after %s: allocator field is %s", nm, X.allocator ? "set" : "NULL");
    }
    if (esx_failed) return;
    if (g_cfg.kind == 0 && X.buffer)
        ESX_CHECK(galloc_is_live(X.buffer) && galloc_size_of(X.buffer) >= X.capacity, "storage-smaller-than-capacity",
                  "after %s: capacity %zu but the block behind it has %zu bytes", nm, X.capacity, galloc_is_live(X.buffer) ? galloc_size_of(X.buffer) : 0);
    if (g_cfg.kind != 0 && R.live && R.cap) ESX_CHECK(X.buffer == store, "static-pointer", "after %s: buffer pointer of a caller-storage buffer moved", nm);
    if (esx_failed) return;
    for (size_t i = 0; i < R.cap; ++i)
        if (R.def[i] && X.buffer[i] != R.b[i]) {
            esx_fail(i < R.len ? "contents" : "bytes-beyond-len", "after %s: byte %zu is 0x%02x, reference 0x%02x (len %zu cap %zu, buffer [%s])", nm, i,
                     X.buffer[i], R.b[i], R.len, R.cap, v_show(X.buffer, R.cap));
            return;
        }
    check_guards(nm);
    uint64_t want_blocks = (g_cfg.kind == 0 ? (R.cap ? 1 : 0) : (store_blk ? 1 : 0));
    ESX_CHECK(ga.live_blocks == want_blocks, "allocator-balance", "after %s: %llu live blocks, expected %llu", nm, (unsigned long long)ga.live_blocks,
              (unsigned long long)want_blocks);
}

/* ------------------------------------------------------------------ reference steps ----------- */
static void ref_put(const uint8_t *d, const uint8_t *def, size_t n) {
    for (size_t i = 0; i < n; ++i) {
        R.b[R.len + i] = d[i];
        R.def[R.len + i] = def ? def[i] : 1;
    }
    R.len += n;
}
static void ref_grow(size_t newcap) {
    R.cap = newcap;
    for (size_t i = R.len; i < newcap; ++i) R.def[i] = 0;
}
/* Where the header does not fix the resulting capacity ("grown appropriately", "a copy of the elements"), any
 * capacity that holds the contents is accepted and followed; it is counted so that the reading is visible. */
static void ref_adopt_capacity(int rc) {
    if (rc == AWS_OP_SUCCESS && X.capacity > REFCAP - 2 && X.capacity != R.cap) {
        /* legal (the header leaves the growth policy open) but beyond what the reference arrays can follow: not a
         * violation - this history is not continued, and the run says that it was cut */
        g_out_of_model = 1;
        VC("histories_cut_capacity_beyond_reference_arrays");
        return;
    }
    if (rc == AWS_OP_SUCCESS && X.capacity != R.cap && X.capacity >= R.len && X.len == R.len) {
        VC("capacity_differs_from_reference_rule");
        for (size_t i = R.len; i < X.capacity; ++i) R.def[i] = 0;
        R.cap = X.capacity;
    }
}
static void ref_fresh(size_t cap) {
    R.live = 1;
    R.cap = cap;
    R.len = 0;
    memset(R.def, 0, sizeof(R.def));
}

/* cursor operand */
struct carg {
    struct aws_byte_cursor c, c0;
    size_t n;
    bool huge, self;
    uint8_t data[8], def[8];
};
static void make_carg(int arg, struct carg *o) {
    size_t fit = R.cap - R.len;
    memset(o, 0, sizeof(*o));
    if (arg < LA_N) {
        o->n = la_value(arg, fit);
        if (la_huge(arg)) {
            o->huge = true;
            o->c.ptr = tmp_block(PAT, 1);
        } else {
            memcpy(o->data, PAT, o->n);
            memset(o->def, 1, o->n);
            o->c.ptr = tmp_block(PAT, o->n);
        }
        o->c.len = o->n;
    } else if (arg != ARG_NULL0) {
        size_t off = arg == ARG_SELF_LAST ? R.len - 1 : 0;
        o->n = arg == ARG_SELF ? R.len : 1;
        o->self = true;
        o->c.ptr = X.buffer ? X.buffer + off : NULL;
        o->c.len = o->n;
        for (size_t i = 0; i < o->n; ++i) {
            o->data[i] = X.buffer[off + i];
            o->def[i] = R.def[off + i];
        }
    }
    o->c0 = o->c;
}
static bool carg_enabled(int arg) {
    if (arg < LA_N) return la_distinct(arg, R.cap - R.len);
    if (arg == ARG_NULL0) return true;
    return R.len >= 1;
}
static void carg_name(int arg, char *b, size_t cap) {
    if (arg < LA_N) snprintf(b, cap, la_huge(arg) ? "fake-huge cursor len=%s" : "cursor len=%s", la_name(arg));
    else snprintf(b, cap, "%s", arg == ARG_NULL0 ? "{NULL,0} cursor" : arg == ARG_SELF ? "cursor over the buffer itself" : arg == ARG_SELF_FIRST ? "cursor over its own first byte" : "cursor over its own last byte");
}

/* dynamic growth rule of the header: "grown appropriately", old contents kept; the model bound is MAXCAP */
static bool dyn_overflows(size_t n) { return n > R.cap - R.len && n > SIZE_MAX - R.len; }
static size_t dyn_newcap(size_t n) { /* capacity after append_dynamic of n bytes (no overflow) */
    if (n <= R.cap - R.len) return R.cap;
    size_t req = R.len + n, dbl = R.cap > SIZE_MAX / 2 ? SIZE_MAX : 2 * R.cap;
    return req > dbl ? req : dbl;
}
static size_t smart_newcap(size_t req) {
    if (req <= R.cap) return R.cap;
    size_t dbl = 2 * R.cap;
    return req > dbl ? req : dbl;
}
static size_t reserve_arg(int v) {
    switch (v) {
        case 0: return 0;
        case 1: return 1;
        case 2: return 2;
        case 3: return R.cap;
        case 4: return R.cap + 1;
        default: return g_cfg.maxcap;
    }
}
static void cat_lens(int v, size_t *l1, size_t *l2, bool *ok) {
    size_t fit = R.cap - R.len;
    *ok = true;
    switch (v) {
        case 0: *l1 = 0, *l2 = 0; break;
        case 1: *l1 = 1, *l2 = 1; break;
        case 2: *l1 = 2, *l2 = 1; break;
        case 3: *l1 = fit, *l2 = 0; *ok = fit > 0; break;
        case 4: *l1 = fit ? fit - 1 : 0, *l2 = 1; *ok = fit > 0 && fit != 2 && fit != 3; break; /* exact fit in two parts */
        case 5: *l1 = fit, *l2 = 1; *ok = fit != 1 && fit != 2; break;                            /* first fits, second does not */
        case 6: *l1 = fit + 1, *l2 = 0; break;                                                     /* first does not fit */
        default: *l1 = 0, *l2 = fit + 1; break;
    }
}
static size_t whole_len(int v) {
    size_t fit = R.cap - R.len;
    return v == 0 ? 0 : v == 1 ? 1 : v == 2 ? fit : fit + 1;
}
static size_t tocap_len(int v) { /* 0,1,2,fit,fit+1; v==5 is {NULL,0} */
    size_t fit = R.cap - R.len;
    return v <= 2 ? (size_t)v : v == 3 ? fit : v == 4 ? fit + 1 : 0;
}
static size_t fill_len(int v) { /* read_and_fill_buffer source lengths: 0, cap-1, cap, cap+1; v==4 {NULL,0} */
    return v == 0 ? 0 : v == 1 ? R.cap - 1 : v == 2 ? R.cap : v == 3 ? R.cap + 1 : 0;
}

/* Growing calls may take the capacity beyond the model bound, up to 2*bound+1 (so that doubling from every capacity
 * of the model is exercised); such a transition is checked like any other and is then closed by an epilogue
 * clean_up inside the same step, so the state space stays within the bound. */
static size_t growcap(void) { return 2 * g_cfg.maxcap + 1; }
static bool m_enabled(int op) {
    const struct opd *d = &ops[op];
    if (g_out_of_model) return false;
    size_t fit = R.cap - R.len;
    switch (d->fn) {
        case F_INIT:
        case F_ATTACH_EMPTY:
        case F_ATTACH_FULL: return !R.live && d->a <= g_cfg.maxcap;
        case F_INIT_COPY: return !R.live && copy_src[d->a][0] <= g_cfg.maxcap;
        case F_INIT_COPY_CUR: return !R.live && copy_cur[d->a] <= g_cfg.maxcap;
        case F_INIT_CACHE: return !R.live && (d->a == 3 || cache_len[d->a][0] + cache_len[d->a][1] <= g_cfg.maxcap);
        default: break;
    }
    if (!R.live) return false;
    switch (d->fn) {
        case F_APPEND:
        case F_APPEND_UPDATE:
        case F_WRITE_WHOLE_CUR: return carg_enabled(d->a);
        case F_APPEND_LOOKUP:
        case F_WRITE:
        case F_WRITE_U8_N:
        case F_ADVANCE: return la_distinct(d->a, fit);
        case F_APPEND_DYN: {
            if (!carg_enabled(d->a)) return false;
            size_t n = d->a < LA_N ? la_value(d->a, fit) : d->a == ARG_NULL0 ? 0 : d->a == ARG_SELF ? R.len : 1;
            if (d->a < LA_N && la_huge(d->a)) return dyn_overflows(n); /* otherwise it would really allocate SIZE_MAX bytes: OOM, out of scope */
            return dyn_newcap(n) <= growcap();
        }
        case F_APPEND_BYTE_DYN:
        case F_NULL_TERM: return dyn_newcap(1) <= growcap();
        case F_CAT: {
            size_t a, b;
            bool ok;
            cat_lens(d->a, &a, &b, &ok);
            return ok && a <= 7 && b <= 7;
        }
        case F_RESERVE: return (d->a != 3 || R.cap > 2) && (d->a != 4 || R.cap + 1 > 2) && reserve_arg(d->a) <= growcap();
        case F_RESERVE_SMART: return (d->a != 3 || R.cap > 2) && (d->a != 4 || R.cap + 1 > 2) && smart_newcap(reserve_arg(d->a)) <= growcap();
        case F_RESERVE_REL:
        case F_RESERVE_SMART_REL: {
            if (!la_distinct(d->a, fit)) return false;
            size_t add = la_value(d->a, fit);
            if (add > SIZE_MAX - R.len) return true; /* must be refused: checked-add overflow */
            if (la_huge(d->a)) return false;         /* would really allocate: OOM, out of scope */
            return (d->fn == F_RESERVE_REL ? (R.len + add > R.cap ? R.len + add : R.cap) : smart_newcap(R.len + add)) <= growcap();
        }
        case F_WRITE_WHOLE_BUF: return d->a < 2 || (d->a == 2 ? fit > 1 : fit + 1 > 1);
        case F_WRITE_WHOLE_STR: return d->a < 2 || d->a == 4 || (d->a == 2 ? fit > 1 : fit + 1 > 1);
        case F_WRITE_TO_CAP: return d->a <= 2 || d->a >= 5 || (d->a == 3 ? fit > 2 : fit + 1 > 2);
        case F_READ_FILL: return d->a == 0 ? R.cap > 1 : d->a == 1 ? R.cap >= 1 : true;
        case F_EQ: return d->a == 1 ? R.len >= 1 : true;
        default: return true;
    }
}

/* ------------------------------------------------------------------ apply --------------------- */
static void m_opname(int op, char *buf, size_t cap);
static uint8_t rot_table[256]; /* lookup table: a->F, F->' ', ' '->a, identity elsewhere */
static uint8_t toggle(uint8_t c) { return (c >= 'a' && c <= 'z') ? (uint8_t)(c - 32) : (c >= 'A' && c <= 'Z') ? (uint8_t)(c + 32) : c; }

static void expect_int_fail(int rc, int want_code, const char *nm) {
    ESX_CHECK(rc == AWS_OP_ERR, "must-refuse", "%s returned %d, must fail", nm, rc);
    if (rc != AWS_OP_ERR) return;
    int e = aws_last_error();
    if (want_code)
        ESX_CHECK(e == want_code, "error-code", "%s: raised %d (%s), header says %s", nm, e, aws_error_name(e), aws_error_name(want_code));
    else
        ESX_CHECK(err_registered(e), "error-code", "%s failed but raised no registered error code (%d)", nm, e);
    expect_unchanged(nm);
}

static void m_apply(int op) {
    const struct opd *d = &ops[op];
    char nm[160];
    m_opname(op, nm, sizeof(nm));
    size_t fit = R.cap - R.len, len0 = R.len, cap0 = R.cap;
    struct aws_allocator *al = &galloc_allocator;
    struct carg ca;
    int rc;
    bool ok;
    snap();
    switch (d->fn) {
        case F_INIT: {
            LIB_BEGIN(0);
            rc = aws_byte_buf_init(&X, al, d->a);
            LIB_END();
            ESX_CHECK(rc == AWS_OP_SUCCESS, "init-result", "%s failed", nm);
            ref_fresh(d->a);
            break;
        }
        case F_INIT_COPY: {
            size_t sc = copy_src[d->a][0], sl = copy_src[d->a][1];
            struct aws_byte_buf src;
            AWS_ZERO_STRUCT(src);
            if (sc) {
                src = aws_byte_buf_from_array(tmp_block(PAT, sc), sc);
                src.len = sl;
            }
            struct aws_byte_buf src0 = src;
            LIB_BEGIN(0);
            rc = aws_byte_buf_init_copy(&X, al, &src);
            LIB_END();
            ESX_CHECK(rc == AWS_OP_SUCCESS, "init-result", "%s failed", nm);
            ESX_CHECK(memcmp(&src, &src0, sizeof(src)) == 0 && (!sc || memcmp(src.buffer, PAT, sc) == 0), "source-changed", "%s changed its source", nm);
            ESX_CHECK(!sc || X.buffer != src.buffer, "init-copy-shares-storage", "%s: dest shares the source's storage", nm);
            ref_fresh(sc);
            ref_put(PAT, NULL, sl);
            ref_adopt_capacity(rc);
            break;
        }
        case F_INIT_COPY_CUR: {
            size_t n = copy_cur[d->a];
            struct aws_byte_cursor c = {.len = n, .ptr = d->a == 0 ? NULL : tmp_block(PAT, n)};
            LIB_BEGIN(0);
            rc = aws_byte_buf_init_copy_from_cursor(&X, al, c);
            LIB_END();
            ESX_CHECK(rc == AWS_OP_SUCCESS, "init-result", "%s failed", nm);
            ref_fresh(n);
            ref_put(PAT, NULL, n);
            break;
        }
        case F_INIT_CACHE: {
            size_t l1 = cache_len[d->a][0], l2 = cache_len[d->a][1];
            bool huge = l1 == SIZE_MAX;
            struct aws_byte_cursor c1 = {.len = l1, .ptr = tmp_block(PAT, huge ? 1 : l1)}, c2 = {.len = l2, .ptr = tmp_block(PAT + 3, l2)};
            struct aws_byte_cursor c1o = c1, c2o = c2;
            LIB_BEGIN(0);
            rc = aws_byte_buf_init_cache_and_update_cursors(&X, al, &c1, &c2, NULL);
            LIB_END();
            if (huge) {
                VC("refused_huge_lengths");
                ESX_CHECK(rc == AWS_OP_ERR, "must-refuse", "%s: total length exceeds SIZE_MAX but the call succeeded", nm);
                ESX_CHECK(memcmp(&c1, &c1o, sizeof(c1)) == 0 && memcmp(&c2, &c2o, sizeof(c2)) == 0, "failed-call-changed-cursor", "%s failed but changed a cursor", nm);
                if (rc == AWS_OP_ERR) expect_unchanged(nm); /* X was the zeroed struct before */
                break;
            }
            ESX_CHECK(rc == AWS_OP_SUCCESS, "init-result", "%s failed", nm);
            ref_fresh(l1 + l2);
            ref_put(PAT, NULL, l1);
            ref_put(PAT + 3, NULL, l2);
            ref_adopt_capacity(rc);
            if (rc == AWS_OP_SUCCESS && X.len == l1 + l2) {
                ESX_CHECK(c1.len == l1 && c2.len == l2, "cursor-update", "%s changed a cursor length", nm);
                if (l1) ESX_CHECK(c1.ptr == X.buffer, "cursor-update", "%s: first cursor does not point at its copy inside the buffer", nm);
                if (l2) ESX_CHECK(c2.ptr == X.buffer + l1, "cursor-update", "%s: second cursor does not point at its copy inside the buffer", nm);
            }
            break;
        }
        case F_ATTACH_EMPTY:
        case F_ATTACH_FULL: {
            size_t c = d->a;
            if (g_cfg.kind == 1) {
                store_blk = store = (uint8_t *)galloc_acquire(al, c);
            } else {
                store_blk = (uint8_t *)galloc_acquire(al, c + 2 * GUARD);
                memset(store_blk, 0xD7, c + 2 * GUARD);
                store = store_blk + GUARD;
                memset(store, 0xEE, c);
            }
            uint8_t before[MAXCAP + 2];
            memcpy(before, store, c);
            X = d->fn == F_ATTACH_EMPTY ? aws_byte_buf_from_empty_array(store, c) : aws_byte_buf_from_array(store, c);
            ESX_CHECK(memcmp(before, store, c) == 0, "from-array-wrote", "%s modified the caller's storage", nm);
            ref_fresh(c);
            memcpy(R.b, before, c);
            memset(R.def, 1, c);
            R.len = d->fn == F_ATTACH_FULL ? c : 0;
            break;
        }
        case F_CLEAN: {
            LIB_BEGIN(d->a);
            if (d->a) aws_byte_buf_clean_up_secure(&X);
            else aws_byte_buf_clean_up(&X);
            LIB_END();
            if (g_cfg.kind == 0 && cap0) ESX_CHECK(hook_count == 1, "clean-up-release", "%s released %d blocks, expected 1", nm, hook_count);
            if (g_cfg.kind != 0) {
                ESX_CHECK(hook_count == 0, "clean-up-release", "%s released caller storage", nm);
                if (d->a) {
                    VC("secure_zero_checked");
                    for (size_t i = 0; i < cap0; ++i) ESX_CHECK(store[i] == 0, "secure-zero", "%s left byte %zu of the caller's storage non-zero", nm, i);
                }
                check_guards(nm);
                drop_store();
            }
            memset(&R, 0, sizeof(R));
            break;
        }
        case F_APPEND:
        case F_APPEND_LOOKUP:
        case F_APPEND_UPDATE: {
            make_carg(d->a, &ca);
            if (ca.self) VC("self_append");
            LIB_BEGIN(0);
            rc = d->fn == F_APPEND ? aws_byte_buf_append(&X, &ca.c) : d->fn == F_APPEND_LOOKUP ? aws_byte_buf_append_with_lookup(&X, &ca.c, rot_table) : aws_byte_buf_append_and_update(&X, &ca.c);
            LIB_END();
            if (ca.n <= fit) {
                ESX_CHECK(rc == AWS_OP_SUCCESS, "must-succeed", "%s failed with %zu bytes free (error %s)", nm, fit, aws_error_name(aws_last_error()));
                if (d->fn == F_APPEND_LOOKUP)
                    for (size_t i = 0; i < ca.n; ++i) ca.data[i] = rot_table[ca.data[i]];
                ref_put(ca.data, ca.def, ca.n);
                if (d->fn == F_APPEND_UPDATE && rc == AWS_OP_SUCCESS) {
                    ESX_CHECK(ca.c.len == ca.n, "cursor-update", "%s changed the cursor length %zu -> %zu", nm, ca.n, ca.c.len);
                    if (ca.n) ESX_CHECK(ca.c.ptr == X.buffer + len0, "cursor-update", "%s: cursor does not reference the copy inside the buffer (offset %td, expected %zu)", nm, ca.c.ptr - X.buffer, len0);
                } else {
                    ESX_CHECK(memcmp(&ca.c, &ca.c0, sizeof(ca.c)) == 0, "source-cursor-changed", "%s changed its const source cursor", nm);
                }
            } else {
                if (ca.huge) VC("refused_huge_lengths");
                expect_int_fail(rc, AWS_ERROR_DEST_COPY_TOO_SMALL, nm);
                ESX_CHECK(memcmp(&ca.c, &ca.c0, sizeof(ca.c)) == 0, "failed-call-changed-cursor", "%s failed but changed the cursor", nm);
            }
            break;
        }
        case F_APPEND_DYN:
        case F_APPEND_BYTE_DYN:
        case F_NULL_TERM: {
            int sec = d->fn == F_NULL_TERM ? 0 : d->b;
            if (d->fn == F_APPEND_DYN) {
                make_carg(d->a, &ca);
            } else {
                memset(&ca, 0, sizeof(ca));
                ca.n = 1;
                ca.data[0] = d->fn == F_NULL_TERM ? 0 : SYM[d->a];
                ca.def[0] = 1;
            }
            bool grows = ca.n > fit, ovf = dyn_overflows(ca.n);
            size_t newcap = ovf ? cap0 : dyn_newcap(ca.n);
            LIB_BEGIN(sec && grows && !ovf);
            if (d->fn == F_APPEND_DYN) rc = sec ? aws_byte_buf_append_dynamic_secure(&X, &ca.c) : aws_byte_buf_append_dynamic(&X, &ca.c);
            else if (d->fn == F_APPEND_BYTE_DYN) rc = sec ? aws_byte_buf_append_byte_dynamic_secure(&X, ca.data[0]) : aws_byte_buf_append_byte_dynamic(&X, ca.data[0]);
            else rc = aws_byte_buf_append_null_terminator(&X);
            LIB_END();
            if (ovf) {
                VC("refused_huge_lengths");
                expect_int_fail(rc, 0, nm);
                break;
            }
            ESX_CHECK(rc == AWS_OP_SUCCESS, "must-succeed", "%s failed (error %s)", nm, aws_error_name(aws_last_error()));
            if (grows) {
                VC("growth_events");
                if (ca.self) VC("self_append_with_growth");
                if (sec && cap0) ESX_CHECK(hook_count >= 1, "secure-release-not-seen", "%s grew the buffer but no block went back to the allocator", nm);
            } else if (ca.self) {
                VC("self_append");
            }
            ref_put(ca.data, ca.def, ca.n);
            ref_grow(newcap);
            if (grows) ref_adopt_capacity(rc); /* the header only promises "grown appropriately" */
            break;
        }
        case F_CAT: {
            size_t l1, l2;
            cat_lens(d->a, &l1, &l2, &ok);
            struct aws_byte_buf b1 = aws_byte_buf_from_array(tmp_block(PAT, l1), l1), b2 = aws_byte_buf_from_array(tmp_block(PAT + 1, l2), l2);
            struct aws_byte_buf b1o = b1, b2o = b2;
            LIB_BEGIN(0);
            rc = aws_byte_buf_cat(&X, 2, &b1, &b2);
            LIB_END();
            bool fit1 = l1 <= fit, fit2 = fit1 && l2 <= fit - l1;
            if (fit1) ref_put(PAT, NULL, l1);
            if (fit2) ref_put(PAT + 1, NULL, l2);
            if (fit2) {
                ESX_CHECK(rc == AWS_OP_SUCCESS, "must-succeed", "%s failed", nm);
            } else {
                /* documented partial operation: dest->len holds what was actually copied (the parts before the one that did not fit) */
                if (fit1 && l1) VC("partial_cat");
                ESX_CHECK(rc == AWS_OP_ERR, "must-refuse", "%s succeeded without room", nm);
                if (rc == AWS_OP_ERR) ESX_CHECK(aws_last_error() == AWS_ERROR_DEST_COPY_TOO_SMALL, "error-code", "%s raised %s", nm, aws_error_name(aws_last_error()));
                if (!fit1) expect_unchanged(nm);
            }
            ESX_CHECK(memcmp(&b1, &b1o, sizeof(b1)) == 0 && memcmp(&b2, &b2o, sizeof(b2)) == 0, "source-changed", "%s changed a source buffer", nm);
            break;
        }
        case F_RESERVE:
        case F_RESERVE_SMART:
        case F_RESERVE_REL:
        case F_RESERVE_SMART_REL: {
            bool rel = d->fn == F_RESERVE_REL || d->fn == F_RESERVE_SMART_REL, smart = d->fn == F_RESERVE_SMART || d->fn == F_RESERVE_SMART_REL;
            size_t arg = rel ? la_value(d->a, fit) : reserve_arg(d->a);
            LIB_BEGIN(0);
            rc = d->fn == F_RESERVE ? aws_byte_buf_reserve(&X, arg) : d->fn == F_RESERVE_REL ? aws_byte_buf_reserve_relative(&X, arg) : d->fn == F_RESERVE_SMART ? aws_byte_buf_reserve_smart(&X, arg) : aws_byte_buf_reserve_smart_relative(&X, arg);
            LIB_END();
            if (rel && arg > SIZE_MAX - R.len) {
                VC("refused_huge_lengths");
                expect_int_fail(rc, 0, nm);
                break;
            }
            if (g_cfg.rmode == 1 && X.buffer && X.buffer == snapX.buffer && X.capacity > cap0 && X.capacity <= MAXCAP + 2)
                /* galloc's in-place realloc exposes stale arena bytes in the new tail: the harness (as the allocator's owner)
                 * gives them the allocator's deterministic junk so that replays are bit-for-bit identical */
                for (size_t i = cap0; i < X.capacity; ++i) X.buffer[i] = (uint8_t)(0xA5 ^ (i * 7));
            size_t req = rel ? R.len + arg : arg;
            size_t newcap = smart ? smart_newcap(req) : (req > R.cap ? req : R.cap);
            ESX_CHECK(rc == AWS_OP_SUCCESS, "must-succeed", "%s failed (error %s)", nm, aws_error_name(aws_last_error()));
            if (req > cap0) {
                VC("growth_events");
                ref_grow(newcap);
                if (smart && X.capacity >= req) ref_adopt_capacity(rc); /* reserve_smart: "expand appropriately" */
            } else if (rc == AWS_OP_SUCCESS) {
                ESX_CHECK(memcmp(&X, &snapX, sizeof(X)) == 0, "reserve-noop", "%s: capacity already sufficient but the buffer changed (no shrink is performed)", nm);
            }
            break;
        }
        case F_WRITE:
        case F_WRITE_U8:
        case F_WRITE_U8_N:
        case F_WRITE_NUM:
        case F_WRITE_WHOLE_BUF:
        case F_WRITE_WHOLE_CUR:
        case F_WRITE_WHOLE_STR: {
            uint8_t data[9];
            size_t n = 0;
            bool huge = false, r = false, forced_fail = false;
            memcpy(data, PAT, 8);
            LIB_BEGIN(0);
            if (d->fn == F_WRITE) {
                n = la_value(d->a, fit);
                huge = la_huge(d->a);
                uint8_t *src = tmp_block(PAT, huge ? 1 : n);
                r = aws_byte_buf_write(&X, src, n);
            } else if (d->fn == F_WRITE_U8) {
                n = 1;
                data[0] = SYM[d->a];
                r = aws_byte_buf_write_u8(&X, data[0]);
            } else if (d->fn == F_WRITE_U8_N) {
                n = la_value(d->a, fit);
                huge = la_huge(d->a);
                memset(data, d->b ? 'F' : 0, sizeof(data));
                r = aws_byte_buf_write_u8_n(&X, data[0], n);
            } else if (d->fn == F_WRITE_NUM) {
                uint64_t v = 0;
                static const size_t w[7] = {2, 3, 4, 8, 3, 4, 8};
                n = w[d->a];
                for (size_t i = 0; i < n; ++i) v = (v << 8) | PAT[i];
                if (d->a == 0) r = aws_byte_buf_write_be16(&X, (uint16_t)v);
                else if (d->a == 1) r = aws_byte_buf_write_be24(&X, (uint32_t)v);
                else if (d->a == 2) r = aws_byte_buf_write_be32(&X, (uint32_t)v);
                else if (d->a == 3) r = aws_byte_buf_write_be64(&X, v);
                else if (d->a == 4) {
                    forced_fail = true; /* value does not fit in 3 bytes */
                    r = aws_byte_buf_write_be24(&X, 0x01000000u | (uint32_t)v);
                } else if (d->a == 5) {
                    uint32_t u = (uint32_t)v;
                    float f;
                    memcpy(&f, &u, 4);
                    r = aws_byte_buf_write_float_be32(&X, f);
                } else {
                    double g;
                    memcpy(&g, &v, 8);
                    r = aws_byte_buf_write_float_be64(&X, g);
                }
            } else if (d->fn == F_WRITE_WHOLE_BUF) {
                n = whole_len(d->a);
                struct aws_byte_buf src = aws_byte_buf_from_array(tmp_block(PAT, n), n);
                r = aws_byte_buf_write_from_whole_buffer(&X, src);
            } else if (d->fn == F_WRITE_WHOLE_CUR) {
                make_carg(d->a, &ca);
                n = ca.n;
                huge = ca.huge;
                r = aws_byte_buf_write_from_whole_cursor(&X, ca.c);
            } else {
                if (d->a == 4) {
                    forced_fail = true;
                    r = aws_byte_buf_write_from_whole_string(&X, NULL);
                } else {
                    n = whole_len(d->a);
                    struct aws_string *s = aws_string_new_from_array(al, PAT, n);
                    r = aws_byte_buf_write_from_whole_string(&X, s);
                    aws_string_destroy(s);
                }
            }
            LIB_END();
            if (!forced_fail && n <= fit) {
                ESX_CHECK(r, "must-succeed", "%s returned false with %zu bytes free", nm, fit);
                ref_put(data, NULL, n);
            } else {
                if (huge) VC("refused_huge_lengths");
                ESX_CHECK(!r, "must-refuse", "%s returned true without room (%zu bytes free)", nm, fit);
                if (!r) expect_unchanged(nm);
            }
            break;
        }
        case F_WRITE_TO_CAP: {
            if (d->a >= 6) { /* a cursor whose length the cursor API refuses (> SIZE_MAX/2) over one valid byte: nothing may be copied */
                size_t hl = d->a == 6 ? SIZE_MAX / 2 + 1 : SIZE_MAX;
                struct aws_byte_cursor c = {.len = hl, .ptr = tmp_block(PAT, 1)}, c0 = c;
                LIB_BEGIN(0);
                struct aws_byte_cursor ret = aws_byte_buf_write_to_capacity(&X, &c);
                LIB_END();
                VC("refused_huge_lengths");
                ESX_CHECK(ret.len == 0, "write-to-capacity-result", "%s: a cursor of %zu bytes cannot be advanced, yet %zu bytes are reported written", nm, hl, ret.len);
                ESX_CHECK(memcmp(&c, &c0, sizeof(c)) == 0, "write-to-capacity-cursor", "%s reported nothing written but altered the cursor", nm);
                expect_unchanged(nm);
                break;
            }
            size_t n = tocap_len(d->a), w = n < fit ? n : fit;
            struct aws_byte_cursor c = {.len = n, .ptr = d->a == 5 ? NULL : tmp_block(PAT, n)}, c0 = c;
            LIB_BEGIN(0);
            struct aws_byte_cursor ret = aws_byte_buf_write_to_capacity(&X, &c);
            LIB_END();
            ESX_CHECK(ret.len == w, "write-to-capacity-result", "%s: returned cursor has len %zu, expected %zu", nm, ret.len, w);
            if (w) {
                ESX_CHECK(ret.ptr == c0.ptr, "write-to-capacity-result", "%s: returned cursor does not start at the original cursor", nm);
                ESX_CHECK(c.ptr == c0.ptr + w && c.len == n - w, "write-to-capacity-cursor", "%s: advancing cursor is (+%td,%zu), expected (+%zu,%zu)", nm, c.ptr - c0.ptr, c.len, w, n - w);
                if (w < n) VC("write_to_capacity_truncated");
            } else {
                ESX_CHECK(memcmp(&c, &c0, sizeof(c)) == 0, "write-to-capacity-cursor", "%s wrote nothing but altered the cursor", nm);
                expect_unchanged(nm);
            }
            ref_put(PAT, NULL, w);
            break;
        }
        case F_ADVANCE: {
            size_t n = la_value(d->a, fit);
            struct aws_byte_buf out = aws_byte_buf_from_array(tmp_block(PAT, 1), 1); /* a valid, non-empty buffer: a failure must null it */
            LIB_BEGIN(0);
            bool r = aws_byte_buf_advance(&X, &out, n);
            LIB_END();
            if (n <= fit) {
                ESX_CHECK(r, "must-succeed", "%s returned false with %zu bytes free", nm, fit);
                ESX_CHECK(out.len == 0 && out.capacity == n && out.allocator == NULL, "advance-output", "%s: output is len %zu cap %zu allocator %s", nm, out.len, out.capacity, out.allocator ? "set" : "NULL");
                if (n) ESX_CHECK(out.buffer == X.buffer + len0, "advance-output", "%s: output does not start at the old end of the buffer", nm);
                R.len += n;
            } else {
                if (la_huge(d->a)) VC("refused_huge_lengths");
                ESX_CHECK(!r, "must-refuse", "%s returned true without room", nm);
                ESX_CHECK(out.len == 0 && out.capacity == 0 && out.buffer == NULL && out.allocator == NULL, "advance-output", "%s failed but did not null the output", nm);
                if (!r) expect_unchanged(nm);
            }
            break;
        }
        case F_RESET: {
            LIB_BEGIN(0);
            if (d->a == 2) aws_byte_buf_secure_zero(&X);
            else aws_byte_buf_reset(&X, d->a == 1);
            LIB_END();
            if (d->a == 2) {
                memset(R.b, 0, R.cap);
                memset(R.def, 1, R.cap);
            } else if (d->a == 1) {
                /* "zeroes the contents": at least the old [0,len); the rest of the capacity may or may not be zeroed */
                memset(R.b, 0, R.len);
                memset(R.def, 1, R.len);
                for (size_t i = R.len; i < R.cap; ++i) R.def[i] = 0;
            }
            R.len = 0;
            break;
        }
        case F_READ_FILL: {
            size_t n = fill_len(d->a);
            struct aws_byte_cursor c = {.len = n, .ptr = d->a == 4 ? NULL : tmp_block(PAT, n)}, c0 = c;
            LIB_BEGIN(0);
            bool r = aws_byte_cursor_read_and_fill_buffer(&c, &X);
            LIB_END();
            if (cap0 <= n) {
                ESX_CHECK(r, "must-succeed", "%s returned false with a long enough cursor", nm);
                ESX_CHECK(c.len == n - cap0 && (cap0 == 0 || c.ptr == c0.ptr + cap0), "read-fill-cursor", "%s: cursor not advanced by the capacity", nm);
                R.len = 0;
                ref_put(PAT, NULL, cap0);
                VC("read_and_fill_ok");
            } else {
                ESX_CHECK(!r, "must-refuse", "%s returned true with a short cursor", nm);
                ESX_CHECK(memcmp(&c, &c0, sizeof(c)) == 0, "failed-call-changed-cursor", "%s failed but changed the cursor", nm);
                if (!r) expect_unchanged(nm);
            }
            break;
        }
        case F_EQ: {
            uint8_t t[MAXCAP + 4];
            size_t n = R.len;
            if (n) memcpy(t, X.buffer, n);
            bool r, want = true;
            LIB_BEGIN(0);
            if (d->a <= 3) {
                if (d->a == 1) t[n - 1] ^= 1;
                if (d->a == 2) t[n++] = 'a';
                if (d->a == 3)
                    for (size_t i = 0; i < n; ++i) t[i] = toggle(t[i]);
                struct aws_byte_buf o = aws_byte_buf_from_array(tmp_block(t, n), n);
                r = d->a == 3 ? aws_byte_buf_eq_ignore_case(&X, &o) : aws_byte_buf_eq(&X, &o);
                want = d->a == 0 || d->a == 3;
            } else {
                for (size_t i = 0; i < n; ++i) {
                    if (t[i] == 0) want = false;
                    if (d->a == 5) t[i] = toggle(t[i]);
                }
                t[n] = 0;
                const char *s = (const char *)tmp_block(t, n + 1);
                r = d->a == 4 ? aws_byte_buf_eq_c_str(&X, s) : aws_byte_buf_eq_c_str_ignore_case(&X, s);
            }
            LIB_END();
            ESX_CHECK(r == want, "comparison", "%s returned %d, expected %d (buffer [%s])", nm, r, want, v_show(X.buffer, R.len));
            ESX_CHECK(memcmp(&X, &snapX, sizeof(X)) == 0, "comparison-changed-buffer", "%s changed the buffer", nm);
            break;
        }
    }
    hook_armed = 0;
    tmp_free_all();
    check_state(nm);
    if (!esx_failed && R.live && R.cap > g_cfg.maxcap) {
        VC("growth_beyond_model_bound_then_clean_up");
        snap();
        LIB_BEGIN(d->b);
        if (d->b) aws_byte_buf_clean_up_secure(&X);
        else aws_byte_buf_clean_up(&X);
        LIB_END();
        memset(&R, 0, sizeof(R));
        check_state("clean_up after a growth beyond the model bound");
    }
}

/* canonical state = everything the library's behaviour and the oracle's future verdicts depend on: the reference
 * (live, cap, len, def[]) and the concrete bytes of the whole capacity (they were just checked against b[] where
 * def[] is set; where it is not they still decide what later self-appends / advance / reads observe).  Addresses
 * and allocator history are not observable by any check and are left out. */
static size_t m_canon(uint8_t *b, size_t cap) {
    (void)cap;
    size_t o = 0;
    b[o++] = (uint8_t)(R.live | (g_out_of_model << 1));
    b[o++] = (uint8_t)R.cap;
    b[o++] = (uint8_t)R.len;
    for (size_t i = 0; i < R.cap; ++i) {
        b[o++] = X.buffer[i];
        b[o++] = R.def[i];
    }
    return o;
}

static void m_opname(int op, char *buf, size_t cap) {
    const struct opd *d = &ops[op];
    char a[96];
    switch (d->fn) {
        case F_INIT: snprintf(buf, cap, "init(cap=%d)", d->a); break;
        case F_INIT_COPY: snprintf(buf, cap, "init_copy(src cap=%zu len=%zu)", copy_src[d->a][0], copy_src[d->a][1]); break;
        case F_INIT_COPY_CUR: snprintf(buf, cap, d->a ? "init_copy_from_cursor(len=%zu)" : "init_copy_from_cursor({NULL,0})", copy_cur[d->a]); break;
        case F_INIT_CACHE: snprintf(buf, cap, "init_cache_and_update_cursors(len1=%s,len2=%zu)", d->a == 3 ? "SIZE_MAX" : d->a == 2 ? "3" : d->a == 1 ? "1" : "0", cache_len[d->a][1]); break;
        case F_ATTACH_EMPTY: snprintf(buf, cap, "from_empty_array(cap=%d)", d->a); break;
        case F_ATTACH_FULL: snprintf(buf, cap, "from_array(len=%d)", d->a); break;
        case F_CLEAN: snprintf(buf, cap, d->a ? "clean_up_secure" : "clean_up"); break;
        case F_APPEND: carg_name(d->a, a, sizeof(a)); snprintf(buf, cap, "append(%s)", a); break;
        case F_APPEND_LOOKUP: carg_name(d->a, a, sizeof(a)); snprintf(buf, cap, "append_with_lookup(%s)", a); break;
        case F_APPEND_UPDATE: carg_name(d->a, a, sizeof(a)); snprintf(buf, cap, "append_and_update(%s)", a); break;
        case F_APPEND_DYN: carg_name(d->a, a, sizeof(a)); snprintf(buf, cap, "append_dynamic%s(%s)", d->b ? "_secure" : "", a); break;
        case F_APPEND_BYTE_DYN: snprintf(buf, cap, "append_byte_dynamic%s('%c')", d->b ? "_secure" : "", SYM[d->a]); break;
        case F_NULL_TERM: snprintf(buf, cap, "append_null_terminator"); break;
        case F_CAT: {
            static const char *v[] = {"0,0", "1,1", "2,1", "fit,0", "fit-1,1", "fit,1", "fit+1,0", "0,fit+1"};
            snprintf(buf, cap, "cat(2 buffers: lens %s)", v[d->a]);
            break;
        }
        case F_RESERVE:
        case F_RESERVE_SMART: {
            static const char *v[] = {"0", "1", "2", "cap", "cap+1", "model-max"};
            snprintf(buf, cap, "reserve%s(%s)", d->fn == F_RESERVE ? "" : "_smart", v[d->a]);
            break;
        }
        case F_RESERVE_REL: snprintf(buf, cap, "reserve_relative(%s)", la_name(d->a)); break;
        case F_RESERVE_SMART_REL: snprintf(buf, cap, "reserve_smart_relative(%s)", la_name(d->a)); break;
        case F_WRITE: snprintf(buf, cap, "write(len=%s)", la_name(d->a)); break;
        case F_WRITE_U8: snprintf(buf, cap, "write_u8('%c')", SYM[d->a]); break;
        case F_WRITE_U8_N: snprintf(buf, cap, "write_u8_n(%s,count=%s)", d->b ? "'F'" : "0", la_name(d->a)); break;
        case F_WRITE_NUM: {
            static const char *v[] = {"write_be16", "write_be24", "write_be32", "write_be64", "write_be24(value > 0xFFFFFF)", "write_float_be32", "write_float_be64"};
            snprintf(buf, cap, "%s", v[d->a]);
            break;
        }
        case F_WRITE_WHOLE_BUF:
        case F_WRITE_WHOLE_STR: {
            static const char *v[] = {"len=0", "len=1", "len=exact-fit", "len=exact-fit+1", "NULL"};
            snprintf(buf, cap, "write_from_whole_%s(%s)", d->fn == F_WRITE_WHOLE_BUF ? "buffer" : "string", v[d->a]);
            break;
        }
        case F_WRITE_WHOLE_CUR: carg_name(d->a, a, sizeof(a)); snprintf(buf, cap, "write_from_whole_cursor(%s)", a); break;
        case F_WRITE_TO_CAP: {
            static const char *v[] = {"len=0", "len=1", "len=2", "len=exact-fit", "len=exact-fit+1", "{NULL,0}", "fake-huge len=SIZE_MAX/2+1", "fake-huge len=SIZE_MAX"};
            snprintf(buf, cap, "write_to_capacity(cursor %s)", v[d->a]);
            break;
        }
        case F_ADVANCE: snprintf(buf, cap, "buf_advance(len=%s)", la_name(d->a)); break;
        case F_RESET: snprintf(buf, cap, "%s", d->a == 2 ? "secure_zero" : d->a ? "reset(zero=true)" : "reset(zero=false)"); break;
        case F_READ_FILL: {
            static const char *v[] = {"len=0", "len=cap-1", "len=cap", "len=cap+1", "{NULL,0}"};
            snprintf(buf, cap, "read_and_fill_buffer(cursor %s)", v[d->a]);
            break;
        }
        case F_EQ: {
            static const char *v[] = {"buf_eq(copy)", "buf_eq(copy, last byte differs)", "buf_eq(copy + 1 byte)", "buf_eq_ignore_case(case-toggled copy)", "buf_eq_c_str(copy)", "buf_eq_c_str_ignore_case(case-toggled copy)"};
            snprintf(buf, cap, "%s", v[d->a]);
            break;
        }
        default: snprintf(buf, cap, "op%d", op);
    }
}

static struct esx_model model = {.reset = m_reset, .enabled = m_enabled, .apply = m_apply, .canon = m_canon, .opname = m_opname, .teardown = m_teardown};

static void set_cfg(int kind, int rmode, size_t maxcap) {
    g_cfg.kind = kind;
    g_cfg.rmode = rmode;
    g_cfg.maxcap = maxcap;
    if (kind == 0) snprintf(g_cfg.name, sizeof(g_cfg.name), "bufw-dyn-r%d-cap%zu", rmode, maxcap);
    else snprintf(g_cfg.name, sizeof(g_cfg.name), "bufw-static-%s-cap%zu", kind == 1 ? "exact" : "guard", maxcap);
    model.name = g_cfg.name;
    build_ops();
    model.nops = nops;
}

int main(int argc, char **argv) {
    v_init(argc, argv);
    aws_common_library_init(aws_default_allocator());
    for (int i = 0; i < 256; ++i) rot_table[i] = (uint8_t)i;
    rot_table['a'] = 'F';
    rot_table['F'] = ' ';
    rot_table[' '] = 'a';
    /* {kind, realloc mode, capacity bound, depth (0 = run to the fixpoint), thorough only} */
    static const int cfgs[][5] = {
        {0, 0, 3, 0, 0}, {0, 2, 3, 0, 0}, {1, 0, 3, 0, 0}, {2, 0, 3, 0, 0}, {0, 1, 3, 0, 1},
        {0, 0, 6, 4, 0}, {0, 2, 6, 4, 0}, {1, 0, 6, 4, 0}, {2, 0, 6, 4, 0}, {0, 1, 6, 4, 1},
    };
    int ncfg = (int)(sizeof(cfgs) / sizeof(cfgs[0])), rc = 0, depth = 0, fixcap = 0;
    for (int i = 1; i < argc; ++i) {
        if (!strcmp(argv[i], "--dbg")) { /* Debug-build pass of the thorough tier: same models, smaller bounds */
            fixcap = 3;
            depth = 5;
        }
        if (!strcmp(argv[i], "--depth") && i + 1 < argc) depth = atoi(argv[i + 1]);
        if (!strcmp(argv[i], "--fixcap") && i + 1 < argc) fixcap = atoi(argv[i + 1]);
    }
    if (v_replay_token) /* the token names kind, realloc mode and capacity bound */
        for (int k = 0; k < 5; ++k)
            for (size_t mc = 1; mc <= MAXCAP; ++mc) {
                static const int kr[5][2] = {{0, 0}, {0, 1}, {0, 2}, {1, 0}, {2, 0}};
                set_cfg(kr[k][0], kr[k][1], mc);
                if (esx_token_is_for(v_replay_token, g_cfg.name)) rc |= esx_replay(&model, v_replay_token);
            }
    for (int i = 0; i < ncfg; ++i) {
        size_t mc = (size_t)cfgs[i][2];
        if (cfgs[i][3] == 0 && fixcap) mc = (size_t)fixcap;
        else if (cfgs[i][3] == 0 && v_thorough()) mc = 4;
        set_cfg(cfgs[i][0], cfgs[i][1], mc);
        if (v_replay_token) continue;
        if (cfgs[i][4] && !v_thorough()) continue;
        model.max_depth = cfgs[i][3] == 0 ? ESX_MAX_DEPTH : (depth ? depth : (v_thorough() ? 6 : 5));
        esx_run(&model);
        ESX_CYCLES(&model);
    }
    if (v_counter_value("histories_cut_capacity_beyond_reference_arrays")) v_exhaustive = 0;
    v_finish();
    return (v_sh->viol_count || rc) ? 1 : 0;
}
