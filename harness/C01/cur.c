/*
 * C01 / cur — every history of cursor-reading operations on ONE cursor C under ESX.
 *
 * The source bytes are built by the history itself (push one of three symbols: 'a' 'F' ' ' — a lower-case hex
 * letter, an upper-case hex letter, white space — up to 5 bytes, i.e. all 364 contents) and live in an
 * exact-size guard-allocator block: reading one byte before or after the source is an ASan report.  C views a
 * sub-range [off,off+len) of the source (advance keeps the tail, "take" keeps the returned head, so every
 * sub-range is reached: reads beyond C's own length but inside the source are caught by the value oracle) or is
 * the {NULL,0} view.  Second operands (prefixes, needles, comparison partners, destination buffers, the static
 * output list of split_on_char) are transient exact-size blocks.
 *
 * Reference: the source bytes, (off,len) or null.  Every operation is compared on return value, error code,
 * out-parameters and on the cursor afterwards; a failed read/advance must leave the cursor exactly as it was.
 */
#include "c01_common.h"

#define MAXSRC 5

static uint8_t *srcblk;
static size_t srclen;
static uint8_t src[MAXSRC + 2];
static struct aws_byte_cursor C;
static int rnull;
static size_t roff, rlen;

enum {
    F_PUSH, F_SETNULL, F_ADV, F_ADV_NOSPEC, F_TAKE, F_READ, F_READ_NUM, F_READ_FILL, F_WRITE_TO_CAP, F_NEXT_SPLIT,
    F_SPLIT, F_FIND, F_TRIM, F_STARTS, F_EQ, F_CMP, F_HUGE
};
struct opd {
    uint8_t fn, a, b, c;
};
static struct opd ops[400];
static int nops;
static void addop(int fn, int a, int b, int c) {
    ops[nops].fn = (uint8_t)fn;
    ops[nops].a = (uint8_t)a;
    ops[nops].b = (uint8_t)b;
    ops[nops].c = (uint8_t)c;
    ++nops;
}
static const char split_ch[4] = {'a', 'F', ' ', ';'};
static const size_t list_caps[4] = {1, 2, 3, 6};
static void build_ops(void) {
    nops = 0;
    for (int s = 0; s < 3; ++s) addop(F_PUSH, s, 0, 0);
    addop(F_SETNULL, 0, 0, 0);
    for (int a = 0; a < LA_N; ++a) addop(F_ADV, a, 0, 0);
    for (int a = 0; a < LA_N; ++a) addop(F_ADV_NOSPEC, a, 0, 0);
    for (int v = 0; v < 3; ++v) addop(F_TAKE, v, 0, 0);
    for (int a = 0; a < LA_N; ++a) addop(F_READ, a, 0, 0);
    for (int v = 0; v < 8; ++v) addop(F_READ_NUM, v, 0, 0);
    for (int v = 0; v < 5; ++v) addop(F_READ_FILL, v, 0, 0);
    for (int v = 0; v < 5; ++v) addop(F_WRITE_TO_CAP, v, 0, 0);
    for (int ch = 0; ch < 4; ++ch) addop(F_NEXT_SPLIT, ch, 0, 0);
    for (int ch = 0; ch < 4; ++ch)
        for (int lc = 0; lc < 4; ++lc) {
            addop(F_SPLIT, ch, lc, 0xff); /* split_on_char */
            for (int n = (lc == 3 && ch == 2) ? 0 : 1; n <= 2; ++n) addop(F_SPLIT, ch, lc, n);
        }
    for (int v = 0; v < 9; ++v) addop(F_FIND, v, 0, 0);
    for (int f = 0; f < 4; ++f)
        for (int p = 0; p < 4; ++p) addop(F_TRIM, f, p, 0);
    for (int v = 0; v < 7; ++v)
        for (int ic = 0; ic < 2; ++ic) addop(F_STARTS, v, ic, 0);
    for (int v = 0; v < 18; ++v) addop(F_EQ, v, 0, 0);
    for (int v = 0; v < 6; ++v)
        for (int lk = 0; lk < 2; ++lk) addop(F_CMP, v, lk, 0);
    for (int v = 0; v < 5; ++v) addop(F_HUGE, v, 0, 0);
}

static void set_whole(void) {
    C = aws_byte_cursor_from_array(srcblk, srclen);
    rnull = 0;
    roff = 0;
    rlen = srclen;
}
static void m_reset(void) {
    galloc_reset();
    galloc_get(0, 0);
    ga.release_hook = NULL;
    ntmp = 0;
    srclen = 0;
    memset(src, 0, sizeof(src));
    srcblk = (uint8_t *)galloc_acquire(&galloc_allocator, 0);
    set_whole();
}
static void m_teardown(void) {
    tmp_free_all();
    if (srcblk) galloc_release(&galloc_allocator, srcblk);
    srcblk = NULL;
    ESX_CHECK(ga.live_blocks == 0, "leak", "%llu blocks still live", (unsigned long long)ga.live_blocks);
}

static const uint8_t *cb(void) { return src + roff; } /* reference bytes of the view */
static uint8_t toggle(uint8_t c) { return (c >= 'a' && c <= 'z') ? (uint8_t)(c - 32) : (c >= 'A' && c <= 'Z') ? (uint8_t)(c + 32) : c; }
static uint8_t lower(uint8_t c) { return (c >= 'A' && c <= 'Z') ? (uint8_t)(c + 32) : c; }

static struct aws_byte_cursor snapC;
static void check_cursor(const char *nm) {
    if (esx_failed) return;
    ESX_CHECK(C.len == rlen, "cursor-len", "after %s: cursor len %zu, reference %zu", nm, C.len, rlen);
    if (rnull) ESX_CHECK(C.ptr == NULL, "cursor-ptr", "after %s: the {NULL,0} cursor got a pointer", nm);
    else ESX_CHECK(C.ptr == srcblk + roff, "cursor-ptr", "after %s: cursor at source offset %td, reference %zu", nm, C.ptr - srcblk, roff);
    ESX_CHECK(srclen == 0 || memcmp(srcblk, src, srclen) == 0, "source-bytes-changed", "after %s: the bytes under the cursor changed", nm);
}
static void expect_cursor_unchanged(const char *nm) {
    VC("cursor_unchanged_checks");
    ESX_CHECK(memcmp(&C, &snapC, sizeof(C)) == 0, "failed-call-changed-cursor", "%s reported failure / is a pure query but the cursor changed: (+%td,%zu) -> (+%td,%zu)", nm,
              snapC.ptr ? snapC.ptr - srcblk : -1, snapC.len, C.ptr ? C.ptr - srcblk : -1, C.len);
}

/* reference split: pieces of the view on ch */
struct piece {
    size_t start, len;
};
static int ref_split(uint8_t ch, struct piece *out) {
    int n = 0;
    size_t st = 0;
    for (size_t i = 0; i <= rlen; ++i)
        if (i == rlen || cb()[i] == ch) {
            out[n].start = st;
            out[n].len = i - st;
            ++n;
            st = i + 1;
        }
    return n;
}
typedef bool pred_fn(uint8_t);
static bool p_never(uint8_t c) {
    (void)c;
    return false;
}
static bool p_always(uint8_t c) {
    (void)c;
    return true;
}
static pred_fn *preds[4] = {aws_isspace, aws_isalpha, p_never, p_always};
static bool ref_pred(int p, uint8_t c) { return p == 0 ? c == ' ' : p == 1 ? (c == 'a' || c == 'F') : p == 3; }
static const char *pred_name[4] = {"isspace", "isalpha", "never", "always"};

static size_t sel_len(int v) { return v <= 2 ? (size_t)v : v == 3 ? rlen : rlen + 1; } /* 0,1,2,exact,exact+1 */
static bool sel_distinct(int v) { return v <= 2 || (v == 3 ? rlen > 2 : rlen + 1 > 2); }

/* second operand for starts_with / eq / compare: derived from the view */
static size_t make_other(int v, uint8_t *t) {
    size_t n = rlen;
    memcpy(t, cb(), n);
    switch (v) {
        case 0: break;                         /* copy */
        case 1: t[n++] = 'a'; break;           /* copy + 1 byte */
        case 2: --n; break;                    /* copy minus last byte */
        case 3: t[n - 1] = 'z'; break;         /* last byte larger */
        case 4: t[n - 1] = 1; break;           /* last byte smaller */
        default: memcpy(t, "F a", 3); n = 3; break;
    }
    return n;
}
static int sgn(int x) { return x < 0 ? -1 : x > 0; }

static bool m_enabled(int op) {
    const struct opd *d = &ops[op];
    switch (d->fn) {
        case F_PUSH: return srclen < MAXSRC;
        case F_SETNULL: return !rnull;
        case F_ADV:
        case F_ADV_NOSPEC:
        case F_READ: return la_distinct(d->a, rlen);
        case F_TAKE: return d->a == 0 ? rlen >= 2 : d->a == 1 ? rlen >= 3 : rlen >= 4; /* keep the first 1, 2, len-1 bytes */
        case F_READ_FILL:
        case F_WRITE_TO_CAP: return sel_distinct(d->a);
        case F_FIND: return d->a == 7 ? rlen >= 1 : true;
        case F_STARTS: return d->a == 2 || d->a == 3 ? rlen >= 1 : d->a == 6 ? rlen >= 2 : true;
        case F_EQ: return (d->a == 1 || d->a == 2 || d->a == 4 || d->a == 16 || d->a == 17) ? rlen >= 1 : true;
        case F_CMP: return (d->a >= 2 && d->a <= 4 ? rlen >= 1 : true) && (d->b || !rnull); /* compare_lexical: both pointers non-NULL */
        default: return true;
    }
}

static void m_opname(int op, char *buf, size_t cap);

static void m_apply(int op) {
    const struct opd *d = &ops[op];
    char nm[160];
    m_opname(op, nm, sizeof(nm));
    snapC = C;
    aws_reset_error();
    switch (d->fn) {
        case F_PUSH: {
            uint8_t *nb = (uint8_t *)galloc_acquire(&galloc_allocator, srclen + 1);
            memcpy(nb, src, srclen);
            nb[srclen] = SYM[d->a];
            src[srclen++] = SYM[d->a];
            galloc_release(&galloc_allocator, srcblk);
            srcblk = nb;
            set_whole();
            ESX_CHECK(C.ptr == srcblk && C.len == srclen, "from-array", "cursor_from_array gave (%p,%zu)", (void *)C.ptr, C.len);
            break;
        }
        case F_SETNULL: {
            AWS_ZERO_STRUCT(C);
            rnull = 1;
            roff = rlen = 0;
            break;
        }
        case F_ADV:
        case F_ADV_NOSPEC:
        case F_TAKE: {
            size_t k = d->fn == F_TAKE ? (d->a == 0 ? 1 : d->a == 1 ? 2 : rlen - 1) : la_value(d->a, rlen);
            struct aws_byte_cursor r = d->fn == F_ADV_NOSPEC ? aws_byte_cursor_advance_nospec(&C, k) : aws_byte_cursor_advance(&C, k);
            if (k <= rlen) {
                ESX_CHECK(r.len == k, "advance-result", "%s: returned len %zu, expected %zu", nm, r.len, k);
                if (k) ESX_CHECK(r.ptr == snapC.ptr, "advance-result", "%s: returned cursor does not start at the old position", nm);
                roff += k;
                rlen -= k;
                if (rnull) roff = 0;
                if (d->fn == F_TAKE && !esx_failed) { /* continue with the returned head instead of the tail */
                    check_cursor(nm);
                    C = r;
                    roff -= k;
                    rlen = k;
                }
            } else {
                if (la_huge(d->a)) VC("refused_huge_lengths");
                ESX_CHECK(r.ptr == NULL && r.len == 0, "advance-result", "%s past the end returned (%s,%zu), header says {NULL,0}", nm, r.ptr ? "ptr" : "NULL", r.len);
                expect_cursor_unchanged(nm);
            }
            break;
        }
        case F_READ: {
            size_t k = la_value(d->a, rlen), dn = la_huge(d->a) ? 1 : k;
            uint8_t fill[8];
            memset(fill, 0xEE, sizeof(fill));
            uint8_t *dest = tmp_block(fill, dn);
            bool r = aws_byte_cursor_read(&C, dest, k);
            if (k <= rlen) {
                ESX_CHECK(r, "must-succeed", "%s returned false with %zu bytes left", nm, rlen);
                ESX_CHECK(memcmp(dest, cb(), k) == 0, "read-bytes", "%s copied [%s], the cursor holds [%s]", nm, v_show(dest, k), v_show(cb(), k));
                roff += k;
                rlen -= k;
                if (rnull) roff = 0;
            } else {
                if (la_huge(d->a)) VC("refused_huge_lengths");
                VC("short_reads_refused");
                ESX_CHECK(!r, "must-refuse", "%s returned true with only %zu bytes left", nm, rlen);
                expect_cursor_unchanged(nm);
            }
            break;
        }
        case F_READ_NUM: {
            static const size_t w[8] = {1, 2, 3, 4, 8, 4, 8, 2};
            size_t k = w[d->a];
            uint64_t want = 0, got = 0;
            for (size_t i = 0; i < k && i < rlen; ++i) want = (want << 8) | cb()[i];
            bool r, okexp = k <= rlen;
            uint8_t v8 = 0xEE;
            uint16_t v16 = 0xEEEE;
            uint32_t v32 = 0xEEEEEEEEu;
            uint64_t v64 = 0xEEEEEEEEEEEEEEEEull;
            float f = 0;
            double g = 0;
            switch (d->a) {
                case 0: r = aws_byte_cursor_read_u8(&C, &v8); got = v8; break;
                case 1: r = aws_byte_cursor_read_be16(&C, &v16); got = v16; break;
                case 2: r = aws_byte_cursor_read_be24(&C, &v32); got = v32; break;
                case 3: r = aws_byte_cursor_read_be32(&C, &v32); got = v32; break;
                case 4: r = aws_byte_cursor_read_be64(&C, &v64); got = v64; break;
                case 5: r = aws_byte_cursor_read_float_be32(&C, &f); memcpy(&v32, &f, 4); got = v32; break;
                case 6: r = aws_byte_cursor_read_float_be64(&C, &g); memcpy(&v64, &g, 8); got = v64; break;
                default: {
                    r = aws_byte_cursor_read_hex_u8(&C, &v8);
                    got = v8;
                    if (okexp) {
                        int hi = cb()[0] == 'a' ? 10 : cb()[0] == 'F' ? 15 : -1, lo = cb()[1] == 'a' ? 10 : cb()[1] == 'F' ? 15 : -1;
                        okexp = hi >= 0 && lo >= 0;
                        want = (uint64_t)(hi * 16 + lo);
                        if (!okexp) VC("bad_hex_digit_refused");
                    }
                }
            }
            if (okexp) {
                ESX_CHECK(r, "must-succeed", "%s returned false with %zu bytes left", nm, rlen);
                ESX_CHECK(got == want, "read-value", "%s produced 0x%llx, the bytes [%s] mean 0x%llx", nm, (unsigned long long)got, v_show(cb(), k), (unsigned long long)want);
                roff += k;
                rlen -= k;
            } else {
                VC("short_reads_refused");
                ESX_CHECK(!r, "must-refuse", "%s returned true on [%s]", nm, v_show(cb(), rlen));
                expect_cursor_unchanged(nm);
            }
            break;
        }
        case F_READ_FILL:
        case F_WRITE_TO_CAP: {
            size_t cap = sel_len(d->a);
            uint8_t fill[8];
            memset(fill, 0xEE, sizeof(fill));
            uint8_t *st = tmp_block(fill, cap);
            struct aws_byte_buf dst = aws_byte_buf_from_empty_array(st, cap), dst0 = dst;
            if (d->fn == F_READ_FILL) {
                bool r = aws_byte_cursor_read_and_fill_buffer(&C, &dst);
                if (cap <= rlen) {
                    ESX_CHECK(r, "must-succeed", "%s returned false with %zu bytes left", nm, rlen);
                    ESX_CHECK(dst.len == cap && dst.capacity == cap && dst.buffer == dst0.buffer, "fill-dest", "%s: destination is len %zu cap %zu", nm, dst.len, dst.capacity);
                    ESX_CHECK(memcmp(st, cb(), cap) == 0, "read-bytes", "%s copied [%s], the cursor holds [%s]", nm, v_show(st, cap), v_show(cb(), cap));
                    roff += cap;
                    rlen -= cap;
                    if (rnull) roff = 0;
                } else {
                    VC("short_reads_refused");
                    ESX_CHECK(!r, "must-refuse", "%s returned true with only %zu bytes left", nm, rlen);
                    ESX_CHECK(memcmp(&dst, &dst0, sizeof(dst)) == 0 && memcmp(st, fill, cap) == 0, "failed-call-changed-dest", "%s failed but changed the destination buffer", nm);
                    expect_cursor_unchanged(nm);
                }
            } else {
                size_t w = cap < rlen ? cap : rlen;
                struct aws_byte_cursor r = aws_byte_buf_write_to_capacity(&dst, &C);
                ESX_CHECK(r.len == w, "write-to-capacity-result", "%s: returned len %zu, expected %zu", nm, r.len, w);
                if (w) ESX_CHECK(r.ptr == snapC.ptr, "write-to-capacity-result", "%s: returned cursor does not start at the old position", nm);
                ESX_CHECK(dst.len == w && dst.capacity == cap, "fill-dest", "%s: destination is len %zu cap %zu", nm, dst.len, dst.capacity);
                ESX_CHECK(memcmp(st, cb(), w) == 0 && memcmp(st + w, fill, cap - w) == 0, "read-bytes", "%s: destination storage is [%s]", nm, v_show(st, cap));
                if (w < rlen) VC("write_to_capacity_truncated");
                if (w == 0) expect_cursor_unchanged(nm);
                roff += w;
                rlen -= w;
                if (rnull) roff = 0;
            }
            break;
        }
        case F_NEXT_SPLIT: {
            struct piece want[MAXSRC + 2];
            int nw = ref_split((uint8_t)split_ch[d->a], want), got = 0;
            struct aws_byte_cursor sub;
            AWS_ZERO_STRUCT(sub);
            bool more = true;
            while (got < MAXSRC + 4 && (more = aws_byte_cursor_next_split(&C, split_ch[d->a], &sub))) {
                if (got < nw) {
                    ESX_CHECK(sub.len == want[got].len, "split-piece", "%s: piece %d has len %zu, expected %zu (view [%s])", nm, got, sub.len, want[got].len, v_show(cb(), rlen));
                    if (!rnull) ESX_CHECK(sub.ptr == C.ptr + want[got].start, "split-piece", "%s: piece %d starts at offset %td, expected %zu (view [%s])", nm, got, sub.ptr - C.ptr, want[got].start, v_show(cb(), rlen));
                    else ESX_CHECK(sub.ptr != NULL || sub.len == 0, "split-piece", "%s: piece of a {NULL,0} input", nm);
                }
                ++got;
                /* a second, unrelated iteration runs to its end between two steps of this one: an iteration is described by
                 * its own (input, substr) pair and nothing else (added after a seeded change that kept the end of the input
                 * of the iteration started last in a function-level static) */
                {
                    static const char other_txt[] = "q;rs;;tuv";
                    uint8_t *ob = (uint8_t *)galloc_acquire(&galloc_allocator, sizeof(other_txt) - 1);
                    memcpy(ob, other_txt, sizeof(other_txt) - 1);
                    struct aws_byte_cursor oc = aws_byte_cursor_from_array(ob, sizeof(other_txt) - 1), os;
                    AWS_ZERO_STRUCT(os);
                    int on = 0;
                    size_t olen = 0;
                    while (on < 8 && aws_byte_cursor_next_split(&oc, ';', &os)) {
                        ++on;
                        olen += os.len;
                        if (os.len && (os.ptr < ob || os.ptr + os.len > ob + sizeof(other_txt) - 1)) olen = 999;
                    }
                    ESX_CHECK(on == 4 && olen == 6, "split-piece", "%s: an unrelated iteration over \"q;rs;;tuv\" made between two steps gave %d pieces of %zu bytes in all", nm, on, olen);
                    galloc_release(&galloc_allocator, ob);
                }
            }
            ESX_CHECK(!more, "split-termination", "%s still returns pieces after %d calls", nm, got);
            ESX_CHECK(got == nw, "split-count", "%s produced %d pieces, expected %d (view [%s])", nm, got, nw, v_show(cb(), rlen));
            ESX_CHECK(sub.len == 0, "split-final", "%s: substr not empty after the last call", nm);
            if (nw > 1) VC("splits_with_several_pieces");
            expect_cursor_unchanged(nm);
            break;
        }
        case F_SPLIT: {
            struct piece p[MAXSRC + 2];
            int np = ref_split((uint8_t)split_ch[d->a], p);
            size_t lc = list_caps[d->b];
            bool limited = d->c != 0xff;
            size_t n = limited ? d->c : 0;
            if (n > 0 && (size_t)np > n + 1) { /* n splits: n pieces plus the rest of the string */
                p[n].len = rlen - p[n].start;
                np = (int)n + 1;
            }
            struct aws_byte_cursor *arr = (struct aws_byte_cursor *)galloc_acquire(&galloc_allocator, lc * sizeof(struct aws_byte_cursor));
            tmp_blk[ntmp++] = arr;
            struct aws_array_list list;
            aws_array_list_init_static(&list, arr, lc, sizeof(struct aws_byte_cursor));
            int rc = limited ? aws_byte_cursor_split_on_char_n(&C, split_ch[d->a], n, &list) : aws_byte_cursor_split_on_char(&C, split_ch[d->a], &list);
            size_t ln = aws_array_list_length(&list);
            if ((size_t)np <= lc) {
                ESX_CHECK(rc == AWS_OP_SUCCESS, "must-succeed", "%s failed with room for %zu pieces, %d needed", nm, lc, np);
                ESX_CHECK(ln == (size_t)np, "split-count", "%s stored %zu pieces, expected %d (view [%s])", nm, ln, np, v_show(cb(), rlen));
                expect_cursor_unchanged(nm);
            } else {
                /* documented partial operation: the list fills up, the call fails, what was stored are the first pieces */
                VC("split_list_filled_up");
                ESX_CHECK(rc == AWS_OP_ERR, "must-refuse", "%s succeeded although %d pieces do not fit in %zu", nm, np, lc);
                if (rc == AWS_OP_ERR) ESX_CHECK(err_registered(aws_last_error()), "error-code", "%s failed without a registered error code", nm);
                ESX_CHECK(ln <= lc, "split-count", "%s: static list of %zu now has length %zu", nm, lc, ln);
            }
            for (size_t i = 0; i < ln && i < (size_t)np && i < lc && !esx_failed; ++i) {
                ESX_CHECK(arr[i].len == p[i].len, "split-piece", "%s: piece %zu has len %zu, expected %zu (view [%s])", nm, i, arr[i].len, p[i].len, v_show(cb(), rlen));
                if (!rnull) ESX_CHECK(arr[i].ptr == snapC.ptr + p[i].start, "split-piece", "%s: piece %zu starts at offset %td, expected %zu", nm, i, arr[i].ptr - snapC.ptr, p[i].start);
            }
            if (limited && n > 0 && np == (int)n + 1) VC("split_n_limit_reached");
            break;
        }
        case F_FIND: {
            uint8_t t[MAXSRC + 2];
            size_t n;
            static const char *fixed[5] = {"a", "F", " ", "aF", "F "};
            if (d->a < 5) {
                n = strlen(fixed[d->a]);
                memcpy(t, fixed[d->a], n);
            } else if (d->a == 5) {
                n = rlen;
                memcpy(t, cb(), n);
            } else if (d->a == 6) {
                n = rlen + 1;
                memcpy(t, cb(), rlen);
                t[rlen] = 'a';
            } else if (d->a == 7) {
                n = 1;
                t[0] = cb()[rlen - 1];
            } else
                n = 0;
            struct aws_byte_cursor needle = {.len = n, .ptr = tmp_block(t, n)}, needle0 = needle, out = {0, NULL};
            int rc = aws_byte_cursor_find_exact(&C, &needle, &out);
            long pos = -1;
            for (size_t i = 0; n && i + n <= rlen && pos < 0; ++i)
                if (memcmp(cb() + i, t, n) == 0) pos = (long)i;
            if (n == 0) {
                /* the header does not say what an empty needle does: only bounds are demanded */
                if (rc == AWS_OP_SUCCESS) ESX_CHECK(out.len <= rlen && (rnull || (out.ptr >= C.ptr && out.ptr + out.len <= C.ptr + rlen)), "find-bounds", "%s: result outside the input", nm);
                else ESX_CHECK(err_registered(aws_last_error()), "error-code", "%s failed without a registered error code", nm);
            } else if (pos >= 0) {
                VC("find_hits");
                ESX_CHECK(rc == AWS_OP_SUCCESS, "must-succeed", "%s: needle [%s] occurs at %ld in [%s] but the call failed", nm, v_show(t, n), pos, v_show(cb(), rlen));
                if (rc == AWS_OP_SUCCESS) ESX_CHECK(out.ptr == C.ptr + pos && out.len == rlen - (size_t)pos, "find-result", "%s: found at offset %td len %zu, expected %ld len %zu", nm, out.ptr - C.ptr, out.len, pos, rlen - (size_t)pos);
            } else {
                ESX_CHECK(rc == AWS_OP_ERR, "must-refuse", "%s: needle [%s] does not occur in [%s] but the call succeeded", nm, v_show(t, n), v_show(cb(), rlen));
                if (rc == AWS_OP_ERR) ESX_CHECK(aws_last_error() == AWS_ERROR_STRING_MATCH_NOT_FOUND, "error-code", "%s raised %s, header says AWS_ERROR_STRING_MATCH_NOT_FOUND", nm, aws_error_name(aws_last_error()));
            }
            ESX_CHECK(memcmp(&needle, &needle0, sizeof(needle)) == 0, "source-cursor-changed", "%s changed the needle", nm);
            expect_cursor_unchanged(nm);
            break;
        }
        case F_TRIM: {
            size_t lo = 0, hi = rlen;
            int p = d->b;
            if (d->a == 0 || d->a == 2 || d->a == 3)
                while (lo < hi && ref_pred(p, cb()[lo])) ++lo;
            if (d->a == 1 || d->a == 2)
                while (hi > lo && ref_pred(p, cb()[hi - 1])) --hi;
            if (d->a == 3) {
                bool r = aws_byte_cursor_satisfies_pred(&C, preds[p]);
                ESX_CHECK(r == (lo == rlen), "satisfies-pred", "%s on [%s] returned %d", nm, v_show(cb(), rlen), r);
            } else {
                struct aws_byte_cursor r = d->a == 0 ? aws_byte_cursor_left_trim_pred(&C, preds[p]) : d->a == 1 ? aws_byte_cursor_right_trim_pred(&C, preds[p]) : aws_byte_cursor_trim_pred(&C, preds[p]);
                ESX_CHECK(r.len == hi - lo, "trim-result", "%s on [%s] kept %zu bytes, expected %zu", nm, v_show(cb(), rlen), r.len, hi - lo);
                if (hi > lo) ESX_CHECK(r.ptr == C.ptr + lo, "trim-result", "%s on [%s] starts at %td, expected %zu", nm, v_show(cb(), rlen), r.ptr - C.ptr, lo);
                if (hi - lo < rlen) VC("trims_that_removed_bytes");
            }
            expect_cursor_unchanged(nm);
            break;
        }
        case F_STARTS: {
            uint8_t t[MAXSRC + 2];
            size_t n = 0;
            bool want = true, null_prefix = false;
            switch (d->a) {
                case 0: break;
                case 1: null_prefix = true; break;
                case 2: t[0] = cb()[0]; n = 1; break;
                case 3: t[0] = toggle(cb()[0]); n = 1; want = d->b || t[0] == cb()[0]; break;
                case 4: memcpy(t, cb(), rlen); n = rlen; break;
                case 5: memcpy(t, cb(), rlen); t[rlen] = 'a'; n = rlen + 1; want = false; break;
                default: t[0] = cb()[0]; t[1] = 'z'; n = 2; want = false; break;
            }
            struct aws_byte_cursor pre = {.len = n, .ptr = null_prefix ? NULL : tmp_block(t, n)};
            bool r = d->b ? aws_byte_cursor_starts_with_ignore_case(&C, &pre) : aws_byte_cursor_starts_with(&C, &pre);
            ESX_CHECK(r == want, "starts-with", "%s: [%s] vs prefix [%s] returned %d", nm, v_show(cb(), rlen), v_show(t, n), r);
            expect_cursor_unchanged(nm);
            break;
        }
        case F_EQ: {
            uint8_t t[MAXSRC + 3];
            size_t n = rlen;
            memcpy(t, cb(), n);
            bool r, want = true;
            switch (d->a) {
                case 0: {
                    struct aws_byte_cursor o = {.len = n, .ptr = tmp_block(t, n)};
                    r = aws_byte_cursor_eq(&C, &o);
                    break;
                }
                case 1:
                case 4: {
                    t[n - 1] = 'z';
                    struct aws_byte_cursor o = {.len = n, .ptr = tmp_block(t, n)};
                    r = d->a == 1 ? aws_byte_cursor_eq(&C, &o) : aws_byte_cursor_eq_ignore_case(&C, &o);
                    want = false;
                    break;
                }
                case 2: {
                    struct aws_byte_cursor o = {.len = n - 1, .ptr = tmp_block(t, n - 1)};
                    r = aws_byte_cursor_eq(&C, &o);
                    want = false;
                    break;
                }
                case 3:
                case 6:
                case 8: {
                    for (size_t i = 0; i < n; ++i) t[i] = toggle(t[i]);
                    if (d->a == 3) {
                        struct aws_byte_cursor o = {.len = n, .ptr = tmp_block(t, n)};
                        r = aws_byte_cursor_eq_ignore_case(&C, &o);
                    } else if (d->a == 6) {
                        struct aws_byte_buf o = aws_byte_buf_from_array(tmp_block(t, n), n);
                        r = aws_byte_cursor_eq_byte_buf_ignore_case(&C, &o);
                    } else {
                        t[n] = 0;
                        r = aws_byte_cursor_eq_c_str_ignore_case(&C, (const char *)tmp_block(t, n + 1));
                    }
                    break;
                }
                case 5: {
                    struct aws_byte_buf o = aws_byte_buf_from_array(tmp_block(t, n), n);
                    r = aws_byte_cursor_eq_byte_buf(&C, &o);
                    break;
                }
                case 7: {
                    t[n] = 0;
                    r = aws_byte_cursor_eq_c_str(&C, (const char *)tmp_block(t, n + 1));
                    break;
                }
                case 9: {
                    t[n] = 'a';
                    t[n + 1] = 0;
                    r = aws_byte_cursor_eq_c_str(&C, (const char *)tmp_block(t, n + 2));
                    want = false;
                    break;
                }
                case 10: {
                    struct aws_byte_cursor o = {0, NULL};
                    r = aws_byte_cursor_eq(&C, &o);
                    want = rlen == 0;
                    break;
                }
                case 11:
                case 12: { /* string.c: aws_string against the cursor */
                    if (d->a == 12)
                        for (size_t i = 0; i < n; ++i) t[i] = toggle(t[i]);
                    struct aws_string *str = aws_string_new_from_array(&galloc_allocator, t, n);
                    r = d->a == 11 ? aws_string_eq_byte_cursor(str, &C) : aws_string_eq_byte_cursor_ignore_case(str, &C);
                    aws_string_destroy(str);
                    break;
                }
                case 13: { /* string.c: copy of the cursor as a string, and a cursor over that string */
                    struct aws_string *str = aws_string_new_from_cursor(&galloc_allocator, &C);
                    struct aws_byte_cursor back = aws_byte_cursor_from_string(str);
                    r = str->len == n && memcmp(aws_string_bytes(str), t, n) == 0 && aws_string_bytes(str)[n] == 0 && back.len == n && back.ptr == aws_string_bytes(str);
                    aws_string_destroy(str);
                    break;
                }
                case 15: {
                    t[n] = 'A';
                    t[n + 1] = 0;
                    r = aws_byte_cursor_eq_c_str_ignore_case(&C, (const char *)tmp_block(t, n + 2));
                    want = false;
                    break;
                }
                case 16:
                case 17: {
                    if (d->a == 17) t[n - 1] = 'z';
                    size_t m = d->a == 16 ? n - 1 : n;
                    struct aws_byte_buf o = aws_byte_buf_from_array(tmp_block(t, m), m);
                    r = d->a == 16 ? aws_byte_cursor_eq_byte_buf(&C, &o) : aws_byte_cursor_eq_byte_buf_ignore_case(&C, &o);
                    want = false;
                    break;
                }
                default: { /* 14: constructors over a NUL-terminated copy */
                    t[n] = 0;
                    const char *cs = (const char *)tmp_block(t, n + 1);
                    struct aws_byte_cursor c2 = aws_byte_cursor_from_c_str(cs);
                    struct aws_byte_buf b2 = aws_byte_buf_from_c_str(cs);
                    struct aws_byte_cursor c3 = aws_byte_cursor_from_buf(&b2);
                    r = c2.len == n && c2.ptr == (const uint8_t *)cs && b2.len == n && b2.capacity == n && b2.allocator == NULL && aws_byte_buf_is_valid(&b2) && (n == 0 || b2.buffer == (const uint8_t *)cs) &&
                        c3.len == n && c3.ptr == b2.buffer;
                }
            }
            ESX_CHECK(r == want, "comparison", "%s on [%s] returned %d, expected %d", nm, v_show(cb(), rlen), r, want);
            expect_cursor_unchanged(nm);
            break;
        }
        case F_CMP: {
            uint8_t t[MAXSRC + 3], a2[MAXSRC + 3], b2[MAXSRC + 3];
            size_t n = make_other(d->a, t);
            struct aws_byte_cursor o = {.len = n, .ptr = tmp_block(t, n)};
            int r, want;
            if (d->b) { /* compare_lookup through the to-lower table; the partner is case-toggled first */
                for (size_t i = 0; i < n; ++i) o.ptr[i] = t[i] = toggle(t[i]);
                for (size_t i = 0; i < rlen; ++i) a2[i] = lower(cb()[i]);
                for (size_t i = 0; i < n; ++i) b2[i] = lower(t[i]);
                r = aws_byte_cursor_compare_lookup(&C, &o, aws_lookup_table_to_lower_get());
            } else {
                memcpy(a2, cb(), rlen);
                memcpy(b2, t, n);
                r = aws_byte_cursor_compare_lexical(&C, &o);
            }
            size_t m = rlen < n ? rlen : n;
            want = m ? memcmp(a2, b2, m) : 0;
            if (!want) want = rlen < n ? -1 : rlen > n ? 1 : 0;
            ESX_CHECK(sgn(r) == sgn(want), "comparison", "%s: [%s] vs [%s] returned %d, expected sign %d", nm, v_show(cb(), rlen), v_show(t, n), r, sgn(want));
            expect_cursor_unchanged(nm);
            break;
        }
        case F_HUGE: {
            /* a transient fake-huge cursor (one valid byte) and a length above SIZE_MAX/2 that it nominally covers:
             * the header says such a length is treated as an overflow: {NULL,0} / false, cursor unchanged, nothing read */
            size_t hl = d->a >= 2 && d->a <= 3 ? HALF + 1 : SIZE_MAX, k = d->a >= 2 && d->a <= 3 ? HALF + 1 : d->a == 4 ? SIZE_MAX : SIZE_MAX - 1;
            struct aws_byte_cursor H = {.len = hl, .ptr = tmp_block(PAT, 1)}, H0 = H;
            VC("refused_huge_lengths");
            if (d->a == 4) {
                uint8_t *dest = tmp_block(PAT, 1);
                bool r = aws_byte_cursor_read(&H, dest, k);
                ESX_CHECK(!r, "must-refuse", "%s returned true", nm);
            } else {
                struct aws_byte_cursor r = (d->a & 1) ? aws_byte_cursor_advance_nospec(&H, k) : aws_byte_cursor_advance(&H, k);
                ESX_CHECK(r.ptr == NULL && r.len == 0, "advance-result", "%s returned (%s,%zu), header says {NULL,0}", nm, r.ptr ? "ptr" : "NULL", r.len);
            }
            ESX_CHECK(memcmp(&H, &H0, sizeof(H)) == 0, "failed-call-changed-cursor", "%s was refused but changed the cursor", nm);
            break;
        }
    }
    tmp_free_all();
    check_cursor(nm);
}

/* canonical state: the source bytes and the view; nothing else exists between calls */
static size_t m_canon(uint8_t *b, size_t cap) {
    (void)cap;
    size_t o = 0;
    b[o++] = (uint8_t)srclen;
    memcpy(b + o, src, srclen);
    o += srclen;
    b[o++] = (uint8_t)rnull;
    b[o++] = (uint8_t)roff;
    b[o++] = (uint8_t)rlen;
    return o;
}

static void m_opname(int op, char *buf, size_t cap) {
    const struct opd *d = &ops[op];
    static const char *sel[] = {"0", "1", "2", "exact", "exact+1"};
    switch (d->fn) {
        case F_PUSH: snprintf(buf, cap, "source+='%c'", SYM[d->a]); break;
        case F_SETNULL: snprintf(buf, cap, "cursor={NULL,0}"); break;
        case F_ADV: snprintf(buf, cap, "advance(%s)", la_name(d->a)); break;
        case F_ADV_NOSPEC: snprintf(buf, cap, "advance_nospec(%s)", la_name(d->a)); break;
        case F_TAKE: snprintf(buf, cap, "cursor=advance(%s)", d->a == 0 ? "1" : d->a == 1 ? "2" : "len-1"); break;
        case F_READ: snprintf(buf, cap, "read(len=%s)", la_name(d->a)); break;
        case F_READ_NUM: {
            static const char *v[] = {"read_u8", "read_be16", "read_be24", "read_be32", "read_be64", "read_float_be32", "read_float_be64", "read_hex_u8"};
            snprintf(buf, cap, "%s", v[d->a]);
            break;
        }
        case F_READ_FILL: snprintf(buf, cap, "read_and_fill_buffer(dest cap=%s)", sel[d->a]); break;
        case F_WRITE_TO_CAP: snprintf(buf, cap, "write_to_capacity(dest cap=%s)", sel[d->a]); break;
        case F_NEXT_SPLIT: snprintf(buf, cap, "next_split('%c') until false", split_ch[d->a]); break;
        case F_SPLIT:
            if (d->c == 0xff) snprintf(buf, cap, "split_on_char('%c', static list of %zu)", split_ch[d->a], list_caps[d->b]);
            else snprintf(buf, cap, "split_on_char_n('%c', n=%d, static list of %zu)", split_ch[d->a], d->c, list_caps[d->b]);
            break;
        case F_FIND: {
            static const char *v[] = {"\"a\"", "\"F\"", "\" \"", "\"aF\"", "\"F \"", "the view itself", "the view + 1 byte", "its last byte", "empty needle"};
            snprintf(buf, cap, "find_exact(%s)", v[d->a]);
            break;
        }
        case F_TRIM: {
            static const char *f[] = {"left_trim_pred", "right_trim_pred", "trim_pred", "satisfies_pred"};
            snprintf(buf, cap, "%s(%s)", f[d->a], pred_name[d->b]);
            break;
        }
        case F_STARTS: {
            static const char *v[] = {"empty prefix", "{NULL,0} prefix", "first byte", "first byte, case toggled", "the view itself", "the view + 1 byte", "first byte + 'z'"};
            snprintf(buf, cap, "starts_with%s(%s)", d->b ? "_ignore_case" : "", v[d->a]);
            break;
        }
        case F_EQ: {
            static const char *v[] = {"eq(copy)", "eq(last byte differs)", "eq(one byte shorter)", "eq_ignore_case(case toggled)", "eq_ignore_case(last byte differs)", "eq_byte_buf(copy)",
                                      "eq_byte_buf_ignore_case(case toggled)", "eq_c_str(copy)", "eq_c_str_ignore_case(case toggled)", "eq_c_str(copy + 1 char)", "eq({NULL,0})", "string_eq_byte_cursor(copy)",
                                      "string_eq_byte_cursor_ignore_case(case toggled)", "string_new_from_cursor + cursor_from_string", "cursor_from_c_str / buf_from_c_str / cursor_from_buf",
                                      "eq_c_str_ignore_case(copy + 1 char)", "eq_byte_buf(one byte shorter)", "eq_byte_buf_ignore_case(last byte differs)"};
            snprintf(buf, cap, "%s", v[d->a]);
            break;
        }
        case F_CMP: {
            static const char *v[] = {"copy", "copy + 1 byte", "one byte shorter", "last byte larger", "last byte smaller", "\"F a\""};
            snprintf(buf, cap, "%s(%s)", d->b ? "compare_lookup" : "compare_lexical", v[d->a]);
            break;
        }
        case F_HUGE: {
            static const char *v[] = {"advance(SIZE_MAX-1) on a fake-huge cursor of len SIZE_MAX", "advance_nospec(SIZE_MAX-1) on a fake-huge cursor of len SIZE_MAX", "advance(SIZE_MAX/2+1) on a fake-huge cursor of that len",
                                      "advance_nospec(SIZE_MAX/2+1) on a fake-huge cursor of that len", "read(len=SIZE_MAX) from a fake-huge cursor of len SIZE_MAX"};
            snprintf(buf, cap, "%s", v[d->a]);
            break;
        }
        default: snprintf(buf, cap, "op%d", op);
    }
}

static struct esx_model model = {.name = "cur", .reset = m_reset, .enabled = m_enabled, .apply = m_apply, .canon = m_canon, .opname = m_opname, .teardown = m_teardown};

int main(int argc, char **argv) {
    v_init(argc, argv);
    aws_common_library_init(aws_default_allocator());
    build_ops();
    model.nops = nops;
    model.max_depth = ESX_MAX_DEPTH; /* small space: always run to the fixpoint */
    int rc = 0;
    if (v_replay_token) {
        if (esx_token_is_for(v_replay_token, model.name)) rc = esx_replay(&model, v_replay_token);
    } else {
        esx_run(&model);
        ESX_CYCLES(&model);
    }
    v_finish();
    return (v_sh->viol_count || rc) ? 1 : 0;
}
