/*
 * C01 / parse — number parsing and the branch-free bounds mask, by bounded exhaustive enumeration (BEE).
 *
 *  parse-short  every string of length <= 5 over { 0 1 9 a f F g ' ' + } through aws_byte_cursor_utf8_parse_u64 and
 *               aws_byte_cursor_utf8_parse_u64_hex
 *  parse-edge   every decimal / hex spelling numerically adjacent to 2^64 (2^64-2 .. 2^64+2, 0..3 leading zeros,
 *               upper / lower / mixed case), every single-character substitution of the largest value's spelling,
 *               its one-character truncations and extensions, powers of the base around it — through both parsers
 *  nospec       aws_nospec_mask(index, bound) on the square of a boundary set (0, 2^k-1, 2^k, 2^k+1, SIZE_MAX-2..)
 * Reference: unsigned __int128 accumulation.  Inputs live in exact-size heap blocks (a 1-byte over-read is an ASan
 * report).  The header fixes: what is accepted, the value, and that everything else is rejected; it does not fix
 * which error code, so only "a registered code was raised" is demanded.
 */
#include "bee.h"
#include <aws/common/byte_buf.h>
#include <aws/common/error.h>
#include <aws/common/private/byte_buf.h>

static int digit_of(uint8_t c) {
    if (c >= '0' && c <= '9') return c - '0';
    if (c >= 'a' && c <= 'f') return c - 'a' + 10;
    if (c >= 'A' && c <= 'F') return c - 'A' + 10;
    return -1;
}
/* 0 = value in *out, 1 = not a number in this base (or empty), 2 = larger than UINT64_MAX */
static int ref_parse(const uint8_t *s, size_t n, unsigned base, uint64_t *out) {
    if (n == 0) return 1;
    unsigned __int128 v = 0;
    const unsigned __int128 lim = ((unsigned __int128)1) << 64;
    for (size_t i = 0; i < n; ++i) {
        int d = digit_of(s[i]);
        if (d < 0 || (unsigned)d >= base) return 1;
    }
    for (size_t i = 0; i < n; ++i) {
        v = v * base + (unsigned)digit_of(s[i]);
        if (v >= lim) v = lim; /* saturate: stays "too large" */
    }
    if (v >= lim) return 2;
    *out = (uint64_t)v;
    return 0;
}

static void check_one(const uint8_t *s, size_t n, const char *origin) {
    for (int hex = 0; hex < 2; ++hex) {
        uint64_t want = 0, got = 0x5A5A5A5A5A5A5A5Aull;
        int cls = ref_parse(s, n, hex ? 16 : 10, &want);
        uint8_t *blk = bee_block(s, n);
        struct aws_byte_cursor c = aws_byte_cursor_from_array(blk, n);
        aws_reset_error();
        int rc = hex ? aws_byte_cursor_utf8_parse_u64_hex(c, &got) : aws_byte_cursor_utf8_parse_u64(c, &got);
        const char *fn = hex ? "utf8_parse_u64_hex" : "utf8_parse_u64";
        V_COUNT("evaluations", 1);
        if (cls != 1) V_COUNT("nontrivial", 1); /* all characters are digits of the base: the accumulation code ran to the end */
        if (cls == 2) V_COUNT("overflow_inputs", 1);
        if (cls == 0) {
            BEE_CHECK(rc == AWS_OP_SUCCESS, hex ? "hex-rejects-valid" : "dec-rejects-valid", "%s(\"%s\") [%s] failed (%s), value is %llu", fn, v_show(s, n), origin,
                      aws_error_name(aws_last_error()), (unsigned long long)want);
            if (rc == AWS_OP_SUCCESS)
                BEE_CHECK(got == want, hex ? "hex-wrong-value" : "dec-wrong-value", "%s(\"%s\") [%s] = %llu, expected %llu", fn, v_show(s, n), origin, (unsigned long long)got,
                          (unsigned long long)want);
        } else {
            BEE_CHECK(rc == AWS_OP_ERR, cls == 2 ? (hex ? "hex-accepts-overflow" : "dec-accepts-overflow") : (hex ? "hex-accepts-malformed" : "dec-accepts-malformed"),
                      "%s(\"%s\") [%s] succeeded with %llu; the input is %s", fn, v_show(s, n), origin, (unsigned long long)got, cls == 2 ? "larger than UINT64_MAX" : "not a number");
            if (rc == AWS_OP_ERR) {
                int e = aws_last_error();
                BEE_CHECK(e != 0 && strcmp(aws_error_name(e), "Unknown Error Code") != 0, "error-code", "%s(\"%s\") failed without a registered error code (%d)", fn, v_show(s, n), e);
            }
        }
        BEE_CHECK(memcmp(blk, s, n) == 0, "input-modified", "%s modified its input", fn);
        free(blk);
    }
}

/* ---- parse-short -------------------------------------------------------------------------------------------- */
static const uint8_t ALPHA[9] = {'0', '1', '9', 'a', 'f', 'F', 'g', ' ', '+'};
static uint64_t short_total(void) { return bee_strings_upto(9, 5); }
static void short_eval(uint64_t idx, void *ctx) {
    (void)ctx;
    BEE_ITEM(idx);
    uint8_t s[8];
    size_t n = bee_string_at(idx, ALPHA, 9, 5, s);
    check_one(s, n, "short");
    if (idx % 9973 == 0) {
        uint64_t v = 0;
        int cls = ref_parse(s, n, 16, &v);
        v_sample("parse_u64_hex(\"%s\") -> %s %llu", v_show(s, n), cls == 0 ? "ok" : "rejected", (unsigned long long)v);
    }
}

/* ---- parse-edge ---------------------------------------------------------------------------------------------- */
#define MAXEDGE 4000
static char edge[MAXEDGE][40];
static int nedge;
static void add_edge(const char *s) {
    if (nedge >= MAXEDGE) {
        fprintf(stderr, "edge table full\n");
        exit(2);
    }
    snprintf(edge[nedge++], sizeof(edge[0]), "%s", s);
}
static void spell(unsigned __int128 v, unsigned base, int upper, char *out) {
    char tmp[50];
    int n = 0;
    do {
        unsigned d = (unsigned)(v % base);
        tmp[n++] = (char)(d < 10 ? '0' + d : (upper ? 'A' : 'a') + d - 10);
        v /= base;
    } while (v);
    for (int i = 0; i < n; ++i) out[i] = tmp[n - 1 - i];
    out[n] = 0;
}
static void build_edges(void) {
    const unsigned __int128 two64 = ((unsigned __int128)1) << 64;
    char s[50], t[60];
    for (int base = 10; base <= 16; base += 6)
        for (int delta = -2; delta <= 2; ++delta)
            for (int zeros = 0; zeros <= 3; ++zeros)
                for (int style = 0; style < (base == 16 ? 3 : 1); ++style) {
                    spell(two64 + (unsigned __int128)(delta + 2) - 2, (unsigned)base, style == 1, s);
                    if (style == 2)
                        for (int i = 0; s[i]; i += 2)
                            if (s[i] >= 'a' && s[i] <= 'f') s[i] = (char)(s[i] - 32);
                    memset(t, '0', (size_t)zeros);
                    strcpy(t + zeros, s);
                    add_edge(t);
                }
    for (int base = 10; base <= 16; base += 6) {
        static const char *subst = "0123456789abcdefABCDEFg +";
        spell(two64 - 1, (unsigned)base, 1, s); /* 18446744073709551615 / FFFFFFFFFFFFFFFF */
        size_t n = strlen(s);
        for (size_t pos = 0; pos < n; ++pos)
            for (const char *c = subst; *c; ++c) {
                strcpy(t, s);
                t[pos] = *c;
                add_edge(t);
            }
        for (const char *c = subst; *c; ++c) { /* one character longer, at either end */
            snprintf(t, sizeof(t), "%s%c", s, *c);
            add_edge(t);
            snprintf(t, sizeof(t), "%c%s", *c, s);
            add_edge(t);
        }
        strcpy(t, s);
        t[n - 1] = 0; /* one character shorter */
        add_edge(t);
        add_edge(s + 1);
        for (int k = -1; k <= 2; ++k) { /* base^(n-1+k): 1 followed by zeros, and that minus one */
            unsigned __int128 p = 1;
            for (size_t i = 0; i + 1 < n + (size_t)(k + 1); ++i) p *= (unsigned)base;
            spell(p, (unsigned)base, 0, t);
            add_edge(t);
            spell(p - 1, (unsigned)base, 0, t);
            add_edge(t);
        }
    }
}
static uint64_t edge_total(void) { return (uint64_t)nedge; }
static void edge_eval(uint64_t idx, void *ctx) {
    (void)ctx;
    BEE_ITEM(idx);
    const char *s = edge[idx];
    check_one((const uint8_t *)s, strlen(s), "edge");
    if (idx % 397 == 0) {
        uint64_t v = 0;
        int cls = ref_parse((const uint8_t *)s, strlen(s), 10, &v);
        v_sample("parse_u64(\"%s\") -> %s", s, cls == 0 ? "ok" : cls == 1 ? "not a decimal number" : "larger than UINT64_MAX");
    }
}

/* ---- nospec --------------------------------------------------------------------------------------------------- */
static size_t bset[260];
static int nb;
static void build_bset(void) {
    for (int k = 0; k < 64; ++k) {
        size_t p = (size_t)1 << k;
        bset[nb++] = p - 1;
        bset[nb++] = p;
        bset[nb++] = p + 1;
    }
    bset[nb++] = SIZE_MAX;
    bset[nb++] = SIZE_MAX - 1;
    bset[nb++] = SIZE_MAX - 2;
    bset[nb++] = (SIZE_MAX >> 1) - 1;
    bset[nb++] = (SIZE_MAX >> 1) + 2;
    bset[nb++] = 5;
    bset[nb++] = 6;
}
static uint64_t nospec_total(void) { return (uint64_t)nb * (uint64_t)nb; }
static void nospec_eval(uint64_t idx, void *ctx) {
    (void)ctx;
    BEE_ITEM(idx);
    size_t index = bset[idx % (uint64_t)nb], bound = bset[idx / (uint64_t)nb];
    size_t want = (index >= bound || bound > (SIZE_MAX >> 1) || index > (SIZE_MAX >> 1)) ? 0 : UINTPTR_MAX;
    size_t got = aws_nospec_mask(index, bound);
    V_COUNT("evaluations", 1);
    if (want) V_COUNT("nospec_in_range", 1);
    if (index + 1 == bound || index == bound || bound == (SIZE_MAX >> 1) || bound == (SIZE_MAX >> 1) + 1) V_COUNT("nontrivial", 1); /* on a boundary of the mask's definition */
    BEE_CHECK(got == want, want ? "nospec-mask-blocks-in-range" : "nospec-mask-passes-out-of-range", "aws_nospec_mask(index=0x%zx, bound=0x%zx) = 0x%zx, expected 0x%zx", index, bound, got, want);
}

int main(int argc, char **argv) {
    v_init(argc, argv);
    aws_common_library_init(aws_default_allocator());
    build_edges();
    build_bset();
    bee_register("parse-short", short_total, short_eval, 20);
    bee_register("parse-edge", edge_total, edge_eval, 20);
    bee_register("nospec", nospec_total, nospec_eval, 20);
    return bee_main(argc, argv);
}
