LEVEL = "exploration"
RULE = ("odometer enumeration (no randomness) of documents x callback programs. Document = ordered element tree (explicit "
        "start/end tags only) with names from {a, ab, b}, attribute counts from {0,1,2,10} written k=v / k=\"v\", text from "
        "{none, 'x', 'x y'} as leaf body / between children, preamble from {none, '<?xml?>', '<!D><?x?>'}. Program = one "
        "action from {descend, read body, skip, abort} for every element the traversal can reach (unreachable elements get "
        "no action, so every program is counted once). Section full3: every tree with <= 3 elements, full per-element product. "
        "Section pat: every tree with 4 (thorough: 4 and 5) elements and depth <= 4, every name assignment x every program x "
        "16 attribute patterns x 9 text patterns (rotations of de Bruijn sequences: all ordered pairs on consecutive elements) "
        "x 3 preambles. The preamble is a free digit for trees of <= 4 elements (quick: <= 2); for the largest trees of the "
        "tier it is derived from the digit sum of the other digits, so that every (tree, names, program) still meets all three "
        "preambles. Section limits: nesting chains of depth 19..22 (default limit 20), 21..23 under max_depth=22, 1..4 "
        "under max_depth 1/2, every tree <= 3 elements under max_depth 1/2, name length 255..258, 9..12 attributes, one end "
        "tag removed, each x every program. non-trivial = some reached element is skipped or read as body while it has child "
        "elements or a following sibling (the closing-tag search has to step over markup and the next sibling depends on where "
        "it stops), or the document is a limit document.")
HARNESSES = [
    dict(name="xml", src=["xml.c"], variant="asan", deadline={"quick": 150, "thorough": 1500}),
    # free-running ThreadSanitizer twin: two threads, each with objects of its own (harness/common/twin.c; samples, decides nothing)
    dict(name="own-objects-tsan", src=["../common/twin.c"], variant="tsan", cflags=["-DTWIN_C12", "-DVSX_FREE_RUNS=6"], deadline={"quick": 60, "thorough": 120}),
]
ASSUMPTIONS = [
    "preamble x decoration is not a full product for 5-element trees (quick: 3- and 4-element trees): preamble follows the digit sum",
    "bounds: <= 5 elements (quick: 4), depth <= 4, names {a,ab,b}, attribute counts {0,1,2,10}, text {none,'x','x y'}; for 4 and 5 "
    "elements attributes/text follow 16 x 9 de Bruijn rotations instead of the full per-element product",
    "dialect (DESIGN section 6): explicit start and end tags only, empty element = <a></a>; self-closing tags are not generated",
    "body of an element = the exact bytes between its start tag and its end tag (raw inner text including child markup), which is "
    "what aws_xml_node_as_body returns on <a>x</a> and what the header describes as 'the contents of the body'",
    "attributes are read inside the callback before the action is taken (the node's attribute list is parser scratch that a "
    "nested callback overwrites); depth = nesting of aws_xml_node_traverse calls, root = 1",
    "depth limit reading: the limit bounds the levels the traversal enters; aws_xml_node_traverse on an element at level == "
    "max_depth (default 20) must fail with AWS_ERROR_INVALID_XML whether or not the element has children, below that it must work",
    "name-length limit reading: a name of more than 256 bytes must be rejected when the element is skipped or read as body (the "
    "operations that need the name); when such an element is descended into, either a rejection at that point or an exact "
    "report of everything reached is accepted (counted as overlong_name_passed_on_descend / _rejected_on_descend)",
    "missing end tag: generated with pairwise distinct names; the parse must fail with AWS_ERROR_INVALID_XML (or the callback's "
    "own error if the program aborts first) whenever the callback is invoked on the unclosed element and does not abort; an "
    "unclosed element inside a skipped / body-read ancestor is never examined by the parser and is not required to be noticed",
    "abort = callback raises AWS_ERROR_INVALID_INDEX and returns AWS_OP_ERR; callbacks propagate the error of a failed "
    "aws_xml_node_traverse / aws_xml_node_as_body",
]
