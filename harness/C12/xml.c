/*
 * C12 — XML traversal reports every element of a well-formed document exactly once (DESIGN §5 C12).
 *
 * BEE enumeration of  (ordered element tree) x (names) x (attributes) x (text) x (preamble) x (callback action
 * program).  Every case is ONE document in an exact-size heap block, parsed by the real aws_xml_parse with a
 * callback that follows the action program; the callback log is compared with a reference log computed from the
 * generating tree (the reference never looks at the document text, the emitter records where each body lies).
 *
 * Sections
 *   full3   every tree with <= 3 elements, per-element name x attribute count x text, every program, 3 preambles
 *   pat     trees with 4 (thorough: 4 and 5) elements, depth <= 4: every name assignment x every program x
 *           16 attribute patterns x 9 text patterns (rotations of de Bruijn sequences: every ordered pair of
 *           attribute counts / text kinds occurs on every pair of consecutive elements) x 3 preambles
 *   limits  (incl. broad: a root with up to 25 descended children)  nesting chains around max depth (default 20 and option max_depth), small trees under max_depth 1/2,
 *           name length 255..258, 9..12 attributes, one end tag removed
 *
 * Violation signature: xml/<clause>:<step>:<shape class>   (independent of the section, so one defect seen
 * from several sections keeps one signature).
 */
#include "bee.h"
#include <aws/common/allocator.h>
#include <aws/common/common.h>
#include <aws/common/error.h>
#include <aws/common/xml_parser.h>

#define MAXN 26  /* elements per case (chains reach 23) */
#define MAXLOG 64
#define MAXATTR 12
#define DOCCAP 8192

enum { A_SKIP = 0, A_BODY = 1, A_DESCEND = 2, A_ABORT = 3 };
static const char ACT_LETTER[4] = {'S', 'B', 'D', 'A'};
static const char *NAMES[3] = {"a", "ab", "b"};
static const int ATTRC[4] = {0, 1, 2, 10};
/* 0..2: the three preambles every section uses; 3..: white space / line breaks before, between and after the statements
 * and longer statement lists, used by section preshape (added after a seeded change that measured a statement's length
 * from a stale cursor: invisible unless MORE bytes precede a statement than follow it before the root) */
#define NPRE 14
static const char *PREAMBLE[NPRE] = {"", "<?xml?>", "<!D><?x?>", "<?xml?>\n", "\n<?xml?>", " <?xml?><!D>", "<?xml?>\n<!D>\n", "<?xml?>\n<!D>",
                                     "\r\n<?xml?>\r\n<!D>\r\n", "<!D>\n\n<?x?>", "  \n  ", "<?x?><?y?><!D>", "\n\n\n<!D>", "<?xml version=\"1.0\" encoding=\"UTF-8\"?>\n<!DOCTYPE a>"};
#define CB_ERROR AWS_ERROR_INVALID_INDEX /* the error the aborting callback raises */

struct tcase {
    const char *kind; /* tree | chain | maxdepth | longname | attrs | unclosed */
    int n;
    int parent[MAXN]; /* pre-order numbering = document order; parent[0] = -1 */
    const char *name[MAXN];
    size_t name_len[MAXN];
    int nattr[MAXN];
    int text[MAXN]; /* 0 none; 1 "x" (leaf body / even gaps of an inner element); 2 "x y" (leaf body / every gap) */
    int act[MAXN];  /* action per element; elements the traversal cannot reach carry A_SKIP */
    int preamble;
    size_t max_depth; /* parser option, 0 = default */
    int drop_close;   /* element whose end tag is omitted, -1 = none */
};

/* ------------------------------------------------------------------ shapes and programs ------------------- */
struct shape {
    int n;
    int parent[5];
};
static struct shape SH[32];
static int SH_n;

static void shapes_rec(int n, int pos, int *d, int dmax) {
    if (pos == n) {
        struct shape *s = &SH[SH_n++];
        s->n = n;
        for (int i = 0; i < n; ++i) {
            s->parent[i] = -1;
            for (int j = i - 1; j >= 0; --j)
                if (d[j] == d[i] - 1) {
                    s->parent[i] = j;
                    break;
                }
        }
        return;
    }
    for (int x = 2; x <= d[pos - 1] + 1 && x <= dmax; ++x) {
        d[pos] = x;
        shapes_rec(n, pos + 1, d, dmax);
    }
}
static void gen_shapes(int nmax, int dmax) {
    int d[5];
    SH_n = 0;
    for (int n = 1; n <= nmax; ++n) {
        d[0] = 1;
        shapes_rec(n, 1, d, dmax);
    }
}

/* which elements does the program reach (ignoring limits)?  fills seq[] (actions in invocation order) */
static int walk_reach(int n, const int *parent, const int *act, int v, int *reached, int *seq, int *nseq) {
    reached[v] = 1;
    seq[(*nseq)++] = act[v];
    if (act[v] == A_ABORT) return 0;
    if (act[v] != A_DESCEND) return 1;
    for (int c = v + 1; c < n; ++c)
        if (parent[c] == v && !walk_reach(n, parent, act, c, reached, seq, nseq)) return 0;
    return 1;
}

struct prog {
    uint8_t shape;
    uint8_t act[5];
};
static struct prog *PR;
static int PR_n;
static int PR_first_of_n[7]; /* PR index of the first program of a shape with n elements; [n+1] = end */

static void gen_programs(void) {
    PR = (struct prog *)malloc(sizeof(struct prog) * 32 * 1024);
    PR_n = 0;
    for (int n = 0; n < 7; ++n) PR_first_of_n[n] = -1;
    for (int s = 0; s < SH_n; ++s) {
        int n = SH[s].n;
        if (PR_first_of_n[n] < 0) PR_first_of_n[n] = PR_n;
        unsigned total = 1u << (2 * n);
        for (unsigned code = 0; code < total; ++code) {
            int act[5], reached[5] = {0, 0, 0, 0, 0}, seq[5], nseq = 0;
            for (int i = 0; i < n; ++i) act[i] = (int)((code >> (2 * i)) & 3);
            walk_reach(n, SH[s].parent, act, 0, reached, seq, &nseq);
            int canonical = 1;
            for (int i = 0; i < n; ++i)
                if (!reached[i] && act[i] != A_SKIP) canonical = 0;
            if (!canonical) continue;
            PR[PR_n].shape = (uint8_t)s;
            for (int i = 0; i < 5; ++i) PR[PR_n].act[i] = (uint8_t)(i < n ? act[i] : 0);
            ++PR_n;
        }
    }
    for (int n = 6; n >= 1; --n)
        if (PR_first_of_n[n] < 0) PR_first_of_n[n] = (n == 6) ? PR_n : PR_first_of_n[n + 1];
}

/* de Bruijn sequences B(4,2), B(3,2): every ordered pair occurs once cyclically (checked at start-up) */
static const int DB4[16] = {0, 0, 1, 0, 2, 0, 3, 1, 1, 2, 1, 3, 2, 2, 3, 3};
static const int DB3[9] = {0, 0, 1, 0, 2, 1, 1, 2, 2};
static void check_debruijn(void) {
    int seen4[16] = {0}, seen3[9] = {0};
    for (int i = 0; i < 16; ++i) seen4[DB4[i] * 4 + DB4[(i + 1) % 16]]++;
    for (int i = 0; i < 9; ++i) seen3[DB3[i] * 3 + DB3[(i + 1) % 9]]++;
    for (int i = 0; i < 16; ++i)
        if (seen4[i] != 1) {
            fprintf(stderr, "DB4 is not a de Bruijn sequence\n");
            exit(2);
        }
    for (int i = 0; i < 9; ++i)
        if (seen3[i] != 1) {
            fprintf(stderr, "DB3 is not a de Bruijn sequence\n");
            exit(2);
        }
}

/* ------------------------------------------------------------------ document emitter ---------------------- */
static char DOC[DOCCAP];
static size_t DOC_len;
static size_t body_start[MAXN], body_end[MAXN];

static void put(const char *s, size_t n) {
    if (DOC_len + n > DOCCAP) {
        fprintf(stderr, "document buffer too small\n");
        _exit(2);
    }
    memcpy(DOC + DOC_len, s, n);
    DOC_len += n;
}
static void puts_(const char *s) { put(s, strlen(s)); }

/* attribute j of element i:  k<j>=v<i%10>.<j>, quoted when i+j is odd */
static void attr_expected(int i, int j, char *name, char *value) {
    sprintf(name, "k%d", j);
    sprintf(value, "v%d.%d", i % 10, j);
}
static void emit(const struct tcase *tc, int v) {
    puts_("<");
    put(tc->name[v], tc->name_len[v]);
    for (int j = 0; j < tc->nattr[v]; ++j) {
        char an[16], av[16];
        attr_expected(v, j, an, av);
        puts_(" ");
        puts_(an);
        puts_("=");
        if ((v + j) & 1) puts_("\"");
        puts_(av);
        if ((v + j) & 1) puts_("\"");
    }
    puts_(">");
    body_start[v] = DOC_len;
    int nchild = 0;
    for (int c = v + 1; c < tc->n; ++c)
        if (tc->parent[c] == v) ++nchild;
    if (nchild == 0) {
        if (tc->text[v] == 1) puts_("x");
        if (tc->text[v] == 2) puts_("x y");
    } else {
        int gap = 0;
        for (int c = v + 1; c < tc->n; ++c) {
            if (tc->parent[c] != v) continue;
            if (tc->text[v] == 2 || (tc->text[v] == 1 && (gap & 1) == 0)) puts_(tc->text[v] == 2 ? "x y" : "x");
            emit(tc, c);
            ++gap;
        }
        if (tc->text[v] == 2 || (tc->text[v] == 1 && (gap & 1) == 0)) puts_(tc->text[v] == 2 ? "x y" : "x");
    }
    body_end[v] = DOC_len;
    if (v != tc->drop_close) {
        puts_("</");
        put(tc->name[v], tc->name_len[v]);
        puts_(">");
    }
}

/* ------------------------------------------------------------------ reference ----------------------------- */
enum { O_OK, O_ABORT, O_INVALID, O_FAIL_LOOSE };
struct exp_entry {
    int node, level, body;
};
static struct exp_entry E[MAXN];
static int E_n;
static int ref_outcome;
static const char *ref_reason;  /* why the reference expects a rejection */
static int ref_alt_invalid_at;  /* entry index at which a rejection is accepted as well (-1 none) */
static int ref_overlimit_from;  /* entry index of the first reached element whose name is longer than the limit (-1 none): "documents
                                   that exceed a limit are rejected" - from that element on INVALID_XML is a correct answer at any point,
                                   whether the parser notices the name when it reads the declaration or only when it has to search for
                                   the closing tag */
static int ref_loose_from;      /* entries from this index on are not compared (unclosed element descended) */

static int ref_visit(const struct tcase *tc, int v, int level) {
    size_t maxd = tc->max_depth ? tc->max_depth : 20;
    if (tc->nattr[v] > 10) { /* the declaration itself is over the limit: no callback for it */
        ref_outcome = O_INVALID;
        ref_reason = "attr-count";
        return 0;
    }
    struct exp_entry *e = &E[E_n++];
    e->node = v;
    e->level = level;
    e->body = 0;
    if (tc->name_len[v] > 256 && ref_overlimit_from < 0) ref_overlimit_from = E_n - 1;
    int a = tc->act[v];
    if (a == A_ABORT) {
        ref_outcome = O_ABORT;
        return 0;
    }
    if (v == tc->drop_close) {
        ref_reason = "unclosed";
        if (a == A_DESCEND) {
            ref_outcome = O_FAIL_LOOSE;
            ref_loose_from = E_n;
        } else {
            ref_outcome = O_INVALID;
        }
        return 0;
    }
    if (a == A_SKIP || a == A_BODY) {
        if (tc->name_len[v] > 256) {
            ref_outcome = O_INVALID;
            ref_reason = "name-length";
            return 0;
        }
        if (a == A_BODY) e->body = 1;
        return 1;
    }
    /* descend: enters level+1 */
    if ((size_t)level >= maxd) {
        ref_outcome = O_INVALID;
        ref_reason = "depth";
        return 0;
    }
    if (tc->name_len[v] > 256) ref_alt_invalid_at = E_n - 1;
    for (int c = v + 1; c < tc->n; ++c)
        if (tc->parent[c] == v && !ref_visit(tc, c, level + 1)) return 0;
    return 1;
}

/* ------------------------------------------------------------------ callback ------------------------------ */
struct obs_entry {
    int level, action;
    struct aws_byte_cursor name;
    size_t nattr;
    struct aws_xml_attribute attr[MAXATTR];
    int body_rc; /* -2 not requested */
    struct aws_byte_cursor body;
};
static struct obs_entry L[MAXLOG];
static int L_n, L_overflow, aborts_executed;
static int SEQ[MAXN], SEQ_n;

struct cb_ctx {
    int level;
};
/* "ambient error" runs: the thread's last-error value is whatever earlier, unrelated and already handled failures left there -
 * here AWS_ERROR_INVALID_INDEX, left both before the parse and by every callback that returns success (a callback that probed
 * a list of its own).  The outcome of a parse must not depend on it (added after a seeded change in a shared helper that
 * consulted aws_last_error() without looking at the return code first) */
static int g_ambient;
static int cb_ok(void) {
    if (g_ambient) aws_raise_error(AWS_ERROR_INVALID_INDEX);
    return AWS_OP_SUCCESS;
}
/* "nested parse" runs: every callback first parses another, unrelated document completely (with a callback of its own that
 * descends and reads names and attributes) and only then looks at its own node.  Two parsers that are alive at the same time
 * are two objects: what one of them reports does not depend on the other (added after two seeded changes that moved
 * per-parser scratch space to file scope / into thread-local storage filled when a node is loaded) */
static int g_nested;
static int g_nested_depth;
static int nested_cb(struct aws_xml_node *node, void *ud) {
    unsigned *sum = (unsigned *)ud;
    struct aws_byte_cursor nm = aws_xml_node_get_name(node);
    *sum += (unsigned)nm.len;
    size_t na = aws_xml_node_get_num_attributes(node);
    for (size_t i = 0; i < na; ++i) {
        struct aws_xml_attribute a = aws_xml_node_get_attribute(node, i);
        *sum += (unsigned)(a.name.len + a.value.len);
    }
    return aws_xml_node_traverse(node, nested_cb, ud);
}
static void nested_parse(void) {
    static const char other[] = "<ab x=\"1\" yy=\"22\"><a z=\"333\">b</a><b>a</b></ab>";
    if (!g_nested || g_nested_depth) return;
    ++g_nested_depth;
    int saved = aws_last_error();
    unsigned sum = 0;
    struct aws_xml_parser_options o;
    memset(&o, 0, sizeof(o));
    o.doc = aws_byte_cursor_from_array(other, sizeof(other) - 1);
    o.on_root_encountered = nested_cb;
    o.user_data = &sum;
    if (aws_xml_parse(aws_default_allocator(), &o) != AWS_OP_SUCCESS || sum != 2 + 1 + 1 + 2 + 2 + 1 + 1 + 3 + 1)
        bee_fail("nested-parse", "the unrelated document parsed from inside a callback was not reported correctly (checksum %u)", sum);
    if (saved) aws_raise_error(saved);
    else aws_reset_error();
    --g_nested_depth;
}
static int on_node(struct aws_xml_node *node, void *ud) {
    struct cb_ctx *c = (struct cb_ctx *)ud;
    nested_parse();
    int k = L_n;
    if (k >= MAXLOG) {
        ++L_overflow;
        return AWS_OP_SUCCESS;
    }
    ++L_n;
    struct obs_entry *o = &L[k];
    memset(o, 0, sizeof(*o));
    o->level = c->level;
    o->name = aws_xml_node_get_name(node);
    o->nattr = aws_xml_node_get_num_attributes(node);
    for (size_t j = 0; j < o->nattr && j < MAXATTR; ++j) o->attr[j] = aws_xml_node_get_attribute(node, j);
    o->body_rc = -2;
    o->action = k < SEQ_n ? SEQ[k] : A_SKIP;
    switch (o->action) {
        case A_SKIP:
            return cb_ok();
        case A_BODY:
            o->body_rc = aws_xml_node_as_body(node, &o->body);
            return o->body_rc ? AWS_OP_ERR : cb_ok();
        case A_DESCEND: {
            struct cb_ctx child = {c->level + 1};
            return aws_xml_node_traverse(node, on_node, &child) ? AWS_OP_ERR : cb_ok();
        }
        default:
            ++aborts_executed;
            return aws_raise_error(CB_ERROR);
    }
}

static const char *ename(int err) {
    static char b[2][40];
    static int k;
    if (err == AWS_ERROR_INVALID_XML) return "AWS_ERROR_INVALID_XML";
    if (err == CB_ERROR) return "callback's error";
    if (err == 0) return "none";
    k ^= 1;
    snprintf(b[k], sizeof(b[k]), "error code %d", err);
    return b[k];
}

/* ------------------------------------------------------------------ witness classes ----------------------- */
static int is_desc(const struct tcase *tc, int d, int c) {
    for (int p = tc->parent[d]; p >= 0; p = tc->parent[p])
        if (p == c) return 1;
    return 0;
}
static int name_extends(const struct tcase *tc, int longer, int shorter) {
    return tc->name_len[longer] > tc->name_len[shorter] &&
           memcmp(tc->name[longer], tc->name[shorter], tc->name_len[shorter]) == 0;
}
static int name_same(const struct tcase *tc, int x, int y) {
    return tc->name_len[x] == tc->name_len[y] && memcmp(tc->name[x], tc->name[y], tc->name_len[x]) == 0;
}
/* shape of the document around element c (the element whose processing positioned the cursor) */
static const char *shape_class(const struct tcase *tc, int c) {
    int ext_d = 0, same_d = 0, ext_s = 0, same_s = 0, kids = 0;
    for (int d = c + 1; d < tc->n; ++d) {
        if (is_desc(tc, d, c)) {
            ++kids;
            if (name_extends(tc, d, c)) ext_d = 1;
            if (name_same(tc, d, c)) same_d = 1;
        } else if (tc->parent[d] == tc->parent[c]) {
            if (name_extends(tc, d, c)) ext_s = 1;
            if (name_same(tc, d, c)) same_s = 1;
        }
    }
    if (ext_d) return "descendant-name-extends-ancestor";
    if (same_d) return "descendant-same-name";
    if (ext_s) return "following-sibling-name-extends";
    if (same_s) return "following-sibling-same-name";
    if (kids) return "element-with-children";
    return "leaf";
}
static const char *step_name(int action) {
    return action == A_DESCEND ? "descend" : action == A_ABORT ? "abort" : "closing-tag-search";
}

static char MSG[2400];
static void describe(const struct tcase *tc, int rc, int err) {
    size_t o = 0;
    o += (size_t)snprintf(MSG + o, sizeof(MSG) - o, "kind=%s doc(%zu)=%s max_depth=%zu program=", tc->kind, DOC_len,
                          v_show(DOC, DOC_len > 160 ? 160 : DOC_len), tc->max_depth);
    for (int k = 0; k < SEQ_n && o + 2 < sizeof(MSG); ++k) MSG[o++] = ACT_LETTER[SEQ[k]];
    o += (size_t)snprintf(MSG + o, sizeof(MSG) - o, " | expected %s%s%s, %d callbacks:", ref_outcome == O_OK ? "success" : ref_outcome == O_ABORT ? "callback error" : "INVALID_XML",
                          ref_reason ? " because " : "", ref_reason ? ref_reason : "", E_n);
    for (int k = 0; k < E_n && k < 8 && o + 40 < sizeof(MSG); ++k)
        o += (size_t)snprintf(MSG + o, sizeof(MSG) - o, " %d:%.*s", E[k].level, (int)(tc->name_len[E[k].node] > 8 ? 8 : tc->name_len[E[k].node]), tc->name[E[k].node]);
    o += (size_t)snprintf(MSG + o, sizeof(MSG) - o, " | observed rc=%d err=%d(%s), %d callbacks:", rc, err, rc ? ename(err) : "-", L_n);
    for (int k = 0; k < L_n && k < 8 && o + 60 < sizeof(MSG); ++k) {
        o += (size_t)snprintf(MSG + o, sizeof(MSG) - o, " %d:%s/%zu", L[k].level, v_show(L[k].name.ptr, L[k].name.len > 8 ? 8 : L[k].name.len), L[k].nattr);
        if (L[k].body_rc == 0) o += (size_t)snprintf(MSG + o, sizeof(MSG) - o, "[%s]", v_show(L[k].body.ptr, L[k].body.len > 24 ? 24 : L[k].body.len));
        if (L[k].body_rc > 0 || L[k].body_rc == -1) o += (size_t)snprintf(MSG + o, sizeof(MSG) - o, "[body failed]");
    }
}
static int n_viol_case;
/* cls: explicit witness class for clauses that do not depend on the tree shape (attributes, abort, limits);
 * NULL = derive <step>:<shape class> from the element whose processing positioned the cursor */
static void report_c(const struct tcase *tc, const char *clause, const char *cls, int culprit_entry, int rc, int err, const char *detail) {
    char sig[300];
    if (n_viol_case++) return; /* one report per case: the first divergence */
    if (culprit_entry >= E_n) culprit_entry = E_n - 1;
    if (cls) {
        snprintf(sig, sizeof(sig), "xml/%s:%s", clause, cls);
    } else if (culprit_entry >= 0) {
        int c = E[culprit_entry].node;
        snprintf(sig, sizeof(sig), "xml/%s:%s:%s", clause, step_name(tc->act[c]), shape_class(tc, c));
    } else {
        snprintf(sig, sizeof(sig), "xml/%s:root-dispatch:%s", clause, tc->preamble ? "preamble" : "no-preamble");
    }
    /* per-process limiter: the engine prints 3 witnesses per signature; do not format the rest */
    static uint64_t seen_h[64];
    static unsigned seen_c[64];
    uint64_t h = 1469598103934665603ull;
    for (const char *q = sig; *q; ++q) h = (h ^ (uint8_t)*q) * 1099511628211ull;
    unsigned slot = (unsigned)(h & 63), tries = 0;
    while (seen_h[slot] && seen_h[slot] != h && tries++ < 64) slot = (slot + 1) & 63;
    seen_h[slot] = h;
    if (seen_c[slot] < 8) {
        ++seen_c[slot];
        describe(tc, rc, err);
    } else {
        MSG[0] = 0;
    }
    v_viol(sig, "%s :: %s", detail, MSG);
}

static void report(const struct tcase *tc, const char *clause, int culprit_entry, int rc, int err, const char *detail) {
    report_c(tc, clause, NULL, culprit_entry, rc, err, detail);
}

static int cur_eq(struct aws_byte_cursor c, const char *s, size_t n) {
    return c.len == n && (n == 0 || (c.ptr && memcmp(c.ptr, s, n) == 0));
}

/* ------------------------------------------------------------------ one case ------------------------------ */
static void run_case(const struct tcase *tc, int want_sample) {
    /* 1. document text */
    DOC_len = 0;
    puts_(PREAMBLE[tc->preamble]);
    emit(tc, 0);
    /* 2. reference */
    E_n = 0;
    ref_outcome = O_OK;
    ref_reason = NULL;
    ref_alt_invalid_at = -1;
    ref_overlimit_from = -1;
    ref_loose_from = -1;
    ref_visit(tc, 0, 1);
    /* "Documents that exceed a limit or lack a closing tag are rejected with an error instead of being mis-reported": for
     * such a document the property fixes the final answer (an error) and forbids wrong reports, but not HOW EARLY the
     * parser notices - a parser that validates a node before it hands it to the callback, or the whole document up
     * front, is as right as one that notices when it searches for the closing tag.  doc_invalid = the document itself is
     * outside the dialect, whatever the callback program does */
    int doc_invalid = tc->drop_close >= 0;
    {
        size_t maxd = tc->max_depth ? tc->max_depth : 20;
        for (int v = 0; v < tc->n; ++v) {
            if (tc->name_len[v] > 256 || tc->nattr[v] > 10) doc_invalid = 1;
            size_t depth = 1;
            for (int u = tc->parent[v]; u >= 0; u = tc->parent[u]) ++depth;
            if (depth > maxd) doc_invalid = 1;
        }
    }
    /* 3. action sequence in invocation order (independent of the limits) */
    int reached[MAXN];
    memset(reached, 0, sizeof(reached));
    SEQ_n = 0;
    walk_reach(tc->n, tc->parent, tc->act, 0, reached, SEQ, &SEQ_n);
    /* 4. the real parser */
    uint8_t *blk = bee_block(DOC, DOC_len);
    L_n = L_overflow = aborts_executed = 0;
    n_viol_case = 0;
    struct cb_ctx root = {1};
    struct aws_xml_parser_options opt;
    memset(&opt, 0, sizeof(opt));
    opt.doc = aws_byte_cursor_from_array(blk, DOC_len);
    opt.max_depth = tc->max_depth;
    opt.on_root_encountered = on_node;
    opt.user_data = &root;
    aws_reset_error();
    if (g_ambient) aws_raise_error(AWS_ERROR_INVALID_INDEX);
    int rc = aws_xml_parse(aws_default_allocator(), &opt);
    int err = rc ? aws_last_error() : 0;

    /* 5. statistics / vacuity evidence */
    V_COUNT("evaluations", 1);
    int nontrivial = 0;
    for (int k = 0; k < E_n; ++k) {
        int v = E[k].node, a = tc->act[v];
        if (a == A_SKIP || a == A_BODY) {
            int kids = 0, sib = 0, ext = 0, same = 0;
            for (int d = v + 1; d < tc->n; ++d) {
                if (is_desc(tc, d, v)) {
                    ++kids;
                    ext |= name_extends(tc, d, v);
                    same |= name_same(tc, d, v);
                } else if (tc->parent[d] == tc->parent[v])
                    ++sib;
            }
            if (kids || sib) nontrivial = 1;
            if (kids && a == A_SKIP) V_COUNT("skip_over_children", 1);
            if (kids && a == A_BODY) V_COUNT("body_with_children", 1);
            if (sib) V_COUNT("search_then_following_sibling", 1);
            if (ext) V_COUNT("search_over_descendant_extending_name", 1);
            if (same) V_COUNT("search_over_descendant_same_name", 1);
        }
    }
    if (strcmp(tc->kind, "tree") != 0) nontrivial = 1; /* limit documents sit on / next to a limit by construction */
    if (nontrivial) V_COUNT("nontrivial", 1);
    if (ref_outcome == O_OK) V_COUNT("expect_success", 1);
    else if (ref_outcome == O_ABORT) V_COUNT("expect_callback_error", 1);
    else V_COUNT("expect_invalid_xml", 1);
    if (tc->preamble == 0) V_COUNT("preamble_none", 1);
    else if (tc->preamble == 1) V_COUNT("preamble_xml_decl", 1);
    else V_COUNT("preamble_doctype_and_pi", 1);
    if (rc == AWS_OP_SUCCESS) V_COUNT("observed_success", 1);
    else if (err == AWS_ERROR_INVALID_XML) V_COUNT("observed_invalid_xml", 1);
    else V_COUNT("observed_other_error", 1);
    V_COUNT("callbacks_expected", E_n);
    V_MAXSTAT("max_doc_bytes", DOC_len);
    if (want_sample) {
        describe(tc, rc, err);
        v_sample("%s", MSG);
    }

    /* 6. oracle */
    char det[400];
    int ncmp = E_n;
    if (ref_loose_from >= 0 && ref_loose_from < ncmp) ncmp = ref_loose_from;
    int upto = L_n < ncmp ? L_n : ncmp;
    if (L_overflow) report(tc, "extra-element", E_n - 1, rc, err, "callback log overflow");
    for (int k = 0; k < upto && !n_viol_case; ++k) {
        const struct obs_entry *o = &L[k];
        int v = E[k].node;
        int prev = k ? k - 1 : -1;
        if (!cur_eq(o->name, tc->name[v], tc->name_len[v])) {
            snprintf(det, sizeof(det), "callback %d: name '%s' but element %d in document order is '%.*s'", k,
                     v_show(o->name.ptr, o->name.len > 40 ? 40 : o->name.len), v, (int)(tc->name_len[v] > 40 ? 40 : tc->name_len[v]), tc->name[v]);
            report(tc, "element-name", prev, rc, err, det);
            break;
        }
        if (o->level != E[k].level) {
            snprintf(det, sizeof(det), "callback %d ('%.*s'): reported at depth %d, element is at depth %d", k,
                     (int)(tc->name_len[v] > 40 ? 40 : tc->name_len[v]), tc->name[v], o->level, E[k].level);
            report(tc, "depth", prev, rc, err, det);
            break;
        }
        if (o->nattr != (size_t)tc->nattr[v]) {
            snprintf(det, sizeof(det), "callback %d: %zu attributes reported, element has %d", k, o->nattr, tc->nattr[v]);
            report_c(tc, "attr-count", o->nattr < (size_t)tc->nattr[v] ? (tc->nattr[v] == 1 ? "only-attribute-lost" : "fewer-than-declared") : "more-than-declared", k, rc, err, det);
            break;
        }
        for (int j = 0; j < tc->nattr[v] && j < MAXATTR; ++j) {
            char an[16], av[16];
            attr_expected(v, j, an, av);
            if (!cur_eq(o->attr[j].name, an, strlen(an))) {
                snprintf(det, sizeof(det), "callback %d attribute %d: name '%s', written as '%s' (%s)", k, j,
                         v_show(o->attr[j].name.ptr, o->attr[j].name.len > 30 ? 30 : o->attr[j].name.len), an, ((v + j) & 1) ? "quoted" : "unquoted");
                report_c(tc, "attr-name", ((v + j) & 1) ? "quoted-value" : "unquoted-value", k, rc, err, det);
                break;
            }
            if (!cur_eq(o->attr[j].value, av, strlen(av))) {
                snprintf(det, sizeof(det), "callback %d attribute %d: value '%s', written as '%s' (%s)", k, j,
                         v_show(o->attr[j].value.ptr, o->attr[j].value.len > 30 ? 30 : o->attr[j].value.len), av, ((v + j) & 1) ? "quoted" : "unquoted");
                report_c(tc, "attr-value", ((v + j) & 1) ? "quoted-value" : "unquoted-value", k, rc, err, det);
                break;
            }
        }
        if (n_viol_case) break;
        if (E[k].body) {
            if (o->body_rc != 0) {
                /* the body request failed although the element is well-formed and within limits */
                snprintf(det, sizeof(det), "callback %d ('%.*s'): aws_xml_node_as_body failed (err %d %s) on a well-formed element", k,
                         (int)tc->name_len[v], tc->name[v], aws_last_error(), ename(aws_last_error()));
                report(tc, "spurious-reject", k, rc, err, det);
                break;
            }
            size_t bl = body_end[v] - body_start[v];
            if (!cur_eq(o->body, DOC + body_start[v], bl)) {
                snprintf(det, sizeof(det), "callback %d ('%.*s'): body '%s' but the text between its tags is '%s'", k, (int)tc->name_len[v], tc->name[v],
                         v_show(o->body.ptr, o->body.len > 60 ? 60 : o->body.len), v_show(DOC + body_start[v], bl > 60 ? 60 : bl));
                report(tc, "body-text", k, rc, err, det);
                break;
            }
        }
    }
    if (!n_viol_case && ref_loose_from < 0 && L_n > E_n) {
        snprintf(det, sizeof(det), "%d callbacks, the program reaches %d elements; extra callback for '%s' at depth %d", L_n, E_n,
                 v_show(L[E_n].name.ptr, L[E_n].name.len > 30 ? 30 : L[E_n].name.len), L[E_n].level);
        if (ref_outcome == O_ABORT) report_c(tc, "callback-after-abort", E_n == 1 ? "root-callback" : "nested-callback", E_n - 1, rc, err, det);
        else if (ref_outcome == O_OK) report(tc, "extra-element", E_n - 1, rc, err, det);
        else report_c(tc, "callback-after-limit", ref_reason, E_n - 1, rc, err, det);
    }
    if (!n_viol_case && rc == AWS_OP_ERR && err == AWS_ERROR_INVALID_XML && ref_overlimit_from >= 0 && L_n >= ref_overlimit_from && L_n <= E_n) {
        V_COUNT("overlong_name_rejected", 1);
    } else if (!n_viol_case && doc_invalid && rc == AWS_OP_ERR && err == AWS_ERROR_INVALID_XML && L_n <= E_n) {
        /* rejected with the documented error, every callback delivered before that was a correct report (compared above) */
        V_COUNT("invalid_document_rejected", 1);
        if (L_n < E_n) V_COUNT("invalid_document_rejected_before_the_reference_point", 1);
    } else if (!n_viol_case) {
        int last = L_n - 1; /* the element whose processing was under way when the parse ended */
        switch (ref_outcome) {
            case O_OK:
                if (rc != AWS_OP_SUCCESS) {
                    snprintf(det, sizeof(det), "well-formed document within all limits rejected (err %d %s) after %d of %d callbacks", err, ename(err), L_n, E_n);
                    report(tc, "spurious-reject", last, rc, err, det);
                } else if (L_n < E_n) {
                    snprintf(det, sizeof(det), "parse succeeded with %d callbacks, the program reaches %d elements: element %d ('%.*s') never reported", L_n, E_n,
                             E[L_n].node, (int)tc->name_len[E[L_n].node], tc->name[E[L_n].node]);
                    report(tc, "missing-element", last, rc, err, det);
                }
                break;
            case O_ABORT:
                if (L_n < E_n) {
                    snprintf(det, sizeof(det), "parse ended (rc=%d err=%d) after %d callbacks before the aborting element (callback %d) was reported", rc, err, L_n, E_n - 1);
                    report(tc, rc ? "spurious-reject" : "missing-element", last, rc, err, det);
                } else if (rc != AWS_OP_ERR) {
                    snprintf(det, sizeof(det), "callback %d returned an error, aws_xml_parse returned %d", E_n - 1, rc);
                    report_c(tc, "abort-ignored", E_n == 1 ? "root-callback" : "nested-callback", E_n - 1, rc, err, det);
                } else if (err != CB_ERROR) {
                    snprintf(det, sizeof(det), "callback raised %s, aws_last_error() after the parse is %d %s", ename(CB_ERROR), err, ename(err));
                    report_c(tc, "abort-error-replaced", E_n == 1 ? "root-callback" : "nested-callback", E_n - 1, rc, err, det);
                }
                break;
            case O_INVALID:
                if (L_n < E_n) {
                    if (rc == AWS_OP_ERR && err == AWS_ERROR_INVALID_XML && ref_alt_invalid_at >= 0 && L_n == ref_alt_invalid_at + 1) {
                        V_COUNT("overlong_name_rejected_on_descend", 1);
                        break;
                    }
                    snprintf(det, sizeof(det), "parse ended (rc=%d err=%d) after %d callbacks, %d elements precede the point of rejection", rc, err, L_n, E_n);
                    report(tc, rc ? "spurious-reject" : "missing-element", last, rc, err, det);
                } else if (rc != AWS_OP_ERR) {
                    snprintf(det, sizeof(det), "document must be rejected (%s) but aws_xml_parse returned success", ref_reason);
                    report_c(tc, "limit-accepted", ref_reason, E_n ? E_n - 1 : -1, rc, err, det);
                } else if (err != AWS_ERROR_INVALID_XML) {
                    snprintf(det, sizeof(det), "rejected (%s) with error %d %s instead of AWS_ERROR_INVALID_XML", ref_reason, err, ename(err));
                    report_c(tc, "limit-wrong-error", ref_reason, E_n ? E_n - 1 : -1, rc, err, det);
                }
                break;
            default: /* O_FAIL_LOOSE: unclosed element descended into: the parse must fail, by the parser or by an abort */
                if (L_n < ncmp) {
                    snprintf(det, sizeof(det), "parse ended (rc=%d err=%d) after %d callbacks before the unclosed element (callback %d) was reported", rc, err, L_n, ncmp - 1);
                    report(tc, rc ? "spurious-reject" : "missing-element", last, rc, err, det);
                } else if (rc != AWS_OP_ERR) {
                    report_c(tc, "limit-accepted", "unclosed-descended", ncmp - 1, rc, err, "an element without end tag was descended into and the parse succeeded");
                } else if (!(err == AWS_ERROR_INVALID_XML || (aborts_executed && err == CB_ERROR))) {
                    snprintf(det, sizeof(det), "unclosed document rejected with error %d %s", err, ename(err));
                    report_c(tc, "limit-wrong-error", "unclosed-descended", ncmp - 1, rc, err, det);
                }
                break;
        }
        if (!n_viol_case && ref_alt_invalid_at >= 0 && L_n > ref_alt_invalid_at + 1) V_COUNT("overlong_name_passed_on_descend", 1);
    }
    free(blk);
}

/* ------------------------------------------------------------------ helpers to fill a case ---------------- */
static void tc_init(struct tcase *tc, const char *kind, int n, const int *parent) {
    memset(tc, 0, sizeof(*tc));
    tc->kind = kind;
    tc->n = n;
    for (int i = 0; i < n; ++i) {
        tc->parent[i] = parent[i];
        tc->name[i] = "a";
        tc->name_len[i] = 1;
    }
    tc->drop_close = -1;
}
static void tc_name(struct tcase *tc, int i, const char *s) {
    tc->name[i] = s;
    tc->name_len[i] = strlen(s);
}
static void tc_shape_prog(struct tcase *tc, const char *kind, const struct prog *p) {
    const struct shape *s = &SH[p->shape];
    tc_init(tc, kind, s->n, s->parent);
    for (int i = 0; i < s->n; ++i) tc->act[i] = p->act[i];
}

/* Is the preamble a free digit (x3) for trees of n elements, or tied to the digit sum of the other digits?  It is free
 * wherever the budget allows: quick n<=2 (full3) ; thorough n<=4.  Tied: all three preambles still occur for every
 * (tree, names, program) because the attribute-pattern digit runs over 16 (pat) / 4 (full3) values. */
static int preamble_free(int n) { return v_thorough() ? n <= 4 : n <= 2; }
static int digit_sum3(const struct tcase *tc, unsigned extra) {
    unsigned s = extra;
    for (int i = 0; i < tc->n; ++i) s += (unsigned)tc->name_len[i] + (unsigned)tc->nattr[i] + (unsigned)tc->text[i] + (tc->name[i][0] == 'b');
    return (int)(s % 3);
}

/* ------------------------------------------------------------------ section full3 ------------------------- */
static uint64_t *F3_base; /* prefix sums over programs of shapes with <= 3 elements */
static int F3_n;
static uint64_t F3_total;
static void full3_setup(void) {
    F3_n = PR_first_of_n[4];
    F3_base = (uint64_t *)malloc(sizeof(uint64_t) * (size_t)(F3_n + 1));
    uint64_t t = 0;
    for (int e = 0; e < F3_n; ++e) {
        F3_base[e] = t;
        t += bee_pow(36, (unsigned)SH[PR[e].shape].n) * (preamble_free(SH[PR[e].shape].n) ? 3 : 1);
    }
    F3_base[F3_n] = t;
    F3_total = t;
}
static uint64_t full3_total(void) { return F3_total; }
static int find_entry(const uint64_t *base, int n, uint64_t idx) {
    int lo = 0, hi = n; /* base[lo] <= idx < base[hi] */
    while (hi - lo > 1) {
        int mid = (lo + hi) / 2;
        if (base[mid] <= idx) lo = mid;
        else hi = mid;
    }
    return lo;
}
static void full3_eval(uint64_t idx, void *ctx) {
    (void)ctx;
    BEE_ITEM(idx);
    int e = find_entry(F3_base, F3_n, idx);
    uint64_t x = idx - F3_base[e];
    struct tcase tc;
    tc_shape_prog(&tc, "tree", &PR[e]);
    if (preamble_free(tc.n)) tc.preamble = (int)bee_digit(&x, 3);
    for (int i = 0; i < tc.n; ++i) {
        tc_name(&tc, i, NAMES[bee_digit(&x, 3)]);
        tc.nattr[i] = ATTRC[bee_digit(&x, 4)];
        tc.text[i] = (int)bee_digit(&x, 3);
    }
    if (!preamble_free(tc.n)) tc.preamble = digit_sum3(&tc, 0);
    run_case(&tc, idx == 0 || idx == F3_total / 2 + 12345);
}


/* ------------------------------------------------------------------ section preshape ---------------------- */
/* every tree of <= 2 elements (names x attribute counts x text x program) under each of the NPRE preamble shapes */
static uint64_t *PS_base;
static int PS_n;
static uint64_t PS_total;
static void preshape_setup(void) {
    PS_n = PR_first_of_n[3];
    PS_base = (uint64_t *)malloc(sizeof(uint64_t) * (size_t)(PS_n + 1));
    uint64_t t = 0;
    for (int e = 0; e < PS_n; ++e) {
        PS_base[e] = t;
        t += bee_pow(36, (unsigned)SH[PR[e].shape].n) * NPRE;
    }
    PS_base[PS_n] = t;
    PS_total = t;
}
static uint64_t preshape_total(void) { return PS_total; }
static void preshape_eval(uint64_t idx, void *ctx) {
    (void)ctx;
    BEE_ITEM(idx);
    int e = find_entry(PS_base, PS_n, idx);
    uint64_t x = idx - PS_base[e];
    struct tcase tc;
    tc_shape_prog(&tc, "tree", &PR[e]);
    tc.preamble = (int)bee_digit(&x, NPRE);
    for (int i = 0; i < tc.n; ++i) {
        tc_name(&tc, i, NAMES[bee_digit(&x, 3)]);
        tc.nattr[i] = ATTRC[bee_digit(&x, 4)];
        tc.text[i] = (int)bee_digit(&x, 3);
    }
    V_COUNT("preamble_shapes_cases", 1);
    run_case(&tc, idx == PS_total / 3);
}

/* ------------------------------------------------------------------ section pat (4 and 5 elements) -------- */
static uint64_t *PT_base;
static int PT_first, PT_n;
static uint64_t PT_total;
static void pat_setup(void) {
    PT_first = PR_first_of_n[4];
    int end = v_thorough() ? PR_first_of_n[6] : PR_first_of_n[5];
    PT_n = end - PT_first;
    PT_base = (uint64_t *)malloc(sizeof(uint64_t) * (size_t)(PT_n + 1));
    uint64_t t = 0;
    for (int e = 0; e < PT_n; ++e) {
        PT_base[e] = t;
        t += bee_pow(3, (unsigned)SH[PR[PT_first + e].shape].n) * 16 * 9 * (preamble_free(SH[PR[PT_first + e].shape].n) ? 3 : 1);
    }
    PT_base[PT_n] = t;
    PT_total = t;
}
static uint64_t pat_total(void) { return PT_total; }
static void pat_eval(uint64_t idx, void *ctx) {
    (void)ctx;
    BEE_ITEM(idx);
    int e = find_entry(PT_base, PT_n, idx);
    uint64_t x = idx - PT_base[e];
    struct tcase tc;
    tc_shape_prog(&tc, "tree", &PR[PT_first + e]);
    if (preamble_free(tc.n)) tc.preamble = (int)bee_digit(&x, 3);
    unsigned arot = bee_digit(&x, 16), trot = bee_digit(&x, 9);
    for (int i = 0; i < tc.n; ++i) {
        tc_name(&tc, i, NAMES[bee_digit(&x, 3)]);
        tc.nattr[i] = ATTRC[DB4[(arot + (unsigned)i) % 16]];
        tc.text[i] = DB3[(trot + (unsigned)i) % 9];
    }
    if (!preamble_free(tc.n)) tc.preamble = digit_sum3(&tc, arot + trot);
    run_case(&tc, idx == 777 || idx == PT_total / 3 + 4321);
}

/* ------------------------------------------------------------------ section limits ------------------------ */
static char LONGNAME[300];
/* Builds case number `want` (or counts all cases when want == UINT64_MAX).  Pure function of want. */
static uint64_t limits_case(uint64_t want, struct tcase *tc) {
    uint64_t cnt = 0;
    static const char *chain_names[3][3] = {{"a", "a", "a"}, {"ab", "ab", "ab"}, {"ab", "a", "b"}};
    /* (a) nesting chains: D nested elements, levels 1..k descended, final action at level k+1 */
    static const int dm[][2] = {{19, 0}, {20, 0}, {21, 0}, {22, 0}, {1, 1}, {2, 1}, {3, 1}, {1, 2}, {2, 2}, {3, 2}, {4, 2}, {21, 22}, {22, 22}, {23, 22}};
    for (size_t p = 0; p < sizeof(dm) / sizeof(dm[0]); ++p) {
        int D = dm[p][0];
        for (int pat = 0; pat < 3; ++pat)
            for (int k = 0; k < D; ++k)
                for (int fin = 0; fin < 4; ++fin) {
                    if (cnt++ != want) continue;
                    int parent[MAXN];
                    for (int i = 0; i < D; ++i) parent[i] = i - 1;
                    tc_init(tc, "chain", D, parent);
                    tc->max_depth = (size_t)dm[p][1];
                    for (int i = 0; i < D; ++i) {
                        tc_name(tc, i, chain_names[pat][i % 3]);
                        tc->act[i] = i < k ? A_DESCEND : i == k ? fin : A_SKIP;
                    }
                    tc->text[D - 1] = 1;
                    return cnt;
                }
    }
    /* (b) every tree with <= 3 elements x names x program under max_depth 1 and 2 */
    for (int md = 1; md <= 2; ++md)
        for (int e = 0; e < PR_first_of_n[4]; ++e) {
            int n = SH[PR[e].shape].n;
            uint64_t nn = bee_pow(3, (unsigned)n);
            if (want != UINT64_MAX && !(want >= cnt && want < cnt + nn)) {
                cnt += nn;
                continue;
            }
            for (uint64_t c = 0; c < nn; ++c) {
                if (cnt++ != want) continue;
                tc_shape_prog(tc, "maxdepth", &PR[e]);
                tc->max_depth = (size_t)md;
                uint64_t x = c;
                for (int i = 0; i < n; ++i) tc_name(tc, i, NAMES[bee_digit(&x, 3)]);
                return cnt;
            }
        }
    /* (c) name length 255..258 on element z, (d) 9..12 attributes on element z: trees <= 3 elements x program */
    for (int what = 0; what < 2; ++what)
        for (int e = 0; e < PR_first_of_n[4]; ++e) {
            int n = SH[PR[e].shape].n;
            for (int z = 0; z < n; ++z)
                for (int q = 0; q < 4; ++q)
                    for (int txt = 0; txt < 2; ++txt) {
                        if (cnt++ != want) continue;
                        tc_shape_prog(tc, what ? "attrs" : "longname", &PR[e]);
                        static const char *other[3] = {"b", "a", "ab"};
                        for (int i = 0; i < n; ++i) {
                            tc_name(tc, i, other[i]);
                            tc->text[i] = txt;
                        }
                        if (what == 0) {
                            tc->name[z] = LONGNAME;
                            tc->name_len[z] = (size_t)(255 + q);
                        } else {
                            tc->nattr[z] = 9 + q;
                        }
                        return cnt;
                    }
        }
    /* (e) one end tag removed: distinct names so that the missing tag is unambiguous */
    for (int e = 0; e < PR_first_of_n[4]; ++e) {
        int n = SH[PR[e].shape].n;
        for (int u = 0; u < n; ++u)
            for (int txt = 0; txt < 3; ++txt)
                for (int pre = 0; pre < 3; pre += 2) {
                    if (cnt++ != want) continue;
                    tc_shape_prog(tc, "unclosed", &PR[e]);
                    static const char *dn[3] = {"a", "b", "ab"};
                    for (int i = 0; i < n; ++i) {
                        tc_name(tc, i, dn[i]);
                        tc->text[i] = txt;
                    }
                    tc->drop_close = u;
                    tc->preamble = pre;
                    return cnt;
                }
    }
    /* (f) breadth instead of depth: a root with N leaf children, every element descended into.  The depth limit counts
     * nesting, not the number of descents made so far: 25 siblings at level 2 are within any limit >= 2 (added after a
     * seeded change that never took a finished descent off the depth count) */
    static const int bm[][2] = {{2, 2}, {3, 2}, {4, 2}, {18, 0}, {19, 0}, {20, 0}, {21, 0}, {25, 0}, {25, 2}, {25, 3}};
    for (size_t p = 0; p < sizeof(bm) / sizeof(bm[0]); ++p)
        for (int pat = 0; pat < 3; ++pat)
            for (int last = 0; last < 3; ++last) {
                if (cnt++ != want) continue;
                int N = bm[p][0], parent[MAXN];
                parent[0] = -1;
                for (int i = 1; i <= N; ++i) parent[i] = 0;
                tc_init(tc, "broad", N + 1, parent);
                tc->max_depth = (size_t)bm[p][1];
                for (int i = 0; i <= N; ++i) {
                    tc_name(tc, i, chain_names[pat][i % 3]);
                    tc->act[i] = A_DESCEND;
                    tc->text[i] = i ? 1 : 0;
                }
                tc->act[N] = last == 0 ? A_DESCEND : last == 1 ? A_BODY : A_SKIP;
                return cnt;
            }
    /* (g) combs: a chain of D elements, every one descended into, and behind each nested element a further sibling - so that
     * D descents are in progress at once when the innermost element is reached and every one of them still has a child to
     * dispatch on the way back (added after a seeded change whose traversal kept a pointer into its growing stack of
     * descents: right up to 4 simultaneous descents, dangling from the 5th, 9th, 17th on) */
    static const int gm[] = {4, 5, 6, 8, 9, 10, 12, 13};
    for (size_t p = 0; p < sizeof(gm) / sizeof(gm[0]); ++p)
        for (int pat = 0; pat < 3; ++pat)
            for (int leaf = 0; leaf < 3; ++leaf) {
                if (cnt++ != want) continue;
                int D = gm[p], parent[MAXN];
                for (int i = 0; i < D; ++i) parent[i] = i - 1;
                for (int j = D - 2; j >= 0; --j) parent[D + (D - 2 - j)] = j; /* document order: the innermost level's sibling first */
                tc_init(tc, "comb", 2 * D - 1, parent);
                for (int i = 0; i < 2 * D - 1; ++i) {
                    tc_name(tc, i, i < D ? chain_names[pat][i % 3] : (pat == 2 ? "b" : "s"));
                    tc->act[i] = i < D ? A_DESCEND : leaf == 0 ? A_DESCEND : leaf == 1 ? A_BODY : A_SKIP;
                    tc->text[i] = (i == D - 1 || i >= D) ? 1 : 0;
                }
                return cnt;
            }
    return cnt;
}
static uint64_t LIM_total;
static uint64_t limits_total(void) { return LIM_total; }
static void limits_eval(uint64_t idx, void *ctx) {
    (void)ctx;
    BEE_ITEM(idx);
    struct tcase tc;
    memset(&tc, 0, sizeof(tc));
    limits_case(idx, &tc);
    if (!tc.kind) return;
    if (!strcmp(tc.kind, "chain")) V_COUNT("limit_chain_cases", 1);
    else if (!strcmp(tc.kind, "maxdepth")) V_COUNT("limit_maxdepth_option_cases", 1);
    else if (!strcmp(tc.kind, "longname")) V_COUNT("limit_name_length_cases", 1);
    else if (!strcmp(tc.kind, "attrs")) V_COUNT("limit_attr_count_cases", 1);
    else V_COUNT("limit_unclosed_cases", 1);
    run_case(&tc, idx == 4 * 3 * 19 + 19 * 4 + 1 /* depth-20 chain, body at level 20 */);
}

static void full3_ambient_eval(uint64_t idx, void *ctx) {
    g_ambient = 1;
    full3_eval(idx, ctx);
    g_ambient = 0;
}
static void full3_nested_eval(uint64_t idx, void *ctx) {
    g_nested = 1;
    full3_eval(idx, ctx);
    g_nested = 0;
}
static void limits_nested_eval(uint64_t idx, void *ctx) {
    g_nested = 1;
    limits_eval(idx, ctx);
    g_nested = 0;
}
static void limits_ambient_eval(uint64_t idx, void *ctx) {
    g_ambient = 1;
    limits_eval(idx, ctx);
    g_ambient = 0;
}

int main(int argc, char **argv) {
    v_init(argc, argv);
    check_debruijn();
    memset(LONGNAME, 'c', sizeof(LONGNAME));
    gen_shapes(v_thorough() ? 5 : 4, 4);
    gen_programs();
    full3_setup();
    preshape_setup();
    pat_setup();
    struct tcase tmp;
    LIM_total = limits_case(UINT64_MAX, &tmp);
    if (!v_replay_token) {
        v_out("INFO shapes=%d programs=%d (<=3 elements: %d, 4: %d, 5: %d) full3=%" PRIu64 " pat=%" PRIu64 " limits=%" PRIu64, SH_n, PR_n,
              PR_first_of_n[4], PR_first_of_n[5] - PR_first_of_n[4], PR_first_of_n[6] - PR_first_of_n[5], F3_total, PT_total, LIM_total);
        /* tree x name x program triples (the product the property quantifies over), without decorations */
        uint64_t core = 0;
        for (int e = 0; e < PR_n; ++e) core += bee_pow(3, (unsigned)SH[PR[e].shape].n);
        v_out("INFO tree-x-names-x-program triples=%" PRIu64, core);
    }
    bee_register("full3", full3_total, full3_eval, 20);
    bee_register("preshape", preshape_total, preshape_eval, 20);
    bee_register("pat", pat_total, pat_eval, 20);
    bee_register("limits", limits_total, limits_eval, 20);
    bee_register("full3-nested-parse", full3_total, full3_nested_eval, 30);
    bee_register("limits-nested-parse", limits_total, limits_nested_eval, 30);
    bee_register("full3-ambient-error", full3_total, full3_ambient_eval, 20);
    bee_register("limits-ambient-error", limits_total, limits_ambient_eval, 20);
    return bee_main(argc, argv);
}
