LEVEL = "model_checking"
HARNESSES = [
    # sequential half of C15: every single-threaded operation history, run to a fixpoint per ring size
    dict(name="ringseq", src=["ringseq.c"], variant="asan", deadline={"quick": 90, "thorough": 600}),
    # rings of 2^31 .. 2^32+ bytes (address space only, interval oracle): every program of up to 5 operations
    dict(name="ringbig", src=["ringbig.c"], variant="asan", deadline={"quick": 120, "thorough": 300}),
    # concurrent half: acquirer thread x releaser thread, every interleaving of the atomic loads/stores of head and tail
    dict(name="ringmt", src=["ringmt.c"], variant="sched", wrap=True, deadline={"quick": 150, "thorough": 1500}),
    # free-running ThreadSanitizer twin of the scenario bodies (DESIGN 4.5): no wrapping, OS scheduler, decides nothing;
    # discharges VSX's proviso that there is no unsynchronised access between schedule points
    dict(name="ringmt-tsan", src=["ringmt.c"], variant="tsan", cflags=["-DVSX_FREE"], tiers=["thorough"], deadline={"thorough": 600}),
]
ASSUMPTIONS = [
    "concurrent half (ringmt): one acquirer and one releaser thread, programs of <=3 (quick: 18 chosen, thorough: all over a 6-symbol alphabet for ring sizes 4 and 6, plus double-wrap programs of length 4); preemption bound 2 (quick) / 3 (thorough); interleavings are sequentially consistent - acquire/release/relaxed orderings are not modelled",
    "sequential half only: all operations on one thread; ring sizes 1..8 (quick) / 1..12 (thorough), each run to a fixpoint (histories of every length)",
    "alphabet: acquire(n) and acquire_up_to(min,n) for all 1<=min<=n<=size+1, release of the oldest outstanding buffer only (FIFO order, as ring_buffer.h demands)",
    "a refused acquire while fragmented (or slack-byte) space would suffice is not a violation: the property does not promise best fit; it is only counted",
    "must-succeed is demanded only with nothing outstanding and n<=size (both forms); acquire_up_to(min<=size, n=size+1) on an idle ring is observed, not demanded",
    "refusals: AWS_OP_ERR with AWS_ERROR_OOM (source/ring_buffer.c; the header only says AWS_OP_ERR) and a zeroed dest stays without memory",
    "buf_belongs_to_pool: true demanded for outstanding buffers, false for buffers reaching past the storage end or with NULL memory; in-range but not vended intervals are not probed",
    "states are de-duplicated on a 128-bit hash of the canonical state (hash compaction); fill bytes of buffers are not part of the state (argument in ringseq.c)",
]
