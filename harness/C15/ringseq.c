/*
 * C15 (sequential half) — aws_ring_buffer under ESX (DESIGN §5 C15, §6 reading "a buffer stops being
 * outstanding when its release call starts").
 *
 * One model per ring size S.  Every history over
 *     acquire(n)            1 <= n <= S+1
 *     release(oldest)       FIFO release order, as the header demands and the property states
 *     acquire_up_to(min,n)  1 <= min <= n <= S+1
 * is run on the real library until no new state appears (FIXPOINT: histories of every length).
 *
 * Observer state: FIFO of outstanding intervals (offset, length) relative to the allocation base, each
 * filled with its own byte value.  There is NO placement reference model: the property does not say where a
 * buffer is placed nor that a request is served whenever fragmented space would suffice (no best fit), so
 * the oracle is exactly the list of clauses of the property:
 *
 *   return-code            acquire returns AWS_OP_SUCCESS or AWS_OP_ERR, nothing else
 *   outside-storage        granted buffer lies inside [base, base+S)
 *   size                   capacity == n          (acquire)
 *   size-up-to             min <= capacity <= n   (acquire_up_to)
 *   idle-up-to-short       acquire_up_to with nothing outstanding and n <= S grants n
 *   overlap                granted interval is disjoint from every outstanding interval
 *   pattern                bytes of every outstanding buffer are still the ones written at grant time
 *                          (checked after EVERY operation; independent of the interval arithmetic above)
 *   idle-request-refused   nothing outstanding and n <= S  ->  must succeed
 *   capacity-not-restored  everything released again and n == S  ->  must succeed
 *   error-code             a refusal raises AWS_ERROR_OOM
 *   refusal-hands-out      a refusal leaves the (zeroed) dest without memory
 *   dest-invalid           a grant is a valid aws_byte_buf
 *   ring-invalid           aws_ring_buffer_is_valid after every operation
 *   belongs-outstanding    aws_ring_buffer_buf_belongs_to_pool is true for every outstanding buffer
 *   belongs-foreign        ... and false for a buffer reaching past the end of the storage / a NULL buffer
 *
 * Canonical state = (head offset, tail offset, "ring was used" bit, FIFO of (offset,length)).
 * Why equal canon => equal futures: the library's behaviour is a function of head-base, tail-base and S only
 * (allocator/allocation pointers are the same on every replay: first block of the deterministic arena); the
 * oracle reads only the FIFO and the used bit.  The fill bytes are deliberately left out: the pattern verdict
 * depends only on whether an outstanding buffer's bytes were overwritten after its grant; fill values of
 * simultaneously outstanding buffers are pairwise distinct (consecutive ids mod 250, at most S <= 12
 * outstanding, a history ends at its first violation) and constant over a buffer, so ANY overlap changes
 * at least one byte whatever the concrete ids are.
 */
#include "esx.h"
#include <pthread.h>
#include "galloc.h"
#include <aws/common/byte_buf.h>
#include <aws/common/ring_buffer.h>

#define MAXS 16
#define MAXOUT 64
#define MAXOPS (MAXS + 3 + (MAXS + 2) * (MAXS + 3) / 2)

static size_t S;             /* ring size of the current model */
static char g_name[32];

/* ---- objects ---- */
static struct aws_ring_buffer rb;
static int rb_live;
static uint8_t *base;        /* start of the ring's storage (rb.allocation, public struct field) */

/* ---- observer ---- */
struct out {
    struct aws_byte_buf buf; /* exactly as handed out */
    size_t off, len;
    uint8_t fill;
};
static struct out fifo[MAXOUT];
static int nout;
static int used;             /* at least one buffer was ever granted */
static unsigned next_id;     /* NOT in canon, see header comment */

static int g_eh;        /* configuration "-eh": the error handler is a client of the ring (see eh_fn) */
static int g_in_call;   /* inside a library acquire call */
static int g_two, g_hand; /* configurations "-two" and "-hand" (see m_apply) */
static struct aws_ring_buffer rb2;
static int rb2_live;
static int g_eh_fired;  /* the handler already acted in this call */
static void eh_fn(int err, void *ctx);

/* ---- op alphabet ---- */
static int op_release;       /* = S+1 */
static int n_ops;
static struct {
    uint8_t min, n;
} upto_tab[MAXOPS];
/* requests at the top of size_t ("whatever is left"): arithmetic on the requested size must not wrap (added after a seeded
 * change whose clamp computed requested_size + 1).  min code: 0 = 1, 1 = S, 2 = SIZE_MAX; n code: 0 = SIZE_MAX, 1 = SIZE_MAX - 1 */
static const struct {
    uint8_t upto, min_code, n_code;
} big_tab[5] = {{0, 0, 0}, {1, 0, 0}, {1, 0, 1}, {1, 1, 0}, {1, 2, 0}};
static int op_big; /* first of the five */
static size_t big_min(int k) { return big_tab[k].min_code == 0 ? 1 : big_tab[k].min_code == 1 ? S : SIZE_MAX; }
static size_t big_n(int k) { return big_tab[k].n_code == 0 ? SIZE_MAX : SIZE_MAX - 1; }

/* ---- exact per-transition vacuity accounting (flushed in teardown, only for the NEW transition) ---- */
enum {
    EV_GRANT, EV_REFUSE, EV_WRAP, EV_EMPTY_RESET, EV_HEAD_AT_END, EV_REFUSE_TOTAL_OK, EV_REFUSE_GAP_OK,
    EV_UPTO_PARTIAL, EV_UPTO_PARTIAL_NONEMPTY, EV_UPTO_OVER_RING_GRANTED, EV_RELEASE, EV_RELEASE_TO_EMPTY,
    EV_TAIL_JUMPS_BACK, EV_N
};
static uint8_t ev[EV_N];
static int g_steps;
static int g_last_enabled;

static size_t head_off(void) { return (size_t)((uint8_t *)aws_atomic_load_ptr(&rb.head) - base); }
static size_t tail_off(void) { return (size_t)((uint8_t *)aws_atomic_load_ptr(&rb.tail) - base); }

static void m_reset(void) {
    galloc_reset();
    struct aws_allocator *a = galloc_get(0, 0);
    AWS_ZERO_STRUCT(rb);
    memset(fifo, 0, sizeof(fifo));
    nout = 0;
    used = 0;
    next_id = 0;
    g_steps = 0;
    g_last_enabled = 0;
    g_in_call = 0;
    g_eh_fired = 0;
    aws_set_thread_local_error_handler_fn(g_eh ? eh_fn : NULL, NULL);
    memset(ev, 0, sizeof(ev));
    if (aws_ring_buffer_init(&rb, a, S) != AWS_OP_SUCCESS) {
        fprintf(stderr, "ring init failed\n");
        _exit(2);
    }
    rb_live = 1;
    if (g_two) {
        AWS_ZERO_STRUCT(rb2);
        if (aws_ring_buffer_init(&rb2, a, S + 48) != AWS_OP_SUCCESS) _exit(2);
        rb2_live = 1;
    }
    base = rb.allocation;
    /* the storage is a live block of the allocator handed in that holds at least S bytes (an implementation may pad it);
     * the ring itself is the S bytes [allocation, allocation_end) - what the public struct says, and all the oracle uses */
    if (!galloc_is_live(base) || galloc_size_of(base) < S || (size_t)(rb.allocation_end - rb.allocation) != S) {
        esx_fail("storage", "aws_ring_buffer_init(%zu): storage block of %zu bytes, allocation_end - allocation = %zu", S, galloc_is_live(base) ? galloc_size_of(base) : (size_t)0,
                 (size_t)(rb.allocation_end - rb.allocation));
    }
}

static void flush_events(void) {
    V_COUNT("grants", ev[EV_GRANT]);
    V_COUNT("refusals", ev[EV_REFUSE]);
    V_COUNT("releases", ev[EV_RELEASE]);
    V_COUNT("wraparounds", ev[EV_WRAP]);
    V_COUNT("empty_resets", ev[EV_EMPTY_RESET]);
    V_COUNT("grants_ending_at_storage_end", ev[EV_HEAD_AT_END]);
    V_COUNT("refusals_total_free_suffices", ev[EV_REFUSE_TOTAL_OK]);
    V_COUNT("refusals_contiguous_gap_suffices", ev[EV_REFUSE_GAP_OK]);
    V_COUNT("upto_partial_grants", ev[EV_UPTO_PARTIAL]);
    V_COUNT("upto_partial_grants_nonempty", ev[EV_UPTO_PARTIAL_NONEMPTY]);
    V_COUNT("upto_over_ring_granted_when_idle", ev[EV_UPTO_OVER_RING_GRANTED]);
    V_COUNT("releases_to_empty", ev[EV_RELEASE_TO_EMPTY]);
    V_COUNT("releases_tail_moves_backwards", ev[EV_TAIL_JUMPS_BACK]);
}

static void m_teardown(void) {
    /* engine order per expansion: reset, replay, enabled(o), [apply(o)], teardown — so "last enabled()
     * returned true and something was applied" identifies the new transition exactly once */
    if (g_last_enabled && g_steps > 0) {
        flush_events();
        V_MAXSTAT("max_outstanding", (uint64_t)nout);
    }
    g_last_enabled = 0;
    if (rb_live) {
        aws_ring_buffer_clean_up(&rb);
        rb_live = 0;
    }
    if (rb2_live) {
        aws_ring_buffer_clean_up(&rb2);
        rb2_live = 0;
    }
}

static bool m_enabled(int op) {
    bool r = (op == op_release) ? nout > 0 : true; /* acquire forms: sizes >= 1 and min <= n by construction */
    g_last_enabled = r;
    return r;
}

static void m_opname(int op, char *buf, size_t cap) {
    if (op < op_release) snprintf(buf, cap, "acquire(%d)", op + 1);
    else if (op == op_release) snprintf(buf, cap, "release(oldest)");
    else if (op < op_big) snprintf(buf, cap, "acquire_up_to(min=%d,n=%d)", upto_tab[op].min, upto_tab[op].n);
    else if (op < n_ops && !big_tab[op - op_big].upto) snprintf(buf, cap, "acquire(SIZE_MAX)");
    else if (op < n_ops)
        snprintf(buf, cap, "acquire_up_to(min=%s,n=SIZE_MAX%s)", big_tab[op - op_big].min_code == 0 ? "1" : big_tab[op - op_big].min_code == 1 ? "S" : "SIZE_MAX",
                 big_tab[op - op_big].n_code ? "-1" : "");
    else snprintf(buf, cap, "op%d", op);
}

/* checks that hold in every state */
static void check_invariant(const char *after) {
    ESX_CHECK(aws_ring_buffer_is_valid(&rb), "ring-invalid", "after %s: aws_ring_buffer_is_valid is false (head %td, tail %td, size %zu)",
              after, (uint8_t *)aws_atomic_load_ptr(&rb.head) - base, (uint8_t *)aws_atomic_load_ptr(&rb.tail) - base, S);
    if (esx_failed) return;
    for (int i = 0; i < nout && !esx_failed; ++i) {
        const struct out *o = &fifo[i];
        for (size_t k = 0; k < o->len; ++k) {
            if (o->buf.buffer[k] != o->fill) {
                esx_fail("pattern", "after %s: outstanding buffer #%d [%zu,%zu) byte %zu reads 0x%02x, written 0x%02x — memory handed out twice", after,
                         i, o->off, o->off + o->len, k, o->buf.buffer[k], o->fill);
                break;
            }
        }
        if (esx_failed) break;
        ESX_CHECK(aws_ring_buffer_buf_belongs_to_pool(&rb, &o->buf), "belongs-outstanding",
                  "after %s: outstanding buffer [%zu,%zu) reported as not belonging to the ring", after, o->off, o->off + o->len);
    }
    if (esx_failed) return;
    /* memory that cannot have been vended: reaches one byte past the storage, or no memory at all */
    for (size_t a = 0; a <= S && !esx_failed; ++a) {
        struct aws_byte_buf f = aws_byte_buf_from_empty_array(base + a, S - a + 1);
        ESX_CHECK(!aws_ring_buffer_buf_belongs_to_pool(&rb, &f), "belongs-foreign",
                  "after %s: [%zu,%zu) reaches past the %zu-byte storage but is reported as belonging to the ring", after, a, S + 1, S);
    }
    struct aws_byte_buf none;
    AWS_ZERO_STRUCT(none);
    ESX_CHECK(!aws_ring_buffer_buf_belongs_to_pool(&rb, &none), "belongs-foreign", "after %s: empty byte_buf reported as belonging to the ring", after);
}

static void do_release(void) {
    struct out o = fifo[0];
    size_t tail_before = tail_off();
    /* §6: the buffer stops being outstanding when the release call starts */
    memmove(&fifo[0], &fifo[1], sizeof(fifo[0]) * (size_t)(nout - 1));
    --nout;
    aws_ring_buffer_release(&rb, &o.buf);
    ev[EV_RELEASE] = 1;
    if (nout == 0) ev[EV_RELEASE_TO_EMPTY] = 1;
    if (tail_off() < tail_before) ev[EV_TAIL_JUMPS_BACK] = 1;
    check_invariant("release(oldest)");
}

/* configuration "-eh": the thread has an error handler that is itself a client of the ring (it takes one byte for an
 * error record whenever the library raises an error inside an acquire call, at most once per call).  Whenever the library
 * calls it, the ring has to be in a state in which that nested acquire is just another operation: its buffer is recorded
 * like any other and the outer call's result must be disjoint from it (added after a seeded change whose acquire_up_to
 * raised - and recovered from - an error halfway through, then granted from the snapshot taken before) */
static void record_grant(struct aws_byte_buf dest, const char *nm, size_t head_before);
static void eh_fn(int err, void *ctx) {
    (void)err;
    (void)ctx;
    if (!g_eh || !g_in_call || g_eh_fired) return;
    g_eh_fired = 1;
    struct aws_byte_buf rec;
    AWS_ZERO_STRUCT(rec);
    size_t hb = head_off();
    g_in_call = 0; /* the nested refusal raises again: do not recurse */
    int rc = aws_ring_buffer_acquire(&rb, 1, &rec);
    g_in_call = 1;
    if (rc == AWS_OP_SUCCESS && !esx_failed) {
        V_COUNT("error_handler_nested_grants", 1);
        if (rec.capacity != 1 || rec.buffer < base || rec.buffer >= base + S) {
            esx_fail("outside-storage", "error handler's nested acquire(1) granted %zu bytes at offset %td", rec.capacity, rec.buffer ? rec.buffer - base : (ptrdiff_t)-1);
            return;
        }
        record_grant(rec, "acquire(1) from the error handler", hb);
    }
}

static void do_acquire(int is_upto, size_t min, size_t n, const char *nm) {
    struct aws_byte_buf dest;
    AWS_ZERO_STRUCT(dest);
    size_t used_bytes = 0, gap = 0;
    {
        /* free-space bookkeeping for the vacuity counters only (never part of a verdict) */
        uint8_t occ[MAXS + 2] = {0};
        for (int i = 0; i < nout; ++i)
            for (size_t k = 0; k < fifo[i].len; ++k) occ[fifo[i].off + k] = 1;
        size_t run = 0;
        for (size_t k = 0; k < S; ++k) {
            used_bytes += occ[k];
            run = occ[k] ? 0 : run + 1;
            if (run > gap) gap = run;
        }
    }
    size_t head_before = head_off();
    aws_reset_error();
    g_in_call = 1;
    g_eh_fired = 0;
    int nout_before = nout;
    int rc = is_upto ? aws_ring_buffer_acquire_up_to(&rb, min, n, &dest) : aws_ring_buffer_acquire(&rb, n, &dest);
    g_in_call = 0;
    if (esx_failed) return;
    if (nout != nout_before) { /* the error handler took a byte during the call: the vacuity bookkeeping above is stale */
        used_bytes = S;
        gap = 0;
    }

    if (rc != AWS_OP_SUCCESS && rc != AWS_OP_ERR) {
        esx_fail("return-code", "%s returned %d", nm, rc);
        return;
    }
    if (rc == AWS_OP_ERR) {
        ev[EV_REFUSE] = 1;
        size_t need = is_upto ? min : n;
        if (S - used_bytes >= need) ev[EV_REFUSE_TOTAL_OK] = 1;
        if (gap >= need) ev[EV_REFUSE_GAP_OK] = 1;
        if (nout_before == 0 && n <= S) {
            if (used && n == S)
                esx_fail("capacity-not-restored", "%s refused (error %d) although every buffer has been released: full capacity %zu is not available again (head %zu, tail %zu)",
                         nm, aws_last_error(), S, head_off(), tail_off());
            else
                esx_fail("idle-request-refused", "%s refused (error %d) with nothing outstanding on a ring of %zu bytes (head %zu, tail %zu)", nm,
                         aws_last_error(), S, head_off(), tail_off());
            return;
        }
        ESX_CHECK(aws_last_error() == AWS_ERROR_OOM, "error-code", "%s refused with error %d (%s), expected AWS_ERROR_OOM", nm, aws_last_error(),
                  aws_error_name(aws_last_error()));
        ESX_CHECK(dest.buffer == NULL && dest.capacity == 0, "refusal-hands-out", "%s failed but dest holds %zu bytes at offset %td", nm, dest.capacity,
                  dest.buffer ? dest.buffer - base : (ptrdiff_t)-1);
        if (!esx_failed) check_invariant(nm);
        return;
    }

    /* ---- a grant ---- */
    ev[EV_GRANT] = 1;
    size_t len = dest.capacity;
    if (is_upto)
        ESX_CHECK(len >= min && len <= n, "size-up-to", "%s granted %zu bytes", nm, len);
    else
        ESX_CHECK(len == n, "size", "%s granted %zu bytes", nm, len);
    /* header: the up-to form falls back to a smaller grant only "if [requested_size is] not available"; with nothing outstanding
     * the full capacity is available, so a request not larger than the ring gets all of it */
    if (is_upto && !esx_failed && nout_before == 0 && nout == 0 && n <= S)
        ESX_CHECK(len == n, "idle-up-to-short", "%s granted only %zu bytes with nothing outstanding on a ring of %zu bytes (head was at %zu)", nm, len, S, head_before);
    if (esx_failed) return;
    ESX_CHECK(dest.buffer != NULL, "outside-storage", "%s succeeded with a NULL buffer", nm);
    if (esx_failed) return;
    ptrdiff_t off = dest.buffer - base;
    ESX_CHECK(off >= 0 && (size_t)off <= S && len <= S - (size_t)off, "outside-storage", "%s granted [%td,%td) on a ring of %zu bytes", nm, off,
              off + (ptrdiff_t)len, S);
    if (esx_failed) return;
    /* vacuity events */
    if (nout > 0 && (size_t)off < head_before) ev[EV_WRAP] = 1;
    if (nout == 0 && used) ev[EV_EMPTY_RESET] = 1;
    if ((size_t)off + len == S) ev[EV_HEAD_AT_END] = 1;
    if (is_upto && len < n) {
        ev[EV_UPTO_PARTIAL] = 1;
        if (nout > 0) ev[EV_UPTO_PARTIAL_NONEMPTY] = 1;
        if (nout == 0 && n > S) ev[EV_UPTO_OVER_RING_GRANTED] = 1;
    }
    record_grant(dest, nm, head_before);
    if (!esx_failed) check_invariant(nm);
}

/* a granted buffer (already known to lie inside the storage): disjoint from everything outstanding, then recorded and
 * filled with its own byte */
static void record_grant(struct aws_byte_buf dest, const char *nm, size_t head_before) {
    ptrdiff_t off = dest.buffer - base;
    size_t len = dest.capacity;
    for (int i = 0; i < nout; ++i) {
        const struct out *o = &fifo[i];
        if ((size_t)off < o->off + o->len && o->off < (size_t)off + len) {
            esx_fail("overlap", "%s granted [%td,%td) which overlaps outstanding buffer #%d [%zu,%zu) (head %zu -> %zu, tail %zu)", nm, off,
                     off + (ptrdiff_t)len, i, o->off, o->off + o->len, head_before, head_off(), tail_off());
            return;
        }
    }
    ESX_CHECK(aws_byte_buf_is_valid(&dest) && dest.len <= dest.capacity, "dest-invalid", "%s: granted aws_byte_buf is not valid (len %zu, capacity %zu)", nm,
              dest.len, dest.capacity);
    if (esx_failed) return;
    if (nout >= MAXOUT) {
        fprintf(stderr, "harness FIFO overflow\n");
        _exit(2);
    }
    struct out *o = &fifo[nout++];
    o->buf = dest;
    o->off = (size_t)off;
    o->len = len;
    o->fill = (uint8_t)(1 + next_id++ % 250);
    memset(dest.buffer, o->fill, len);
    used = 1;
}

/* configuration "-two": a second ring of another size lives next to the one under test and is used between its operations
 * (acquire one byte, release it: the companion passes through its idle state every time).  Whatever a ring needs to know
 * about itself has to come from that ring (added after a seeded change that kept the storage size in a file-scope static,
 * refreshed whenever any ring was idle: one ring alone is always right).
 * configuration "-hand": every second operation is issued by a freshly created helper thread while the owner waits in the
 * join - the ring is used by one thread at a time, only not always the same one (added after a seeded change that cached
 * the head pointer in thread-local storage of the acquiring thread). */
static void companion_activity(void) {
    if (!g_two || !rb2_live) return;
    struct aws_byte_buf b;
    AWS_ZERO_STRUCT(b);
    g_in_call = 0;
    if (aws_ring_buffer_acquire(&rb2, 1, &b) == AWS_OP_SUCCESS) aws_ring_buffer_release(&rb2, &b);
    else esx_fail("idle-request-refused", "the idle companion ring of %zu bytes refused acquire(1)", S + 48);
}
static void apply_body(int op) {
    char nm[64];
    m_opname(op, nm, sizeof(nm));
    if (op == op_release) do_release();
    else if (op < op_release) do_acquire(0, 0, (size_t)op + 1, nm);
    else if (op < op_big) do_acquire(1, upto_tab[op].min, upto_tab[op].n, nm);
    else do_acquire(big_tab[op - op_big].upto, big_tab[op - op_big].upto ? big_min(op - op_big) : 0, big_n(op - op_big), nm);
}
static void *apply_on_helper(void *p) {
    apply_body((int)(intptr_t)p);
    return NULL;
}
static void m_apply(int op) {
    ++g_steps;
    memset(ev, 0, sizeof(ev));
    companion_activity();
    if (g_hand && (g_steps & 1) == 0) {
        pthread_t t;
        if (pthread_create(&t, NULL, apply_on_helper, (void *)(intptr_t)op) != 0) _exit(2);
        pthread_join(t, NULL);
    } else {
        apply_body(op);
    }
}

static size_t m_canon(uint8_t *b, size_t cap) {
    (void)cap;
    size_t o = 0, h = head_off(), t = tail_off();
    b[o++] = (uint8_t)(h > 250 ? 250 : h);
    b[o++] = (uint8_t)(t > 250 ? 250 : t);
    b[o++] = (uint8_t)used;
    b[o++] = (uint8_t)nout;
    for (int i = 0; i < nout; ++i) {
        b[o++] = (uint8_t)fifo[i].off;
        b[o++] = (uint8_t)fifo[i].len;
    }
    return o;
}

static struct esx_model model = {
    .reset = m_reset, .enabled = m_enabled, .apply = m_apply, .canon = m_canon, .opname = m_opname, .teardown = m_teardown,
};

static void set_size(size_t s, int variant) {
    S = s;
    g_eh = variant == 1;
    g_two = variant == 2;
    g_hand = variant == 3;
    snprintf(g_name, sizeof(g_name), "ring-s%zu%s", s, variant == 1 ? "-eh" : variant == 2 ? "-two" : variant == 3 ? "-hand" : "");
    model.name = g_name;
    op_release = (int)s + 1;
    int k = op_release + 1;
    for (size_t n = 1; n <= s + 1; ++n)
        for (size_t mn = 1; mn <= n; ++mn) {
            upto_tab[k].min = (uint8_t)mn;
            upto_tab[k].n = (uint8_t)n;
            ++k;
        }
    op_big = k;
    k += 5;
    n_ops = k;
    model.nops = k;
    model.max_depth = ESX_MAX_DEPTH; /* run to the fixpoint */
}

int main(int argc, char **argv) {
    v_init(argc, argv);
    aws_common_library_init(aws_default_allocator());
    size_t max_s = v_thorough() ? 12 : 8;
    int rc = 0;
    for (int eh = 0; eh < 4; ++eh)
        for (size_t s = 1; s <= MAXS - 2; ++s) {
            set_size(s, eh);
            if (v_replay_token) {
                if (esx_token_is_for(v_replay_token, g_name)) rc |= esx_replay(&model, v_replay_token);
                continue;
            }
            if (s > (eh ? max_s - 2 : max_s)) break;
            esx_run(&model);
            ESX_CYCLES(&model);
        }
    aws_set_thread_local_error_handler_fn(NULL, NULL);
    v_finish();
    return (v_sh->viol_count || rc) ? 1 : 0;
}
