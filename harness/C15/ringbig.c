/*
 * C15 — rings whose size does not fit 31 / 32 bits (BEE section; the property says "all ring sizes").
 *
 * ringseq explores rings of 1..12 bytes to a fixpoint and fills every granted buffer.  Distances between head and tail
 * of 2^31 and more, and capacities of 2^32 and more, are a different regime: any place where the implementation narrows
 * a size or a pointer difference to 32 bits behaves exactly like the original below those thresholds (added after two
 * seeded changes of that kind).  Here the ring storage is address space only (an allocator that maps, never touches,
 * the pages), buffers are not written, and the oracle is the interval arithmetic of the property:
 *   granted buffer inside [allocation, allocation_end), of the requested size (or min..n for acquire_up_to), disjoint
 *   from every buffer not yet released; nothing outstanding => any request <= capacity succeeds; after everything was
 *   released the full capacity is available again; a refusal raises AWS_ERROR_OOM and hands out nothing.
 * Programs: every sequence of up to 5 operations over
 *   acquire(64) acquire(1000) acquire(S/4) acquire(S/2 + 4096) acquire(S) acquire(fill up to 32 bytes before the end)
 *   acquire_up_to(8192, 65536) acquire_up_to(S/2, S) release(oldest)
 * for S in {2^31 + 4096, 3 * 2^30, 2^32 + 4096}; each program is followed by "release everything, then acquire(S)".
 */
#include "bee.h"
#include <aws/common/byte_buf.h>
#include <aws/common/ring_buffer.h>
#include <setjmp.h>
#include <signal.h>
#include <sys/mman.h>

static const uint64_t RING[3] = {(1ull << 31) + 4096, 3ull << 30, (1ull << 32) + 4096};
#define NOPS 9
#define MAXLEN 5

/* The storage is address space only: nothing in the property requires the implementation to read or write the ring's own
 * bytes, and the original never does.  An implementation that does (wipes released buffers, zero-fills the ring) is as
 * right; its first access faults here, and since giga-bytes of committed memory per worker are not available, such an
 * item is abandoned and counted - never reported (a behaviour-preserving change that wiped released bytes with
 * aws_secure_zero showed the first version of this harness raising a false alarm). */
static uint8_t *g_store_lo, *g_store_hi;
static sigjmp_buf g_touch_env;
static volatile sig_atomic_t g_touch_armed;
static struct sigaction g_prev_segv;
static int g_have_prev;
static void on_segv(int sig, siginfo_t *si, void *uc) {
    (void)uc;
    uint8_t *addr = (uint8_t *)si->si_addr;
    if (g_touch_armed && addr >= g_store_lo && addr < g_store_hi) {
        g_touch_armed = 0;
        siglongjmp(g_touch_env, 1);
    }
    sigaction(sig, &g_prev_segv, NULL); /* anything else is a real fault: let it happen again and be reported by the sanitizer */
}
static void *big_acquire(struct aws_allocator *a, size_t size) {
    (void)a;
    size_t len = size + 4096;
    uint8_t *p = (uint8_t *)mmap(NULL, len, PROT_NONE, MAP_PRIVATE | MAP_ANONYMOUS | MAP_NORESERVE, -1, 0);
    if (p == MAP_FAILED) {
        perror("ringbig mmap");
        _exit(2);
    }
    mprotect(p, 4096, PROT_READ | PROT_WRITE);
    *(size_t *)p = len;
    if (size >= (1u << 30)) {
        g_store_lo = p + 4096;
        g_store_hi = p + len;
    }
    return p + 4096;
}
static void big_release(struct aws_allocator *a, void *ptr) {
    (void)a;
    uint8_t *p = (uint8_t *)ptr - 4096;
    munmap(p, *(size_t *)p);
}
static void *big_calloc(struct aws_allocator *a, size_t n, size_t sz) { return big_acquire(a, n * sz); } /* fresh mappings read as zero */
static struct aws_allocator big_alloc = {.mem_acquire = big_acquire, .mem_release = big_release, .mem_realloc = NULL, .mem_calloc = big_calloc, .impl = NULL};

struct iv {
    uint64_t off, len;
};

static uint64_t big_total(void) {
    uint64_t t = 0, p = 1;
    for (int l = 0; l <= MAXLEN; ++l) {
        t += p;
        p *= NOPS;
    }
    return 3 * t;
}

static void big_eval(uint64_t idx, void *ctx) {
    (void)ctx;
    BEE_ITEM(idx);
    uint64_t x = idx;
    uint64_t S = RING[bee_digit(&x, 3)];
    int len = 0;
    uint64_t p = 1;
    while (x >= p) {
        x -= p;
        p *= NOPS;
        ++len;
    }
    int ops[MAXLEN + 1];
    for (int i = 0; i < len; ++i) ops[i] = (int)bee_digit(&x, NOPS);
    V_COUNT("evaluations", 1);
    struct aws_ring_buffer rb;
    AWS_ZERO_STRUCT(rb);
    {
        struct sigaction sa;
        memset(&sa, 0, sizeof(sa));
        sa.sa_sigaction = on_segv;
        sa.sa_flags = SA_SIGINFO | SA_NODEFER;
        struct sigaction prev;
        sigaction(SIGSEGV, &sa, &prev);
        if (!g_have_prev) g_prev_segv = prev, g_have_prev = 1;
    }
    g_store_lo = g_store_hi = NULL;
    if (sigsetjmp(g_touch_env, 1)) {
        V_COUNT("items_abandoned", 1); /* the implementation touches the ring's own storage */
        if (g_store_lo) munmap(g_store_lo - 4096, (size_t)(g_store_hi - g_store_lo) + 4096);
        g_store_lo = g_store_hi = NULL;
        return;
    }
    g_touch_armed = 1;
    if (aws_ring_buffer_init(&rb, &big_alloc, (size_t)S) != AWS_OP_SUCCESS) {
        bee_fail("init-failed", "aws_ring_buffer_init(%" PRIu64 ") failed", S);
        return;
    }
    uint8_t *base = rb.allocation;
    BEE_CHECK((uint64_t)(rb.allocation_end - rb.allocation) == S, "storage", "ring of %" PRIu64 " bytes: allocation_end - allocation = %" PRIu64, S, (uint64_t)(rb.allocation_end - rb.allocation));
    struct iv out[MAXLEN + 2];
    struct aws_byte_buf bufs[MAXLEN + 2];
    int nout = 0, first = 0; /* outstanding = out[first..nout) */
    char prog[400];
    size_t po = 0;
    prog[0] = 0;
    int used_far = 0;
    for (int step = 0; step <= len + 1 && !v_sh->viol_count; ++step) {
        int op;
        uint64_t mn = 0, n = 0;
        if (step < len) op = ops[step];
        else if (step == len) op = -1; /* release everything */
        else op = 4;                   /* acquire(S): the full capacity is available again */
        if (op == -1) {
            while (first < nout) aws_ring_buffer_release(&rb, &bufs[first++]);
            po += (size_t)snprintf(prog + po, sizeof(prog) - po, "release all; ");
            continue;
        }
        if (op == 8) {
            if (first == nout) continue; /* nothing to release: no-op */
            aws_ring_buffer_release(&rb, &bufs[first++]);
            po += (size_t)snprintf(prog + po, sizeof(prog) - po, "release; ");
            BEE_CHECK(bufs[first - 1].buffer == NULL && bufs[first - 1].capacity == 0, "release-clears-buffer", "[%s] release left the byte_buf pointing at memory", prog);
            continue;
        }
        switch (op) {
            case 0: n = 64; break;
            case 1: n = 1000; break;
            case 2: n = S / 4; break;
            case 3: n = S / 2 + 4096; break;
            case 4: n = S; break;
            case 5: { /* up to 32 bytes before the end of the storage, measured from the end of the newest buffer */
                uint64_t end_newest = nout > first ? out[nout - 1].off + out[nout - 1].len : 0;
                n = end_newest + 32 < S ? S - 32 - end_newest : 64;
                break;
            }
            case 6: mn = 8192, n = 65536; break;
            case 7: mn = S / 2, n = S; break;
        }
        struct aws_byte_buf b;
        AWS_ZERO_STRUCT(b);
        aws_reset_error();
        int rc = mn ? aws_ring_buffer_acquire_up_to(&rb, (size_t)mn, (size_t)n, &b) : aws_ring_buffer_acquire(&rb, (size_t)n, &b);
        if (mn) po += (size_t)snprintf(prog + po, sizeof(prog) - po, "acquire_up_to(%" PRIu64 ",%" PRIu64 ")%s; ", mn, n, rc ? "=refused" : "");
        else po += (size_t)snprintf(prog + po, sizeof(prog) - po, "acquire(%" PRIu64 ")%s; ", n, rc ? "=refused" : "");
        int idle = first == nout;
        if (rc != AWS_OP_SUCCESS) {
            BEE_CHECK(rc == AWS_OP_ERR && aws_last_error() == AWS_ERROR_OOM, "error-code", "[%s] ring %" PRIu64 ": refusal with rc %d / error %d", prog, S, rc, aws_last_error());
            BEE_CHECK(b.buffer == NULL && b.capacity == 0, "refusal-hands-out", "[%s] a refused request handed out memory", prog);
            if (idle && (mn ? mn : n) <= S)
                bee_fail(step == len + 1 ? "capacity-not-restored" : "idle-request-refused", "[%s] ring of %" PRIu64 " bytes with nothing outstanding refused a request for %" PRIu64 " bytes", prog, S, mn ? mn : n);
            continue;
        }
        uint64_t off = (uint64_t)(b.buffer - base), cap = b.capacity;
        V_COUNT("grants", 1);
        if (off + cap > (1ull << 31)) used_far = 1;
        BEE_CHECK(b.buffer >= base && off <= S && cap <= S - off, "outside-storage", "[%s] ring %" PRIu64 ": granted [%" PRIu64 ",+%" PRIu64 ") leaves the storage", prog, S, off, cap);
        if (mn) BEE_CHECK(cap >= mn && cap <= n, "size-up-to", "[%s] acquire_up_to(%" PRIu64 ",%" PRIu64 ") granted %" PRIu64 " bytes", prog, mn, n, cap);
        else BEE_CHECK(cap == n, "size", "[%s] acquire(%" PRIu64 ") granted %" PRIu64 " bytes", prog, n, cap);
        if (mn && idle && n <= S) BEE_CHECK(cap == n, "idle-up-to-short", "[%s] ring %" PRIu64 " with nothing outstanding: acquire_up_to granted only %" PRIu64 " bytes", prog, S, cap);
        BEE_CHECK(b.len == 0, "dest-invalid", "[%s] granted buffer has len %zu", prog, b.len);
        for (int k = first; k < nout; ++k)
            BEE_CHECK(off + cap <= out[k].off || out[k].off + out[k].len <= off, "overlap", "[%s] ring %" PRIu64 ": granted [%" PRIu64 ",+%" PRIu64 ") overlaps the unreleased buffer [%" PRIu64 ",+%" PRIu64 ")", prog, S,
                      off, cap, out[k].off, out[k].len);
        out[nout].off = off;
        out[nout].len = cap;
        bufs[nout] = b;
        ++nout;
    }
    if (used_far) V_COUNT("nontrivial", 1); /* some buffer reached beyond offset 2^31 */
    while (first < nout) aws_ring_buffer_release(&rb, &bufs[first++]);
    aws_ring_buffer_clean_up(&rb);
    g_touch_armed = 0;
    if (idx == 4242) v_sample("ring of %" PRIu64 " bytes: %s", S, prog);
}

int main(int argc, char **argv) {
    v_init(argc, argv);
    bee_register("ringbig", big_total, big_eval, 20);
    return bee_main(argc, argv);
}
