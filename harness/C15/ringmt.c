/*
 * C15 (concurrent half) — ring buffer, one acquirer thread and one releaser thread, under VSX.
 * Schedule points: every atomic load/store of head and tail inside ring_buffer.c (force-included hooks),
 * plus explicit yields in the harness's polling loops.  A buffer is outstanding from the moment acquire
 * returns it until its release call starts (DESIGN §6).
 */
#include <stddef.h>
#ifdef VSX_FREE
#    define GALLOC_PASSTHROUGH 1
#    include "vsx_free.h"
#else
#    include "vsx.h"
#endif
#include "galloc.h"
#include <aws/common/byte_buf.h>
#include <aws/common/ring_buffer.h>

#define MAXP 4
struct elem {
    int upto; /* 0: acquire(n)  1: acquire_up_to(min,n) */
    size_t min, n;
};
static size_t g_size;
static struct elem g_prog[MAXP];
static int g_len;

static struct aws_ring_buffer ring;
static struct aws_byte_buf granted[MAXP];
static size_t g_off[MAXP], g_cap[MAXP];
static volatile int n_granted, n_release_started, n_released;
/* hand-off between the two harness threads: real release/acquire atomics, so that the free-running ThreadSanitizer twin sees
 * the harness's own synchronisation (under the controlled scheduler they are ordinary loads and stores: this TU is not hooked) */
#define HS_SET(var, val) __atomic_store_n(&(var), (val), __ATOMIC_SEQ_CST)
#define HS_GET(var) __atomic_load_n(&(var), __ATOMIC_SEQ_CST)
static int outstanding[MAXP];
static int acq_fail_spins;

static void *releaser(void *arg) {
    (void)arg;
    for (int k = 0; k < g_len; ++k) {
        while (HS_GET(n_granted) <= k) vs_user_yield();
        outstanding[k] = 0; /* release starts */
        HS_SET(n_release_started, k + 1);
        aws_ring_buffer_release(&ring, &granted[k]);
        HS_SET(n_released, k + 1);
    }
    return NULL;
}

static void check_grant(int k, const struct aws_byte_buf *b) {
    const struct elem *e = &g_prog[k];
    uint8_t *base = ring.allocation;
    VS_CHECK(b->buffer >= base && b->buffer + b->capacity <= base + g_size, "outside-storage", "grant %d [%td,+%zu) leaves the %zu-byte ring", k,
             b->buffer - base, b->capacity, g_size);
    if (e->upto)
        VS_CHECK(b->capacity >= e->min && b->capacity <= e->n, "size-up-to", "grant %d: up_to(%zu,%zu) returned %zu bytes", k, e->min, e->n, b->capacity);
    else
        VS_CHECK(b->capacity == e->n, "size", "grant %d: acquire(%zu) returned %zu bytes", k, e->n, b->capacity);
    VS_CHECK(b->len == 0, "len", "granted buffer has len %zu", b->len);
    size_t off = (size_t)(b->buffer - base);
    for (int j = 0; j < k; ++j)
        if (outstanding[j] && off < g_off[j] + g_cap[j] && g_off[j] < off + b->capacity)
            vs_fail("overlap", "grant %d [%zu,+%zu) overlaps buffer %d [%zu,+%zu) whose release has not started (ring %zu)", k, off, b->capacity, j, g_off[j],
                    g_cap[j], g_size);
    g_off[k] = off;
    g_cap[k] = b->capacity;
}

static void run_prog(void) {
    galloc_reset();
    struct aws_allocator *a = galloc_get(0, 0);
    n_granted = n_release_started = n_released = 0;
    memset(outstanding, 0, sizeof(outstanding));
    if (aws_ring_buffer_init(&ring, a, g_size)) vs_harness_error("ring init");
    pthread_t r;
    pthread_create(&r, NULL, releaser, NULL);
    for (int k = 0; k < g_len; ++k) {
        const struct elem *e = &g_prog[k];
        for (;;) {
            struct aws_byte_buf b;
            AWS_ZERO_STRUCT(b);
            aws_reset_error();
            int released_before = HS_GET(n_released); /* releases COMPLETED before this call began */
            int rc = e->upto ? aws_ring_buffer_acquire_up_to(&ring, e->min, e->n, &b) : aws_ring_buffer_acquire(&ring, e->n, &b);
            if (rc == AWS_OP_SUCCESS) {
                check_grant(k, &b);
                granted[k] = b;
                outstanding[k] = 1;
                HS_SET(n_granted, k + 1);
                break;
            }
            VS_CHECK(aws_last_error() == AWS_ERROR_OOM, "error-code", "acquire failed with error %d", aws_last_error());
            size_t need = e->upto ? e->min : e->n;
            if (need > g_size) { /* can never succeed: skip this element */
                granted[k] = b;
                g_cap[k] = 0;
                outstanding[k] = 0;
                HS_SET(n_granted, k + 1);
                break;
            }
            /* everything granted so far had been completely released before the call began => must succeed */
            if (released_before == k && need <= g_size) {
                vs_fail("idle-request-refused", "request %d (need %zu) refused although nothing was outstanding (ring %zu)", k, need, g_size);
                return;
            }
            vs_user_yield(); /* wait for the releaser */
        }
    }
    pthread_join(r, NULL);
    /* everything released: full capacity must be available again */
    struct aws_byte_buf all;
    AWS_ZERO_STRUCT(all);
    int rc = aws_ring_buffer_acquire(&ring, g_size, &all);
    VS_CHECK(rc == AWS_OP_SUCCESS && all.capacity == g_size && all.buffer == ring.allocation, "capacity-not-restored",
             "after releasing everything acquire(%zu) gave rc=%d capacity=%zu", g_size, rc, all.capacity);
    aws_ring_buffer_clean_up(&ring);
    VS_CHECK(ga.live_blocks == 0, "leak", "ring storage not returned");
}

/* ---- program enumeration ---- */
static int alphabet(struct elem *out, size_t size) {
    int n = 0;
    out[n++] = (struct elem){0, 0, 1};
    out[n++] = (struct elem){0, 0, 2};
    out[n++] = (struct elem){0, 0, 3};
    out[n++] = (struct elem){0, 0, size};
    out[n++] = (struct elem){1, 1, size};
    out[n++] = (struct elem){1, 2, 3};
    return n;
}
static char names[4096][40];
static struct {
    size_t size;
    int len;
    struct elem p[MAXP];
} progs[4096];
static int nprogs;
static int cur_prog;
static void run_cur(void) {
    g_size = progs[cur_prog].size;
    g_len = progs[cur_prog].len;
    memcpy(g_prog, progs[cur_prog].p, sizeof(g_prog));
    run_prog();
}
static void add_prog(size_t size, const int *sym, int len) {
    struct elem al[8];
    alphabet(al, size);
    progs[nprogs].size = size;
    progs[nprogs].len = len;
    size_t o = (size_t)snprintf(names[nprogs], sizeof(names[0]), "ring%zu-", size);
    for (int i = 0; i < len; ++i) {
        progs[nprogs].p[i] = al[sym[i]];
        o += (size_t)snprintf(names[nprogs] + o, sizeof(names[0]) - o, "%c", "123SUV"[sym[i]]);
    }
    nprogs++;
}

/* each program is its own scenario; scenario functions need distinct entry points -> trampoline table */
static struct vsx_scenario scs[4096];
static void (*const tramp_none)(void) = NULL;
static void run_indexed(void);
static int run_index_for_child;
static void run_indexed(void) {
    cur_prog = run_index_for_child;
    run_cur();
}

int main(int argc, char **argv) {
    v_init(argc, argv);
    aws_common_library_init(aws_default_allocator());
    (void)tramp_none;
    /* programs: every sequence over the alphabet up to the stated length; each program is explored at its bound.
     * quick   : ring 6, alphabet {2,3,S,U(1,S)}, all programs of length <= 4 (a wrap needs three grants, and the state
     *           "wrapped, two buffers outstanding, request larger than the tail gap" needs a fourth - added after a
     *           seeded interleaving bug in the wrapped branch that the length-3 programs could not reach);
     *           ring 4, full alphabet, length <= 2.
     * thorough: rings 4 and 6, full alphabet, length <= 4. */
    {
        static const int sub4[4] = {1, 2, 3, 4}; /* 2,3,S,U */
        int maxlen_full = v_thorough() ? 4 : 2;
        size_t sizes[2] = {4, 6};
        for (int s = 0; s < 2; ++s) {
            if (!v_thorough() && sizes[s] == 6) continue;
            for (int len = 1; len <= maxlen_full; ++len) {
                int total = 1;
                for (int i = 0; i < len; ++i) total *= 6;
                for (int x = 0; x < total; ++x) {
                    int sym[MAXP], y = x;
                    for (int i = 0; i < len; ++i) {
                        sym[i] = y % 6;
                        y /= 6;
                    }
                    add_prog(sizes[s], sym, len);
                }
            }
        }
        if (!v_thorough())
            for (int len = 1; len <= 4; ++len) {
                int total = 1;
                for (int i = 0; i < len; ++i) total *= 4;
                for (int x = 0; x < total; ++x) {
                    int sym[MAXP], y = x;
                    for (int i = 0; i < len; ++i) {
                        sym[i] = sub4[y % 4];
                        y /= 4;
                    }
                    add_prog(6, sym, len);
                }
            }
    }
    int rc = 0;
    /* vsx_main takes an array of scenarios; all share run_indexed and select the program through a global set before fork */
    for (int i = 0; i < nprogs; ++i) {
        scs[i].name = names[i];
        scs[i].run = run_indexed;
        scs[i].bound_quick = 2;
        scs[i].bound_thorough = progs[i].len >= 4 ? 2 : 3;
        scs[i].horizon = 3000;
    }
    for (int i = 0; i < nprogs; ++i) {
#ifdef VSX_FREE
        if (i % (nprogs / 24 + 1) != 0) continue; /* the free-running ThreadSanitizer twin samples two dozen programs */
#endif
        run_index_for_child = i;
        if (v_replay_token) {
            size_t l = strlen(names[i]);
            if (strncmp(v_replay_token, names[i], l) == 0 && v_replay_token[l] == ':') rc |= vsx_replay(&scs[i], v_replay_token);
            continue;
        }
        vsx_explore(&scs[i], v_thorough() ? scs[i].bound_thorough : scs[i].bound_quick);
    }
    V_COUNT("states", vsx_states.n);
    V_COUNT("distinct_outcomes", vsx_outcomes.n);
    v_finish();
    return (v_sh->viol_count || rc) ? 1 : 0;
}
