/*
 * C11 — JSON object / array access coherence under ESX (DESIGN §5 C11).
 *
 * One real object and one real array are driven over every operation history; the reference is an ordered list of
 * (name, value) pairs and an ordered list of element values.  After every operation the real state is read back
 * (compact serialisation, iteration order, size, every in-range element, every name of the alphabet) and compared.
 *
 * Configurations:
 *   json-seq        names {a, b, ""}  + the array            (<= 3 members, <= 3 elements)
 *   json-seq-case   names {a, A, ""}  (object only)          json.h: member names are case sensitive
 *
 * Values are chosen so that the state space is finite and no two live values are equal: the member added under name k is
 * kind(k)(10*(k+1) + gen[k]) where gen[k] flips at every successful add of k (so a re-added member differs from the one
 * removed before and from the one a refused add tried to insert); the element appended is the smallest number in 0..3
 * that the array does not hold.
 *
 * Canonical state = the two emitted compact texts + the reference lists + gen bits.  Two histories with the same
 * canonical state have the same futures: every later verdict is a function of the emitted texts / accessors (which are
 * functions of the ordered contents) and of the next values to insert (functions of gen bits and of the array contents).
 */
#include "esx.h"
#include "galloc.h"
#include <aws/common/byte_buf.h>
#include <aws/common/json.h>

#define NK 3
#define MAXEL 3
static struct aws_allocator *A;
static struct {
    char name[32];
    const char *keys[NK];
    int with_array;
} g_cfg;

static struct aws_json_value *O, *R;
/* reference */
static int okey[NK], oval[NK], on; /* members in order: name index, value number */
static int gen[NK];
static int aval[MAXEL + 1], an;

enum {
    OP_ADD = 0,            /* 3: add_to_object (cursor) */
    OP_ADD_CSTR = 3,       /* 3: add_to_object_c_str */
    OP_GET = 6,            /* 3 */
    OP_HAS = 9,            /* 3 */
    OP_REMOVE = 12,        /* 3: remove_from_object (cursor) */
    OP_REMOVE_CSTR = 15,   /* 3 */
    OP_ARR_ADD = 18,       /* 1 */
    OP_ARR_GET = 19,       /* 5: index 0, 1, last, size, size+1 */
    OP_ARR_REMOVE = 24,    /* 5 */
    OP_ARR_SIZE = 29,
    OP_DUP_OBJ = 30,       /* replace the object by aws_json_value_duplicate() of itself, destroy the original */
    OP_DUP_ARR = 31,       /* same for the array: every later operation then works on a duplicate */
    NOPS = 32
};
static int o_is_dup, r_is_dup; /* provenance is part of the canonical state: a duplicate is a different object internally
                                * (own tail pointers etc.), so everything is explored again on duplicates (added after a
                                * seeded change in cJSON_Duplicate that only showed when appending to a duplicate) */
static const char *IDXNAME[5] = {"0", "1", "last", "size", "size+1"};

static bool ieq(const char *a, const char *b) {
    for (; *a && *b; ++a, ++b) {
        char x = *a, y = *b;
        if (x >= 'A' && x <= 'Z') x = (char)(x + 32);
        if (y >= 'A' && y <= 'Z') y = (char)(y + 32);
        if (x != y) return false;
    }
    return *a == *b;
}
static int ref_find(int k) {
    for (int i = 0; i < on; ++i)
        if (okey[i] == k) return i;
    return -1;
}
/* a present member whose name differs from keys[k] only in case (the library's lookup would find it) */
static int ref_case_twin(int k) {
    for (int i = 0; i < on; ++i)
        if (okey[i] != k && ieq(g_cfg.keys[okey[i]], g_cfg.keys[k])) return i;
    return -1;
}
static struct aws_json_value *make_value(int k, int n) {
    char t[16];
    if (k == 0) return aws_json_value_new_number(A, (double)n);
    if (k == 1) {
        snprintf(t, sizeof(t), "s%d", n);
        return aws_json_value_new_string_from_c_str(A, t);
    }
    struct aws_json_value *a = aws_json_value_new_array(A);
    aws_json_value_add_array_element(a, aws_json_value_new_number(A, (double)n));
    return a;
}
static size_t value_text(char *o, int k, int n) {
    if (k == 0) return (size_t)sprintf(o, "%d", n);
    if (k == 1) return (size_t)sprintf(o, "\"s%d\"", n);
    return (size_t)sprintf(o, "[%d]", n);
}
static size_t expected_object_text(char *o) {
    size_t n = 0;
    o[n++] = '{';
    for (int i = 0; i < on; ++i) {
        if (i) o[n++] = ',';
        n += (size_t)sprintf(o + n, "\"%s\":", g_cfg.keys[okey[i]]);
        n += value_text(o + n, okey[i], oval[i]);
    }
    o[n++] = '}';
    o[n] = 0;
    return n;
}
static size_t expected_array_text(char *o) {
    size_t n = 0;
    o[n++] = '[';
    for (int i = 0; i < an; ++i) n += (size_t)sprintf(o + n, "%s%d", i ? "," : "", aval[i]);
    o[n++] = ']';
    o[n] = 0;
    return n;
}
static size_t emit(const struct aws_json_value *v, char *o, size_t cap) {
    struct aws_byte_buf b;
    aws_byte_buf_init(&b, A, 4);
    size_t n = 0;
    if (aws_byte_buf_append_json_string(v, &b) == AWS_OP_SUCCESS) {
        n = b.len < cap - 1 ? b.len : cap - 1;
        memcpy(o, b.buffer, n);
    } else {
        n = (size_t)snprintf(o, cap, "<serialise failed>");
    }
    o[n] = 0;
    aws_byte_buf_clean_up_secure(&b);
    return n;
}

struct members {
    int n;
    struct aws_byte_cursor key[8];
    const struct aws_json_value *val[8];
};
static int on_member(const struct aws_byte_cursor *key, const struct aws_json_value *value, bool *cont, void *ud) {
    (void)cont;
    struct members *m = (struct members *)ud;
    if (m->n < 8) {
        m->key[m->n] = *key;
        m->val[m->n] = value;
    }
    m->n++;
    return AWS_OP_SUCCESS;
}

/* read the whole real state back and compare with the reference */
static void check_state(const char *after) {
    char want[160], got[160];
    expected_object_text(want);
    emit(O, got, sizeof(got));
    ESX_CHECK(strcmp(want, got) == 0, "object-contents", "after %s: object serialises as %s, reference says %s", after, got, want);
    if (esx_failed) return;
    struct members m = {0};
    ESX_CHECK(aws_json_const_iterate_object(O, on_member, &m) == AWS_OP_SUCCESS && m.n == on, "object-iterate", "after %s: iteration visits %d members, reference has %d", after, m.n, on);
    if (esx_failed) return;
    for (int i = 0; i < on; ++i) {
        const char *kn = g_cfg.keys[okey[i]];
        ESX_CHECK(m.key[i].len == strlen(kn) && memcmp(m.key[i].ptr, kn, m.key[i].len) == 0, "member-order", "after %s: member %d is named <%.*s>, reference says <%s>", after, i,
                  (int)m.key[i].len, (const char *)m.key[i].ptr, kn);
    }
    for (int k = 0; k < NK && !esx_failed; ++k) {
        int at = ref_find(k);
        if (at < 0 && ref_case_twin(k) >= 0) continue; /* judged by the explicit get/has/remove operations only */
        if (at >= 0 && ref_case_twin(k) >= 0 && ref_case_twin(k) < at) continue;
        struct aws_byte_cursor kc = aws_byte_cursor_from_c_str(g_cfg.keys[k]);
        bool has = aws_json_value_has_key(O, kc);
        const struct aws_json_value *g = aws_json_value_get_from_object(O, kc);
        ESX_CHECK(has == (at >= 0), "has-key", "after %s: has_key(<%s>) = %d, reference says %d", after, g_cfg.keys[k], has, at >= 0);
        ESX_CHECK(g == (at >= 0 ? m.val[at] : NULL), "get-from-object", "after %s: get_from_object(<%s>) returned %s", after, g_cfg.keys[k],
                  g ? (at >= 0 ? "another member" : "a value for an absent name") : "NULL for a present member");
    }
    if (esx_failed || !g_cfg.with_array) return;
    expected_array_text(want);
    emit(R, got, sizeof(got));
    ESX_CHECK(strcmp(want, got) == 0, "array-contents", "after %s: array serialises as %s, reference says %s", after, got, want);
    ESX_CHECK(aws_json_get_array_size(R) == (size_t)an, "array-size", "after %s: size %zu, reference %d", after, aws_json_get_array_size(R), an);
    for (int i = 0; i < an && !esx_failed; ++i) {
        const struct aws_json_value *e = aws_json_get_array_element(R, (size_t)i);
        double d = -1;
        ESX_CHECK(e && aws_json_value_get_number(e, &d) == AWS_OP_SUCCESS && d == (double)aval[i], "array-index", "after %s: element %d reads %g, reference says %d", after, i, d, aval[i]);
    }
}

static void m_reset(void) {
    galloc_reset();
    O = aws_json_value_new_object(A);
    R = aws_json_value_new_array(A);
    on = an = 0;
    o_is_dup = r_is_dup = 0;
    memset(gen, 0, sizeof(gen));
    memset(okey, 0, sizeof(okey));
    memset(oval, 0, sizeof(oval));
    memset(aval, 0, sizeof(aval));
}
static void m_teardown(void) {
    if (esx_failed) return; /* after a reported violation the state is unspecified; --replay does not tear down either */
    aws_json_value_destroy(O);
    aws_json_value_destroy(R);
    O = R = NULL;
    ESX_CHECK(ga.live_blocks == 0, "leak", "%llu blocks live after both values were destroyed", (unsigned long long)ga.live_blocks);
}
static size_t arr_index(int sel) {
    switch (sel) {
        case 0: return 0;
        case 1: return 1;
        case 2: return (size_t)an - 1;
        case 3: return (size_t)an;
        default: return (size_t)an + 1;
    }
}
static bool m_enabled(int op) {
    if (op >= OP_ARR_ADD) {
        if (!g_cfg.with_array) return false;
        if (op == OP_ARR_ADD) return an < MAXEL;
        if (op == OP_ARR_GET + 2 || op == OP_ARR_REMOVE + 2) return an > 0; /* "last" needs an element */
    }
    if (op == OP_DUP_OBJ) return !o_is_dup;
    if (op == OP_DUP_ARR) return g_cfg.with_array && !r_is_dup;
    return true;
}
static void m_opname(int op, char *buf, size_t cap) {
    if (op == OP_DUP_OBJ) snprintf(buf, cap, "object := duplicate(object)");
    else if (op == OP_DUP_ARR) snprintf(buf, cap, "array := duplicate(array)");
    else if (op < OP_ADD_CSTR) snprintf(buf, cap, "add_to_object(<%s>)", g_cfg.keys[op]);
    else if (op < OP_GET) snprintf(buf, cap, "add_to_object_c_str(<%s>)", g_cfg.keys[op - OP_ADD_CSTR]);
    else if (op < OP_HAS) snprintf(buf, cap, "get_from_object(<%s>)", g_cfg.keys[op - OP_GET]);
    else if (op < OP_REMOVE) snprintf(buf, cap, "has_key(<%s>)", g_cfg.keys[op - OP_HAS]);
    else if (op < OP_REMOVE_CSTR) snprintf(buf, cap, "remove_from_object(<%s>)", g_cfg.keys[op - OP_REMOVE]);
    else if (op < OP_ARR_ADD) snprintf(buf, cap, "remove_from_object_c_str(<%s>)", g_cfg.keys[op - OP_REMOVE_CSTR]);
    else if (op == OP_ARR_ADD) snprintf(buf, cap, "add_array_element");
    else if (op < OP_ARR_REMOVE) snprintf(buf, cap, "get_array_element(%s)", IDXNAME[op - OP_ARR_GET]);
    else if (op < OP_ARR_SIZE) snprintf(buf, cap, "remove_array_element(%s)", IDXNAME[op - OP_ARR_REMOVE]);
    else snprintf(buf, cap, "get_array_size");
}

static void m_apply(int op) {
    char nm[64];
    m_opname(op, nm, sizeof(nm));
    if (op == OP_DUP_OBJ || op == OP_DUP_ARR) {
        struct aws_json_value **slot = op == OP_DUP_OBJ ? &O : &R;
        struct aws_json_value *d = aws_json_value_duplicate(*slot);
        ESX_CHECK(d != NULL, "duplicate-failed", "%s returned NULL", nm);
        if (d) {
            ESX_CHECK(aws_json_value_compare(*slot, d, true), "duplicate-not-equal", "%s: duplicate does not compare equal to its original", nm);
            aws_json_value_destroy(*slot);
            *slot = d;
            if (op == OP_DUP_OBJ) o_is_dup = 1; else r_is_dup = 1;
            V_COUNT("duplicates_taken", 1);
        }
    } else if (op < OP_GET) { /* ---- add ---- */
        int k = op % 3, cstr = op >= OP_ADD_CSTR;
        int at = ref_find(k), twin = ref_case_twin(k);
        int n = 10 * (k + 1) + gen[k];
        struct aws_json_value *v = make_value(k, n);
        aws_reset_error();
        int rc = cstr ? aws_json_value_add_to_object_c_str(O, g_cfg.keys[k], v) : aws_json_value_add_to_object(O, aws_byte_cursor_from_c_str(g_cfg.keys[k]), v);
        if (at >= 0) {
            V_COUNT("duplicate_adds", 1);
            ESX_CHECK(rc == AWS_OP_ERR, "duplicate-key-not-refused", "%s succeeded although the object already has a member with exactly that name", nm);
            if (rc == AWS_OP_ERR) aws_json_value_destroy(v); /* json.h: only a successful add hands the value over */
        } else if (rc != AWS_OP_SUCCESS && twin >= 0) {
            V_COUNT("case_twin_events", 1);
            esx_fail("add-refused-key-differs-only-in-case", "%s refused: no member has that name, but member <%s> differs from it only in case (json.h: names are case sensitive)", nm,
                     g_cfg.keys[okey[twin]]);
            aws_json_value_destroy(v);
        } else {
            ESX_CHECK(rc == AWS_OP_SUCCESS, "add-refused", "%s failed (error %d) on an object without that name", nm, aws_last_error());
            if (rc == AWS_OP_SUCCESS) {
                okey[on] = k;
                oval[on] = n;
                ++on;
                gen[k] ^= 1;
                V_COUNT("members_added", 1);
            } else
                aws_json_value_destroy(v);
        }
    } else if (op < OP_REMOVE) { /* ---- get / has ---- */
        int k = (op - OP_GET) % 3, at = ref_find(k), twin = ref_case_twin(k);
        struct aws_byte_cursor kc = aws_byte_cursor_from_c_str(g_cfg.keys[k]);
        if (op < OP_HAS) {
            const struct aws_json_value *g = aws_json_value_get_from_object(O, kc), *g2 = aws_json_value_get_from_object_c_str(O, g_cfg.keys[k]);
            ESX_CHECK(g == g2, "get-flavours-differ", "%s: cursor and c_str flavours return different values", nm);
            char want[32] = "NULL", got[64] = "NULL";
            if (at >= 0) value_text(want, k, oval[at]);
            if (g) emit(g, got, sizeof(got));
            if (strcmp(want, got) != 0 && twin >= 0) {
                V_COUNT("case_twin_events", 1);
                esx_fail("get-ignores-case", "%s returned %s, the value of member <%s>; expected %s (json.h: key is case sensitive)", nm, got, g_cfg.keys[okey[twin]], want);
            } else
                ESX_CHECK(strcmp(want, got) == 0, "get-from-object", "%s returned %s, reference says %s", nm, got, want);
            if (at >= 0) V_COUNT("gets_found", 1);
        } else {
            bool h = aws_json_value_has_key(O, kc), h2 = aws_json_value_has_key_c_str(O, g_cfg.keys[k]);
            ESX_CHECK(h == h2, "has-flavours-differ", "%s: cursor and c_str flavours disagree", nm);
            if (h != (at >= 0) && twin >= 0) {
                V_COUNT("case_twin_events", 1);
                esx_fail("has-key-ignores-case", "%s is true although the only candidate member is <%s> (json.h: key is case sensitive)", nm, g_cfg.keys[okey[twin]]);
            } else
                ESX_CHECK(h == (at >= 0), "has-key", "%s = %d, reference says %d", nm, h, at >= 0);
        }
    } else if (op < OP_ARR_ADD) { /* ---- remove ---- */
        int k = (op - OP_REMOVE) % 3, cstr = op >= OP_REMOVE_CSTR, at = ref_find(k), twin = ref_case_twin(k);
        aws_reset_error();
        int rc = cstr ? aws_json_value_remove_from_object_c_str(O, g_cfg.keys[k]) : aws_json_value_remove_from_object(O, aws_byte_cursor_from_c_str(g_cfg.keys[k]));
        if (at >= 0) {
            ESX_CHECK(rc == AWS_OP_SUCCESS, "remove-failed", "%s failed although the member exists", nm);
            if (rc == AWS_OP_SUCCESS) {
                for (int i = at; i + 1 < on; ++i) okey[i] = okey[i + 1], oval[i] = oval[i + 1];
                --on;
                V_COUNT("members_removed", 1);
            }
        } else if (rc == AWS_OP_SUCCESS && twin >= 0) {
            V_COUNT("case_twin_events", 1);
            esx_fail("remove-ignores-case", "%s reported success and removed member <%s> (json.h: key is case sensitive; an absent name must give AWS_OP_ERR)", nm, g_cfg.keys[okey[twin]]);
        } else {
            V_COUNT("absent_removes", 1);
            ESX_CHECK(rc == AWS_OP_ERR, "remove-absent-not-refused", "%s reported success for a name the object does not have", nm);
        }
    } else if (op == OP_ARR_ADD) {
        int n = 0;
        for (;; ++n) {
            int used = 0;
            for (int i = 0; i < an; ++i) used |= aval[i] == n;
            if (!used) break;
        }
        int rc = aws_json_value_add_array_element(R, aws_json_value_new_number(A, (double)n));
        ESX_CHECK(rc == AWS_OP_SUCCESS, "array-add", "%s failed", nm);
        aval[an++] = n;
    } else if (op < OP_ARR_REMOVE) {
        size_t i = arr_index(op - OP_ARR_GET);
        const struct aws_json_value *e = aws_json_get_array_element(R, i);
        if (i < (size_t)an) {
            double d = -1;
            ESX_CHECK(e && aws_json_value_get_number(e, &d) == AWS_OP_SUCCESS && d == (double)aval[i], "array-index", "%s (index %zu of %d) reads %g, reference says %d", nm, i, an, d,
                      aval[i]);
            V_COUNT("array_gets_in_range", 1);
        } else {
            ESX_CHECK(e == NULL, "array-get-out-of-range", "%s (index %zu of %d) returned a value", nm, i, an);
            V_COUNT("array_gets_out_of_range", 1);
        }
    } else if (op < OP_ARR_SIZE) {
        size_t i = arr_index(op - OP_ARR_REMOVE);
        aws_reset_error();
        int rc = aws_json_value_remove_array_element(R, i);
        if (i < (size_t)an) {
            ESX_CHECK(rc == AWS_OP_SUCCESS, "array-remove", "%s (index %zu of %d) failed", nm, i, an);
            if (rc == AWS_OP_SUCCESS) {
                for (size_t j = i; j + 1 < (size_t)an; ++j) aval[j] = aval[j + 1];
                --an;
                V_COUNT(i == 0 ? "array_removes_first" : "array_removes_other", 1);
            }
        } else {
            V_COUNT("array_removes_out_of_range", 1);
            /* json.h: "Will return AWS_OP_ERR if the array passed is invalid or if the index passed is out of range." */
            if (rc != AWS_OP_ERR && i == (size_t)an)
                esx_fail("array-remove-at-size-not-refused", "%s: index %zu == size %d is out of range, documented result is AWS_OP_ERR, got success", nm, i, an);
            else
                ESX_CHECK(rc == AWS_OP_ERR, "array-remove-out-of-range-not-refused", "%s: index %zu, size %d: documented result is AWS_OP_ERR, got success", nm, i, an);
        }
    } else {
        ESX_CHECK(aws_json_get_array_size(R) == (size_t)an, "array-size", "%s = %zu, reference %d", nm, aws_json_get_array_size(R), an);
    }
    if (!esx_failed) check_state(nm);
}

static size_t m_canon(uint8_t *b, size_t cap) {
    (void)cap;
    size_t o = 0;
    o += emit(O, (char *)b + o, 200);
    b[o++] = 0;
    o += emit(R, (char *)b + o, 200);
    b[o++] = 0;
    b[o++] = (uint8_t)on;
    for (int i = 0; i < on; ++i) b[o++] = (uint8_t)okey[i], b[o++] = (uint8_t)oval[i];
    for (int k = 0; k < NK; ++k) b[o++] = (uint8_t)gen[k];
    b[o++] = (uint8_t)an;
    for (int i = 0; i < an; ++i) b[o++] = (uint8_t)aval[i];
    b[o++] = (uint8_t)(o_is_dup | r_is_dup << 1);
    return o;
}

static struct esx_model model = {
    .nops = NOPS, .reset = m_reset, .enabled = m_enabled, .apply = m_apply, .canon = m_canon, .opname = m_opname, .teardown = m_teardown, .max_depth = 40,
};

int main(int argc, char **argv) {
    v_init(argc, argv);
    A = galloc_get(0, 0);
    aws_common_library_init(A);
    static const struct {
        const char *name;
        const char *keys[NK];
        int with_array;
    } cfgs[2] = {{"json-seq", {"a", "b", ""}, 1}, {"json-seq-case", {"a", "A", ""}, 0}};
    int rc = 0;
    for (int c = 0; c < 2; ++c) {
        snprintf(g_cfg.name, sizeof(g_cfg.name), "%s", cfgs[c].name);
        for (int k = 0; k < NK; ++k) g_cfg.keys[k] = cfgs[c].keys[k];
        g_cfg.with_array = cfgs[c].with_array;
        model.name = g_cfg.name;
        if (v_replay_token) {
            if (esx_token_is_for(v_replay_token, g_cfg.name)) rc |= esx_replay(&model, v_replay_token);
            continue;
        }
        esx_run(&model);
        ESX_CYCLES(&model);
    }
    v_finish();
    return (v_sh->viol_count || rc) ? 1 : 0;
}
