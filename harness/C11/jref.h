/*
 * jref.h — harness-side reference for C11 (JSON): a plain tree, a strict RFC 8259 reader and a writer that share
 * no code with cJSON, the number tolerance rule of DESIGN §5 C11, and a walker that compares an aws_json_value
 * (through the public accessors only) with a reference tree.
 *
 * The including file defines JFAIL(clause, fmt, ...) (bee_fail / esx_fail) before including this header.
 */
#ifndef JREF_H
#define JREF_H
#include <aws/common/byte_buf.h>
#include <aws/common/json.h>
#include <float.h>
#include <math.h>

/* ------------------------------------------------------------------ reference tree ---------------------- */
enum { R_NULL, R_FALSE, R_TRUE, R_NUM, R_STR, R_ARR, R_OBJ };
static const char *r_tname[] = {"null", "false", "true", "number", "string", "array", "object"};
struct rnode {
    int type;
    double num;
    uint32_t s_off, s_len; /* string value */
    uint32_t k_off, k_len; /* key under which this node hangs in its parent object */
    int first, last, next, nchild;
};
#define RN_MAX 65536
#define RS_MAX (1u << 18)
static struct rnode rn[RN_MAX];
static int rn_n;
static uint8_t rs[RS_MAX];
static uint32_t rs_n;
static int r_failed; /* set by JERR: the item stops at the first disagreement */
/* Lookups answered by a member whose name differs only in case are always counted; they are *reported* only while this
 * flag is set (the tree section sets it for trees of <= 3 nodes: the engine prints nothing after 100000 violations, and
 * one defect must not drown every later signature). */
static bool j_report_case_twins = true;

#define JERR(clause, ...)                                                                                        \
    do {                                                                                                         \
        if (!r_failed) JFAIL(clause, __VA_ARGS__);                                                               \
        r_failed = 1;                                                                                            \
    } while (0)

static void r_reset(void) {
    rn_n = 0;
    rs_n = 0;
    r_failed = 0;
}
static int r_new(int type) {
    if (rn_n >= RN_MAX) {
        fprintf(stderr, "jref: node arena exhausted\n");
        _exit(2);
    }
    struct rnode *n = &rn[rn_n];
    memset(n, 0, sizeof(*n));
    n->type = type;
    n->first = n->last = n->next = -1;
    return rn_n++;
}
static uint32_t r_bytes(const void *p, size_t n) {
    if (rs_n + n + 1 > RS_MAX) {
        fprintf(stderr, "jref: string arena exhausted\n");
        _exit(2);
    }
    uint32_t off = rs_n;
    if (n) memcpy(rs + rs_n, p, n);
    rs_n += (uint32_t)n;
    rs[rs_n++] = 0; /* terminator only for the c_str flavoured API calls; never counted in lengths */
    return off;
}
static int r_num(double v) {
    int i = r_new(R_NUM);
    rn[i].num = v;
    return i;
}
static int r_str(const void *p, size_t n) {
    int i = r_new(R_STR);
    rn[i].s_off = r_bytes(p, n);
    rn[i].s_len = (uint32_t)n;
    return i;
}
static void r_append(int parent, int child) {
    if (rn[parent].first < 0) rn[parent].first = child;
    else rn[rn[parent].last].next = child;
    rn[parent].last = child;
    rn[parent].nchild++;
}
static void r_setkey(int node, const void *p, size_t n) {
    rn[node].k_off = r_bytes(p, n);
    rn[node].k_len = (uint32_t)n;
}
static bool r_bytes_ieq(const uint8_t *a, size_t an, const uint8_t *b, size_t bn) { /* ASCII case folding only */
    if (an != bn) return false;
    for (size_t i = 0; i < an; ++i) {
        uint8_t x = a[i], y = b[i];
        if (x >= 'A' && x <= 'Z') x = (uint8_t)(x + 32);
        if (y >= 'A' && y <= 'Z') y = (uint8_t)(y + 32);
        if (x != y) return false;
    }
    return true;
}
/* does any object below r hold two different keys that are equal when ASCII case is ignored? */
static bool r_has_case_twins(int r) {
    for (int c = rn[r].first; c >= 0; c = rn[c].next) {
        if (rn[r].type == R_OBJ)
            for (int d = rn[c].next; d >= 0; d = rn[d].next)
                if (r_bytes_ieq(rs + rn[c].k_off, rn[c].k_len, rs + rn[d].k_off, rn[d].k_len)) return true;
        if (r_has_case_twins(c)) return true;
    }
    return false;
}

/* ------------------------------------------------------------------ number rule -------------------------- */
/* DESIGN §5 C11: exact when v has <= 15 significant digits (strtod("%.15g" of v) == v), otherwise within one part in
 * 2^52 of the larger magnitude, bound included.  Returns NULL when `got` is acceptable, else the clause name. */
static int num_exact_class(double v) {
    char t[48];
    snprintf(t, sizeof(t), "%.15g", v);
    return strtod(t, NULL) == v;
}
static const char *num_verdict(double v, double got) {
    if (!isfinite(got)) {
        char t[48];
        snprintf(t, sizeof(t), "%.15g", v);
        return isinf(strtod(t, NULL)) ? "number-near-dbl-max-not-finite" : "number-not-finite";
    }
    if (num_exact_class(v)) return got == v ? NULL : "number-15-digits-not-exact";
    double m = fabs(v) > fabs(got) ? fabs(v) : fabs(got);
    return fabs(got - v) <= 0x1p-52 * m ? NULL : "number-beyond-tolerance";
}

/* ------------------------------------------------------------------ UTF-8 -------------------------------- */
static size_t utf8_put(uint32_t cp, uint8_t *o) {
    if (cp < 0x80) {
        o[0] = (uint8_t)cp;
        return 1;
    }
    if (cp < 0x800) {
        o[0] = (uint8_t)(0xC0 | (cp >> 6));
        o[1] = (uint8_t)(0x80 | (cp & 63));
        return 2;
    }
    if (cp < 0x10000) {
        o[0] = (uint8_t)(0xE0 | (cp >> 12));
        o[1] = (uint8_t)(0x80 | ((cp >> 6) & 63));
        o[2] = (uint8_t)(0x80 | (cp & 63));
        return 3;
    }
    o[0] = (uint8_t)(0xF0 | (cp >> 18));
    o[1] = (uint8_t)(0x80 | ((cp >> 12) & 63));
    o[2] = (uint8_t)(0x80 | ((cp >> 6) & 63));
    o[3] = (uint8_t)(0x80 | (cp & 63));
    return 4;
}

/* ------------------------------------------------------------------ strict RFC 8259 reader --------------- */
struct sr {
    const uint8_t *p;
    size_t n, i;
    const char *err;
};
#define SR_FAIL(s, why) ((s)->err ? -1 : ((s)->err = (why), -1))
static void sr_ws(struct sr *s) {
    while (s->i < s->n && (s->p[s->i] == ' ' || s->p[s->i] == '\t' || s->p[s->i] == '\n' || s->p[s->i] == '\r')) ++s->i;
}
static int sr_hex4(struct sr *s, uint32_t *out) {
    if (s->i + 4 > s->n) return SR_FAIL(s, "truncated \\u escape");
    uint32_t v = 0;
    for (int k = 0; k < 4; ++k) {
        uint8_t c = s->p[s->i + (size_t)k];
        uint32_t d;
        if (c >= '0' && c <= '9') d = (uint32_t)(c - '0');
        else if (c >= 'a' && c <= 'f') d = (uint32_t)(c - 'a' + 10);
        else if (c >= 'A' && c <= 'F') d = (uint32_t)(c - 'A' + 10);
        else return SR_FAIL(s, "non-hex digit in \\u escape");
        v = v * 16 + d;
    }
    s->i += 4;
    *out = v;
    return 0;
}
/* reads a string token; the decoded bytes go to the arena; returns 0 / -1 */
static int sr_string(struct sr *s, uint32_t *off, uint32_t *len) {
    if (s->i >= s->n || s->p[s->i] != '"') return SR_FAIL(s, "expected '\"'");
    ++s->i;
    uint8_t tmp[RS_MAX / 8];
    size_t o = 0;
    for (;;) {
        if (s->i >= s->n) return SR_FAIL(s, "unterminated string");
        if (o + 8 > sizeof(tmp)) return SR_FAIL(s, "string too long for the reader");
        uint8_t c = s->p[s->i];
        if (c == '"') {
            ++s->i;
            break;
        }
        if (c < 0x20) return SR_FAIL(s, "unescaped control character in string");
        if (c == '\\') {
            if (s->i + 1 >= s->n) return SR_FAIL(s, "truncated escape");
            uint8_t e = s->p[s->i + 1];
            s->i += 2;
            switch (e) {
                case '"': tmp[o++] = '"'; break;
                case '\\': tmp[o++] = '\\'; break;
                case '/': tmp[o++] = '/'; break;
                case 'b': tmp[o++] = 8; break;
                case 'f': tmp[o++] = 12; break;
                case 'n': tmp[o++] = 10; break;
                case 'r': tmp[o++] = 13; break;
                case 't': tmp[o++] = 9; break;
                case 'u': {
                    uint32_t cp, lo;
                    if (sr_hex4(s, &cp)) return -1;
                    if (cp >= 0xDC00 && cp <= 0xDFFF) return SR_FAIL(s, "lone low surrogate escape");
                    if (cp >= 0xD800 && cp <= 0xDBFF) {
                        if (s->i + 2 > s->n || s->p[s->i] != '\\' || s->p[s->i + 1] != 'u') return SR_FAIL(s, "lone high surrogate escape");
                        s->i += 2;
                        if (sr_hex4(s, &lo)) return -1;
                        if (lo < 0xDC00 || lo > 0xDFFF) return SR_FAIL(s, "high surrogate not followed by low surrogate");
                        cp = 0x10000 + ((cp - 0xD800) << 10) + (lo - 0xDC00);
                    }
                    o += utf8_put(cp, tmp + o);
                    break;
                }
                default: return SR_FAIL(s, "unknown escape");
            }
            continue;
        }
        if (c < 0x80) {
            tmp[o++] = c;
            ++s->i;
            continue;
        }
        /* one well-formed UTF-8 sequence (RFC 3629: shortest form, no surrogates, <= U+10FFFF) */
        int need;
        uint8_t lo2 = 0x80, hi2 = 0xBF;
        if (c >= 0xC2 && c <= 0xDF) need = 1;
        else if (c == 0xE0) need = 2, lo2 = 0xA0;
        else if (c == 0xED) need = 2, hi2 = 0x9F;
        else if (c >= 0xE1 && c <= 0xEF) need = 2;
        else if (c == 0xF0) need = 3, lo2 = 0x90;
        else if (c >= 0xF1 && c <= 0xF3) need = 3;
        else if (c == 0xF4) need = 3, hi2 = 0x8F;
        else return SR_FAIL(s, "invalid UTF-8 lead byte");
        if (s->i + (size_t)need >= s->n) return SR_FAIL(s, "truncated UTF-8 sequence");
        for (int k = 1; k <= need; ++k) {
            uint8_t t = s->p[s->i + (size_t)k];
            if (t < (k == 1 ? lo2 : 0x80) || t > (k == 1 ? hi2 : 0xBF)) return SR_FAIL(s, "invalid UTF-8 continuation byte");
        }
        for (int k = 0; k <= need; ++k) tmp[o++] = s->p[s->i + (size_t)k];
        s->i += (size_t)need + 1;
    }
    *off = r_bytes(tmp, o);
    *len = (uint32_t)o;
    return 0;
}
static int sr_digits(struct sr *s) {
    size_t i0 = s->i;
    while (s->i < s->n && s->p[s->i] >= '0' && s->p[s->i] <= '9') ++s->i;
    return (int)(s->i - i0);
}
static int sr_value(struct sr *s, int depth) {
    if (depth > 4000) return SR_FAIL(s, "too deep for the reader");
    sr_ws(s);
    if (s->i >= s->n) return SR_FAIL(s, "value expected, text ended");
    uint8_t c = s->p[s->i];
    if (c == '{' || c == '[') {
        int self = r_new(c == '{' ? R_OBJ : R_ARR);
        uint8_t close = c == '{' ? '}' : ']';
        ++s->i;
        sr_ws(s);
        if (s->i < s->n && s->p[s->i] == close) {
            ++s->i;
            return self;
        }
        for (;;) {
            uint32_t koff = 0, klen = 0;
            if (c == '{') {
                sr_ws(s);
                if (sr_string(s, &koff, &klen)) return -1;
                sr_ws(s);
                if (s->i >= s->n || s->p[s->i] != ':') return SR_FAIL(s, "':' expected after member name");
                ++s->i;
            }
            int ch = sr_value(s, depth + 1);
            if (ch < 0) return -1;
            rn[ch].k_off = koff;
            rn[ch].k_len = klen;
            r_append(self, ch);
            sr_ws(s);
            if (s->i >= s->n) return SR_FAIL(s, "container not closed");
            if (s->p[s->i] == ',') {
                ++s->i;
                continue;
            }
            if (s->p[s->i] == close) {
                ++s->i;
                return self;
            }
            return SR_FAIL(s, "',' or closing bracket expected");
        }
    }
    if (c == '"') {
        uint32_t off, len;
        if (sr_string(s, &off, &len)) return -1;
        int self = r_new(R_STR);
        rn[self].s_off = off;
        rn[self].s_len = len;
        return self;
    }
    if (c == '-' || (c >= '0' && c <= '9')) {
        size_t i0 = s->i;
        if (c == '-') ++s->i;
        if (s->i >= s->n) return SR_FAIL(s, "digit expected after '-'");
        if (s->p[s->i] == '0') ++s->i;
        else if (s->p[s->i] >= '1' && s->p[s->i] <= '9') sr_digits(s);
        else return SR_FAIL(s, "digit expected");
        if (s->i < s->n && s->p[s->i] == '.') {
            ++s->i;
            if (!sr_digits(s)) return SR_FAIL(s, "digit expected after '.'");
        }
        if (s->i < s->n && (s->p[s->i] == 'e' || s->p[s->i] == 'E')) {
            ++s->i;
            if (s->i < s->n && (s->p[s->i] == '+' || s->p[s->i] == '-')) ++s->i;
            if (!sr_digits(s)) return SR_FAIL(s, "digit expected in exponent");
        }
        char t[80];
        if (s->i - i0 >= sizeof(t)) return SR_FAIL(s, "number token too long for the reader");
        memcpy(t, s->p + i0, s->i - i0);
        t[s->i - i0] = 0;
        return r_num(strtod(t, NULL));
    }
    static const struct {
        const char *w;
        int type;
    } lit[3] = {{"null", R_NULL}, {"false", R_FALSE}, {"true", R_TRUE}};
    for (int k = 0; k < 3; ++k) {
        size_t l = strlen(lit[k].w);
        if (s->i + l <= s->n && memcmp(s->p + s->i, lit[k].w, l) == 0) {
            s->i += l;
            return r_new(lit[k].type);
        }
    }
    return SR_FAIL(s, "unexpected character where a value should start");
}
/* whole text = exactly one value surrounded by optional white space */
static int sr_read(const uint8_t *p, size_t n, const char **err, size_t *errpos) {
    struct sr s = {p, n, 0, NULL};
    int r = sr_value(&s, 0);
    if (r >= 0) {
        sr_ws(&s);
        if (s.i != s.n) r = SR_FAIL(&s, "trailing bytes after the value");
    }
    *err = s.err;
    *errpos = s.i;
    return r;
}

/* ------------------------------------------------------------------ reference vs reference --------------- */
/* `want` is the model, `got` what the strict reader saw in emitted text.  numbers follow the tolerance rule. */
static void r_compare(int want, int got, const char *stage) {
    if (r_failed) return;
    if (rn[want].type != rn[got].type) {
        JERR("independent-reader-type", "%s: independent reader sees %s where the tree has %s", stage, r_tname[rn[got].type], r_tname[rn[want].type]);
        return;
    }
    switch (rn[want].type) {
        case R_NUM: {
            const char *cl = num_verdict(rn[want].num, rn[got].num);
            if (cl) JERR(cl, "%s: emitted text denotes %.17g (independent reader) for the number %.17g", stage, rn[got].num, rn[want].num);
            break;
        }
        case R_STR:
            if (rn[want].s_len != rn[got].s_len || memcmp(rs + rn[want].s_off, rs + rn[got].s_off, rn[want].s_len))
                JERR("independent-reader-string", "%s: emitted text denotes string <%s>, tree has <%s>", stage, v_show(rs + rn[got].s_off, rn[got].s_len),
                     v_show(rs + rn[want].s_off, rn[want].s_len));
            break;
        case R_ARR:
        case R_OBJ: {
            if (rn[want].nchild != rn[got].nchild) {
                JERR("independent-reader-count", "%s: emitted %s has %d members, tree has %d", stage, r_tname[rn[want].type], rn[got].nchild, rn[want].nchild);
                return;
            }
            int a = rn[want].first, b = rn[got].first, pos = 0;
            for (; a >= 0 && b >= 0 && !r_failed; a = rn[a].next, b = rn[b].next, ++pos) {
                if (rn[want].type == R_OBJ && (rn[a].k_len != rn[b].k_len || memcmp(rs + rn[a].k_off, rs + rn[b].k_off, rn[a].k_len))) {
                    JERR("independent-reader-key", "%s: member %d of emitted object has name <%s>, tree has <%s>", stage, pos, v_show(rs + rn[b].k_off, rn[b].k_len),
                         v_show(rs + rn[a].k_off, rn[a].k_len));
                    return;
                }
                r_compare(a, b, stage);
            }
            break;
        }
        default: break;
    }
}

/* ------------------------------------------------------------------ harness writer ----------------------- */
struct jw {
    uint8_t *b;
    size_t n, cap;
    int style; /* 0 compact, 1 RFC white space around every token, 2 compact with every non-ASCII / special char as \u escape */
};
static void jw_put(struct jw *w, const void *p, size_t n) {
    if (w->n + n > w->cap) {
        fprintf(stderr, "jref: writer buffer too small\n");
        _exit(2);
    }
    memcpy(w->b + w->n, p, n);
    w->n += n;
}
static void jw_s(struct jw *w, const char *s) { jw_put(w, s, strlen(s)); }
static void jw_sp(struct jw *w, int k) {
    static const char *sp[4] = {" ", "\n\t", "\r\n ", "  \t"};
    if (w->style == 1) jw_s(w, sp[k & 3]);
}
static void jw_string(struct jw *w, const uint8_t *p, size_t n) {
    char t[16];
    jw_s(w, "\"");
    for (size_t i = 0; i < n;) {
        uint8_t c = p[i];
        if (w->style == 2 || c < 0x20 || c == '"' || c == '\\') {
            /* decode one code point (the harness only writes well-formed UTF-8) and escape it */
            uint32_t cp = c;
            size_t l = 1;
            if (c >= 0xF0) cp = ((uint32_t)(c & 7) << 18) | ((uint32_t)(p[i + 1] & 63) << 12) | ((uint32_t)(p[i + 2] & 63) << 6) | (p[i + 3] & 63u), l = 4;
            else if (c >= 0xE0) cp = ((uint32_t)(c & 15) << 12) | ((uint32_t)(p[i + 1] & 63) << 6) | (p[i + 2] & 63u), l = 3;
            else if (c >= 0xC0) cp = ((uint32_t)(c & 31) << 6) | (p[i + 1] & 63u), l = 2;
            if (w->style != 2 && (c == '"' || c == '\\')) {
                t[0] = '\\';
                t[1] = (char)c;
                jw_put(w, t, 2);
            } else if (cp >= 0x10000) {
                snprintf(t, sizeof(t), "\\u%04X\\u%04x", 0xD800 + ((cp - 0x10000) >> 10), 0xDC00 + ((cp - 0x10000) & 0x3FF));
                jw_s(w, t);
            } else {
                snprintf(t, sizeof(t), (i & 1) ? "\\u%04X" : "\\u%04x", cp);
                jw_s(w, t);
            }
            i += l;
        } else {
            jw_put(w, &c, 1);
            ++i;
        }
    }
    jw_s(w, "\"");
}
static void jw_value(struct jw *w, int r) {
    char t[48];
    switch (rn[r].type) {
        case R_NULL: jw_s(w, "null"); break;
        case R_FALSE: jw_s(w, "false"); break;
        case R_TRUE: jw_s(w, "true"); break;
        case R_NUM:
            snprintf(t, sizeof(t), "%.17g", rn[r].num); /* 17 digits: denotes exactly this double */
            jw_s(w, t);
            break;
        case R_STR: jw_string(w, rs + rn[r].s_off, rn[r].s_len); break;
        default: {
            int obj = rn[r].type == R_OBJ, k = 0;
            jw_s(w, obj ? "{" : "[");
            jw_sp(w, r);
            for (int c = rn[r].first; c >= 0; c = rn[c].next, ++k) {
                if (k) {
                    jw_s(w, ",");
                    jw_sp(w, k);
                }
                if (obj) {
                    jw_string(w, rs + rn[c].k_off, rn[c].k_len);
                    jw_sp(w, k + 1);
                    jw_s(w, ":");
                    jw_sp(w, k + 2);
                }
                jw_value(w, c);
                jw_sp(w, k + 3);
            }
            jw_s(w, obj ? "}" : "]");
        }
    }
}

/* ------------------------------------------------------------------ API value vs reference ---------------- */
#define J_MAXMEMB 8
struct j_members {
    int n, stop_after;
    struct aws_byte_cursor key[J_MAXMEMB];
    const struct aws_json_value *val[J_MAXMEMB];
    size_t idx[J_MAXMEMB];
};
static int j_on_member(const struct aws_byte_cursor *key, const struct aws_json_value *value, bool *cont, void *ud) {
    struct j_members *m = (struct j_members *)ud;
    if (m->n < J_MAXMEMB) {
        m->key[m->n] = *key;
        m->val[m->n] = value;
    }
    m->n++;
    if (m->stop_after && m->n >= m->stop_after) *cont = false;
    return AWS_OP_SUCCESS;
}
static int j_on_value(size_t idx, const struct aws_json_value *value, bool *cont, void *ud) {
    struct j_members *m = (struct j_members *)ud;
    if (m->n < J_MAXMEMB) {
        m->idx[m->n] = idx;
        m->val[m->n] = value;
    }
    m->n++;
    if (m->stop_after && m->n >= m->stop_after) *cont = false;
    return AWS_OP_SUCCESS;
}
static int j_api_type(const struct aws_json_value *v, int *ntrue) {
    int t = -1, n = 0;
    bool b = false;
    if (aws_json_value_is_null(v)) t = R_NULL, ++n;
    if (aws_json_value_is_boolean(v)) {
        ++n;
        t = (aws_json_value_get_boolean(v, &b) == AWS_OP_SUCCESS && b) ? R_TRUE : R_FALSE;
    }
    if (aws_json_value_is_number(v)) t = R_NUM, ++n;
    if (aws_json_value_is_string(v)) t = R_STR, ++n;
    if (aws_json_value_is_array(v)) t = R_ARR, ++n;
    if (aws_json_value_is_object(v)) t = R_OBJ, ++n;
    *ntrue = n;
    return t;
}
/* `lookups`: also check get_from_object / has_key for every member name (off for objects with case twins: see harness) */
static void j_walk(const struct aws_json_value *v, int r, const char *stage, bool lookups) {
    if (r_failed) return;
    int ntrue = 0, t = j_api_type(v, &ntrue);
    if (ntrue != 1 || t != rn[r].type) {
        JERR("type", "%s: value reports type %s (%d type predicates true) where the tree has %s", stage, t < 0 ? "none" : r_tname[t], ntrue, r_tname[rn[r].type]);
        return;
    }
    switch (t) {
        case R_NUM: {
            double got = 0;
            if (aws_json_value_get_number(v, &got) != AWS_OP_SUCCESS) {
                JERR("getter", "%s: get_number failed on a number", stage);
                return;
            }
            const char *cl = num_verdict(rn[r].num, got);
            if (cl) JERR(cl, "%s: number %.17g came back as %.17g (difference %.3g, allowed %.3g)", stage, rn[r].num, got, fabs(got - rn[r].num),
                         num_exact_class(rn[r].num) ? 0.0 : 0x1p-52 * fmax(fabs(got), fabs(rn[r].num)));
            break;
        }
        case R_STR: {
            struct aws_byte_cursor c = {0};
            if (aws_json_value_get_string(v, &c) != AWS_OP_SUCCESS) {
                JERR("getter", "%s: get_string failed on a string", stage);
                return;
            }
            if (c.len != rn[r].s_len || memcmp(c.ptr, rs + rn[r].s_off, c.len))
                JERR("string-bytes", "%s: string <%s> came back as <%s>", stage, v_show(rs + rn[r].s_off, rn[r].s_len), v_show(c.ptr, c.len));
            break;
        }
        case R_ARR: {
            size_t n = aws_json_get_array_size(v);
            if (n != (size_t)rn[r].nchild) {
                JERR("array-size", "%s: array has %zu elements, tree has %d", stage, n, rn[r].nchild);
                return;
            }
            struct j_members m = {0};
            if (aws_json_const_iterate_array(v, j_on_value, &m) != AWS_OP_SUCCESS || m.n != rn[r].nchild) {
                JERR("array-iterate", "%s: iterate_array visited %d elements of %d", stage, m.n, rn[r].nchild);
                return;
            }
            int c = rn[r].first;
            for (size_t i = 0; i < n && !r_failed; ++i, c = rn[c].next) {
                const struct aws_json_value *e = aws_json_get_array_element(v, i);
                if (!e) {
                    JERR("array-get", "%s: get_array_element(%zu) of %zu returned NULL", stage, i, n);
                    return;
                }
                if (i < J_MAXMEMB && (m.val[i] != e || m.idx[i] != i)) {
                    JERR("array-iterate", "%s: iterate_array position %zu is not get_array_element(%zu)", stage, i, i);
                    return;
                }
                j_walk(e, c, stage, lookups);
            }
            if (!r_failed && aws_json_get_array_element(v, n) != NULL) JERR("array-get", "%s: get_array_element(size) returned a value", stage);
            break;
        }
        case R_OBJ: {
            struct j_members m = {0};
            if (aws_json_const_iterate_object(v, j_on_member, &m) != AWS_OP_SUCCESS) {
                JERR("object-iterate", "%s: iterate_object failed on an object", stage);
                return;
            }
            if (m.n != rn[r].nchild) {
                JERR("member-count", "%s: object has %d members, tree has %d", stage, m.n, rn[r].nchild);
                return;
            }
            int c = rn[r].first;
            for (int i = 0; i < m.n && i < J_MAXMEMB && !r_failed; ++i, c = rn[c].next) {
                if (m.key[i].len != rn[c].k_len || memcmp(m.key[i].ptr, rs + rn[c].k_off, rn[c].k_len)) {
                    JERR("key-bytes", "%s: member %d has name <%s>, tree has <%s> (order or bytes)", stage, i, v_show(m.key[i].ptr, m.key[i].len),
                         v_show(rs + rn[c].k_off, rn[c].k_len));
                    return;
                }
                if (lookups) {
                    struct aws_byte_cursor kc = aws_byte_cursor_from_array(rs + rn[c].k_off, rn[c].k_len);
                    if (!aws_json_value_has_key(v, kc) || !aws_json_value_has_key_c_str(v, (const char *)kc.ptr)) {
                        JERR("has-key", "%s: has_key(<%s>) is false for a member the iteration shows", stage, v_show(kc.ptr, kc.len));
                        return;
                    }
                    const struct aws_json_value *g = aws_json_value_get_from_object(v, kc);
                    if (aws_json_value_get_from_object_c_str(v, (const char *)kc.ptr) != g) {
                        JERR("get-from-object", "%s: cursor and c_str flavours of get_from_object(<%s>) disagree", stage, v_show(kc.ptr, kc.len));
                        return;
                    }
                    if (g != m.val[i]) {
                        int twin = -1;
                        for (int j = 0; j < i; ++j)
                            if (g == m.val[j] && r_bytes_ieq(m.key[j].ptr, m.key[j].len, kc.ptr, kc.len)) twin = j;
                        if (twin >= 0) {
                            /* json.h: "key ... Is case sensitive".  Reported, but the item goes on (lookups are the only
                             * thing case twins disturb; order / bytes / round trip are still checked). */
                            V_COUNT("lookups_answered_by_case_twin", 1);
                            if (j_report_case_twins) JFAIL("get-ignores-case", "%s: get_from_object(<%s>) returned the member named <%s> (member %d) instead of member %d", stage,
                                  v_show(kc.ptr, kc.len), v_show(m.key[twin].ptr, m.key[twin].len), twin, i);
                        } else {
                            JERR("get-from-object", "%s: get_from_object(<%s>) returned %s", stage, v_show(kc.ptr, kc.len), g ? "a different member" : "NULL");
                            return;
                        }
                    }
                }
                j_walk(m.val[i], c, stage, lookups);
            }
            if (lookups && !r_failed) {
                static const char absent[] = "\x02zz"; /* never a member name in any section */
                if (aws_json_value_has_key_c_str(v, absent) || aws_json_value_get_from_object_c_str(v, absent) != NULL ||
                    aws_json_value_has_key(v, aws_byte_cursor_from_c_str(absent)))
                    JERR("absent-key-found", "%s: has_key / get_from_object find a member name the object does not have", stage);
            }
            break;
        }
        default: break;
    }
}
#endif /* JREF_H */
