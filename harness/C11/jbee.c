/*
 * C11 — JSON values survive serialise / parse (BEE part; DESIGN §5 C11).
 *
 * Every item builds ONE reference tree (jref.h) from its index, then
 *   path A: builds it through the public aws_json_value_new_* / add_* API,
 *   path B: writes it as JSON text with the harness's own writer (three styles) and parses that,
 * walks each resulting aws_json_value through the public accessors against the reference, serialises it compact and
 * formatted, feeds the emitted text to (1) an independent strict RFC 8259 reader and (2) aws_json_value_new_from_string,
 * compares both with the reference (numbers under the tolerance rule), checks aws_json_value_compare and
 * aws_json_value_duplicate, destroys everything and requires the guard allocator to be back at zero live blocks.
 *
 * Sections: num (boundary doubles x 3 contexts), str (strings <= 3 symbols x 4 roles), strtext (same strings written
 * with escapes x 3 styles x 2 roles), byte (every ASCII byte), uescape (every BMP \uXXXX), surrogate (escape pairs),
 * tree (all trees <= 4/5 nodes), deep (nesting up to the limit of 1000).
 */
#include "bee.h"
#include "galloc.h"
#define JFAIL bee_fail
#include "jref.h"

static struct aws_allocator *A;

/* ------------------------------------------------------------------ plumbing ------------------------------ */
static uint8_t g_compact[200]; /* first bytes of the last compact text emitted (for classification / samples) */
static size_t g_compact_len;
/* aws_json_value_compare takes time exponential in the number of nested OBJECT levels (see section cmpcost, which reports
 * it once): beyond 16 object levels the deep section leaves compare out and counts that, everything else is still checked */
static bool g_skip_compare;
static bool do_compare(const struct aws_json_value *a, const struct aws_json_value *b, bool cs) {
    if (g_skip_compare) {
        V_COUNT("compares_left_out_deep_objects", 1);
        return true;
    }
    return aws_json_value_compare(a, b, cs);
}

static struct aws_json_value *parse_text(const uint8_t *p, size_t n) {
    uint8_t *blk = bee_block(p, n); /* exact size, no terminator: an over-read is an ASan report */
    struct aws_json_value *v = aws_json_value_new_from_string(A, aws_byte_cursor_from_array(blk, n));
    free(blk);
    return v;
}

static struct aws_json_value *api_leaf(int r) {
    switch (rn[r].type) {
        case R_NULL: return aws_json_value_new_null(A);
        case R_FALSE: return aws_json_value_new_boolean(A, false);
        case R_TRUE: return aws_json_value_new_boolean(A, true);
        case R_NUM: return aws_json_value_new_number(A, rn[r].num);
        case R_STR: {
            if (r & 1) return aws_json_value_new_string_from_c_str(A, (const char *)(rs + rn[r].s_off));
            uint8_t *blk = bee_block(rs + rn[r].s_off, rn[r].s_len);
            struct aws_json_value *v = aws_json_value_new_string(A, aws_byte_cursor_from_array(blk, rn[r].s_len));
            free(blk);
            return v;
        }
        case R_ARR: return aws_json_value_new_array(A);
        default: return aws_json_value_new_object(A);
    }
}
/* builds reference node r through the API.  *case_refusal is set (and NULL returned) when add_to_object refused a member
 * whose name differs from an earlier member's only in ASCII case. */
static struct aws_json_value *api_build(int r, bool *case_refusal) {
    struct aws_json_value *v = api_leaf(r);
    if (!v) {
        JERR("create-failed", "aws_json_value_new_%s returned NULL", r_tname[rn[r].type]);
        return NULL;
    }
    int k = 0;
    for (int c = rn[r].first; c >= 0; c = rn[c].next, ++k) {
        struct aws_json_value *cv = api_build(c, case_refusal);
        if (!cv) {
            aws_json_value_destroy(v);
            return NULL;
        }
        int rc;
        if (rn[r].type == R_ARR) {
            rc = aws_json_value_add_array_element(v, cv);
        } else if (k & 1) {
            rc = aws_json_value_add_to_object_c_str(v, (const char *)(rs + rn[c].k_off), cv);
        } else {
            uint8_t *blk = bee_block(rs + rn[c].k_off, rn[c].k_len);
            rc = aws_json_value_add_to_object(v, aws_byte_cursor_from_array(blk, rn[c].k_len), cv);
            free(blk);
        }
        if (rc != AWS_OP_SUCCESS) {
            bool twin = false;
            if (rn[r].type == R_OBJ)
                for (int d = rn[r].first; d != c; d = rn[d].next)
                    if (r_bytes_ieq(rs + rn[d].k_off, rn[d].k_len, rs + rn[c].k_off, rn[c].k_len)) twin = true;
            if (twin) {
                *case_refusal = true;
                V_COUNT("adds_refused_for_case_twin", 1);
                if (j_report_case_twins) bee_fail("add-refused-key-differs-only-in-case",
                         "add_to_object(<%s>) refused although no member has that name: an earlier member's name differs only in case (json.h: names are case sensitive)",
                         v_show(rs + rn[c].k_off, rn[c].k_len));
            } else {
                JERR("add-refused", "adding member %d (<%s>) to a fresh %s failed, error %d", k, v_show(rs + rn[c].k_off, rn[c].k_len), r_tname[rn[r].type], aws_last_error());
            }
            aws_json_value_destroy(cv); /* a refused value stays ours */
            aws_json_value_destroy(v);
            return NULL;
        }
    }
    return v;
}

/* serialise compact + formatted; independent reader; re-parse; compare */
static void roundtrip(const struct aws_json_value *v, int r, const char *what) {
    for (int fmt = 0; fmt < 2 && !r_failed; ++fmt) {
        char stage[64];
        snprintf(stage, sizeof(stage), "%s, %s output", what, fmt ? "formatted" : "compact");
        struct aws_byte_buf out;
        aws_byte_buf_init(&out, A, 8);
        int rc = fmt ? aws_byte_buf_append_json_string_formatted(v, &out) : aws_byte_buf_append_json_string(v, &out);
        if (rc != AWS_OP_SUCCESS) {
            JERR("serialise-failed", "%s: append_json_string returned error %d", stage, aws_last_error());
            aws_byte_buf_clean_up_secure(&out);
            return;
        }
        if (!fmt) {
            g_compact_len = out.len < sizeof(g_compact) ? out.len : sizeof(g_compact);
            memcpy(g_compact, out.buffer, g_compact_len);
        }
        /* (1) independent strict reader */
        int mark_n = rn_n;
        uint32_t mark_s = rs_n;
        const char *err = NULL;
        size_t pos = 0;
        int g = sr_read(out.buffer, out.len, &err, &pos);
        if (g < 0)
            JERR("emitted-text-not-json", "%s: independent RFC 8259 reader rejects the emitted text at byte %zu (%s): %s", stage, pos, err, v_show(out.buffer, out.len > 120 ? 120 : out.len));
        else
            r_compare(r, g, stage);
        rn_n = mark_n;
        rs_n = mark_s;
        /* (2) the library's own parser */
        if (!r_failed) {
            struct aws_json_value *b = parse_text(out.buffer, out.len);
            if (!b) {
                JERR("reparse-failed", "%s: aws_json_value_new_from_string rejects the text the serialiser emitted: %s", stage, v_show(out.buffer, out.len > 120 ? 120 : out.len));
            } else {
                j_walk(b, r, stage, true);
                if (!r_failed && !(do_compare(v, b, true) && do_compare(b, v, true)))
                    JERR("compare-after-roundtrip", "%s: aws_json_value_compare(original, re-parsed) is false: %s", stage, v_show(out.buffer, out.len > 120 ? 120 : out.len));
                aws_json_value_destroy(b);
            }
        }
        aws_byte_buf_clean_up_secure(&out);
    }
}

static void check_duplicate(struct aws_json_value *v, int r, bool twins) {
    /* consumes v */
    struct aws_json_value *d = aws_json_value_duplicate(v);
    if (!d) {
        JERR("duplicate-failed", "aws_json_value_duplicate returned NULL (error %d)", aws_last_error());
        aws_json_value_destroy(v);
        return;
    }
    if (!(do_compare(v, d, true) && do_compare(d, v, true))) JERR("duplicate-not-equal", "a duplicate does not compare equal to its original");
    if (!twins && !do_compare(v, d, false)) JERR("duplicate-not-equal", "a duplicate does not compare equal (case-insensitive flag) to its original");
    aws_json_value_destroy(v); /* the duplicate must not share anything with the original */
    j_walk(d, r, "duplicate after the original was destroyed", true);
    aws_json_value_destroy(d);
}

#define CT_TEXT_ONLY 1u  /* no API path (the section is about parsing harness-written text) */
#define CT_ONE_STYLE 2u  /* path B with writer style 0 only */
#define CT_NO_TEXT 4u    /* path A only */
static void check_tree(int r, unsigned flags) {
    bool twins = r_has_case_twins(r);
    if (!(flags & CT_TEXT_ONLY)) {
        bool case_refusal = false;
        struct aws_json_value *v = api_build(r, &case_refusal);
        if (v) {
            V_COUNT("api_built", 1);
            j_walk(v, r, "built through the API", true);
            if (!r_failed) roundtrip(v, r, "built through the API");
            if (!r_failed) check_duplicate(v, r, twins);
            else aws_json_value_destroy(v);
        }
    }
    static uint8_t text[1 << 16];
    for (int style = 0; style < 3 && !r_failed && !(flags & CT_NO_TEXT); ++style) {
        if (style && (flags & CT_ONE_STYLE)) break;
        struct jw w = {text, 0, sizeof(text), style};
        jw_value(&w, r);
        struct aws_json_value *t = parse_text(w.b, w.n);
        if (!t) {
            JERR("parse-failed", "aws_json_value_new_from_string rejects harness-written JSON (style %d): %s", style, v_show(w.b, w.n > 160 ? 160 : w.n));
            break;
        }
        V_COUNT("text_parsed", 1);
        char stage[48];
        snprintf(stage, sizeof(stage), "parsed from text (writer style %d)", style);
        j_walk(t, r, stage, true);
        if (!r_failed && style == 0) {
            roundtrip(t, r, "parsed from text");
            if (!r_failed) {
                check_duplicate(t, r, twins);
                t = NULL;
            }
        }
        if (t) aws_json_value_destroy(t);
    }
    if (!r_failed && ga.live_blocks != 0)
        JERR("allocator-balance", "%llu blocks (%llu bytes) still live after every value and buffer was destroyed", (unsigned long long)ga.live_blocks, (unsigned long long)ga.live_bytes);
}
static void item_begin(void) {
    galloc_reset();
    r_reset();
    g_compact_len = 0;
    g_skip_compare = false;
    j_report_case_twins = true;
}

/* ================================================================== section num ========================== */
#define NUM_MAX 40000
static double NUMS[NUM_MAX];
static int n_nums;
static void num_add(double v) {
    if (!isfinite(v)) return;
    if (n_nums >= NUM_MAX) {
        fprintf(stderr, "NUM_MAX\n");
        exit(2);
    }
    NUMS[n_nums++] = v;
}
static void num_around(double v, int k) { /* v, its k lower and k upper neighbours, and the negation of all of them */
    double lo = v, hi = v;
    num_add(v);
    num_add(-v);
    for (int i = 0; i < k; ++i) {
        lo = nextafter(lo, -INFINITY);
        hi = nextafter(hi, INFINITY);
        num_add(lo);
        num_add(-lo);
        num_add(hi);
        num_add(-hi);
    }
}
static int num_cmp(const void *a, const void *b) {
    double x = *(const double *)a, y = *(const double *)b;
    if (x < y) return -1;
    if (x > y) return 1;
    return (int)signbit(y) - (int)signbit(x); /* -0 before +0 */
}
static void num_build(void) {
    static const double base[] = {0.0, 1.0, 2.0, 10.0, 100.0, 255.0, 65536.0, 0.5, 1.5, 0.1, 0.2, 0.3, 0.7, 1.0 / 3, 2.0 / 3, 1e-4, 1e-5, 0.0001234, 1e-7, 1e-10, 0.001, 123.456,
                                  3.141592653589793, 2.718281828459045, 6.02214076e23, 1e9, 1e14, 1e15, 1e16, 1e17, 1e20, 1e21, 1e22, 1e23, 1e300, 1e-300, 999999999999999.0,
                                  9999999999999998.0, 123456789012345.0, 1234567890123456.0, 12345678901234567.0, 123456789012345.6, 0.30000000000000004, 1.0000000000000002,
                                  2147483647.0, 2147483648.0, 2147483649.0, 2147483647.5, 4294967295.0, 4294967296.0, 4294967296.5, 9007199254740991.0, 9007199254740992.0,
                                  9007199254740994.0, 9223372036854775808.0, 18446744073709551616.0, 2.2250738585072014e-308, 1.1125369292536007e-308, 5e-324,
                                  8.98846567431158e307, 1.797693134862315e308};
    int k = v_thorough() ? 8 : 2;
    for (size_t i = 0; i < sizeof(base) / sizeof(base[0]); ++i) num_around(base[i], k);
    num_around(DBL_MAX, 12); /* the upper neighbours are infinite and dropped */
    /* every power of two and of ten in range, each with its two neighbours */
    for (int e = -1074; e <= 1023; ++e) num_around(ldexp(1.0, e), 1);
    for (int e = -323; e <= 308; ++e) {
        char t[16];
        snprintf(t, sizeof(t), "1e%d", e);
        num_around(strtod(t, NULL), 1);
    }
    qsort(NUMS, (size_t)n_nums, sizeof(double), num_cmp);
    int o = 0;
    for (int i = 0; i < n_nums; ++i)
        if (o == 0 || memcmp(&NUMS[o - 1], &NUMS[i], sizeof(double)) != 0) NUMS[o++] = NUMS[i];
    n_nums = o;
}
static uint64_t num_total(void) { return (uint64_t)n_nums * 3; }
static void num_eval(uint64_t idx, void *ctx) {
    (void)ctx;
    BEE_ITEM(idx);
    item_begin();
    unsigned where = (unsigned)(idx % 3);
    double v = NUMS[idx / 3];
    int r = r_num(v);
    if (where == 1) {
        int a = r_new(R_ARR);
        r_append(a, r);
        r = a;
    } else if (where == 2) {
        int o = r_new(R_OBJ);
        r_setkey(r, "n", 1);
        r_append(o, r);
        r = o;
    }
    V_COUNT("evaluations", 1);
    check_tree(r, CT_ONE_STYLE);
    /* classification from the emitted compact text (vacuity evidence) */
    if (where == 0 && g_compact_len) {
        int digits = 0, plain = 1, started = 0;
        for (size_t i = 0; i < g_compact_len; ++i) {
            uint8_t c = g_compact[i];
            if (c == 'e' || c == 'E') break;
            if (c == '.') plain = 0;
            if (c >= '1' && c <= '9') started = 1;
            if (c >= '0' && c <= '9' && started) ++digits;
        }
        if (memchr(g_compact, 'e', g_compact_len)) plain = 0;
        if (plain) V_COUNT("num_text_plain_integer", 1);
        else if (digits <= 15) V_COUNT("num_text_15_digits", 1);
        else V_COUNT("num_text_17_digits", 1);
    }
    if (g_compact_len && (memchr(g_compact, '.', g_compact_len) || memchr(g_compact, 'e', g_compact_len))) V_COUNT("nontrivial", 1);
    if (num_exact_class(v)) V_COUNT("num_exact_class", 1);
    else V_COUNT("num_tolerance_class", 1);
    if (where == 0 && (v == 0.1 || v == DBL_MAX || v == 5e-324 || v == 2147483648.0 || v == 0.30000000000000004 || (v == 0 && signbit(v))))
        v_sample("num: %.17g -> %.*s", v, (int)g_compact_len, g_compact);
}

/* ================================================================== strings ============================== */
struct sym {
    uint8_t b[5];
    int n;
    uint32_t cp;
};
static const struct sym SYM[10] = {{"a", 1, 'a'},       {"\"", 1, '"'},          {"\\", 1, '\\'},          {"/", 1, '/'},           {"\x01", 1, 1},
                                   {"\x1f", 1, 0x1f},   {"\x7f", 1, 0x7f},       {"\xc3\xa9", 2, 0xe9},    {"\xe2\x82\xac", 3, 0x20ac}, {"\xf0\x9f\x98\x80", 4, 0x1f600}};
#define NSYM 10
#define STR_MAXSYM 3
/* decodes idx into symbol indices; returns the number of symbols */
static unsigned str_syms(uint64_t idx, uint8_t *syms) {
    static const uint8_t ident[NSYM] = {0, 1, 2, 3, 4, 5, 6, 7, 8, 9};
    return (unsigned)bee_string_at(idx, ident, NSYM, STR_MAXSYM, syms);
}
static size_t str_bytes(const uint8_t *syms, unsigned n, uint8_t *out) {
    size_t o = 0;
    for (unsigned i = 0; i < n; ++i) {
        memcpy(out + o, SYM[syms[i]].b, (size_t)SYM[syms[i]].n);
        o += (size_t)SYM[syms[i]].n;
    }
    return o;
}
static bool str_interesting(const uint8_t *syms, unsigned n) {
    for (unsigned i = 0; i < n; ++i)
        if (syms[i] != 0 && syms[i] != 3 && syms[i] != 6) return true; /* something escaped or multi-byte */
    return false;
}
/* roles: 0 bare string, 1 [s], 2 {"k": s}, 3 {s: true} */
static int str_place(const uint8_t *s, size_t n, unsigned role) {
    if (role == 3) {
        int o = r_new(R_OBJ), t = r_new(R_TRUE);
        r_setkey(t, s, n);
        r_append(o, t);
        return o;
    }
    int r = r_str(s, n);
    if (role == 1) {
        int a = r_new(R_ARR);
        r_append(a, r);
        return a;
    }
    if (role == 2) {
        int o = r_new(R_OBJ);
        r_setkey(r, "k", 1);
        r_append(o, r);
        return o;
    }
    return r;
}
static uint64_t str_total(void) { return bee_strings_upto(NSYM, STR_MAXSYM) * 4; }
static void str_eval(uint64_t idx, void *ctx) {
    (void)ctx;
    BEE_ITEM(idx);
    item_begin();
    unsigned role = (unsigned)(idx % 4);
    uint8_t syms[STR_MAXSYM], s[16];
    unsigned ns = str_syms(idx / 4, syms);
    size_t n = str_bytes(syms, ns, s);
    V_COUNT("evaluations", 1);
    if (str_interesting(syms, ns)) V_COUNT("nontrivial", 1);
    check_tree(str_place(s, n, role), 0);
    if (idx == 4 * 1110 + 3 || idx == 4 * 567) v_sample("str role %u: <%s> -> %.*s", role, v_show(s, n), (int)g_compact_len, g_compact);
}

/* strtext: the same strings, written by the harness with escapes, parsed by the library.
 * style 0: every symbol as \uXXXX (lower-case hex), style 1: \uXXXX upper-case, style 2: short escapes \" \\ \/ , mixed-case
 * \u001F, raw 0x7F and raw UTF-8.  roles: 0 value, 1 member name. */
static uint64_t strtext_total(void) { return bee_strings_upto(NSYM, STR_MAXSYM) * 3 * 2; }
static void strtext_eval(uint64_t idx, void *ctx) {
    (void)ctx;
    BEE_ITEM(idx);
    item_begin();
    uint64_t x = idx;
    unsigned role = bee_digit(&x, 2), style = bee_digit(&x, 3);
    uint8_t syms[STR_MAXSYM], s[16];
    unsigned ns = str_syms(x, syms);
    size_t n = str_bytes(syms, ns, s);
    char lit[128];
    size_t o = 0;
    lit[o++] = '"';
    for (unsigned i = 0; i < ns; ++i) {
        const struct sym *y = &SYM[syms[i]];
        if (style == 2) {
            if (y->cp == '"' || y->cp == '\\' || y->cp == '/') o += (size_t)sprintf(lit + o, "\\%c", (char)y->cp);
            else if (y->cp == 0x1f) o += (size_t)sprintf(lit + o, "\\u001F");
            else if (y->cp < 0x20) o += (size_t)sprintf(lit + o, "\\u%04x", y->cp);
            else {
                memcpy(lit + o, y->b, (size_t)y->n);
                o += (size_t)y->n;
            }
        } else if (y->cp >= 0x10000) {
            o += (size_t)sprintf(lit + o, style ? "\\u%04X\\u%04X" : "\\u%04x\\u%04x", 0xD800 + ((y->cp - 0x10000) >> 10), 0xDC00 + ((y->cp - 0x10000) & 0x3ff));
        } else {
            o += (size_t)sprintf(lit + o, style ? "\\u%04X" : "\\u%04x", y->cp);
        }
    }
    lit[o++] = '"';
    char text[160];
    int tn = role ? snprintf(text, sizeof(text), "{%.*s:false}", (int)o, lit) : snprintf(text, sizeof(text), " %.*s ", (int)o, lit);
    int r;
    if (role) {
        r = r_new(R_OBJ);
        int f = r_new(R_FALSE);
        r_setkey(f, s, n);
        r_append(r, f);
    } else {
        r = r_str(s, n);
    }
    V_COUNT("evaluations", 1);
    if (ns) V_COUNT("nontrivial", 1);
    struct aws_json_value *t = parse_text((const uint8_t *)text, (size_t)tn);
    if (!t) {
        bee_fail("escaped-text-rejected", "aws_json_value_new_from_string rejects %s", v_show(text, (size_t)tn));
        return;
    }
    j_walk(t, r, "parsed from escaped text", true);
    if (r_failed) {
        /* re-label: the interesting fact is which text decoded wrongly */
        v_out("INFO strtext witness text: %s", v_show(text, (size_t)tn));
    }
    if (!r_failed) roundtrip(t, r, "parsed from escaped text");
    aws_json_value_destroy(t);
    if (!r_failed && ga.live_blocks) JERR("allocator-balance", "%llu blocks live at the end", (unsigned long long)ga.live_blocks);
    if (idx == 6 * 1110 + 2 || idx == 6 * 1110 + 5) v_sample("strtext: %s -> <%s>", text, v_show(s, n));
}

/* byte: every ASCII byte 0x01..0x7F, alone and between two letters, as value and as member name */
static uint64_t byte_total(void) { return 127 * 2 * 2; }
static void byte_eval(uint64_t idx, void *ctx) {
    (void)ctx;
    BEE_ITEM(idx);
    item_begin();
    uint64_t x = idx;
    unsigned role = bee_digit(&x, 2), framed = bee_digit(&x, 2);
    uint8_t b = (uint8_t)(1 + x), s[3];
    size_t n = 0;
    if (framed) s[n++] = 'x';
    s[n++] = b;
    if (framed) s[n++] = 'y';
    V_COUNT("evaluations", 1);
    if (b < 0x20 || b == '"' || b == '\\') V_COUNT("nontrivial", 1);
    check_tree(str_place(s, n, role ? 3 : 0), 0);
}

/* uescape: "\uXXXX" for every BMP code point except NUL and the surrogate range, lower- and upper-case hex digits */
static uint64_t uescape_total(void) { return 2ull * 0x10000; }
static void uescape_eval(uint64_t idx, void *ctx) {
    (void)ctx;
    BEE_ITEM(idx);
    uint32_t cp = (uint32_t)(idx >> 1);
    int upper = (int)(idx & 1);
    if (cp == 0) return; /* embedded NUL: outside the property */
    item_begin();
    char text[32];
    int tn = snprintf(text, sizeof(text), upper ? "\"\\u%04X\"" : "\"\\u%04x\"", cp);
    if (cp >= 0xD800 && cp <= 0xDFFF) {
        /* a lone surrogate escape is not a string the property speaks about: outcome recorded, no verdict */
        struct aws_json_value *t = parse_text((const uint8_t *)text, (size_t)tn);
        if (t) V_COUNT("lone_surrogate_accepted", 1);
        else V_COUNT("lone_surrogate_refused", 1);
        aws_json_value_destroy(t);
        return;
    }
    uint8_t u[4];
    size_t n = utf8_put(cp, u);
    int r = r_str(u, n);
    V_COUNT("evaluations", 1);
    if (n > 1) V_COUNT("nontrivial", 1);
    struct aws_json_value *t = parse_text((const uint8_t *)text, (size_t)tn);
    if (!t) {
        bee_fail("escaped-text-rejected", "aws_json_value_new_from_string rejects %s", text);
        return;
    }
    j_walk(t, r, text, true);
    if (!r_failed) roundtrip(t, r, text);
    aws_json_value_destroy(t);
    if (!r_failed && ga.live_blocks) JERR("allocator-balance", "%llu blocks live at the end", (unsigned long long)ga.live_blocks);
}

/* surrogate: "\uHHHH\uLLLL": quick = 12 x 12 boundary halves, thorough = all 1024 x 1024 pairs */
static const uint16_t SUR_Q[12] = {0, 1, 2, 0x3d, 0x3e, 0xff, 0x100, 0x1ff, 0x200, 0x3fd, 0x3fe, 0x3ff};
static uint64_t surrogate_total(void) { return v_thorough() ? 1024ull * 1024 : 144; }
static void surrogate_eval(uint64_t idx, void *ctx) {
    (void)ctx;
    BEE_ITEM(idx);
    item_begin();
    uint32_t hi, lo;
    if (v_thorough()) hi = (uint32_t)(idx >> 10), lo = (uint32_t)(idx & 1023);
    else hi = SUR_Q[idx / 12], lo = SUR_Q[idx % 12];
    uint32_t cp = 0x10000 + (hi << 10) + lo;
    char text[40];
    int tn = snprintf(text, sizeof(text), ((hi ^ lo) & 1) ? "[\"\\u%04x\\u%04X\"]" : "[\"\\u%04X\\u%04x\"]", 0xD800 + hi, 0xDC00 + lo);
    uint8_t u[4];
    size_t n = utf8_put(cp, u);
    int a = r_new(R_ARR);
    r_append(a, r_str(u, n));
    V_COUNT("evaluations", 1);
    V_COUNT("nontrivial", 1);
    struct aws_json_value *t = parse_text((const uint8_t *)text, (size_t)tn);
    if (!t) {
        bee_fail("escaped-text-rejected", "aws_json_value_new_from_string rejects %s", text);
        return;
    }
    j_walk(t, a, text, true);
    if (!r_failed) roundtrip(t, a, text);
    aws_json_value_destroy(t);
    if (!r_failed && ga.live_blocks) JERR("allocator-balance", "%llu blocks live at the end", (unsigned long long)ga.live_blocks);
    if (hi == 0x3d && lo == 0x200) v_sample("surrogate: %s -> <%s> (U+%X)", text, v_show(u, n), cp);
}

/* ================================================================== section tree ========================= */
#define T_MAXN 5
#define T_MAXDEPTH 3
#define T_NLEAF 10 /* null true false 0 -1.5 0.30000000000000004 "" "q\"\\<1F>e-acute-euro-emoji/" [] {} */
struct shape {
    int n;
    int parent[T_MAXN], nchild[T_MAXN], depth[T_MAXN];
    uint64_t radix[T_MAXN], total;
};
static struct shape SHAPES[64];
static int n_shapes;
static uint64_t tree_total_q, tree_total_t;
static const uint64_t PERM4[5] = {1, 4, 12, 24, 24};
static void shape_rec(int n, int i, int *d) {
    if (i == n) {
        struct shape *s = &SHAPES[n_shapes++];
        memset(s, 0, sizeof(*s));
        s->n = n;
        s->total = 1;
        for (int k = 0; k < n; ++k) {
            s->depth[k] = d[k];
            s->parent[k] = -1;
            for (int j = k - 1; j >= 0; --j)
                if (d[j] == d[k] - 1) {
                    s->parent[k] = j;
                    break;
                }
            if (s->parent[k] >= 0) s->nchild[s->parent[k]]++;
        }
        for (int k = 0; k < n; ++k) {
            s->radix[k] = s->nchild[k] ? 1 + PERM4[s->nchild[k]] : T_NLEAF;
            s->total *= s->radix[k];
        }
        return;
    }
    for (int v = 1; v <= d[i - 1] + 1 && v <= T_MAXDEPTH; ++v) {
        d[i] = v;
        shape_rec(n, i + 1, d);
    }
}
static void tree_build_shapes(void) {
    int d[T_MAXN] = {0};
    for (int n = 1; n <= T_MAXN; ++n) {
        shape_rec(n, 1, d);
        uint64_t t = 0;
        for (int s = 0; s < n_shapes; ++s) t += SHAPES[s].total;
        if (n == 4) tree_total_q = t;
        if (n == 5) tree_total_t = t;
    }
}
static uint64_t tree_total(void) { return v_thorough() ? tree_total_t : tree_total_q; }
static const uint8_t TREE_STR[] = "q\"\\\x1f\xc3\xa9\xe2\x82\xac\xf0\x9f\x98\x80/";
static void tree_eval(uint64_t idx, void *ctx) {
    (void)ctx;
    BEE_ITEM(idx);
    item_begin();
    uint64_t x = idx;
    int si = 0;
    while (x >= SHAPES[si].total) x -= SHAPES[si++].total;
    const struct shape *s = &SHAPES[si];
    int node[T_MAXN], nobj = 0, maxd = 0;
    uint64_t perm[T_MAXN] = {0};
    int seen_children[T_MAXN] = {0};
    static const char *KEYS[4] = {"a", "A", "b", ""};
    int avail[T_MAXN][4];
    for (int k = 0; k < s->n; ++k) {
        unsigned dg = (unsigned)(x % s->radix[k]);
        x /= s->radix[k];
        if (s->nchild[k]) {
            node[k] = r_new(dg ? R_OBJ : R_ARR);
            perm[k] = dg ? dg - 1 : 0;
            if (dg) ++nobj;
            for (int q = 0; q < 4; ++q) avail[k][q] = q;
        } else {
            switch (dg) {
                case 0: node[k] = r_new(R_NULL); break;
                case 1: node[k] = r_new(R_TRUE); break;
                case 2: node[k] = r_new(R_FALSE); break;
                case 3: node[k] = r_num(0.0); break;
                case 4: node[k] = r_num(-1.5); break;
                case 5: node[k] = r_num(0.30000000000000004); break;
                case 6: node[k] = r_str("", 0); break;
                case 7: node[k] = r_str(TREE_STR, sizeof(TREE_STR) - 1); break;
                case 8: node[k] = r_new(R_ARR); break;
                default: node[k] = r_new(R_OBJ); break;
            }
        }
        if (s->depth[k] > maxd) maxd = s->depth[k];
        int p = s->parent[k];
        if (p >= 0) {
            if (rn[node[p]].type == R_OBJ) {
                unsigned left = 4u - (unsigned)seen_children[p];
                unsigned pick = (unsigned)(perm[p] % left);
                perm[p] /= left;
                int key = avail[p][pick];
                for (unsigned q = pick; q + 1 < left; ++q) avail[p][q] = avail[p][q + 1];
                r_setkey(node[k], KEYS[key], strlen(KEYS[key]));
            }
            seen_children[p]++;
            r_append(node[p], node[k]);
        }
    }
    j_report_case_twins = s->n <= 3; /* larger trees with such names are checked the same way but only counted */
    V_COUNT("evaluations", 1);
    if (s->n >= 3) V_COUNT("nontrivial", 1);
    if (nobj) V_COUNT("trees_with_object", 1);
    if (maxd == T_MAXDEPTH) V_COUNT("trees_depth_3", 1);
    if (r_has_case_twins(node[0])) V_COUNT("trees_with_case_twin_names", 1);
    check_tree(node[0], 0);
    if (idx == 777 || idx == 40000 || idx == 1000000) v_sample("tree %" PRIu64 " (%d nodes): %.*s", idx, s->n, (int)g_compact_len, g_compact);
}

/* ================================================================== section deep ========================= */
/* nesting up to CJSON_NESTING_LIMIT (1000): arrays, objects, alternating; innermost value 7.  Depth 1001 is beyond
 * "up to the nesting limit": outcome recorded, no verdict. */
static const int DEPTHS[] = {1, 2, 3, 4, 8, 64, 500, 999, 1000, 1001};
#define N_DEPTHS ((int)(sizeof(DEPTHS) / sizeof(DEPTHS[0])))
static uint64_t deep_total(void) { return (uint64_t)N_DEPTHS * 3; }
static void deep_eval(uint64_t idx, void *ctx) {
    (void)ctx;
    BEE_ITEM(idx);
    item_begin();
    int depth = DEPTHS[idx / 3], kind = (int)(idx % 3);
    int root = -1, cur = -1;
    g_skip_compare = (kind == 1 ? depth : kind == 2 ? depth / 2 : 0) > 16;
    for (int d = 0; d < depth; ++d) {
        int obj = kind == 1 || (kind == 2 && (d & 1));
        int c = r_new(obj ? R_OBJ : R_ARR);
        if (cur >= 0) {
            if (rn[cur].type == R_OBJ) r_setkey(c, "a", 1);
            r_append(cur, c);
        } else
            root = c;
        cur = c;
    }
    int leaf = r_num(7);
    if (rn[cur].type == R_OBJ) r_setkey(leaf, "a", 1);
    r_append(cur, leaf);
    if (depth > 1000) {
        bool cr = false;
        struct aws_json_value *v = api_build(root, &cr);
        struct aws_byte_buf out;
        aws_byte_buf_init(&out, A, 8);
        if (v && aws_byte_buf_append_json_string(v, &out) == AWS_OP_SUCCESS) {
            struct aws_json_value *b = parse_text(out.buffer, out.len);
            if (b) V_COUNT("beyond_nesting_limit_reparsed", 1);
            else V_COUNT("beyond_nesting_limit_refused", 1);
            aws_json_value_destroy(b);
        }
        aws_byte_buf_clean_up_secure(&out);
        aws_json_value_destroy(v);
        return;
    }
    V_COUNT("evaluations", 1);
    if (depth >= 999) V_COUNT("nontrivial", 1);
    V_MAXSTAT("max_nesting_round_tripped", (uint64_t)depth);
    /* path A */
    check_tree(root, CT_NO_TEXT);
    /* path B with compact text generated here (the generic writer buffer is small) */
    if (!r_failed) {
        size_t cap = (size_t)depth * 12 + 16, o = 0;
        uint8_t *t = (uint8_t *)malloc(cap);
        for (int d = 0; d < depth; ++d) {
            int obj = kind == 1 || (kind == 2 && (d & 1));
            o += (size_t)sprintf((char *)t + o, obj ? "{\"a\":" : "[");
        }
        t[o++] = '7';
        for (int d = depth - 1; d >= 0; --d) t[o++] = (kind == 1 || (kind == 2 && (d & 1))) ? '}' : ']';
        struct aws_json_value *v = parse_text(t, o);
        free(t);
        if (!v) {
            JERR("parse-failed", "aws_json_value_new_from_string rejects %d nested containers (limit is 1000)", depth);
        } else {
            j_walk(v, root, "parsed from nested text", true);
            aws_json_value_destroy(v);
            if (!r_failed && ga.live_blocks) JERR("allocator-balance", "%llu blocks live at the end", (unsigned long long)ga.live_blocks);
        }
    }
}


/* ================================================================== section longstr ====================== */
/* strings and member names around and beyond the serialiser's buffer sizes (256 bytes initially, doubling): a single
 * string longer than the current print buffer forces a growth driven by the pending write, not by the buffer length
 * (added after a seeded change in cJSON's ensure() - growth by 2 x current length - was out of reach of the <= 3 symbol
 * strings).  roles: 0 bare string, 1 {"p":<200 bytes>,"k":s}, 2 {s:true} (long member name), 3 [<300 bytes>, s, "z"];
 * pattern 0 plain ASCII, 1 every 5th byte needs an escape (output longer than input). */
static const int LONG_RANGES[][2] = {{0, 40}, {230, 290}, {490, 540}, {750, 775}, {1000, 1050}, {2030, 2070}, {4080, 4110}};
static int long_len_at(uint64_t k) {
    for (size_t r = 0; r < sizeof(LONG_RANGES) / sizeof(LONG_RANGES[0]); ++r) {
        uint64_t n = (uint64_t)(LONG_RANGES[r][1] - LONG_RANGES[r][0] + 1);
        if (k < n) return LONG_RANGES[r][0] + (int)k;
        k -= n;
    }
    return -1;
}
static uint64_t long_nlen(void) {
    uint64_t t = 0;
    for (size_t r = 0; r < sizeof(LONG_RANGES) / sizeof(LONG_RANGES[0]); ++r) t += (uint64_t)(LONG_RANGES[r][1] - LONG_RANGES[r][0] + 1);
    return t;
}
static uint64_t longstr_total(void) { return long_nlen() * 4 * 2; }
static void longstr_eval(uint64_t idx, void *ctx) {
    (void)ctx;
    BEE_ITEM(idx);
    item_begin();
    uint64_t x = idx;
    unsigned pat = bee_digit(&x, 2), role = bee_digit(&x, 4);
    int n = long_len_at(x);
    if (n < 0) return;
    static uint8_t buf[9000], pre[400];
    for (int i = 0; i < n; ++i) buf[i] = (uint8_t)((pat && i % 5 == 4) ? (i % 10 == 4 ? '"' : 0x0A) : ('a' + (i * 7 + n) % 26));
    for (int i = 0; i < 300; ++i) pre[i] = (uint8_t)('A' + i % 26);
    V_COUNT("evaluations", 1);
    if (n > 250) V_COUNT("nontrivial", 1);
    int root;
    if (role == 0) {
        root = r_str(buf, (size_t)n);
    } else if (role == 1) {
        root = r_new(R_OBJ);
        int p1 = r_str(pre, 200), v = r_str(buf, (size_t)n);
        r_setkey(p1, "p", 1);
        r_setkey(v, "k", 1);
        r_append(root, p1);
        r_append(root, v);
    } else if (role == 2) {
        root = r_new(R_OBJ);
        int t = r_new(R_TRUE);
        r_setkey(t, buf, (size_t)n);
        r_append(root, t);
    } else {
        root = r_new(R_ARR);
        r_append(root, r_str(pre, 300));
        r_append(root, r_str(buf, (size_t)n));
        r_append(root, r_str("z", 1));
    }
    check_tree(root, 0);
}


/* ================================================================== section wide ========================= */
/* flat documents with very many (empty) containers: the parser's nesting counter must come back down after every
 * container, empty or not - otherwise a flat document of ~1000 empty arrays is refused as "too deep" (added after a seeded
 * change that skipped the decrement on the empty-array fast path).  kinds: 0 [[],[],...]  1 [{},{},...]
 * 2 [{"i":k,"t":[]},...]  3 {"k0":[],"k1":{},...}  4 [[],{},[1],{"a":[]},...] */
static const int WIDE_N[] = {1, 2, 10, 400, 998, 999, 1000, 1001, 1002, 1500, 2000};
static uint64_t wide_total(void) { return 5ull * (sizeof(WIDE_N) / sizeof(WIDE_N[0])); }
static void wide_eval(uint64_t idx, void *ctx) {
    (void)ctx;
    BEE_ITEM(idx);
    item_begin();
    int kind = (int)(idx % 5), n = WIDE_N[idx / 5];
    int root = r_new(kind == 3 ? R_OBJ : R_ARR);
    for (int i = 0; i < n; ++i) {
        char key[16];
        int c;
        switch (kind) {
            case 0: c = r_new(R_ARR); break;
            case 1: c = r_new(R_OBJ); break;
            case 2: {
                c = r_new(R_OBJ);
                int id = r_num((double)i), t = r_new(R_ARR);
                r_setkey(id, "i", 1);
                r_setkey(t, "t", 1);
                r_append(c, id);
                r_append(c, t);
                break;
            }
            case 3:
                c = r_new(i & 1 ? R_OBJ : R_ARR);
                snprintf(key, sizeof(key), "k%d", i);
                r_setkey(c, key, strlen(key));
                break;
            default:
                if (i % 4 == 0) c = r_new(R_ARR);
                else if (i % 4 == 1) c = r_new(R_OBJ);
                else if (i % 4 == 2) {
                    c = r_new(R_ARR);
                    r_append(c, r_num(1));
                } else {
                    c = r_new(R_OBJ);
                    int t = r_new(R_ARR);
                    r_setkey(t, "a", 1);
                    r_append(c, t);
                }
                break;
        }
        r_append(root, c);
    }
    V_COUNT("evaluations", 1);
    if (n >= 998) V_COUNT("nontrivial", 1);
    g_skip_compare = false;
    check_tree(root, CT_NO_TEXT); /* API -> text (compact and formatted) -> parse -> compare with the reference */
}

/* ================================================================== section cmpcost ====================== */
/* "a duplicate compares equal to its original" must also be *answered*: cJSON_Compare walks every member of an object
 * twice (a against b, then b against a; source/external/cJSON.c:3109-3138), recursively, so n nested objects cost 2^n
 * comparisons and 64 nested objects do not finish.  Probe: thread CPU time of compare(original, duplicate) for 11 and for
 * 22 nested single-member objects ({"a":{"a":...7}}).  Linear work gives a ratio of 2, the doubling gives 2048; the verdict
 * threshold is 200.  (kind 1 = arrays instead of objects as the control: never reported, ratio printed.) */
static double thread_cpu(void) {
    struct timespec ts;
    clock_gettime(CLOCK_THREAD_CPUTIME_ID, &ts);
    return (double)ts.tv_sec + 1e-9 * (double)ts.tv_nsec;
}
static double cmp_cost(int depth, int obj, int reps) {
    item_begin();
    int root = -1, cur = -1;
    for (int d = 0; d < depth; ++d) {
        int c = r_new(obj ? R_OBJ : R_ARR);
        if (cur >= 0) {
            if (obj) r_setkey(c, "a", 1);
            r_append(cur, c);
        } else
            root = c;
        cur = c;
    }
    int leaf = r_num(7);
    if (obj) r_setkey(leaf, "a", 1);
    r_append(cur, leaf);
    bool cr = false;
    struct aws_json_value *v = api_build(root, &cr), *d = aws_json_value_duplicate(v);
    double t0 = thread_cpu();
    bool eq = true;
    for (int i = 0; i < reps; ++i) eq &= aws_json_value_compare(v, d, true);
    double t = (thread_cpu() - t0) / reps;
    if (!eq) bee_fail("duplicate-not-equal", "%d nested %s: duplicate does not compare equal", depth, obj ? "objects" : "arrays");
    aws_json_value_destroy(v);
    aws_json_value_destroy(d);
    return t;
}
static uint64_t cmpcost_total(void) { return 2; }
static void cmpcost_eval(uint64_t idx, void *ctx) {
    (void)ctx;
    BEE_ITEM(idx);
    int obj = idx == 0;
    V_COUNT("evaluations", 1);
    V_COUNT("nontrivial", 1);
    double t11 = cmp_cost(11, obj, 64), t22 = cmp_cost(22, obj, 1);
    double ratio = t22 / (t11 > 1e-9 ? t11 : 1e-9);
    v_out("INFO cmpcost %s: compare of 11 nested = %.1f us, of 22 nested = %.1f us, ratio %.0f", obj ? "objects" : "arrays", t11 * 1e6, t22 * 1e6, ratio);
    if (obj) {
        V_MAXSTAT("max_compare_cost_ratio_22_vs_11_nested_objects", (uint64_t)ratio);
        /* Observation only (DESIGN section 6): C11 speaks about results, not running time, so the exponential cost of
         * cJSON_Compare on nested objects is reported in the evidence (this ratio) and is NOT a verdict. */
        if (ratio > 200) V_COUNT("observation_compare_cost_exponential_in_object_depth", 1);
    }
}

/* ---- section afterfail: a valid document after many refused ones ----
 * Whether a text is valid JSON does not depend on how many malformed texts the process has been handed before: R refused
 * parses of a truncated nested document (R up to 2000, nesting 1..40) are followed by a parse of "[1]", of a document the
 * library serialised itself, and of a 900-level array (added after a seeded change that moved the parser's nesting counter to
 * file scope, where every refused document left the containers it had open) */
static uint64_t afterfail_total(void) { return 6 * 4; }
static void afterfail_eval(uint64_t idx, void *ctx) {
    (void)ctx;
    BEE_ITEM(idx);
    static const unsigned REP[6] = {1, 30, 250, 300, 1000, 2000};
    static const unsigned NEST[4] = {1, 4, 10, 40};
    unsigned reps = REP[idx % 6], nest = NEST[idx / 6];
    char bad[128];
    size_t bn = 0;
    for (unsigned i = 0; i < nest; ++i) bad[bn++] = (i & 1) ? '{' : '[', bn += (i & 1) ? (size_t)snprintf(bad + bn, sizeof(bad) - bn, "\"k\":") : 0;
    V_COUNT("evaluations", 1);
    V_COUNT("nontrivial", 1);
    for (unsigned r = 0; r < reps; ++r) {
        struct aws_json_value *v = aws_json_value_new_from_string(aws_default_allocator(), aws_byte_cursor_from_array(bad, bn));
        if (v) {
            bee_fail("accepts-truncated", "truncated document \"%.*s\" accepted", (int)bn, bad);
            aws_json_value_destroy(v);
            return;
        }
    }
    static char deep[2000];
    memset(deep, '[', 900);
    deep[900] = '7';
    memset(deep + 901, ']', 900);
    const char *good[3] = {"[1]", "{\"a\":[true,{\"b\":null}],\"c\":\"d\"}", deep};
    size_t glen[3] = {3, strlen(good[1]), 1801};
    for (int g = 0; g < 3; ++g) {
        struct aws_json_value *v = aws_json_value_new_from_string(aws_default_allocator(), aws_byte_cursor_from_array(good[g], glen[g]));
        BEE_CHECK(v != NULL, "valid-document-refused-after-failures", "after %u refused parses of a document truncated at nesting level %u the valid document %s is refused", reps, nest,
                  g == 2 ? "[[[...900 levels...7...]]]" : good[g]);
        if (v) aws_json_value_destroy(v);
    }
}

int main(int argc, char **argv) {
    v_init(argc, argv);
    v_max_samples = 16;
    A = galloc_get(0, 0);
    aws_common_library_init(A); /* the JSON module keeps this allocator: every node, name and text buffer comes from galloc */
    num_build();
    tree_build_shapes();
    v_out("INFO boundary doubles: %d; tree shapes: %d; trees <=4 nodes: %" PRIu64 ", <=5 nodes: %" PRIu64, n_nums, n_shapes, tree_total_q, tree_total_t);
    bee_register("num", num_total, num_eval, 20);
    bee_register("str", str_total, str_eval, 20);
    bee_register("strtext", strtext_total, strtext_eval, 20);
    bee_register("byte", byte_total, byte_eval, 20);
    bee_register("uescape", uescape_total, uescape_eval, 20);
    bee_register("surrogate", surrogate_total, surrogate_eval, 20);
    bee_register("tree", tree_total, tree_eval, 20);
    bee_register("longstr", longstr_total, longstr_eval, 30);
    bee_register("wide", wide_total, wide_eval, 60);
    bee_register("deep", deep_total, deep_eval, 60);
    bee_register("afterfail", afterfail_total, afterfail_eval, 30);
    bee_register("cmpcost", cmpcost_total, cmpcost_eval, 120);
    return bee_main(argc, argv);
}
