LEVEL = "exploration"
RULE = ("odometer enumeration (no randomness), one reference tree per index, every tree both built through the aws_json_value API and "
        "parsed from harness-written text (3 writer styles), serialised compact and formatted, re-read by an independent strict RFC 8259 "
        "reader and by the library, compared member by member (numbers: exact if strtod('%.15g' of v)==v else |got-v|<=2^-52*max(|v|,|got|), "
        "bound included), compare/duplicate checked, allocator balance zero.  num: ~60 boundary doubles with their 2 (thorough 8) nextafter "
        "neighbours each way, DBL_MAX with 12 lower neighbours, every power of two and of ten with both neighbours, all negations, x {bare, "
        "[v], {\"n\":v}}; str: all strings <=3 symbols over {a \" \\ / 0x01 0x1F 0x7F e-acute euro emoji} x {bare, [s], {\"k\":s}, {s:true}}; "
        "strtext: the same strings written as \\uXXXX (lower/upper hex, surrogate pairs) or short escapes x {value, member name}; byte: every "
        "byte 0x01..0x7F alone / framed x {value, name}; uescape: every BMP \\uXXXX (both hex cases); surrogate: 12x12 boundary pairs (thorough: "
        "all 1024x1024); tree: all ordered trees <=4 (thorough <=5) nodes, depth <=3, inner nodes array or object with distinct names from "
        "{a,A,b,\"\"} in every order, leaves from 10 labels; deep: nesting 1..1000 of arrays / objects / alternating. "
        "non-trivial = num: emitted text is not a plain integer literal (15- or 17-digit path); str/byte: string holds a symbol that must be "
        "escaped or is multi-byte; strtext/uescape/surrogate: escape decoding reached (non-empty / multi-byte result); tree: >=3 nodes "
        "(member order or nesting exists); deep: depth >= 999.")
HARNESSES = [
    dict(name="jbee", src=["jbee.c"], variant="asan", deadline={"quick": 150, "thorough": 1200}),
    dict(name="jesx", src=["jesx.c"], variant="asan", deadline={"quick": 90, "thorough": 300}),
]
ASSUMPTIONS = [
    "strings are well-formed UTF-8 without embedded NUL; lone surrogate escapes and \\u0000 are outside the property (outcome counted, no verdict)",
    "number rule (DESIGN section 5 C11): -0 and 0 compare equal (==), so the sign of zero is not demanded",
    "trees: <=5 nodes, depth (edges) <=3, member names distinct within one object (duplicate names are the ESX model's business); nesting beyond cJSON's limit of 1000 is recorded without verdict",
    "member names are case sensitive as json.h states for get/has/remove ('Is case sensitive'); an add is 'a second member with the same key' only if the names are byte-identical",
    "json.h: remove_array_element returns AWS_OP_ERR when the index is out of range; index == size is out of range",
    "ESX: one object (<=3 names) and one array (<=3 elements), explored to a fixpoint; states de-duplicated on a 128-bit hash of the canonical state",
    "the independent reader uses libc strtod for the value of a number token it has already validated against the RFC 8259 grammar",
]

# mutants/*.diff (applied to a scratch worktree, VERIF_REPO=..., quick tier) and the clause that caught each:
#   add_to_object_no_duplicate_test          -> json-seq/duplicate-key-not-refused (ESX)
#   print_number_no_recover_test             -> num/number-beyond-tolerance
#   print_number_fallback_16_digits          -> num/number-beyond-tolerance
#   print_number_14_digits                   -> NOT caught: equivalent w.r.t. the property (the recover test falls back to 17 digits;
#                                               it even removes num/number-near-dbl-max-not-finite)
#   escape_0x1f_emitted_raw                  -> {byte,str,strtext,tree,uescape}/emitted-text-not-json (independent reader only:
#                                               cJSON's own parser accepts the raw control character)
#   surrogate_low_half_mask                  -> surrogate/string-bytes, strtext|str|tree/{string,key}-bytes
#   hex4_uppercase_off_by_one                -> uescape|strtext|byte|str|tree/string-bytes, */escaped-text-rejected
#   detach_last_keeps_stale_next             -> json-seq/asan:use-after-poison:print_object (ESX, after remove of the last member)
#   remove_array_element_index1_off_by_one   -> json-seq/array-contents (ESX)
#   duplicate_shares_string                  -> {byte,str,tree}/asan:use-after-poison (duplicate walked after the original is destroyed)
#   formatted_print_leaks_text               -> */allocator-balance
#   formatted_array_drops_comma              -> tree/emitted-text-not-json (formatted output)
