LEVEL = "model_checking"
HARNESSES = [
    dict(name="tsched", src=["tsched.c"], variant="sched", wrap=True, deadline={"quick": 150, "thorough": 1500}),
    # free-running ThreadSanitizer twin of the scenario bodies (DESIGN 4.5): no wrapping, OS scheduler, decides nothing;
    # discharges VSX's proviso that there is no unsynchronised access between schedule points
    dict(name="tsched-tsan", src=["tsched.c"], variant="tsan", cflags=["-DVSX_FREE"], tiers=["thorough"], deadline={"thorough": 600}),
]
ASSUMPTIONS = [
    "interleavings are sequentially consistent and switch only at lock, trylock, condvar wait/wake/signal/broadcast, thread create/join/exit, pthread_once, nanosleep and every __atomic_* builtin (DESIGN 4.4); mutex release is not itself a switch point (the releasing thread's next point is)",
    "bound = preemptions + timer-lands-first deviations; clock is virtual; a timed wait with nobody else runnable times out (free transition)",
    "reading of 'cancelled while still pending' (DESIGN section 6): RUN followed by the CANCELED acknowledgement of a cancel request that arrived after the run is accepted and counted",
    "weak memory orderings are not modelled",
]
