/*
 * C08 — aws_thread_scheduler under VSX (DESIGN §5 C08, reading in §6).
 * The scheduler thread is the library's own; client threads are harness threads created through the
 * wrapped pthread_create.  Every lock / condvar / atomic / create / join / clock operation the library
 * performs is a schedule point or a virtualised environment answer.
 */
#include <stddef.h>
#ifdef VSX_FREE
#    define GALLOC_PASSTHROUGH 1
#    include "vsx_free.h"
#else
#    include "vsx.h"
#endif
#include "galloc.h"
#include <aws/common/clock.h>
#include <aws/common/task_scheduler.h>
#include <aws/common/thread.h>
#include <aws/common/thread_scheduler.h>

#define NT 3
struct tlog {
    int n;
    int status[4];
    int tid[4];
    uint64_t when[4];
    int pre_release[4]; /* invoked before any owner had begun to release the scheduler */
};
static struct tlog tl[NT];
static int run_collect_seq[NT]; /* schedule point at which the scheduler thread took its queue lock before RUNning task i */
static int cancel_done_seq[NT]; /* schedule point count when cancel(task i) returned to its caller (0 = never cancelled) */
static struct aws_task task[NT];
static uint64_t task_time[NT]; /* 0 = now */
static struct aws_thread_scheduler *ts, *tsB;
static int after_release;
static int invoked_after_release;
/* harness-side hand-off used by S6 */
static pthread_mutex_t hm = PTHREAD_MUTEX_INITIALIZER;
static pthread_cond_t hc = PTHREAD_COND_INITIALIZER;
static int ran_flag;

static int reentrant_mode; /* 0 none; 1: task 0, when RUN, schedules task 1 now; 2: task 0, when RUN, cancels task 2 */
static int reentrant_done;
static int release_called; /* set by the owner immediately before its final aws_thread_scheduler_release */
static void do_release(void) {
    release_called = 1; /* from here on pending tasks may legitimately be cancelled by the shutdown */
    aws_thread_scheduler_release(ts);
}
static void task_fn(struct aws_task *t, void *arg, enum aws_task_status status) {
    int i = (int)(intptr_t)arg;
    (void)t;
    if (i == 0 && status == AWS_TASK_STATUS_RUN_READY && reentrant_mode && !reentrant_done) {
        reentrant_done = 1;
        if (reentrant_mode == 1) aws_thread_scheduler_schedule_now(ts, &task[1]);
        if (reentrant_mode == 2) aws_thread_scheduler_cancel_task(ts, &task[2]);
    }
    /* mode 3: task 2, when its explicit cancellation is delivered while the owner has not yet begun the final release (handing
     * new work to a scheduler that is being torn down is the caller's mistake, whichever thread delivers the shutdown
     * cancellations), schedules task 1 (a follow-up) */
    if (i == 2 && status == AWS_TASK_STATUS_CANCELED && reentrant_mode == 3 && !reentrant_done && !release_called) {
        reentrant_done = 1;
        aws_thread_scheduler_schedule_now(ts, &task[1]);
    }
    /* mode 5: task 0, when the shutdown of scheduler A cancels it, drops the last reference to a second scheduler B */
    if (i == 0 && status == AWS_TASK_STATUS_CANCELED && reentrant_mode == 5 && !reentrant_done) {
        reentrant_done = 1;
        aws_thread_scheduler_release(tsB);
    }
    /* mode 4: task 2, whenever its cancellation is delivered (by the scheduler thread or by the shutdown - the callback cannot
     * tell), cancels its companion timer, task 1 */
    if (i == 2 && status == AWS_TASK_STATUS_CANCELED && reentrant_mode == 4 && !reentrant_done) {
        reentrant_done = 1;
        aws_thread_scheduler_cancel_task(ts, &task[1]);
    }
#ifdef VSX_FREE
    /* free-running twin only: scenarios poll tl[] under hm, so the log has to be written under it as well - otherwise the
     * harness itself races, and everything the scheduler thread did to the task before the callback counts as unordered
     * with what the polling thread does next (under the controlled scheduler the hand-offs order them; an extra lock there
     * would only add schedule points) */
    pthread_mutex_lock(&hm);
#endif
    struct tlog *l = &tl[i];
    if (status == AWS_TASK_STATUS_RUN_READY && !run_collect_seq[i]) run_collect_seq[i] = vs_last_lock_seq(vs_current_tid());
    if (l->n < 4) {
        l->status[l->n] = (int)status;
        l->tid[l->n] = vs_current_tid();
        l->when[l->n] = vs_now_ns();
        l->pre_release[l->n] = !release_called;
    }
    l->n++;
    if (after_release) invoked_after_release++;
#ifdef VSX_FREE
    pthread_mutex_unlock(&hm);
#endif
    if (i == 0 && status == AWS_TASK_STATUS_RUN_READY) {
        pthread_mutex_lock(&hm);
        ran_flag = 1;
        pthread_cond_signal(&hc);
        pthread_mutex_unlock(&hm);
    }
}

static struct aws_allocator *A;
static void setup(void) {
    galloc_reset();
    A = galloc_get(0, 0);
    memset(tl, 0, sizeof(tl));
    memset(run_collect_seq, 0, sizeof(run_collect_seq));
    memset(cancel_done_seq, 0, sizeof(cancel_done_seq));
    after_release = invoked_after_release = ran_flag = 0;
    reentrant_mode = reentrant_done = release_called = 0;
    ts = aws_thread_scheduler_new(A, NULL);
    if (!ts) vs_harness_error("aws_thread_scheduler_new failed");
    for (int i = 0; i < NT; ++i) {
        aws_task_init(&task[i], task_fn, (void *)(intptr_t)i, "t");
        task_time[i] = 0;
    }
}

static const char *st(int s) { return s == AWS_TASK_STATUS_RUN_READY ? "RUN" : "CANCELED"; }

/* oracle for one task that was handed over once. cancel_requested: a cancel call was issued after the hand-over */
static void check_task(int i, int handed_over, int cancel_requested) {
    struct tlog *l = &tl[i];
    if (!handed_over) {
        VS_CHECK(l->n == 0, "invoked-without-handover", "task %d never scheduled but invoked %d times", i, l->n);
        return;
    }
    if (l->n == 0) {
        vs_fail("task-lost", "task %d was handed to the scheduler but its function was never invoked (release returned, scheduler thread gone)", i);
        return;
    }
    for (int k = 0; k < l->n && k < 4; ++k) {
        if (l->status[k] == AWS_TASK_STATUS_RUN_READY) {
            VS_CHECK(l->tid[k] == 1, "run-on-wrong-thread", "task %d ran on logical thread T%d, the scheduler thread is T1", i, l->tid[k]);
            VS_CHECK(task_time[i] == 0 || l->when[k] >= task_time[i], "run-early", "task %d ran at %llu before its time %llu", i,
                     (unsigned long long)l->when[k], (unsigned long long)task_time[i]);
        }
    }
    /* "cancelled while still pending": the scheduler thread collects its hand-over queues under the mutex; a cancellation
     * whose call had already RETURNED when the thread took that lock for the iteration that ran the task was queued while the
     * task was still pending, so the task must not have been run (the order of the two critical sections is a fact of the
     * execution, read from the scheduler's event sequence) */
    if (l->status[0] == AWS_TASK_STATUS_RUN_READY && cancel_done_seq[i] && run_collect_seq[i] && cancel_done_seq[i] < run_collect_seq[i] && l->tid[0] == 1)
        vs_fail("ran-although-cancel-was-queued", "task %d ran although its cancellation had been queued (cancel returned at point %d) before the scheduler thread collected its queues (point %d) for that run", i, cancel_done_seq[i], run_collect_seq[i]);
    /* 'cancelled' status is for a task that was cancelled or was still pending at the last release: a CANCELED call that
     * arrives before any release has begun, for a task nobody cancelled, answers somebody else's cancel request (added after
     * a seeded change in the heap's handle bookkeeping that made cancel(B) take A out) */
    if (!cancel_requested && l->status[0] == AWS_TASK_STATUS_CANCELED && l->pre_release[0])
        vs_fail("cancelled-without-request", "task %d was invoked with CANCELED although nobody cancelled it and no release of the scheduler had begun", i);
    if (l->n == 1) return;
    /* DESIGN §6: RUN first, then the acknowledgement of a cancel request that arrived after the run */
    if (cancel_requested && l->n == 2 && l->status[0] == AWS_TASK_STATUS_RUN_READY && l->status[1] == AWS_TASK_STATUS_CANCELED) return;
    vs_fail("invoked-twice", "task %d invoked %d times: %s then %s%s", i, l->n, st(l->status[0]), st(l->status[1]), cancel_requested ? "" : " (no cancel was requested)");
}

static void finish(const int *handed, const int *cancelled) {
    /* final release: must return only after everything was invoked and the scheduler thread exited */
    do_release();
    after_release = 1;
    VS_CHECK(vs_threads_unfinished() == 0, "thread-alive-after-release", "%d thread(s) still running after the last release returned", vs_threads_unfinished());
    /* S9: task 0 cancels task 2 from the scheduler thread iff it ran - only known now */
    for (int i = 0; i < NT; ++i) check_task(i, handed[i], cancelled[i] || (reentrant_mode == 2 && i == 2 && reentrant_done));
    VS_CHECK(invoked_after_release == 0, "invoked-after-release", "a task function ran after release returned");
    VS_CHECK(ga.live_blocks == 0, "leak", "%llu allocation(s) (%llu bytes) still live after the last release", (unsigned long long)ga.live_blocks,
             (unsigned long long)ga.live_bytes);
    char o[200];
    size_t n = 0;
    for (int i = 0; i < NT; ++i)
        if (handed[i]) {
            n += (size_t)snprintf(o + n, sizeof(o) - n, "t%d:", i);
            for (int k = 0; k < tl[i].n && k < 4; ++k) n += (size_t)snprintf(o + n, sizeof(o) - n, "%s%s", k ? "+" : "", st(tl[i].status[k]));
            n += (size_t)snprintf(o + n, sizeof(o) - n, " ");
        }
    vs_outcome("%s", o);
}

/* S1: new; schedule_now(T0); release */
static void s1(void) {
    setup();
    aws_thread_scheduler_schedule_now(ts, &task[0]);
    int h[NT] = {1, 0, 0}, c[NT] = {0, 0, 0};
    finish(h, c);
}
/* S2: schedule_future(T0, now+10s); release */
static void s2(void) {
    setup();
    uint64_t now = 0;
    aws_high_res_clock_get_ticks(&now);
    task_time[0] = now + 10ull * 1000000000ull;
    aws_thread_scheduler_schedule_future(ts, &task[0], task_time[0]);
    int h[NT] = {1, 0, 0}, c[NT] = {0, 0, 0};
    finish(h, c);
}
/* S3: main schedules T0 now; client B cancels it; main joins B, releases */
static void *s3_b(void *arg) {
    (void)arg;
    aws_thread_scheduler_cancel_task(ts, &task[0]);
    cancel_done_seq[0] = vs_seq_now();
    return NULL;
}
static void s3(void) {
    setup();
    aws_thread_scheduler_schedule_now(ts, &task[0]);
    pthread_t b;
    pthread_create(&b, NULL, s3_b, NULL);
    pthread_join(b, NULL);
    int h[NT] = {1, 0, 0}, c[NT] = {1, 0, 0};
    finish(h, c);
}
/* S4: schedule_future(T0, far); cancel(T0); release — strict exactly-once CANCELED */
static void s4(void) {
    setup();
    uint64_t now = 0;
    aws_high_res_clock_get_ticks(&now);
    task_time[0] = now + 3600ull * 1000000000ull;
    aws_thread_scheduler_schedule_future(ts, &task[0], task_time[0]);
    aws_thread_scheduler_cancel_task(ts, &task[0]);
    cancel_done_seq[0] = vs_seq_now();
    int h[NT] = {1, 0, 0}, c[NT] = {1, 0, 0};
    finish(h, c);
    if (tl[0].n >= 1) VS_CHECK(tl[0].status[0] == AWS_TASK_STATUS_CANCELED || tl[0].when[0] >= task_time[0], "run-early", "far-future task ran early");
}
/* S5: two clients each schedule_now; main joins them, releases */
static void *s5_c(void *arg) {
    int i = (int)(intptr_t)arg;
    aws_thread_scheduler_schedule_now(ts, &task[i]);
    return NULL;
}
static void s5(void) {
    setup();
    pthread_t a, b;
    pthread_create(&a, NULL, s5_c, (void *)(intptr_t)0);
    pthread_create(&b, NULL, s5_c, (void *)(intptr_t)1);
    pthread_join(a, NULL);
    pthread_join(b, NULL);
    int h[NT] = {1, 1, 0}, c[NT] = {0, 0, 0};
    finish(h, c);
}
/* S6: schedule_future(T0, now+100ms): main blocks until T0 ran, checks the virtual time, releases */
static void s6(void) {
    setup();
    uint64_t now = 0;
    aws_high_res_clock_get_ticks(&now);
    task_time[0] = now + 100ull * 1000000ull;
    aws_thread_scheduler_schedule_future(ts, &task[0], task_time[0]);
    pthread_mutex_lock(&hm);
    while (!ran_flag) pthread_cond_wait(&hc, &hm);
    pthread_mutex_unlock(&hm);
    VS_CHECK(tl[0].n == 1 && tl[0].status[0] == AWS_TASK_STATUS_RUN_READY && tl[0].when[0] >= task_time[0], "run-early",
             "timed task: n=%d status=%d at %llu, due %llu", tl[0].n, tl[0].status[0], (unsigned long long)tl[0].when[0], (unsigned long long)task_time[0]);
    int h[NT] = {1, 0, 0}, c[NT] = {0, 0, 0};
    finish(h, c);
}
/* S7: three clients: now / future / cancel-of-far-future, plus acquire/release of a second reference from a client */
static void *s7_a(void *arg) {
    (void)arg;
    aws_thread_scheduler_acquire(ts);
    aws_thread_scheduler_schedule_now(ts, &task[0]);
    do_release();
    return NULL;
}
static void *s7_b(void *arg) {
    (void)arg;
    aws_thread_scheduler_schedule_future(ts, &task[1], task_time[1]);
    return NULL;
}
static void *s7_c(void *arg) {
    (void)arg;
    aws_thread_scheduler_cancel_task(ts, &task[2]);
    cancel_done_seq[2] = vs_seq_now();
    return NULL;
}
static void s7(void) {
    setup();
    uint64_t now = 0;
    aws_high_res_clock_get_ticks(&now);
    task_time[1] = now + 50ull * 1000000ull;
    task_time[2] = now + 3600ull * 1000000000ull;
    aws_thread_scheduler_schedule_future(ts, &task[2], task_time[2]);
    pthread_t a, b, c;
    pthread_create(&a, NULL, s7_a, NULL);
    pthread_create(&b, NULL, s7_b, NULL);
    pthread_create(&c, NULL, s7_c, NULL);
    pthread_join(a, NULL);
    pthread_join(b, NULL);
    pthread_join(c, NULL);
    int h[NT] = {1, 1, 1}, cc[NT] = {0, 0, 1};
    finish(h, cc);
}

/* S8: task 0 (run now) schedules task 1 from inside its own run, i.e. from the scheduler thread; main waits for task 0,
 * then releases: task 1 was handed over iff the re-entrant call happened, and then must be invoked exactly once */
static void s8(void) {
    setup();
    reentrant_mode = 1;
    aws_thread_scheduler_schedule_now(ts, &task[0]);
    pthread_mutex_lock(&hm);
    while (!ran_flag) pthread_cond_wait(&hc, &hm);
    pthread_mutex_unlock(&hm);
    int h[NT] = {1, reentrant_done, 0}, c[NT] = {0, 0, 0};
    finish(h, c);
}
/* S9: task 2 is scheduled far in the future; task 0 (run now) cancels it from the scheduler thread; main releases at once:
 * whether or not task 0 ran, task 2 must be invoked exactly once with CANCELED (cancelled, or pending at release) */
static void s9(void) {
    setup();
    reentrant_mode = 2;
    uint64_t now = 0;
    aws_high_res_clock_get_ticks(&now);
    task_time[2] = now + 3600ull * 1000000000ull;
    aws_thread_scheduler_schedule_future(ts, &task[2], task_time[2]);
    aws_thread_scheduler_schedule_now(ts, &task[0]);
    int h[NT] = {1, 0, 1}, c[NT] = {0, 0, 0};
    finish(h, c);
    /* RUN is legitimate only when the (virtual) clock really reached the task's time - the "timer lands first" deviation
     * can do that; check_task() already demands when >= time for every RUN */
    /* check_task() decides: exactly once, or RUN (clock reached its time) followed by the acknowledgement of task 0's cancel */
}

/* S10: a second reference is held by a client thread; the two owners release concurrently - exactly one of the two
 * releases is the last one and does the shutdown, once (added after a seeded change in aws_ref_count_release) */
static void *s10_c(void *arg) {
    (void)arg;
    do_release();
    return NULL;
}
static void s10(void) {
    setup();
    aws_thread_scheduler_acquire(ts);
    aws_thread_scheduler_schedule_now(ts, &task[0]);
    pthread_t a;
    pthread_create(&a, NULL, s10_c, NULL);
    do_release(); /* races the client's release */
    pthread_join(a, NULL);
    after_release = 1;
    VS_CHECK(vs_threads_unfinished() == 0, "thread-alive-after-release", "%d thread(s) still running after both references were released", vs_threads_unfinished());
    check_task(0, 1, 0);
    VS_CHECK(ga.live_blocks == 0, "leak", "%llu allocation(s) still live after both references were released", (unsigned long long)ga.live_blocks);
}
/* S11: a timed task is cancelled right away and the scheduler released: whichever of timer expiry (a clock deviation)
 * and cancellation is collected first decides - but a cancellation queued before the queues were collected wins */
static void s11(void) {
    setup();
    uint64_t now = 0;
    aws_high_res_clock_get_ticks(&now);
    task_time[0] = now + 100ull * 1000000ull;
    aws_thread_scheduler_schedule_future(ts, &task[0], task_time[0]);
    pthread_mutex_lock(&hm); /* give the scheduler thread a chance to take the task over before the cancel */
    pthread_mutex_unlock(&hm);
    aws_thread_scheduler_cancel_task(ts, &task[0]);
    cancel_done_seq[0] = vs_seq_now();
    int h[NT] = {1, 0, 0}, c[NT] = {1, 0, 0};
    finish(h, c);
}

/* S12: a far-future task U is scheduled first (so the inner timed queue is non-empty in most interleavings), then a fresh
 * task T is scheduled and cancelled at once - in many schedules while T still sits in the cross-thread hand-over queue -
 * and the scheduler is released.  T and U must each be invoked exactly once, and U only by the shutdown (added after a
 * seeded change that made the cancel of a pulled-out task remove the root of the timed heap instead) */
static void s12(void) {
    setup();
    uint64_t now = 0;
    aws_high_res_clock_get_ticks(&now);
    task_time[2] = now + 3600ull * 1000000000ull;
    aws_thread_scheduler_schedule_future(ts, &task[2], task_time[2]);
    pthread_mutex_lock(&hm); /* a point at which the scheduler thread may take U over */
    pthread_mutex_unlock(&hm);
    aws_thread_scheduler_schedule_now(ts, &task[0]);
    aws_thread_scheduler_cancel_task(ts, &task[0]);
    cancel_done_seq[0] = vs_seq_now();
    int h[NT] = {1, 0, 1}, c[NT] = {1, 0, 0};
    finish(h, c);
}

/* S13: a far-future task is cancelled explicitly; when the scheduler thread delivers the CANCELED call, the task's function
 * schedules a follow-up task on the same scheduler (re-entrancy from a cancellation, S8 covers it from a run).  Nothing may
 * dead-lock, and the follow-up - handed over iff the re-entrant call happened - is invoked exactly once (added after a
 * seeded change that delivered cancellations with the hand-over mutex still held) */
static void s13(void) {
    setup();
    reentrant_mode = 3;
    uint64_t now = 0;
    aws_high_res_clock_get_ticks(&now);
    task_time[2] = now + 3600ull * 1000000000ull;
    aws_thread_scheduler_schedule_future(ts, &task[2], task_time[2]);
    pthread_mutex_lock(&hm); /* points at which the scheduler thread may take the task over first */
    pthread_mutex_unlock(&hm);
    aws_thread_scheduler_cancel_task(ts, &task[2]);
    cancel_done_seq[2] = vs_seq_now();
    pthread_mutex_lock(&hm); /* ... and deliver the cancellation before the release */
    pthread_mutex_unlock(&hm);
    int h[NT] = {0, reentrant_done, 1}, c[NT] = {0, 0, 1};
    release_called = 1;
    do_release();
    after_release = 1;
    h[1] = reentrant_done;
    VS_CHECK(vs_threads_unfinished() == 0, "thread-alive-after-release", "%d thread(s) still running after the last release returned", vs_threads_unfinished());
    for (int i = 0; i < NT; ++i) check_task(i, h[i], c[i]);
    VS_CHECK(invoked_after_release == 0, "invoked-after-release", "a task function ran after release returned");
    VS_CHECK(ga.live_blocks == 0, "leak", "%llu allocation(s) still live after the last release", (unsigned long long)ga.live_blocks);
    vs_outcome("follow-up %s", reentrant_done ? (tl[1].n ? st(tl[1].status[0]) : "LOST") : "not scheduled (cancellation delivered at shutdown)");
}
/* S14: the only pending task is parked at the largest representable time (a "never" sentinel): the final release must still
 * invoke it, with CANCELED (added after a seeded change whose has-tasks answer ignored a task at UINT64_MAX) */
static void s14(void) {
    setup();
    task_time[0] = UINT64_MAX;
    aws_thread_scheduler_schedule_future(ts, &task[0], UINT64_MAX);
    pthread_mutex_lock(&hm);
    pthread_mutex_unlock(&hm);
    int h[NT] = {1, 0, 0}, c[NT] = {0, 0, 0};
    finish(h, c);
}

/* S16: two far-future tasks, the later one scheduled first (so that the second rises past it in the scheduler's heap), then the
 * nearer one is cancelled: exactly that one gets CANCELED, the other stays pending until the release */
static void s16(void) {
    setup();
    uint64_t now = 0;
    aws_high_res_clock_get_ticks(&now);
    task_time[1] = now + 7200ull * 1000000000ull;
    task_time[2] = now + 3600ull * 1000000000ull;
    aws_thread_scheduler_schedule_future(ts, &task[1], task_time[1]);
    aws_thread_scheduler_schedule_future(ts, &task[2], task_time[2]);
    pthread_mutex_lock(&hm); /* points at which the scheduler thread may move both into its heap */
    pthread_mutex_unlock(&hm);
    aws_thread_scheduler_cancel_task(ts, &task[2]);
    cancel_done_seq[2] = vs_seq_now();
    pthread_mutex_lock(&hm); /* ... and deliver the cancellation before the release begins */
    pthread_mutex_unlock(&hm);
    int h[NT] = {0, 1, 1}, c[NT] = {0, 0, 1};
    finish(h, c);
}

/* S17: a task's CANCELED call cancels the task's companion timer on the same scheduler - also when that call is made by the
 * shutdown itself, because the cancellation was still queued at the last release.  Both tasks are invoked exactly once with
 * CANCELED, the release returns, nothing leaks (added after a seeded change that delivered the shutdown's cancellations with
 * the hand-over mutex held: the re-entrant cancel_task then dead-locks on it) */
static void s17(void) {
    setup();
    reentrant_mode = 4;
    uint64_t now = 0;
    aws_high_res_clock_get_ticks(&now);
    task_time[1] = now + 7200ull * 1000000000ull;
    task_time[2] = now + 3600ull * 1000000000ull;
    aws_thread_scheduler_schedule_future(ts, &task[1], task_time[1]);
    aws_thread_scheduler_schedule_future(ts, &task[2], task_time[2]);
    pthread_mutex_lock(&hm); /* the scheduler thread may or may not take them over first */
    pthread_mutex_unlock(&hm);
    aws_thread_scheduler_cancel_task(ts, &task[2]);
    cancel_done_seq[2] = vs_seq_now();
    int h[NT] = {0, 1, 1}, c[NT] = {0, 1, 1}; /* task 1: cancelled by task 2's callback, or still pending at the release - CANCELED either way */
    finish(h, c);
    VS_CHECK(reentrant_done, "task-lost", "task 2 was cancelled but its CANCELED call never happened");
}

/* S18: two schedulers.  A holds two far-future tasks, B one; the owner releases A, and the CANCELED call of A's first task drops
 * the last reference to B - B's shutdown therefore runs inside A's.  Every task of both schedulers is invoked exactly once with
 * CANCELED, both threads are gone, nothing leaks: the shutdown passes of two schedulers are independent (added after a seeded
 * change that made the inner scheduler's batch list a function-level static) */
static void s18(void) {
    setup();
    reentrant_mode = 5;
    tsB = aws_thread_scheduler_new(A, NULL);
    if (!tsB) vs_harness_error("second aws_thread_scheduler_new failed");
    uint64_t now = 0;
    aws_high_res_clock_get_ticks(&now);
    task_time[0] = now + 3600ull * 1000000000ull;
    task_time[1] = now + 7200ull * 1000000000ull;
    task_time[2] = now + 5400ull * 1000000000ull;
    aws_thread_scheduler_schedule_future(ts, &task[0], task_time[0]);
    aws_thread_scheduler_schedule_future(ts, &task[1], task_time[1]);
    aws_thread_scheduler_schedule_future(tsB, &task[2], task_time[2]);
    pthread_mutex_lock(&hm); /* either scheduler thread may or may not take its tasks over first */
    pthread_mutex_unlock(&hm);
    int h[NT] = {1, 1, 1}, c[NT] = {0, 0, 0};
    finish(h, c);
    VS_CHECK(reentrant_done, "task-lost", "task 0 was never cancelled, the second scheduler never released");
    for (int i = 0; i < NT; ++i)
        VS_CHECK(tl[i].n == 1 && tl[i].status[0] == AWS_TASK_STATUS_CANCELED, "task-lost", "two schedulers shut down one inside the other: task %d invoked %d time(s)%s", i, tl[i].n,
                 tl[i].n ? (tl[i].status[0] == AWS_TASK_STATUS_CANCELED ? "" : ", first with RUN") : "");
}

/* S15: the second life of a task object.  T is scheduled for a far-future time and cancelled; after its CANCELED call the same
 * object (not re-initialised, as the header allows for a task that has completed) is handed over again with schedule_now.
 * Nothing in this scenario needs time to pass, so the run must happen with the virtual clock still before the far time of
 * the object's first life: a scheduler that parks the task until then has not scheduled it "now" (added after a seeded
 * change that no longer reset the task's time in schedule_now) */
static int s15_cancel_seen;
static void s15(void) {
    setup();
    uint64_t now = 0;
    aws_high_res_clock_get_ticks(&now);
    uint64_t far = now + 3600ull * 1000000000ull;
    aws_thread_scheduler_schedule_future(ts, &task[0], far);
    aws_thread_scheduler_cancel_task(ts, &task[0]);
    /* wait for the CANCELED call of the first life */
    pthread_mutex_lock(&hm);
    while (tl[0].n == 0) {
        pthread_mutex_unlock(&hm);
        vs_user_yield();
        pthread_mutex_lock(&hm);
    }
    pthread_mutex_unlock(&hm);
    VS_CHECK(tl[0].n == 1 && tl[0].status[0] == AWS_TASK_STATUS_CANCELED, "first-life", "first life of the task: %d invocation(s), first %s", tl[0].n, st(tl[0].status[0]));
    int first_n = tl[0].n;
    aws_thread_scheduler_schedule_now(ts, &task[0]);
    pthread_mutex_lock(&hm);
    while (!ran_flag) pthread_cond_wait(&hc, &hm);
    pthread_mutex_unlock(&hm);
    VS_CHECK(tl[0].n == first_n + 1 && tl[0].status[first_n] == AWS_TASK_STATUS_RUN_READY, "second-life", "second life of the task: %d invocation(s)", tl[0].n - first_n);
    VS_CHECK(tl[0].when[first_n] < far, "now-task-delayed-until-stale-time", "the re-used task was handed over with schedule_now at %llu but ran only at %llu, the time (%llu) it had been scheduled for in its first life",
             (unsigned long long)now, (unsigned long long)tl[0].when[first_n], (unsigned long long)far);
    do_release();
    after_release = 1;
    VS_CHECK(vs_threads_unfinished() == 0, "thread-alive-after-release", "%d thread(s) still running after the last release returned", vs_threads_unfinished());
    VS_CHECK(tl[0].n == first_n + 1, "invoked-twice", "task invoked %d times in its second life", tl[0].n - first_n);
    VS_CHECK(ga.live_blocks == 0, "leak", "%llu allocation(s) still live after the last release", (unsigned long long)ga.live_blocks);
}

static uint64_t user_digest(void) {
    uint64_t h = 1469598103934665603ull;
    for (int i = 0; i < NT; ++i) {
        h = (h ^ (uint64_t)tl[i].n) * 1099511628211ull;
        for (int k = 0; k < tl[i].n && k < 4; ++k) h = (h ^ (uint64_t)(tl[i].status[k] * 8 + tl[i].tid[k])) * 1099511628211ull;
    }
    h = (h ^ ga.live_blocks) * 1099511628211ull;
    return h;
}

int main(int argc, char **argv) {
    v_init(argc, argv);
    aws_common_library_init(aws_default_allocator());
    struct vsx_scenario sc[] = {
        {.name = "S1-now-release", .run = s1, .bound_quick = 3, .bound_thorough = 5, .digest = user_digest},
        {.name = "S2-future-release", .run = s2, .bound_quick = 3, .bound_thorough = 5, .digest = user_digest},
        {.name = "S3-now-cancel-race", .run = s3, .bound_quick = 2, .bound_thorough = 4, .digest = user_digest},
        {.name = "S4-future-cancel-release", .run = s4, .bound_quick = 3, .bound_thorough = 5, .digest = user_digest},
        {.name = "S5-two-clients", .run = s5, .bound_quick = 2, .bound_thorough = 3, .digest = user_digest},
        {.name = "S6-timed-run", .run = s6, .bound_quick = 3, .bound_thorough = 4, .digest = user_digest},
        {.name = "S8-task-schedules-task", .run = s8, .bound_quick = 2, .bound_thorough = 3, .digest = user_digest},
        {.name = "S9-task-cancels-task", .run = s9, .bound_quick = 2, .bound_thorough = 3, .digest = user_digest},
        {.name = "S10-two-owners-release", .run = s10, .bound_quick = 2, .bound_thorough = 3, .digest = user_digest},
        {.name = "S11-timed-task-cancelled", .run = s11, .bound_quick = 3, .bound_thorough = 4, .digest = user_digest},
        {.name = "S12-cancel-pulled-task-with-timed-queue", .run = s12, .bound_quick = 2, .bound_thorough = 3, .digest = user_digest},
        {.name = "S13-cancellation-callback-schedules-follow-up", .run = s13, .bound_quick = 2, .bound_thorough = 3, .digest = user_digest},
        {.name = "S14-only-task-parked-at-uint64-max", .run = s14, .bound_quick = 3, .bound_thorough = 4, .digest = user_digest},
        {.name = "S16-cancel-the-nearer-of-two-timed-tasks", .run = s16, .bound_quick = 2, .bound_thorough = 3, .digest = user_digest, .no_timeouts = 1},
        {.name = "S17-cancelled-task-cancels-its-companion-also-at-shutdown", .run = s17, .bound_quick = 2, .bound_thorough = 3, .digest = user_digest, .no_timeouts = 1},
        {.name = "S18-shutdown-of-a-second-scheduler-inside-the-first", .run = s18, .bound_quick = 1, .bound_thorough = 2, .digest = user_digest, .no_timeouts = 1},
        {.name = "S15-task-object-reused-after-cancel", .run = s15, .bound_quick = 2, .bound_thorough = 3, .digest = user_digest, .no_timeouts = 1}, /* time passes only when nobody can run */
        {.name = "S7-three-clients", .run = s7, .bound_quick = -1, .bound_thorough = 1, .digest = user_digest},
    };
    return vsx_main(sc, (int)(sizeof(sc) / sizeof(sc[0])));
}
