LEVEL = "model_checking"
HARNESSES = [
    dict(name="pq", src=["pq.c"], variant="asan", deadline={"quick": 90, "thorough": 900}),
    # free-running ThreadSanitizer twin: two threads, each with objects of its own (harness/common/twin.c; samples, decides nothing)
    dict(name="own-objects-tsan", src=["../common/twin.c"], variant="tsan", cflags=["-DTWIN_C06", "-DVSX_FREE_RUNS=6"], deadline={"quick": 60, "thorough": 120}),
]
ASSUMPTIONS = [
    "<=5 elements, <=5 handles, priorities {0,1,2}; item sizes 1,8,129 (quick) + 128,300 (thorough); dynamic capacity 0/1/4, static 1/3",
    "states are de-duplicated on a 128-bit hash of the canonical state (hash compaction)",
    "static queues refuse push_ref with a handle, as priority_queue.h documents (DESIGN section 6)",
]
