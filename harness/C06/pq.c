/*
 * C06 — priority queue + handles under ESX (DESIGN §5 C06).
 * Real aws_priority_queue driven over every operation history; reference = multiset of
 * (priority, id, handle slot).  Configurations: item size x storage kind.
 */
#include "esx.h"
#include "galloc.h"
#include <aws/common/priority_queue.h>

#define MAXEL 6 /* 6: the smallest heap in which the element moved into a vacated slot can need a sift-UP (slot 4 <- slot 5) */
#define NH 5
#define MAXITEM 384

struct cfg {
    char name[64];
    size_t item_size;
    int is_static;
    size_t cap; /* initial capacity (dynamic) or fixed capacity (static) */
    int ambient;  /* every operation starts with a stale AWS_ERROR_INVALID_INDEX in the thread's last-error slot (a failed indexed look-up on
                     some other list): added after a seeded change that made the array list's push consult it without looking at
                     the return code first */
    int bool_cmp; /* comparator in the two-valued style the header documents ("return a > b;"), not three-way */
};
static struct cfg g_cfg;

/* ---- objects ---- */
static struct aws_priority_queue q;
static int q_live;
static uint8_t *static_store; /* guard-allocated storage for static queues */
static struct aws_priority_queue_node hnode[NH];
/* reference */
struct rel {
    int prio;
    int id;     /* unique per history (0 when item_size==1: no room for it) */
    int handle; /* slot or -1 */
};
static struct rel ref[MAXEL + 1];
static int nref;
static int hstate[NH]; /* 0 fresh, 1 live, 2 dead */
static int next_id;
static int dead_pops; /* number of elements that ever left (saturating), only for stats */

static int cmp_items(const void *a, const void *b) {
    const uint8_t *x = (const uint8_t *)a, *y = (const uint8_t *)b;
    /* priority_queue.h: positive when the second argument has the higher priority, "otherwise a negative value or zero";
     * its own example of a min-heap comparator is the two-valued "return a > b;" (task_scheduler.c uses that style) */
    if (g_cfg.bool_cmp) return x[0] > y[0];
    return (int)x[0] - (int)y[0];
}

static void make_item(uint8_t *buf, int prio, int id) {
    size_t n = g_cfg.item_size;
    buf[0] = (uint8_t)prio;
    for (size_t i = 1; i < n; ++i) buf[i] = (uint8_t)(id * 31 + (int)i * 7 + 3);
    if (n >= 2) buf[1] = (uint8_t)id;
}
static bool item_ok(const uint8_t *buf, int prio, int id) {
    uint8_t t[MAXITEM];
    make_item(t, prio, id);
    return memcmp(t, buf, g_cfg.item_size) == 0;
}
static int item_id(const uint8_t *buf) { return g_cfg.item_size >= 2 ? buf[1] : 0; }

/* ---- ops ----
 * 0..2  push(prio)            3..5 push_ref(prio) with lowest non-live handle slot
 * 6     pop   7 top   8 clear   9..9+NH-1 remove(handle slot)
 */
enum { OP_PUSH = 0, OP_PUSHREF = 3, OP_POP = 6, OP_TOP = 7, OP_CLEAR = 8, OP_REMOVE = 9, NOPS = 9 + NH };

static void m_reset(void) {
    galloc_reset();
    struct aws_allocator *a = galloc_get(0, 0);
    AWS_ZERO_STRUCT(q);
    static_store = NULL;
    if (g_cfg.is_static) {
        static_store = (uint8_t *)aws_mem_acquire(a, g_cfg.cap * g_cfg.item_size);
        aws_priority_queue_init_static(&q, static_store, g_cfg.cap, g_cfg.item_size, cmp_items);
    } else {
        if (aws_priority_queue_init_dynamic(&q, a, g_cfg.cap, g_cfg.item_size, cmp_items)) {
            fprintf(stderr, "init failed\n");
            _exit(2);
        }
    }
    q_live = 1;
    for (int i = 0; i < NH; ++i) {
        memset(&hnode[i], 0, sizeof(hnode[i]));
        aws_priority_queue_node_init(&hnode[i]);
        hstate[i] = 0;
    }
    nref = 0;
    next_id = 1;
    dead_pops = 0;
}

/* ---- probes: the behavioural core of the property, independent of how the heap is laid out in its array ----
 * For every explored state the queue is copied (container and handle array are public members of struct
 * aws_priority_queue; the copies get their own handle nodes) and each copy is driven to the end:
 *   drain                      popping until empty yields the reference multiset in non-decreasing priority order, bytes
 *                              intact, every handle marked as gone;
 *   push(255), then drain      the same after one more element went in behind everything else - an element left in the
 *                              wrong place by an earlier operation is no longer the last one, so a pop does not
 *                              accidentally repair it;
 *   push(0), then drain        ... and after a new minimum went in;
 *   remove(h), then drain      for every live handle.
 * These replace the former "every slot is above its binary-heap parent" clause, which held the implementation to one
 * particular layout (a false alarm on a 4-ary heap). */
struct probe {
    struct aws_priority_queue pq;
    struct aws_priority_queue_node hn[NH];
    struct rel rf[MAXEL + 2];
    int n;
    uint8_t store[(MAXEL + 2) * MAXITEM];
};
static void probe_clone(struct probe *p) {
    memset(p, 0, sizeof(*p));
    p->pq = q;
    for (int i = 0; i < NH; ++i) p->hn[i] = hnode[i];
    memcpy(p->rf, ref, sizeof(ref));
    p->n = nref;
    if (q.container.alloc) {
        if (q.container.data) {
            p->pq.container.data = aws_mem_acquire(q.container.alloc, q.container.current_size ? q.container.current_size : 1);
            memcpy(p->pq.container.data, q.container.data, q.container.length * q.container.item_size);
        }
    } else {
        p->pq.container.data = p->store;
        memcpy(p->store, q.container.data, q.container.length * q.container.item_size);
    }
    if (q.backpointers.data) {
        p->pq.backpointers.data = aws_mem_acquire(q.backpointers.alloc, q.backpointers.current_size ? q.backpointers.current_size : 1);
        struct aws_priority_queue_node **src = (struct aws_priority_queue_node **)q.backpointers.data, **dst = (struct aws_priority_queue_node **)p->pq.backpointers.data;
        memset(dst, 0, q.backpointers.current_size);
        for (size_t i = 0; i < q.backpointers.length; ++i) dst[i] = src[i] ? p->hn + (src[i] - hnode) : NULL;
    }
}
static void probe_end(struct probe *p) {
    if (p->pq.container.alloc) aws_priority_queue_clean_up(&p->pq);
    else if (p->pq.backpointers.data) aws_array_list_clean_up(&p->pq.backpointers);
}
static void probe_drain(struct probe *p, const char *what) {
    int prev = -1;
    while (aws_priority_queue_size(&p->pq) > 0 && !esx_failed) {
        uint8_t it[MAXITEM];
        memset(it, 0, sizeof(it));
        void *top = NULL;
        int want = 1000;
        for (int i = 0; i < p->n; ++i)
            if (p->rf[i].prio < want) want = p->rf[i].prio;
        ESX_CHECK(aws_priority_queue_top(&p->pq, &top) == AWS_OP_SUCCESS && top && ((const uint8_t *)top)[0] == want, "drain-top", "%s: top is prio %d, the minimum of the remaining %d elements is %d", what,
                  top ? ((const uint8_t *)top)[0] : -1, p->n, want);
        if (esx_failed) return;
        ESX_CHECK(aws_priority_queue_pop(&p->pq, it) == AWS_OP_SUCCESS, "drain-pop", "%s: pop failed with %zu elements left", what, aws_priority_queue_size(&p->pq));
        if (esx_failed) return;
        ESX_CHECK(it[0] == want && (int)it[0] >= prev, "drain-order", "%s: pop returned prio %d, the minimum of the remaining elements is %d (previous pop %d)", what, it[0], want, prev);
        if (esx_failed) return;
        prev = it[0];
        /* elements that compare equal (and, for 1-byte items, are byte-identical) are interchangeable: take one whose
         * handle - if it has one - has just left the queue */
        int found = -1, any = -1;
        for (int r = 0; r < p->n && found < 0; ++r)
            if (p->rf[r].prio == it[0] && (g_cfg.item_size < 2 || p->rf[r].id == item_id(it)) && item_ok(it, p->rf[r].prio, p->rf[r].id)) {
                any = r;
                if (p->rf[r].handle < 0 || !aws_priority_queue_node_is_in_queue(&p->hn[p->rf[r].handle])) found = r;
            }
        ESX_CHECK(any >= 0, "drain-contents", "%s: pop returned (prio %d, id %d), which is not in the reference multiset (or its bytes are damaged)", what, it[0], item_id(it));
        if (any >= 0) ESX_CHECK(found >= 0, "drain-handle", "%s: an element (prio %d) was popped but the handle of every matching element still claims to be in the queue", what, it[0]);
        if (found < 0) return;
        p->rf[found] = p->rf[p->n - 1];
        p->n--;
    }
    if (!esx_failed) ESX_CHECK(p->n == 0, "drain-contents", "%s: the queue is empty but the reference still holds %d element(s)", what, p->n);
}
static void run_probes(void) {
    static struct probe p;
    char what[80];
    probe_clone(&p);
    probe_drain(&p, "draining");
    probe_end(&p);
    static const int extra[2] = {255, 0};
    for (int k = 0; k < 2 && !esx_failed; ++k) {
        if (g_cfg.is_static && (size_t)nref >= g_cfg.cap) break;
        probe_clone(&p);
        uint8_t item[MAXITEM];
        make_item(item, extra[k], 0xEE);
        snprintf(what, sizeof(what), "push(prio=%d) then draining", extra[k]);
        if (aws_priority_queue_push(&p.pq, item) == AWS_OP_SUCCESS) {
            p.rf[p.n].prio = extra[k];
            p.rf[p.n].id = g_cfg.item_size >= 2 ? 0xEE : 0;
            p.rf[p.n].handle = -1;
            p.n++;
            probe_drain(&p, what);
        } else {
            esx_fail("push-result", "%s: push failed (error %d) with %d elements", what, aws_last_error(), nref);
        }
        probe_end(&p);
    }
    for (int h = 0; h < NH && !esx_failed; ++h) {
        if (hstate[h] != 1) continue;
        probe_clone(&p);
        uint8_t out[MAXITEM];
        snprintf(what, sizeof(what), "remove(handle %d) then draining", h);
        int r = -1;
        for (int i = 0; i < p.n; ++i)
            if (p.rf[i].handle == h) r = i;
        if (aws_priority_queue_remove(&p.pq, out, &p.hn[h]) == AWS_OP_SUCCESS && r >= 0) {
            ESX_CHECK(out[0] == p.rf[r].prio && item_ok(out, p.rf[r].prio, p.rf[r].id), "remove-result", "%s: remove returned (prio %d, id %d), the handle belongs to (prio %d, id %d)", what, out[0], item_id(out),
                      p.rf[r].prio, p.rf[r].id);
            p.rf[r] = p.rf[p.n - 1];
            p.n--;
            if (!esx_failed) probe_drain(&p, what);
        } else {
            esx_fail("remove-result", "%s: remove through a live handle failed (error %d)", what, aws_last_error());
        }
        probe_end(&p);
    }
}
static void m_teardown(void) {
    if (q_live && !esx_failed) run_probes();
    if (q_live) {
        aws_priority_queue_clean_up(&q);
        q_live = 0;
    }
    if (static_store) aws_mem_release(galloc_get(0, 0), static_store);
    static_store = NULL;
    ESX_CHECK(ga.live_blocks == 0, "leak", "allocator balance after clean_up: %llu blocks live", (unsigned long long)ga.live_blocks);
}

static int free_handle(void) {
    for (int i = 0; i < NH; ++i)
        if (hstate[i] != 1) return i;
    return -1;
}

static bool m_enabled(int op) {
    if (op >= OP_PUSH && op < OP_POP) return nref < MAXEL && (op < OP_PUSHREF || free_handle() >= 0);
    return true;
}

static int ref_min(void) {
    int m = 1000;
    for (int i = 0; i < nref; ++i)
        if (ref[i].prio < m) m = ref[i].prio;
    return m;
}
static void ref_del(int i) {
    if (ref[i].handle >= 0) hstate[ref[i].handle] = 2;
    ref[i] = ref[nref - 1];
    --nref;
}

/* structural + content invariant against the reference */
static void check_invariant(const char *after) {
    size_t n = aws_priority_queue_size(&q);
    ESX_CHECK(n == (size_t)nref, "size", "after %s: size %zu, reference %d", after, n, nref);
    if (esx_failed) return;
    ESX_CHECK(aws_priority_queue_capacity(&q) >= n, "capacity", "capacity %zu < size %zu", aws_priority_queue_capacity(&q), n);
    if (g_cfg.is_static) ESX_CHECK(aws_priority_queue_capacity(&q) == g_cfg.cap, "capacity", "static capacity changed");
    const uint8_t *data = (const uint8_t *)q.container.data;
    bool used[MAXEL + 1] = {false};
    size_t bplen = q.backpointers.length;
    ESX_CHECK(bplen == 0 || bplen == n, "backpointer-length", "backpointer array length %zu vs size %zu", bplen, n);
    for (size_t i = 0; i < n && !esx_failed; ++i) {
        const uint8_t *it = data + i * g_cfg.item_size;
        if (i > 0) {
            const uint8_t *par = data + ((i - 1) / 2) * g_cfg.item_size;
            /* how the heap is laid out in its array (binary, 4-ary, ...) is the implementation's business: an observation, not a
             * verdict.  What the property promises - pop and top return a minimum - is checked by draining every explored
             * state in m_teardown() */
            if (!esx_in_replay && cmp_items(par, it) > 0) V_COUNT("slots_above_their_binary_heap_parent", 1);
        }
        struct aws_priority_queue_node *bp = NULL;
        if (bplen) bp = ((struct aws_priority_queue_node **)q.backpointers.data)[i];
        int hslot = bp ? (int)(bp - hnode) : -1;
        if (bp) {
            ESX_CHECK(hslot >= 0 && hslot < NH, "backpointer", "slot %zu back-pointer is not one of our handles", i);
            ESX_CHECK(bp->current_index == i, "handle-index", "after %s: handle %d says index %zu but sits in slot %zu", after, hslot, bp->current_index, i);
        }
        /* find this element in the reference */
        int found = -1;
        for (int r = 0; r < nref; ++r) {
            if (used[r] || ref[r].prio != it[0] || ref[r].handle != hslot) continue;
            if (g_cfg.item_size >= 2 && ref[r].id != item_id(it)) continue;
            found = r;
            break;
        }
        ESX_CHECK(found >= 0, "contents", "after %s: slot %zu holds (prio %d, id %d, handle %d) which the reference multiset does not contain", after, i, it[0], item_id(it), hslot);
        if (found >= 0) {
            used[found] = true;
            ESX_CHECK(item_ok(it, ref[found].prio, ref[found].id), "bytes", "after %s: element bytes damaged in slot %zu", after, i);
        }
    }
    for (int h = 0; h < NH && !esx_failed; ++h) {
        if (hstate[h] == 1) {
            ESX_CHECK(hnode[h].current_index < n, "handle-live", "after %s: live handle %d has index %zu (size %zu)", after, h, hnode[h].current_index, n);
            ESX_CHECK(aws_priority_queue_node_is_in_queue(&hnode[h]), "handle-live", "live handle %d reported not in queue", h);
        } else {
            ESX_CHECK(hnode[h].current_index == SIZE_MAX, "handle-dead", "after %s: handle %d whose element left the queue still has index %zu", after, h, hnode[h].current_index);
            ESX_CHECK(!aws_priority_queue_node_is_in_queue(&hnode[h]), "handle-dead", "dead handle %d reported in queue", h);
        }
    }
}

static void snapshot(uint8_t *dst, size_t *len) {
    size_t n = aws_priority_queue_size(&q) * g_cfg.item_size;
    memcpy(dst, q.container.data ? q.container.data : (void *)dst, q.container.data ? n : 0);
    *len = n;
}

static void m_apply(int op) {
    uint8_t item[MAXITEM + 8];
    char nm[40];
    if (op < OP_POP) {
        int prio = op % 3, with_handle = op >= OP_PUSHREF;
        int id = next_id++;
        int h = with_handle ? free_handle() : -1;
        make_item(item, prio, id);
        if (h >= 0) aws_priority_queue_node_init(&hnode[h]);
        uint8_t before[(MAXEL + 1) * MAXITEM];
        size_t blen;
        snapshot(before, &blen);
        aws_reset_error();
    if (g_cfg.ambient) aws_raise_error(AWS_ERROR_INVALID_INDEX);
        if (g_cfg.ambient) aws_raise_error(AWS_ERROR_INVALID_INDEX);
        int rc = with_handle ? aws_priority_queue_push_ref(&q, item, &hnode[h]) : aws_priority_queue_push(&q, item);
        bool expect_ok = true;
        int expect_err = 0;
        if (g_cfg.is_static && (size_t)nref >= g_cfg.cap) {
            expect_ok = false;
            expect_err = AWS_ERROR_LIST_EXCEEDS_MAX_SIZE; /* what the shipped code raises; the header names AWS_ERROR_PRIORITY_QUEUE_FULL: either */
        } else if (g_cfg.is_static && with_handle) {
            expect_ok = false; /* header: statically initialised heaps do not support push_ref with a handle */
            expect_err = AWS_ERROR_UNSUPPORTED_OPERATION;
        }
        snprintf(nm, sizeof(nm), "push%s(prio=%d)", with_handle ? "_ref" : "", prio);
        if (expect_ok) {
            ESX_CHECK(rc == AWS_OP_SUCCESS, "push-result", "%s failed (error %d) with %d/%zu elements", nm, aws_last_error(), nref, g_cfg.cap);
            if (rc == AWS_OP_SUCCESS) {
                ref[nref].prio = prio;
                ref[nref].id = g_cfg.item_size >= 2 ? (id & 0xff) : 0;
                ref[nref].handle = h;
                ++nref;
                if (h >= 0) hstate[h] = 1;
            }
        } else {
            ESX_CHECK(rc == AWS_OP_ERR, "push-refused", "%s succeeded on a static queue (%d/%zu)", nm, nref, g_cfg.cap);
            if (rc == AWS_OP_ERR) {
                int e = aws_last_error();
                bool full = g_cfg.is_static && (size_t)nref >= g_cfg.cap;
                ESX_CHECK(e == expect_err || (full && (e == AWS_ERROR_PRIORITY_QUEUE_FULL || (with_handle && e == AWS_ERROR_UNSUPPORTED_OPERATION))), "push-error-code",
                          "%s: error %d, expected %d", nm, e, expect_err);
                uint8_t after[(MAXEL + 1) * MAXITEM];
                size_t alen;
                snapshot(after, &alen);
                ESX_CHECK(alen == blen && memcmp(before, after, alen) == 0, "failed-push-unchanged", "%s failed but changed the queue", nm);
            }
            if (h >= 0) hstate[h] = hstate[h] == 0 ? 0 : 2; /* handle stays not-in-queue */
        }
        if (!esx_failed) check_invariant(nm);
        return;
    }
    if (op == OP_POP || op == OP_TOP) {
        uint8_t *p = item;
        aws_reset_error();
    if (g_cfg.ambient) aws_raise_error(AWS_ERROR_INVALID_INDEX);
        if (g_cfg.ambient) aws_raise_error(AWS_ERROR_INVALID_INDEX);
        int rc;
        void *topp = NULL;
        if (op == OP_POP)
            rc = aws_priority_queue_pop(&q, item);
        else {
            rc = aws_priority_queue_top(&q, &topp);
            p = (uint8_t *)topp;
        }
        const char *n = op == OP_POP ? "pop" : "top";
        if (nref == 0) {
            ESX_CHECK(rc == AWS_OP_ERR && aws_last_error() == AWS_ERROR_PRIORITY_QUEUE_EMPTY, "empty", "%s on empty queue: rc %d error %d", n, rc, aws_last_error());
        } else {
            ESX_CHECK(rc == AWS_OP_SUCCESS, "pop-result", "%s failed with %d elements (error %d)", n, nref, aws_last_error());
            if (rc == AWS_OP_SUCCESS) {
                ESX_CHECK(p[0] == ref_min(), "minimum", "%s returned priority %d but the minimum stored is %d", n, p[0], ref_min());
                if (op == OP_POP && !esx_failed) {
                    /* identify which reference element left: by id when there is one, else by the handle that went dead */
                    int found = -1;
                    for (int r = 0; r < nref && found < 0; ++r) {
                        if (ref[r].prio != p[0]) continue;
                        if (g_cfg.item_size >= 2) {
                            if (ref[r].id == item_id(p)) found = r;
                        } else {
                            bool went_dead = ref[r].handle >= 0 && hnode[ref[r].handle].current_index == SIZE_MAX;
                            if (ref[r].handle >= 0 ? went_dead : true) {
                                /* prefer a handled element whose handle went dead; unhandled only if no handle died */
                                if (ref[r].handle >= 0) found = r;
                            }
                        }
                    }
                    if (found < 0 && g_cfg.item_size < 2)
                        for (int r = 0; r < nref && found < 0; ++r)
                            if (ref[r].prio == p[0] && ref[r].handle < 0) found = r;
                    ESX_CHECK(found >= 0, "pop-element", "pop returned (prio %d, id %d) which is not stored", p[0], item_id(p));
                    if (found >= 0) {
                        ESX_CHECK(item_ok(p, ref[found].prio, ref[found].id), "bytes", "pop returned damaged bytes");
                        ref_del(found);
                    }
                }
            }
        }
        if (!esx_failed) check_invariant(n);
        return;
    }
    if (op == OP_CLEAR) {
        aws_priority_queue_clear(&q);
        while (nref) ref_del(0);
        check_invariant("clear");
        return;
    }
    /* remove(handle h) */
    int h = op - OP_REMOVE;
    uint8_t before[(MAXEL + 1) * MAXITEM];
    size_t blen;
    snapshot(before, &blen);
    memset(item, 0xEE, sizeof(item));
    aws_reset_error();
    if (g_cfg.ambient) aws_raise_error(AWS_ERROR_INVALID_INDEX);
    int rc = aws_priority_queue_remove(&q, item, &hnode[h]);
    snprintf(nm, sizeof(nm), "remove(handle %d)", h);
    if (hstate[h] == 1) {
        int r = -1;
        for (int i = 0; i < nref; ++i)
            if (ref[i].handle == h) r = i;
        ESX_CHECK(rc == AWS_OP_SUCCESS, "remove-result", "%s of a live handle failed (error %d)", nm, aws_last_error());
        if (rc == AWS_OP_SUCCESS && r >= 0) {
            ESX_CHECK(item[0] == ref[r].prio && item_ok(item, ref[r].prio, ref[r].id), "remove-element",
                      "%s returned (prio %d, id %d), its own element is (prio %d, id %d)", nm, item[0], item_id(item), ref[r].prio, ref[r].id);
            ref_del(r);
        }
    } else {
        V_COUNT("dead_handle_removes", 1);
        ESX_CHECK(rc == AWS_OP_ERR, "dead-handle-refused", "%s: handle is not in the queue but remove succeeded (removed prio %d id %d)", nm, item[0], item_id(item));
        if (rc == AWS_OP_ERR) {
            ESX_CHECK(aws_last_error() == AWS_ERROR_PRIORITY_QUEUE_BAD_NODE, "dead-handle-error", "%s: error %d, expected BAD_NODE", nm, aws_last_error());
            uint8_t after[(MAXEL + 1) * MAXITEM];
            size_t alen;
            snapshot(after, &alen);
            ESX_CHECK(alen == blen && memcmp(before, after, alen) == 0, "dead-handle-unchanged", "%s failed but changed the queue", nm);
        }
    }
    if (!esx_failed) check_invariant(nm);
}

static size_t m_canon(uint8_t *b, size_t cap) {
    (void)cap;
    size_t o = 0;
    size_t n = aws_priority_queue_size(&q);
    const uint8_t *data = (const uint8_t *)q.container.data;
    size_t bplen = q.backpointers.length;
    b[o++] = (uint8_t)n;
    b[o++] = (uint8_t)(q.backpointers.data != NULL);          /* back-pointer array exists: changes later code paths */
    size_t capn = aws_priority_queue_capacity(&q);
    b[o++] = (uint8_t)(capn > 250 ? 250 : capn);              /* capacity decides whether the next push grows */
    size_t bcap = q.backpointers.item_size ? q.backpointers.current_size / q.backpointers.item_size : 0;
    b[o++] = (uint8_t)(bcap > 250 ? 250 : bcap);
    for (size_t i = 0; i < n; ++i) {
        b[o++] = data[i * g_cfg.item_size];
        struct aws_priority_queue_node *bp = bplen ? ((struct aws_priority_queue_node **)q.backpointers.data)[i] : NULL;
        b[o++] = bp ? (uint8_t)(bp - hnode) : 0xff;
    }
    for (int h = 0; h < NH; ++h) b[o++] = (uint8_t)(hstate[h] == 1 ? 1 : 0); /* fresh and dead handles behave alike */
    return o;
}

static void m_opname(int op, char *buf, size_t cap) {
    if (op < OP_PUSHREF) snprintf(buf, cap, "push(prio=%d)", op);
    else if (op < OP_POP) snprintf(buf, cap, "push_ref(prio=%d)", op - 3);
    else if (op == OP_POP) snprintf(buf, cap, "pop");
    else if (op == OP_TOP) snprintf(buf, cap, "top");
    else if (op == OP_CLEAR) snprintf(buf, cap, "clear");
    else snprintf(buf, cap, "remove(handle %d)", op - OP_REMOVE);
}

static struct esx_model model = {
    .nops = NOPS, .reset = m_reset, .enabled = m_enabled, .apply = m_apply, .canon = m_canon,
    .opname = m_opname, .teardown = m_teardown,
};

static void set_cfg(size_t item, int is_static, size_t cap, int bool_cmp) {
    g_cfg.ambient = bool_cmp == 2;
    if (bool_cmp == 2) bool_cmp = 0;
    g_cfg.item_size = item;
    g_cfg.is_static = is_static;
    g_cfg.cap = cap;
    g_cfg.bool_cmp = bool_cmp;
    snprintf(g_cfg.name, sizeof(g_cfg.name), "pq-i%zu-%s%zu%s", item, is_static ? "static" : "dyn", cap, bool_cmp ? "-boolcmp" : g_cfg.ambient ? "-ambient" : "");
    model.name = g_cfg.name;
}

int main(int argc, char **argv) {
    v_init(argc, argv);
    aws_common_library_init(aws_default_allocator());
    /* 128, 256, 384: exact multiples of the internal 128-byte swap slice; 129, 300: slice loop + remainder */
    static const size_t items_q[] = {1, 8, 128, 129, 256}, items_t[] = {1, 8, 127, 128, 129, 256, 300, 384};
    const size_t *items = v_thorough() ? items_t : items_q;
    int nitems = v_thorough() ? 8 : 5;
    struct {
        int st;
        size_t cap;
    } stores[] = {{0, 0}, {0, 1}, {0, 4}, {1, 1}, {1, 3}};
    int rc = 0;
    for (int bc = 0; bc < 3; ++bc) /* 0: three-way comparator, 1: two-valued comparator, 2: three-way + stale thread error */
        for (int i = 0; i < nitems; ++i)
            for (int s = 0; s < 5; ++s) {
                /* the two-valued comparator (added after a seeded change whose sift-down tested pred(..) < 0): item size 8, the
                 * growing dynamic store and the static one; thorough also 129-byte items */
                if (bc && !((items[i] == 8 || (v_thorough() && items[i] == 129)) && (s == 0 || s == 4))) continue;
                set_cfg(items[i], stores[s].st, stores[s].cap, bc);
                if (v_replay_token) {
                    if (esx_token_is_for(v_replay_token, g_cfg.name)) rc |= esx_replay(&model, v_replay_token);
                    continue;
                }
                if (!v_thorough() && items[i] != 8 && s != 0 && s != 4) continue; /* quick: all stores for size 8, dyn0 + static3 otherwise */
                if (v_thorough() && items[i] > 129 && (s == 1 || s == 3)) continue;
                model.max_depth = v_thorough() ? 9 : (items[i] <= 8 ? 8 : 7);
                esx_run(&model);
                ESX_CYCLES(&model);
            }
    v_finish();
    return (v_sh->viol_count || rc) ? 1 : 0;
}
