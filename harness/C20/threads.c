/*
 * C20 — threads, at-exit callbacks, managed join under VSX (DESIGN §5 C20).
 */
#include <stddef.h>
#ifdef VSX_FREE
#    define GALLOC_PASSTHROUGH 1
#    include "vsx_free.h"
#else
#    include "vsx.h"
#endif
#include "galloc.h"
#include <aws/common/thread.h>
#include <aws/common/private/thread_shared.h>

#define NTH 4
static struct aws_allocator *A;
static struct aws_thread thr[NTH];
static int ran[NTH], ran_tid[NTH], ran_argok[NTH];
static int cb_log[NTH][4], cb_tid[NTH][4], cb_n[NTH], cb_after_fn[NTH][4];
static int fn_done[NTH];
static struct aws_thread_options managed;
static pthread_mutex_t hm = PTHREAD_MUTEX_INITIALIZER;
static int n_atexit[NTH];
static int launches_inner; /* M3: A launches B */

struct targ {
    int idx;
    int magic;
};
static struct targ targs[NTH];

static void atexit_cb(void *ud) {
    int code = (int)(intptr_t)ud; /* idx*10 + k */
    int i = code / 10, k = code % 10;
    if (cb_n[i] < 4) {
        cb_log[i][cb_n[i]] = k;
        cb_tid[i][cb_n[i]] = vs_current_tid();
        cb_after_fn[i][cb_n[i]] = fn_done[i];
    }
    cb_n[i]++;
}

static aws_thread_once body_once = AWS_THREAD_ONCE_STATIC_INIT;
static void body_once_fn(void *ud) { (void)ud; }
static void body(void *arg) {
    struct targ *t = (struct targ *)arg;
    int i = t->idx;
    ran[i]++;
    ran_tid[i] = vs_current_tid();
    ran_argok[i] = t->magic == 0x5150 + i;
    for (int k = 0; k < n_atexit[i]; ++k) {
        if (aws_thread_current_at_exit(atexit_cb, (void *)(intptr_t)(i * 10 + k))) vs_fail("at-exit-register", "aws_thread_current_at_exit failed on thread %d", i);
        /* between two registrations the thread uses another service of the thread module (a call-once, as aws_device_random
         * does internally): the thread stays the thread it is (added after a seeded change in which aws_thread_call_once
         * reset the calling thread's own bookkeeping pointer, so that later registrations were refused) */
        if (k == 0) aws_thread_call_once(&body_once, body_once_fn, NULL);
    }
    if (launches_inner && i == 0) {
        if (aws_thread_launch(&thr[1], body, &targs[1], &managed)) vs_fail("launch", "nested managed launch failed");
    }
    /* a little shared work so that bodies are not atomic */
    pthread_mutex_lock(&hm);
    pthread_mutex_unlock(&hm);
    fn_done[i] = 1;
}

static void setup(void) {
    galloc_reset();
    A = galloc_get(0, 0);
    memset(ran, 0, sizeof(ran));
    memset(cb_n, 0, sizeof(cb_n));
    memset(fn_done, 0, sizeof(fn_done));
    memset(n_atexit, 0, sizeof(n_atexit));
    launches_inner = 0;
    aws_thread_initialize_thread_management();
    managed = *aws_default_thread_options();
    managed.join_strategy = AWS_TJS_MANAGED;
    for (int i = 0; i < NTH; ++i) {
        aws_thread_init(&thr[i], A);
        targs[i].idx = i;
        targs[i].magic = 0x5150 + i;
    }
}

static void check_thread(int i, int logical_tid_expected) {
    VS_CHECK(ran[i] == 1, "ran-once", "thread %d function ran %d times", i, ran[i]);
    VS_CHECK(ran[i] != 1 || ran_argok[i], "argument", "thread %d got the wrong argument", i);
    (void)logical_tid_expected;
    VS_CHECK(cb_n[i] == n_atexit[i], "at-exit-count", "thread %d: %d at-exit callbacks registered, %d ran before join returned", i, n_atexit[i], cb_n[i]);
    for (int k = 0; k < cb_n[i] && k < 4; ++k) {
        VS_CHECK(cb_log[i][k] == n_atexit[i] - 1 - k, "at-exit-order", "thread %d: callback #%d ran in position %d (expected reverse registration order)", i, cb_log[i][k], k);
        VS_CHECK(cb_tid[i][k] == ran_tid[i], "at-exit-thread", "thread %d: at-exit callback ran on T%d, the thread was T%d", i, cb_tid[i][k], ran_tid[i]);
        VS_CHECK(cb_after_fn[i][k], "at-exit-before-function-end", "thread %d: at-exit callback ran before the thread function returned", i);
    }
}

static void check_managed_all(int n) {
    VS_CHECK(aws_thread_get_managed_thread_count() == 0, "managed-count", "managed thread count is %zu after join_all", aws_thread_get_managed_thread_count());
    VS_CHECK(vs_threads_unfinished() == 0, "managed-not-finished", "%d managed thread(s) still running after join_all returned", vs_threads_unfinished());
    VS_CHECK(vs_threads_created() == n, "threads-created", "expected %d threads, %d were created", n, vs_threads_created());
    for (int t = 1; t <= vs_threads_created(); ++t)
        VS_CHECK(vs_thread_was_joined(t), "managed-not-joined", "managed thread T%d was never pthread_join()ed by the library", t);
    for (int i = 0; i < n; ++i) check_thread(i, i + 1);
    VS_CHECK(ga.live_blocks == 0, "leak", "%llu per-thread allocation(s) still live after join_all", (unsigned long long)ga.live_blocks);
}

static void m_launch(int i) {
    if (aws_thread_launch(&thr[i], body, &targs[i], &managed)) vs_fail("launch", "managed launch %d failed", i);
}
static void m1(void) {
    setup();
    m_launch(0);
    m_launch(1);
    VS_CHECK(aws_thread_join_all_managed() == AWS_OP_SUCCESS, "join-all-result", "join_all failed");
    check_managed_all(2);
    vs_outcome("order %d%d", ran_tid[0], ran_tid[1]);
}
static void m2(void) {
    setup();
    m_launch(0);
    m_launch(1);
    m_launch(2);
    VS_CHECK(aws_thread_join_all_managed() == AWS_OP_SUCCESS, "join-all-result", "join_all failed");
    check_managed_all(3);
}
static void m3(void) {
    setup();
    launches_inner = 1;
    m_launch(0);
    VS_CHECK(aws_thread_join_all_managed() == AWS_OP_SUCCESS, "join-all-result", "join_all failed");
    check_managed_all(2);
}
/* M4: join_all while the one managed thread is still running (the spin case) */
static void m4(void) {
    setup();
    pthread_mutex_lock(&hm); /* A blocks on hm inside its body until we let go */
    m_launch(0);
    pthread_mutex_unlock(&hm);
    VS_CHECK(aws_thread_join_all_managed() == AWS_OP_SUCCESS, "join-all-result", "join_all failed");
    check_managed_all(1);
}
/* M5: managed launch whose cpu pinning the kernel refuses: aws_thread_launch retries without pinning (added after a
 * seeded change that counted the thread twice on that retry path was missed) */
static void m5(void) {
    setup();
    struct aws_thread_options pinned = managed;
    pinned.cpu_id = 1000; /* no such cpu: pthread_create fails with EINVAL, the library falls back to an unpinned launch */
    if (aws_thread_launch(&thr[0], body, &targs[0], &pinned)) vs_fail("launch", "managed launch with an unusable cpu_id failed instead of falling back");
    m_launch(1);
    VS_CHECK(aws_thread_join_all_managed() == AWS_OP_SUCCESS, "join-all-result", "join_all failed");
    check_managed_all(2);
}
/* M6: a configured join timeout fires while one managed thread has finished (parked for a lazy join) and another is still
 * running; join-all may then return early (documented), but nothing may be lost: once the straggler is let go, a second
 * join-all without timeout must join everything, reach count zero and leave no bookkeeping behind (added after a seeded
 * change that dropped the pending thread on the timeout path) */
static void m6(void) {
    setup();
    aws_thread_set_managed_join_timeout_ns(1000000); /* 1 ms of virtual time */
    pthread_mutex_lock(&hm);                          /* both bodies take hm: hold it so that they cannot finish yet */
    m_launch(0);
    m_launch(1);
    pthread_mutex_unlock(&hm);
    int rc1 = aws_thread_join_all_managed(); /* may time out (AWS_OP_ERR) or succeed, depending on the schedule */
    aws_thread_set_managed_join_timeout_ns(0);
    VS_CHECK(aws_thread_join_all_managed() == AWS_OP_SUCCESS, "join-all-result", "second join_all (no timeout) failed");
    (void)rc1;
    check_managed_all(2);
    vs_outcome("first join_all %s", rc1 == AWS_OP_SUCCESS ? "completed" : "timed out");
}
/* M8: the library's second life.  A join-all with a timeout gives up while managed thread A is still inside its function
 * (the documented way library clean-up returns early), thread management is initialised again (what a second
 * aws_common_library_init does), and only then is A let go: the next join-all, without timeout, must still wait for A and
 * join it.  A is held back until after the re-initialisation on purpose: a thread that parks itself between the time-out
 * and the re-initialisation is dropped from the pending list by the unchanged library as well, which is use the
 * documentation does not cover and the property does not speak about (added after a seeded change that also reset the
 * outstanding count on re-initialisation) */
static void m8(void) {
    setup();
    aws_thread_set_managed_join_timeout_ns(1000000);
    pthread_mutex_lock(&hm);
    m_launch(0);
    int rc1 = aws_thread_join_all_managed();
    VS_CHECK(rc1 == AWS_OP_ERR, "join-all-result", "join_all returned success while the only managed thread is blocked inside its function");
    aws_thread_set_managed_join_timeout_ns(0);
    aws_thread_initialize_thread_management();
    pthread_mutex_unlock(&hm);
    VS_CHECK(aws_thread_join_all_managed() == AWS_OP_SUCCESS, "join-all-result", "second join_all (no timeout) failed");
    check_managed_all(1);
}
/* M9: the system refuses a thread (pthread_create fails with EAGAIN - an environment answer).  The refused launch must
 * report the error and leave no trace: the outstanding count is what it was, while another managed thread is running and
 * a join-all is (in some schedules) already waiting; afterwards launches work again and join-all finishes the job */
static void *m9_joiner(void *a) {
    (void)a;
    if (aws_thread_join_all_managed() != AWS_OP_SUCCESS) vs_fail("join-all-result", "join_all on the helper thread failed");
    return NULL;
}
static void m9(void) {
    setup();
#ifdef VSX_FREE
    return;
#endif
    pthread_mutex_lock(&hm);
    m_launch(0);
    pthread_t j;
    pthread_create(&j, NULL, m9_joiner, NULL);
    vs_refuse_creates = 1;
    int rc = aws_thread_launch(&thr[1], body, &targs[1], &managed);
    int err = rc ? aws_last_error() : 0;
    VS_CHECK(rc == AWS_OP_ERR && err == AWS_ERROR_THREAD_INSUFFICIENT_RESOURCE, "refused-launch-result", "launch with pthread_create refusing (EAGAIN) returned %d / error %d", rc, err);
    VS_CHECK(ran[1] == 0, "refused-launch-ran", "the refused thread's function ran");
    m_launch(2);
    pthread_mutex_unlock(&hm);
    VS_CHECK(aws_thread_join_all_managed() == AWS_OP_SUCCESS, "join-all-result", "join_all failed");
    pthread_join(j, NULL);
    VS_CHECK(aws_thread_get_managed_thread_count() == 0, "managed-count", "managed thread count is %zu after join_all", aws_thread_get_managed_thread_count());
    VS_CHECK(vs_threads_unfinished() == 0, "managed-not-finished", "threads still running after join_all");
    VS_CHECK(vs_thread_was_joined(1) && vs_thread_was_joined(3), "managed-not-joined", "a managed thread was never joined");
    check_thread(0, 1);
    check_thread(2, 3);
    VS_CHECK(ga.live_blocks == 0, "leak", "%llu allocation(s) still live (the refused launch must release its wrapper)", (unsigned long long)ga.live_blocks);
}
/* M10: aws_common_library_init is called a second time (documented as harmless: the library is initialised once) while a
 * managed thread is running or has finished and parked itself for its lazy join: the next join-all still has to join it and
 * reach count zero (added after a seeded change that re-initialised thread management on every init call) */
static void m10(void) {
    setup();
    m_launch(0);
    pthread_mutex_lock(&hm); /* schedule points at which the thread may run to its end first */
    pthread_mutex_unlock(&hm);
    pthread_mutex_lock(&hm);
    pthread_mutex_unlock(&hm);
    aws_common_library_init(aws_default_allocator());
    VS_CHECK(aws_thread_join_all_managed() == AWS_OP_SUCCESS, "join-all-result", "join_all failed after a redundant aws_common_library_init");
    check_managed_all(1);
}
/* M11: many outstanding participants.  aws_thread_increment_unjoined_count / _decrement_ are the public way for other
 * modules to take part in the managed count; with K of them outstanding next to one blocked managed thread the count is
 * K + 1, a timed join-all reports failure instead of returning while they are outstanding, and after K decrements and the
 * thread's end join-all reaches zero (added after a seeded change that narrowed the counter to 8 bits; K = 300 in the quick
 * tier, 2000 in the thorough tier - every increment is a few schedule points and an execution records at most 8191) */
static int m11_k = 300;
static void m11(void) {
    setup();
    pthread_mutex_lock(&hm);
    m_launch(0);
    for (int i = 0; i < m11_k; ++i) aws_thread_increment_unjoined_count();
    VS_CHECK(aws_thread_get_managed_thread_count() == (size_t)m11_k + 1, "managed-count", "one managed thread and %d external participants outstanding, managed thread count is %zu", m11_k,
             aws_thread_get_managed_thread_count());
    aws_thread_set_managed_join_timeout_ns(1000000);
    VS_CHECK(aws_thread_join_all_managed() == AWS_OP_ERR, "join-all-early", "join_all with a timeout reported success while %d participants and a blocked managed thread were outstanding", m11_k);
    aws_thread_set_managed_join_timeout_ns(0);
    VS_CHECK(vs_threads_unfinished() == 1, "managed-not-finished", "the blocked managed thread is gone");
    for (int i = 0; i < m11_k; ++i) aws_thread_decrement_unjoined_count();
    VS_CHECK(aws_thread_get_managed_thread_count() == 1, "managed-count", "after %d decrements the managed thread count is %zu, expected 1", m11_k, aws_thread_get_managed_thread_count());
    pthread_mutex_unlock(&hm);
    VS_CHECK(aws_thread_join_all_managed() == AWS_OP_SUCCESS, "join-all-result", "join_all failed");
    check_managed_all(1);
}
/* M7: two threads are inside join-all at the same time (an explicit call racing library clean-up): both must return */
static void *m7_joiner(void *a) {
    (void)a;
    if (aws_thread_join_all_managed() != AWS_OP_SUCCESS) vs_fail("join-all-result", "join_all on the helper thread failed");
    return NULL;
}
static void m7(void) {
    setup();
    pthread_mutex_lock(&hm);
    m_launch(0);
    m_launch(1);
    pthread_t j;
    pthread_create(&j, NULL, m7_joiner, NULL);
    pthread_mutex_unlock(&hm);
    VS_CHECK(aws_thread_join_all_managed() == AWS_OP_SUCCESS, "join-all-result", "join_all failed");
    pthread_join(j, NULL);
    VS_CHECK(aws_thread_get_managed_thread_count() == 0, "managed-count", "managed thread count is %zu after both join_all calls returned", aws_thread_get_managed_thread_count());
    VS_CHECK(vs_threads_unfinished() == 0, "managed-not-finished", "threads still running after join_all");
    VS_CHECK(vs_thread_was_joined(1) && vs_thread_was_joined(2), "managed-not-joined", "a managed thread was never joined");
    check_thread(0, 1);
    check_thread(1, 2);
    VS_CHECK(ga.live_blocks == 0, "leak", "%llu allocation(s) still live", (unsigned long long)ga.live_blocks);
}
/* M7c: three threads inside join-all at the same time (main and two helpers) */
static void m7c(void) {
    setup();
    pthread_mutex_lock(&hm);
    m_launch(0);
    m_launch(1);
    pthread_t j1, j2;
    pthread_create(&j1, NULL, m7_joiner, NULL);
    pthread_create(&j2, NULL, m7_joiner, NULL);
    pthread_mutex_unlock(&hm);
    VS_CHECK(aws_thread_join_all_managed() == AWS_OP_SUCCESS, "join-all-result", "join_all failed");
    pthread_join(j1, NULL);
    pthread_join(j2, NULL);
    VS_CHECK(aws_thread_get_managed_thread_count() == 0, "managed-count", "managed thread count is %zu after all join_all calls returned", aws_thread_get_managed_thread_count());
    VS_CHECK(vs_threads_unfinished() == 0, "managed-not-finished", "threads still running after join_all");
    check_thread(0, 1);
    check_thread(1, 2);
    VS_CHECK(ga.live_blocks == 0, "leak", "%llu allocation(s) still live", (unsigned long long)ga.live_blocks);
}
/* J1: joinable thread with at-exit callbacks */
static int j1_n = 2;
static void j1(void) {
    setup();
    n_atexit[0] = j1_n;
    if (aws_thread_launch(&thr[0], body, &targs[0], NULL)) vs_fail("launch", "launch failed");
    pthread_mutex_lock(&hm); /* main does a little shared work too, so the two threads really interleave */
    pthread_mutex_unlock(&hm);
    pthread_mutex_lock(&hm);
    pthread_mutex_unlock(&hm);
    VS_CHECK(aws_thread_join(&thr[0]) == AWS_OP_SUCCESS, "join-result", "join failed");
    VS_CHECK(vs_threads_unfinished() == 0, "join-early", "join returned while the thread is still running");
    check_thread(0, 1);
    aws_thread_clean_up(&thr[0]);
    VS_CHECK(ga.live_blocks == 0, "leak", "%llu allocation(s) still live after join", (unsigned long long)ga.live_blocks);
}
/* J2: managed thread with at-exit callbacks + a joinable one side by side */
static void j2(void) {
    setup();
    n_atexit[0] = 2;
    n_atexit[1] = 1;
    m_launch(0);
    if (aws_thread_launch(&thr[1], body, &targs[1], NULL)) vs_fail("launch", "launch failed");
    VS_CHECK(aws_thread_join(&thr[1]) == AWS_OP_SUCCESS, "join-result", "join failed");
    VS_CHECK(ran[1] == 1 && cb_n[1] == 1, "join-early", "join returned before the function (%d) and its at-exit callbacks (%d) completed", ran[1], cb_n[1]);
    VS_CHECK(aws_thread_join_all_managed() == AWS_OP_SUCCESS, "join-all-result", "join_all failed");
    aws_thread_clean_up(&thr[1]);
    VS_CHECK(aws_thread_get_managed_thread_count() == 0, "managed-count", "managed count %zu", aws_thread_get_managed_thread_count());
    VS_CHECK(vs_threads_unfinished() == 0, "managed-not-finished", "threads still running after join_all");
    VS_CHECK(vs_thread_was_joined(1) && vs_thread_was_joined(2), "managed-not-joined", "a thread was never joined");
    check_thread(0, 1);
    check_thread(1, 2);
    VS_CHECK(ga.live_blocks == 0, "leak", "%llu allocation(s) still live", (unsigned long long)ga.live_blocks);
}

/* J3: a join that legitimately fails (the thread joins its own handle: EDEADLK) must not change what the owner's
 * later join waits for (added after a seeded change that marked the handle JOIN_COMPLETED before the error checks) */
static int j3_selfjoin_rc, j3_selfjoin_err;
static void body_selfjoin(void *arg) {
    pthread_mutex_lock(&hm); /* the owner holds hm until aws_thread_launch has filled the handle in */
    pthread_mutex_unlock(&hm);
    j3_selfjoin_rc = aws_thread_join(&thr[0]);
    j3_selfjoin_err = j3_selfjoin_rc ? aws_last_error() : 0;
    body(arg);
}
static void j3(void) {
    setup();
    n_atexit[0] = 1;
    j3_selfjoin_rc = 12345;
    pthread_mutex_lock(&hm);
    if (aws_thread_launch(&thr[0], body_selfjoin, &targs[0], NULL)) vs_fail("launch", "launch failed");
    pthread_mutex_unlock(&hm);
    pthread_mutex_lock(&hm); /* schedule points at which the thread may get as far as its self-join first */
    pthread_mutex_unlock(&hm);
    pthread_mutex_lock(&hm);
    pthread_mutex_unlock(&hm);
    VS_CHECK(aws_thread_join(&thr[0]) == AWS_OP_SUCCESS, "join-result", "join failed");
    VS_CHECK(vs_threads_unfinished() == 0, "join-early", "join returned while the thread is still running (after the thread's own refused self-join)");
    VS_CHECK(j3_selfjoin_rc == AWS_OP_ERR && j3_selfjoin_err == AWS_ERROR_THREAD_DEADLOCK_DETECTED, "self-join-result", "self-join returned %d / error %d", j3_selfjoin_rc, j3_selfjoin_err);
    check_thread(0, 1);
    VS_CHECK(vs_thread_was_joined(1), "managed-not-joined", "the thread was never pthread_join()ed");
    aws_thread_clean_up(&thr[0]);
    VS_CHECK(ga.live_blocks == 0, "leak", "%llu allocation(s) still live after join", (unsigned long long)ga.live_blocks);
}

/* J4: second life of a thread handle.  A is launched and joined; B is launched (the system hands B the id A had, as glibc
 * does); a re-launch on A is refused by the system (EAGAIN, an environment answer); the caller cleans A up as after any
 * error.  None of that may touch B: joining B must still wait for its function and at-exit callback (added after a seeded
 * change that left a refused handle joinable with its stale id, so that cleaning it up detached B's thread) */
static void j4(void) {
    setup();
#ifdef VSX_FREE
    return;
#endif
    n_atexit[1] = 1;
    if (aws_thread_launch(&thr[0], body, &targs[0], NULL)) vs_fail("launch", "launch failed");
    VS_CHECK(aws_thread_join(&thr[0]) == AWS_OP_SUCCESS, "join-result", "join of the first thread failed");
    pthread_mutex_lock(&hm); /* B blocks inside its body until we let go */
    if (aws_thread_launch(&thr[1], body, &targs[1], NULL)) vs_fail("launch", "launch failed");
    vs_refuse_creates = 1;
    int rc = aws_thread_launch(&thr[0], body, &targs[0], NULL);
    VS_CHECK(rc == AWS_OP_ERR, "refused-launch-result", "re-launch with pthread_create refusing returned success");
    aws_thread_clean_up(&thr[0]);
    pthread_mutex_unlock(&hm);
    VS_CHECK(aws_thread_join(&thr[1]) == AWS_OP_SUCCESS, "join-result", "join of the second thread failed (error %d) after the first handle's refused re-launch was cleaned up", aws_last_error());
    VS_CHECK(vs_threads_unfinished() == 0, "join-early", "join returned while the thread is still running");
    VS_CHECK(ran[0] == 1, "ran-once", "first thread function ran %d times", ran[0]);
    check_thread(1, 2);
    aws_thread_clean_up(&thr[1]);
    VS_CHECK(ga.live_blocks == 0, "leak", "%llu allocation(s) still live", (unsigned long long)ga.live_blocks);
}

int main(int argc, char **argv) {
    v_init(argc, argv);
    aws_common_library_init(aws_default_allocator());
    if (v_thorough()) j1_n = 3;
    if (v_thorough()) m11_k = 2000;
    if (getenv("C20_M11_K")) m11_k = atoi(getenv("C20_M11_K")); /* development aid only: ./check never sets it */
    vs_spin_clock_step_ns = 250000; /* M8: join-all with a timeout busy-waits on the clock while one thread is outstanding */
    struct vsx_scenario sc[] = {
        {.name = "M1-two-managed", .run = m1, .bound_quick = 3, .bound_thorough = 4},
        {.name = "M2-three-managed", .run = m2, .bound_quick = 2, .bound_thorough = 3},
        {.name = "M3-managed-launches-managed", .run = m3, .bound_quick = 3, .bound_thorough = 4},
        {.name = "M4-join-all-while-running", .run = m4, .bound_quick = 3, .bound_thorough = 5},
        {.name = "M5-managed-cpu-pinning-refused", .run = m5, .bound_quick = 2, .bound_thorough = 3},
        {.name = "M6-join-timeout-then-join-all", .run = m6, .bound_quick = 2, .bound_thorough = 3},
        {.name = "M8-timeout-reinit-then-join-all", .run = m8, .bound_quick = 3, .bound_thorough = 4},
        {.name = "M9-create-refused-while-join-all-waits", .run = m9, .bound_quick = 2, .bound_thorough = 2}, /* bound 3 exceeds 400000 executions */
        {.name = "M7c-three-join-all-callers", .run = m7c, .bound_quick = 1, .bound_thorough = 1}, /* bound 2 exceeds 400000 executions */
        {.name = "M10-redundant-library-init-while-thread-parked", .run = m10, .bound_quick = 2, .bound_thorough = 3},
        {.name = "M11-many-outstanding-participants", .run = m11, .bound_quick = 1, .bound_thorough = 1, .horizon = 8000},
        {.name = "M7-two-join-all-callers", .run = m7, .bound_quick = 2, .bound_thorough = 2}, /* bound 3 exceeds 400000 executions */
        {.name = "J1-joinable-at-exit", .run = j1, .bound_quick = 3, .bound_thorough = 5},
        {.name = "J3-refused-self-join-then-join", .run = j3, .bound_quick = 3, .bound_thorough = 5},
        {.name = "J4-handle-reused-refused-relaunch", .run = j4, .bound_quick = 2, .bound_thorough = 4},
        {.name = "J2-managed-at-exit-plus-joinable", .run = j2, .bound_quick = 3, .bound_thorough = 4},
    };
    return vsx_main(sc, (int)(sizeof(sc) / sizeof(sc[0])));
}
