LEVEL = "model_checking"
HARNESSES = [
    dict(name="threads", src=["threads.c"], variant="sched", wrap=True, deadline={"quick": 150, "thorough": 1500}),
    # free-running ThreadSanitizer twin of the scenario bodies (DESIGN 4.5): no wrapping, OS scheduler, decides nothing;
    # discharges VSX's proviso that there is no unsynchronised access between schedule points
    dict(name="threads-tsan", src=["threads.c"], variant="tsan", cflags=["-DVSX_FREE"], tiers=["thorough"], deadline={"thorough": 600}),
]
ASSUMPTIONS = [
    "interleavings are sequentially consistent and switch only at lock, trylock, condvar operations, thread create/join/exit, pthread_once and atomics (DESIGN 4.4)",
    "bound = preemptions + deviations; no managed-join timeout is configured (with one, returning early is documented behaviour)",
    "aws_thread_initialize_thread_management() is called directly; 1-3 managed threads, 0-3 at-exit callbacks",
    "spin-yield rule: a thread that re-acquires the same mutex three times in a row with nobody else running is descheduled until another thread steps (join_all's documented spin-wait)",
]
