/*
 * C09 (a) — aws_array_list under ESX (DESIGN §5 C09, reading in §6).
 *
 * The real aws_array_list is driven over every operation history; the reference is a plain vector of
 * small element ids.  Element bytes are a function of (id, byte offset) over the full item width, so every
 * memmove/memcpy offset and the 128-byte slice loop of aws_array_list_swap are compared byte for byte.
 *
 * Two model families (one esx_run per configuration):
 *   al1-i<item>-<store>-m<maxlen>            one list A, the full single-list alphabet, run to FIXPOINT
 *                                            (all histories of every length that keep length <= maxlen);
 *   al2-i<item>-A<store>-B<store>-m<maxlen>  lists A and B: copy in both directions, swap_contents, and the
 *                                            single-list operations that change storage / contents, so that every
 *                                            pair (state of A, state of B) is a source of copy / swap_contents and
 *                                            aliasing after them would be seen.  Also run to FIXPOINT.
 *
 * Element ids: a new element always gets the smallest id no list currently holds (canonical, so the state space is
 * finite); id 0 is the wild card for the gap elements set_at creates beyond the old length (DESIGN §6: unspecified
 * until written).  Wild cards are moved around by the reference like any element but never compared; sort is not
 * offered while the list holds one (its comparator would read unspecified bytes).
 *
 * After every operation both lists are observed completely: length, capacity, get_at and get_at_ptr for every index
 * 0..len (len must fail), front, back, raw bytes, storage invariants, guard bytes of static storage.  That is why
 * the read-only operations are not alphabet symbols: they are exercised in every state, at i in {0..len}.
 *
 * canon = per list (dynamic?, current_size, data==NULL, length, id sequence with wild-card marks).  Two states with
 * the same canon have the same futures because the library reads nothing else: alloc (fixed by dynamic?), item_size
 * (fixed per configuration), current_size, length, and element bytes, which are a function of the ids; bytes of
 * wild-card elements and bytes beyond the length can only ever flow into wild-card elements, which no verdict reads.
 * The next element id is a function of the ids present.  Addresses differ between histories but are never observed.
 */
#include "esx.h"
#include "galloc.h"
#include <aws/common/array_list.h>

#define MAXLEN_MAX 5
#define MAXITEM 300
#define GUARD 64
#define GUARD_BYTE(i) ((uint8_t)(0xC3 ^ ((i) * 5)))
#define WILD 0

enum okind { O_PUSH_BACK, O_PUSH_FRONT, O_POP_BACK, O_POP_FRONT, O_POP_FRONT_N, O_SET_AT, O_ERASE, O_SWAP, O_SORT,
             O_COPY, O_SHRINK, O_CLEAR, O_SWAP_CONTENTS, O_ENSURE };
enum idx { I_0, I_1, I_2, I_LEN_M2, I_LEN_M1, I_LEN, I_LEN_P1, I_LEN_P2, I_SMAX_DIV, I_SMAX, I_NONE };
static const char *idx_name[] = {"0", "1", "2", "len-2", "len-1", "len", "len+1", "len+2", "SIZE_MAX/item_size", "SIZE_MAX", ""};

struct op {
    uint8_t kind, l, p, q;
};
#define MAXOPS 64
static struct op ops[MAXOPS];
static int nops;

struct cfg {
    char name[96];
    size_t item;
    int two;       /* two-list family */
    int maxlen;
    int dyn[2];    /* storage kind of A, B */
    size_t n0[2];  /* initial allocation (dynamic) or fixed capacity (static), in items */
    int ambient;   /* every operation starts with AWS_ERROR_INVALID_INDEX as the thread's last error: the leftover of an earlier, handled
                      failure (the value the list itself raises, and the one push_back / push_front look for after a failed set_at) */
};
static struct cfg g;

/* ---- concrete objects ---- */
static struct aws_array_list L[2];
static uint8_t *store[2]; /* static lists: galloc block [GUARD | n0*item | GUARD] */
static uint8_t *valbuf;   /* exact-size block holding the element handed to push/set */
static uint8_t *outbuf;   /* exact-size block receiving get_at/front/back */
static struct aws_allocator *A;

/* ---- reference ---- */
struct ref {
    int len;
    int id[MAXLEN_MAX + 1];
    size_t cap; /* capacity in items as last observed (checked against the documented rules where there are any) */
};
static struct ref R[2];

static int nlists(void) { return g.two ? 2 : 1; }

/* Vacuity counters count explored transitions only, not the replayed prefixes: the engine bumps its "transitions"
 * counter immediately before the apply() of a new transition. */
static bool g_counting;
static void detect_new_transition(void) {
    static int tc = -1;
    static uint64_t last;
    if (tc < 0) tc = v_counter("transitions");
    uint64_t cur = v_sh->slot[v_worker].counters[tc];
    g_counting = cur != last;
    last = cur;
}
#define EV(name)                                                                                                 \
    do {                                                                                                         \
        if (g_counting) V_COUNT(name, 1);                                                                        \
    } while (0)

#define NIDS 14 /* ids 1..2*MAXLEN_MAX+1 can be in use at once */
static uint8_t item_tab[NIDS][MAXITEM];
static void make_item_tab(void) {
    for (int id = 0; id < NIDS; ++id)
        for (size_t k = 0; k < MAXITEM; ++k) item_tab[id][k] = (uint8_t)(id * 16 + 1 + (int)k * 7 + (int)(k >> 7) * 3);
}
static void make_item(uint8_t *buf, int id) { memcpy(buf, item_tab[id], g.item); }
static int cmp_items(const void *a, const void *b) { return (int)*(const uint8_t *)a - (int)*(const uint8_t *)b; }

static int new_id(void) {
    for (int id = 1;; ++id) {
        bool used = false;
        for (int l = 0; l < nlists(); ++l)
            for (int i = 0; i < R[l].len; ++i)
                if (R[l].id[i] == id) used = true;
        if (!used) return id;
    }
}
static bool has_wild(int l) {
    for (int i = 0; i < R[l].len; ++i)
        if (R[l].id[i] == WILD) return true;
    return false;
}

static bool resolve(int ix, int l, size_t *v) {
    size_t len = (size_t)R[l].len;
    switch (ix) {
        case I_0: *v = 0; return true;
        case I_1: *v = 1; return true;
        case I_2: *v = 2; return true;
        case I_LEN_M2: *v = len - 2; return len >= 2;
        case I_LEN_M1: *v = len - 1; return len >= 1;
        case I_LEN: *v = len; return true;
        case I_LEN_P1: *v = len + 1; return true;
        case I_LEN_P2: *v = len + 2; return true;
        case I_SMAX_DIV: *v = SIZE_MAX / g.item; return true;
        case I_SMAX: *v = SIZE_MAX; return true;
        default: *v = 0; return true;
    }
}

static const char *lname(int l) { return l ? "B" : "A"; }

static void m_opname(int o, char *buf, size_t cap) {
    const struct op *p = &ops[o];
    switch (p->kind) {
        case O_PUSH_BACK: snprintf(buf, cap, "push_back(%s)", lname(p->l)); break;
        case O_PUSH_FRONT: snprintf(buf, cap, "push_front(%s)", lname(p->l)); break;
        case O_POP_BACK: snprintf(buf, cap, "pop_back(%s)", lname(p->l)); break;
        case O_POP_FRONT: snprintf(buf, cap, "pop_front(%s)", lname(p->l)); break;
        case O_POP_FRONT_N: snprintf(buf, cap, "pop_front_n(%s,%s)", lname(p->l), idx_name[p->p]); break;
        case O_SET_AT: snprintf(buf, cap, "set_at(%s,%s)", lname(p->l), idx_name[p->p]); break;
        case O_ERASE: snprintf(buf, cap, "erase(%s,%s)", lname(p->l), idx_name[p->p]); break;
        case O_SWAP: snprintf(buf, cap, "swap(%s,%s,%s)", lname(p->l), idx_name[p->p], idx_name[p->q]); break;
        case O_SORT: snprintf(buf, cap, "sort(%s)", lname(p->l)); break;
        case O_COPY: snprintf(buf, cap, "copy(%s->%s)", lname(p->l), lname(p->p)); break;
        case O_SHRINK: snprintf(buf, cap, "shrink_to_fit(%s)", lname(p->l)); break;
        case O_CLEAR: snprintf(buf, cap, "clear(%s)", lname(p->l)); break;
        case O_SWAP_CONTENTS: snprintf(buf, cap, "swap_contents(%s,%s)", lname(p->l), lname(p->p)); break;
        case O_ENSURE: snprintf(buf, cap, "ensure_capacity(%s,%s)", lname(p->l), idx_name[p->p]); break;
        default: snprintf(buf, cap, "?"); break;
    }
}

/* ---- reset / teardown ---- */
static void m_reset(void) {
    galloc_reset();
    A = galloc_get(0, 0);
    valbuf = (uint8_t *)aws_mem_acquire(A, g.item);
    outbuf = (uint8_t *)aws_mem_acquire(A, g.item);
    for (int l = 0; l < 2; ++l) {
        memset(&L[l], 0, sizeof(L[l]));
        memset(&R[l], 0, sizeof(R[l]));
        store[l] = NULL;
    }
    for (int l = 0; l < nlists(); ++l) {
        if (g.dyn[l]) {
            if (aws_array_list_init_dynamic(&L[l], A, g.n0[l], g.item)) {
                fprintf(stderr, "init_dynamic failed\n");
                _exit(2);
            }
        } else {
            size_t n = g.n0[l] * g.item;
            store[l] = (uint8_t *)aws_mem_acquire(A, GUARD + n + GUARD);
            for (size_t i = 0; i < GUARD; ++i) {
                store[l][i] = GUARD_BYTE(i);
                store[l][GUARD + n + i] = GUARD_BYTE(i + 1);
            }
            aws_array_list_init_static(&L[l], store[l] + GUARD, g.n0[l], g.item);
        }
        R[l].cap = g.n0[l];
    }
}

static void m_teardown(void) {
    /* no allocator-balance verdict: the property does not speak about leaks (DESIGN §2.4, §6 C09) */
    for (int l = 0; l < nlists(); ++l) {
        aws_array_list_clean_up(&L[l]);
        if (store[l]) aws_mem_release(A, store[l]);
        store[l] = NULL;
    }
    aws_mem_release(A, valbuf);
    aws_mem_release(A, outbuf);
}

/* ---- observation of one list against the reference ---- */
static void check_list(int l, const char *after) {
    struct aws_array_list *a = &L[l];
    const struct ref *r = &R[l];
    const char *n = lname(l);
    size_t len = aws_array_list_length(a);
    ESX_CHECK(len == (size_t)r->len, "length", "after %s: length(%s) = %zu, reference holds %d elements", after, n, len, r->len);
    if (esx_failed) return;
    ESX_CHECK(a->item_size == g.item, "item-size", "after %s: item_size of %s became %zu", after, n, a->item_size);
    if (esx_failed) return;
    size_t cap = aws_array_list_capacity(a);
    ESX_CHECK(cap >= len, "capacity", "after %s: capacity(%s) = %zu < length %zu", after, n, cap, len);
    ESX_CHECK(cap * g.item <= a->current_size, "capacity", "after %s: capacity(%s) = %zu items does not fit current_size %zu", after, n, cap, a->current_size);
    ESX_CHECK(aws_array_list_is_valid(a), "valid", "after %s: aws_array_list_is_valid(%s) is false", after, n);
    if (esx_failed) return;
    if (!g.dyn[l]) {
        size_t nb = g.n0[l] * g.item;
        ESX_CHECK(a->alloc == NULL && a->data == (void *)(store[l] + GUARD), "static-storage", "after %s: static list %s no longer sits on the caller's storage", after, n);
        ESX_CHECK(cap == g.n0[l] && a->current_size == nb, "static-capacity", "after %s: static list %s of %zu items reports capacity %zu (current_size %zu)", after, n, g.n0[l], cap, a->current_size);
        for (size_t i = 0; i < GUARD && !esx_failed; ++i) {
            ESX_CHECK(store[l][i] == GUARD_BYTE(i), "static-guard", "after %s: byte %zu before the storage of static list %s was overwritten", after, GUARD - i, n);
            ESX_CHECK(store[l][GUARD + nb + i] == GUARD_BYTE(i + 1), "static-guard", "after %s: byte %zu past the storage of static list %s was overwritten", after, i, n);
        }
    } else {
        ESX_CHECK(a->alloc == A, "allocator", "after %s: allocator of %s changed", after, n);
        if (a->data) {
            ESX_CHECK(galloc_is_live(a->data), "storage-live", "after %s: %s.data is not a live allocation", after, n);
            if (!esx_failed)
                ESX_CHECK(galloc_size_of(a->data) >= a->current_size, "capacity-allocation", "after %s: %s claims %zu bytes of capacity over an allocation of %zu bytes", after, n, a->current_size, galloc_size_of(a->data));
        }
    }
    if (esx_failed) return;
    uint8_t want[MAXITEM];
    const uint8_t *data = (const uint8_t *)a->data;
    /* public observers first (a getter that damages the list is then caught by the raw comparison below) */
    for (size_t i = 0; i <= len && !esx_failed; ++i) {
        memset(outbuf, 0xEE, g.item);
        aws_reset_error();
        int rc = aws_array_list_get_at(a, outbuf, i);
        int err = aws_last_error();
        void *ptr = NULL;
        aws_reset_error();
        int rcp = aws_array_list_get_at_ptr(a, &ptr, i);
        int errp = aws_last_error();
        if (i == len) {
            ESX_CHECK(rc == AWS_OP_ERR && err == AWS_ERROR_INVALID_INDEX, "get-at-end", "after %s: get_at(%s, %zu) with length %zu: rc %d error %d", after, n, i, len, rc, err);
            ESX_CHECK(rcp == AWS_OP_ERR && errp == AWS_ERROR_INVALID_INDEX, "get-at-end", "after %s: get_at_ptr(%s, %zu) with length %zu: rc %d error %d", after, n, i, len, rcp, errp);
            break;
        }
        ESX_CHECK(rc == AWS_OP_SUCCESS, "get-at", "after %s: get_at(%s, %zu) failed with length %zu", after, n, i, len);
        ESX_CHECK(rcp == AWS_OP_SUCCESS && ptr != NULL, "get-at", "after %s: get_at_ptr(%s, %zu) failed with length %zu", after, n, i, len);
        if (esx_failed) break;
        ESX_CHECK((const uint8_t *)ptr >= data && (const uint8_t *)ptr + g.item <= data + a->current_size, "get-at-ptr", "after %s: get_at_ptr(%s, %zu) points outside the list's storage", after, n, i);
        if (esx_failed) break;
        if (r->id[i] == WILD) continue;
        make_item(want, r->id[i]);
        if (memcmp(outbuf, want, g.item) != 0) {
            size_t k = 0;
            while (outbuf[k] == want[k]) ++k;
            esx_fail("contents", "after %s: get_at(%s, %zu) differs from reference element id %d at byte %zu of %zu: got %02x want %02x", after, n, i, r->id[i], k, g.item, outbuf[k], want[k]);
            break;
        }
        ESX_CHECK(memcmp(ptr, want, g.item) == 0, "contents", "after %s: get_at_ptr(%s, %zu) does not point at reference element id %d", after, n, i, r->id[i]);
    }
    if (esx_failed) return;
    for (int back = 0; back < 2 && !esx_failed; ++back) {
        memset(outbuf, 0xEE, g.item);
        aws_reset_error();
        int rc = back ? aws_array_list_back(a, outbuf) : aws_array_list_front(a, outbuf);
        const char *fn = back ? "back" : "front";
        if (len == 0) {
            ESX_CHECK(rc == AWS_OP_ERR && aws_last_error() == AWS_ERROR_LIST_EMPTY, "front-back-empty", "after %s: %s(%s) on an empty list: rc %d error %d", after, fn, n, rc, aws_last_error());
        } else {
            int id = r->id[back ? len - 1 : 0];
            ESX_CHECK(rc == AWS_OP_SUCCESS, "front-back", "after %s: %s(%s) failed with length %zu", after, fn, n, len);
            if (id != WILD && rc == AWS_OP_SUCCESS) {
                make_item(want, id);
                ESX_CHECK(memcmp(outbuf, want, g.item) == 0, "contents", "after %s: %s(%s) is not reference element id %d", after, fn, n, id);
            }
        }
    }
    /* raw bytes */
    for (size_t i = 0; i < len && !esx_failed; ++i) {
        if (r->id[i] == WILD) continue;
        make_item(want, r->id[i]);
        ESX_CHECK(memcmp(data + i * g.item, want, g.item) == 0, "contents", "after %s: raw element %zu of %s is not reference element id %d", after, i, n, r->id[i]);
    }
    ESX_CHECK(aws_array_list_length(a) == len && aws_array_list_capacity(a) == cap, "observer-mutates", "after %s: observers changed length/capacity of %s", after, n);
}

/* The full observation runs after every newly explored transition and after every step of a --replay.  While the
 * engine re-executes an already explored prefix the same observations were made (and passed) when that prefix was
 * the new transition; executions are deterministic (the engine checks canon-on-replay), so they are not repeated. */
static void check_all(const char *after) {
    if (g_counting || v_replay_token)
        for (int l = 0; l < nlists() && !esx_failed; ++l) check_list(l, after);
    if (!esx_failed)
        for (int l = 0; l < nlists(); ++l) R[l].cap = aws_array_list_capacity(&L[l]);
}

/* ---- "a failed operation changes nothing" ---- */
static struct aws_array_list snap_s[2];
static uint8_t snap_b[2][MAXLEN_MAX * MAXITEM];
static void snapshot(void) {
    for (int l = 0; l < nlists(); ++l) {
        snap_s[l] = L[l];
        size_t n = L[l].length * g.item;
        if (n) memcpy(snap_b[l], L[l].data, n);
    }
}
static void check_unchanged(int l, const char *what) {
    ESX_CHECK(memcmp(&snap_s[l], &L[l], sizeof(L[l])) == 0, "unchanged", "%s: list %s (length %zu->%zu, current_size %zu->%zu, data %s) must not change", what, lname(l), snap_s[l].length, L[l].length, snap_s[l].current_size, L[l].current_size, snap_s[l].data == L[l].data ? "same" : "moved");
    if (esx_failed) return;
    size_t n = L[l].length * g.item;
    ESX_CHECK(n == 0 || memcmp(snap_b[l], L[l].data, n) == 0, "unchanged", "%s: element bytes of %s changed", what, lname(l));
}

/* capacity after an operation that needed room for index idx on a dynamic list whose capacity was `before` */
static void check_growth(int l, size_t before, size_t idx, const char *nm) {
    size_t cap = aws_array_list_capacity(&L[l]);
    ESX_CHECK(cap > idx, "capacity-sufficient", "%s succeeded but capacity(%s) = %zu does not cover index %zu", nm, lname(l), cap, idx);
    if (before > idx) return;
    EV("growth_events");
    if (2 * before > idx) {
        EV("growth_doubling");
        /* array_list.h: "the array size will grow by a factor of 2 upon insertion if space is not available" */
        ESX_CHECK(cap == 2 * before, "growth-factor-2", "%s: capacity(%s) grew from %zu to %zu, documented growth is a factor of 2", nm, lname(l), before, cap);
    } else {
        EV("growth_exact_or_from_zero");
    }
}

static void ref_insert(struct ref *r, int at, int id) {
    for (int i = r->len; i > at; --i) r->id[i] = r->id[i - 1];
    r->id[at] = id;
    r->len++;
}
static void ref_remove(struct ref *r, int at, int n) {
    for (int i = at; i + n < r->len; ++i) r->id[i] = r->id[i + n];
    r->len -= n;
}

static bool m_enabled(int o) {
    const struct op *p = &ops[o];
    int l = p->l;
    const struct ref *r = &R[l];
    size_t v = 0, w = 0;
    bool full_static = !g.dyn[l] && (size_t)r->len >= r->cap;
    if (!resolve(p->p, l, &v) || !resolve(p->q, l, &w)) return false;
    /* aliases of an earlier symbol of the same family in this state are not separate transitions */
    if (p->kind == O_POP_FRONT_N || p->kind == O_SET_AT || p->kind == O_ERASE || p->kind == O_SWAP || p->kind == O_ENSURE) {
        for (int j = 0; j < o; ++j) {
            size_t v2, w2;
            if (ops[j].kind != p->kind || ops[j].l != p->l) continue;
            if (resolve(ops[j].p, l, &v2) && resolve(ops[j].q, l, &w2) && v2 == v && w2 == w) return false;
        }
    }
    switch (p->kind) {
        case O_PUSH_BACK:
        case O_PUSH_FRONT: return r->len < g.maxlen || full_static; /* model bound */
        case O_SET_AT: return v >= (size_t)1 << 32 || v < (size_t)g.maxlen || (!g.dyn[l] && v >= r->cap); /* model bound */
        case O_SWAP: return v < (size_t)r->len && w < (size_t)r->len;               /* header: indices must be within bounds */
        case O_SORT: return !has_wild(l);                                           /* comparator must not read unspecified elements */
        case O_COPY: return L[l].data != NULL;                                      /* AWS_FATAL_PRECONDITION(from->data) */
        case O_SWAP_CONTENTS: return g.dyn[l] && g.dyn[p->p];                       /* header: two dynamic lists, same allocator */
        default: return true;
    }
}

static void m_apply(int o) {
    const struct op *p = &ops[o];
    int l = p->l;
    struct aws_array_list *a = &L[l];
    struct ref *r = &R[l];
    char nm[96];
    m_opname(o, nm, sizeof(nm));
    detect_new_transition();
    size_t v = 0, w = 0;
    resolve(p->p, l, &v);
    resolve(p->q, l, &w);
    size_t cap0 = r->cap;
    int len0 = r->len;
    bool dyn = g.dyn[l];
    snapshot();
    aws_reset_error();
    if (g.ambient) aws_raise_error(AWS_ERROR_INVALID_INDEX);
    switch (p->kind) {
        case O_PUSH_BACK:
        case O_PUSH_FRONT: {
            int id = new_id();
            make_item(valbuf, id);
            int rc = p->kind == O_PUSH_BACK ? aws_array_list_push_back(a, valbuf) : aws_array_list_push_front(a, valbuf);
            if (!dyn && (size_t)len0 >= cap0) {
                EV("static_refusals");
                ESX_CHECK(rc == AWS_OP_ERR, "static-refuses-growth", "%s succeeded on a full static list (%d/%zu)", nm, len0, cap0);
                if (rc == AWS_OP_ERR)
                    ESX_CHECK(aws_last_error() == AWS_ERROR_LIST_EXCEEDS_MAX_SIZE || aws_last_error() == AWS_ERROR_INVALID_INDEX, "static-refusal-error", "%s on a full static list raised error %d", nm, aws_last_error());
                if (!esx_failed) check_unchanged(l, nm);
            } else {
                ESX_CHECK(rc == AWS_OP_SUCCESS, "push-result", "%s failed (error %d) with %d elements, capacity %zu, %s list", nm, aws_last_error(), len0, cap0, dyn ? "dynamic" : "static");
                if (rc == AWS_OP_SUCCESS) {
                    if (p->kind == O_PUSH_FRONT && len0 > 0) EV("push_front_shifts");
                    ref_insert(r, p->kind == O_PUSH_BACK ? len0 : 0, id);
                    if (dyn) check_growth(l, cap0, (size_t)len0, nm);
                }
            }
            break;
        }
        case O_POP_BACK:
        case O_POP_FRONT: {
            int rc = p->kind == O_POP_BACK ? aws_array_list_pop_back(a) : aws_array_list_pop_front(a);
            if (len0 == 0) {
                ESX_CHECK(rc == AWS_OP_ERR && aws_last_error() == AWS_ERROR_LIST_EMPTY, "pop-empty", "%s on an empty list: rc %d error %d", nm, rc, aws_last_error());
                if (!esx_failed) check_unchanged(l, nm);
            } else {
                ESX_CHECK(rc == AWS_OP_SUCCESS, "pop-result", "%s failed (error %d) with %d elements", nm, aws_last_error(), len0);
                if (rc == AWS_OP_SUCCESS) ref_remove(r, p->kind == O_POP_BACK ? len0 - 1 : 0, 1);
            }
            break;
        }
        case O_POP_FRONT_N: {
            aws_array_list_pop_front_n(a, v);
            if (v >= (size_t)len0) {
                r->len = 0;
            } else {
                if (v > 0) EV("pop_front_n_partial");
                ref_remove(r, 0, (int)v);
            }
            break;
        }
        case O_SET_AT: {
            int id = new_id();
            make_item(valbuf, id);
            int rc = aws_array_list_set_at(a, valbuf, v);
            if (v >= (size_t)1 << 32) {
                EV("overflow_refusals");
                ESX_CHECK(rc == AWS_OP_ERR, "overflow-refused", "%s (index %zu) succeeded", nm, v);
                if (!esx_failed) check_unchanged(l, nm);
            } else if (!dyn && v >= cap0) {
                EV("static_refusals");
                ESX_CHECK(rc == AWS_OP_ERR, "static-refuses-growth", "%s (index %zu) succeeded on a static list of %zu items", nm, v, cap0);
                if (rc == AWS_OP_ERR) /* array_list.h: "In static mode, AWS_ERROR_INVALID_INDEX will be raised if the index is past the bounds" */
                    ESX_CHECK(aws_last_error() == AWS_ERROR_INVALID_INDEX, "static-refusal-error", "%s past a static list raised error %d, documented AWS_ERROR_INVALID_INDEX", nm, aws_last_error());
                if (!esx_failed) check_unchanged(l, nm);
            } else {
                ESX_CHECK(rc == AWS_OP_SUCCESS, "set-at-result", "%s (index %zu) failed (error %d), length %d capacity %zu", nm, v, aws_last_error(), len0, cap0);
                if (rc == AWS_OP_SUCCESS) {
                    if (v >= (size_t)len0) {
                        if (v > (size_t)len0) EV("gap_sets");
                        for (size_t i = (size_t)len0; i < v; ++i) r->id[i] = WILD;
                        r->len = (int)v + 1;
                    }
                    r->id[v] = id;
                    if (dyn) check_growth(l, cap0, v, nm);
                }
            }
            break;
        }
        case O_ERASE: {
            int rc = aws_array_list_erase(a, v);
            if (v >= (size_t)len0) {
                ESX_CHECK(rc == AWS_OP_ERR && aws_last_error() == AWS_ERROR_INVALID_INDEX, "erase-invalid-index", "%s (index %zu, length %d): rc %d error %d", nm, v, len0, rc, aws_last_error());
                if (!esx_failed) check_unchanged(l, nm);
            } else {
                ESX_CHECK(rc == AWS_OP_SUCCESS, "erase-result", "%s (index %zu, length %d) failed (error %d)", nm, v, len0, aws_last_error());
                if (rc == AWS_OP_SUCCESS) {
                    if (v > 0 && v + 1 < (size_t)len0) EV("erase_middle");
                    ref_remove(r, (int)v, 1);
                }
            }
            break;
        }
        case O_SWAP: {
            aws_array_list_swap(a, v, w);
            int t = r->id[v];
            r->id[v] = r->id[w];
            r->id[w] = t;
            if (v == w) EV("swap_identical");
            else if (g.item > 128) EV("swap_slice_loop_plus_remainder");
            else if (g.item == 128) EV("swap_slice_loop_exact");
            else EV("swap_remainder_only");
            if (v != w && (r->id[v] == WILD || r->id[w] == WILD)) EV("wildcard_moves");
            break;
        }
        case O_SORT: {
            aws_array_list_sort(a, cmp_items);
            bool moved = false;
            for (int i = 0; i < r->len; ++i)
                for (int j = i + 1; j < r->len; ++j)
                    if (r->id[j] < r->id[i]) {
                        int t = r->id[i];
                        r->id[i] = r->id[j];
                        r->id[j] = t;
                        moved = true;
                    }
            if (moved) EV("sort_reorders");
            break;
        }
        case O_COPY: {
            int t = p->p;
            struct ref *rt = &R[t];
            int rc = aws_array_list_copy(a, &L[t]);
            if (rt->cap >= (size_t)len0 || g.dyn[t]) {
                ESX_CHECK(rc == AWS_OP_SUCCESS, "copy-result", "%s failed (error %d): %d elements into a %s list of capacity %zu", nm, aws_last_error(), len0, g.dyn[t] ? "dynamic" : "static", rt->cap);
                if (rc == AWS_OP_SUCCESS) {
                    if (rt->cap >= (size_t)len0) EV("copy_in_place");
                    else EV("copy_reallocates");
                    if (rt->len > len0) EV("copy_shortens_destination");
                    if (has_wild(l)) EV("wildcard_moves");
                    memcpy(rt->id, r->id, sizeof(r->id));
                    rt->len = len0;
                }
            } else {
                EV("copy_refused_static_too_small");
                ESX_CHECK(rc == AWS_OP_ERR, "static-refuses-growth", "%s succeeded: %d elements into a static list of %zu", nm, len0, rt->cap);
                if (rc == AWS_OP_ERR)
                    ESX_CHECK(aws_last_error() == AWS_ERROR_DEST_COPY_TOO_SMALL, "copy-error", "%s into a too small static list raised error %d", nm, aws_last_error());
                if (!esx_failed) check_unchanged(t, nm);
            }
            if (!esx_failed) check_unchanged(l, nm); /* the source never changes */
            break;
        }
        case O_SHRINK: {
            int rc = aws_array_list_shrink_to_fit(a);
            if (dyn) {
                ESX_CHECK(rc == AWS_OP_SUCCESS, "shrink-result", "%s failed on a dynamic list (error %d)", nm, aws_last_error());
                /* array_list.h: "shrinks the allocated array size to the minimum amount necessary to store its elements" */
                ESX_CHECK(aws_array_list_capacity(a) == (size_t)len0, "shrink-capacity", "%s: capacity %zu after shrinking a list of %d elements", nm, aws_array_list_capacity(a), len0);
                if (cap0 > (size_t)len0) {
                    if (len0) EV("shrink_reallocates");
                    else EV("shrink_empty_drops_buffer");
                }
            } else {
                EV("static_refusals");
                if (rc == AWS_OP_ERR) ESX_CHECK(aws_last_error() == AWS_ERROR_LIST_STATIC_MODE_CANT_SHRINK, "shrink-error", "%s on a static list raised error %d", nm, aws_last_error());
                if (!esx_failed) check_unchanged(l, nm);
            }
            break;
        }
        case O_CLEAR: {
            aws_array_list_clear(a);
            r->len = 0;
            /* array_list.h: "Size does not change in this operation." */
            ESX_CHECK(aws_array_list_capacity(a) == cap0, "clear-capacity", "%s changed the capacity from %zu to %zu", nm, cap0, aws_array_list_capacity(a));
            break;
        }
        case O_SWAP_CONTENTS: {
            int t = p->p;
            aws_array_list_swap_contents(a, &L[t]);
            struct ref tmp = *r;
            *r = R[t];
            R[t] = tmp;
            if (r->len && R[t].len) EV("swap_contents_both_nonempty");
            ESX_CHECK(aws_array_list_capacity(a) == r->cap && aws_array_list_capacity(&L[t]) == R[t].cap, "swap-contents-capacity", "%s: capacities %zu/%zu, expected %zu/%zu", nm, aws_array_list_capacity(a), aws_array_list_capacity(&L[t]), r->cap, R[t].cap);
            break;
        }
        case O_ENSURE: {
            int rc = aws_array_list_ensure_capacity(a, v);
            if (v >= (size_t)1 << 32) {
                EV("overflow_refusals");
                ESX_CHECK(rc == AWS_OP_ERR, "overflow-refused", "%s (index %zu) succeeded", nm, v);
                if (!esx_failed) check_unchanged(l, nm);
            } else if (!dyn) {
                if (v >= cap0) {
                    EV("static_refusals");
                    ESX_CHECK(rc == AWS_OP_ERR, "static-refuses-growth", "%s (index %zu) succeeded on a static list of %zu items", nm, v, cap0);
                    if (rc == AWS_OP_ERR) /* documented for static mode */
                        ESX_CHECK(aws_last_error() == AWS_ERROR_INVALID_INDEX, "static-refusal-error", "%s past a static list raised error %d, documented AWS_ERROR_INVALID_INDEX", nm, aws_last_error());
                } else {
                    ESX_CHECK(rc == AWS_OP_SUCCESS, "ensure-result", "%s (index %zu) failed inside a static list of %zu items", nm, v, cap0);
                }
                if (!esx_failed) check_unchanged(l, nm);
            } else {
                ESX_CHECK(rc == AWS_OP_SUCCESS, "ensure-result", "%s (index %zu) failed on a dynamic list (error %d)", nm, v, aws_last_error());
                if (rc == AWS_OP_SUCCESS) check_growth(l, cap0, v, nm);
            }
            break;
        }
    }
    if (!esx_failed) check_all(nm);
}

static size_t m_canon(uint8_t *b, size_t cap) {
    (void)cap;
    size_t o = 0;
    /* Family al2 has no sort: element bytes are an opaque payload there and nothing depends on the numeric value of
     * an id, only on which elements are the same one, so ids are renamed in order of first appearance (A, then B).
     * A fresh id is then again "an id nobody holds".  Family al1 sorts by id, so ids are kept as they are. */
    uint8_t ren[64];
    int next = 1;
    memset(ren, 0, sizeof(ren));
    for (int l = 0; l < nlists(); ++l) {
        b[o++] = (uint8_t)(L[l].alloc != NULL);
        memcpy(b + o, &L[l].current_size, sizeof(size_t));
        o += sizeof(size_t);
        b[o++] = (uint8_t)(L[l].data != NULL);
        b[o++] = (uint8_t)R[l].len;
        for (int i = 0; i < R[l].len; ++i) {
            int id = R[l].id[i];
            if (g.two && id != WILD) {
                if (!ren[id]) ren[id] = (uint8_t)next++;
                id = ren[id];
            }
            b[o++] = (uint8_t)id;
        }
    }
    return o;
}

static struct esx_model model = {
    .reset = m_reset, .enabled = m_enabled, .apply = m_apply, .canon = m_canon, .opname = m_opname, .teardown = m_teardown,
};

static void add_op(int kind, int l, int p, int q) {
    if (nops >= MAXOPS) {
        fprintf(stderr, "too many ops\n");
        exit(2);
    }
    ops[nops].kind = (uint8_t)kind;
    ops[nops].l = (uint8_t)l;
    ops[nops].p = (uint8_t)p;
    ops[nops].q = (uint8_t)q;
    nops++;
}

/* The alphabets are fixed per family (tokens stay valid across tiers). */
static void build_alphabet(void) {
    nops = 0;
    if (!g.two) {
        add_op(O_PUSH_BACK, 0, I_NONE, I_NONE);
        add_op(O_PUSH_FRONT, 0, I_NONE, I_NONE);
        add_op(O_POP_BACK, 0, I_NONE, I_NONE);
        add_op(O_POP_FRONT, 0, I_NONE, I_NONE);
        static const int pfn[] = {I_0, I_1, I_2, I_LEN_M1, I_LEN, I_LEN_P1};
        for (int i = 0; i < 6; ++i) add_op(O_POP_FRONT_N, 0, pfn[i], I_NONE);
        static const int sat[] = {I_0, I_1, I_LEN_M1, I_LEN, I_LEN_P1, I_LEN_P2, I_SMAX_DIV, I_SMAX};
        for (int i = 0; i < 8; ++i) add_op(O_SET_AT, 0, sat[i], I_NONE);
        static const int era[] = {I_0, I_1, I_2, I_LEN_M2, I_LEN_M1, I_LEN, I_SMAX};
        for (int i = 0; i < 7; ++i) add_op(O_ERASE, 0, era[i], I_NONE);
        static const int swp[][2] = {{I_0, I_0}, {I_0, I_1}, {I_LEN_M1, I_0}, {I_1, I_LEN_M1}, {I_LEN_M1, I_LEN_M2}, {I_1, I_2}};
        for (int i = 0; i < 6; ++i) add_op(O_SWAP, 0, swp[i][0], swp[i][1]);
        add_op(O_SORT, 0, I_NONE, I_NONE);
        add_op(O_SHRINK, 0, I_NONE, I_NONE);
        add_op(O_CLEAR, 0, I_NONE, I_NONE);
        static const int ens[] = {I_LEN, I_LEN_P2, I_SMAX_DIV, I_SMAX};
        for (int i = 0; i < 4; ++i) add_op(O_ENSURE, 0, ens[i], I_NONE);
    } else {
        add_op(O_PUSH_BACK, 0, I_NONE, I_NONE);
        add_op(O_PUSH_FRONT, 0, I_NONE, I_NONE);
        add_op(O_POP_BACK, 0, I_NONE, I_NONE);
        add_op(O_POP_FRONT, 0, I_NONE, I_NONE);
        add_op(O_SET_AT, 0, I_0, I_NONE);
        add_op(O_SET_AT, 0, I_LEN_P2, I_NONE);
        add_op(O_CLEAR, 0, I_NONE, I_NONE);
        add_op(O_SHRINK, 0, I_NONE, I_NONE);
        add_op(O_ENSURE, 0, I_LEN, I_NONE);
        add_op(O_PUSH_BACK, 1, I_NONE, I_NONE);
        add_op(O_POP_BACK, 1, I_NONE, I_NONE);
        add_op(O_SET_AT, 1, I_0, I_NONE);
        add_op(O_CLEAR, 1, I_NONE, I_NONE);
        add_op(O_COPY, 0, 1, I_NONE);
        add_op(O_COPY, 1, 0, I_NONE);
        add_op(O_SWAP_CONTENTS, 0, 1, I_NONE);
        add_op(O_SWAP_CONTENTS, 1, 0, I_NONE);
    }
    model.nops = nops;
}

static const char *store_name(int dyn, size_t n0, char *buf, size_t cap) {
    snprintf(buf, cap, "%s%zu", dyn ? "dyn" : "static", n0);
    return buf;
}

static int g_rc;
static int g_light; /* --light: the Debug-build pass of the thorough tier uses one length bound lower */
static const char *g_only; /* --only <substring>: developer aid, restricts a run to matching configurations */
static int g_next_ambient;
static void run_cfg(size_t item, int two, int maxlen, int dynA, size_t nA, int dynB, size_t nB, bool in_tier) {
    char sa[24], sb[24];
    memset(&g, 0, sizeof(g));
    g.ambient = g_next_ambient;
    g.item = item;
    g.two = two;
    g.maxlen = maxlen;
    g.dyn[0] = dynA;
    g.n0[0] = nA;
    g.dyn[1] = dynB;
    g.n0[1] = nB;
    if (two)
        snprintf(g.name, sizeof(g.name), "al2-i%zu-A%s-B%s-m%d", item, store_name(dynA, nA, sa, sizeof(sa)), store_name(dynB, nB, sb, sizeof(sb)), maxlen);
    else
        snprintf(g.name, sizeof(g.name), "al1-i%zu-%s-m%d", item, store_name(dynA, nA, sa, sizeof(sa)), maxlen);
    if (g.ambient) strncat(g.name, "-ambient", sizeof(g.name) - strlen(g.name) - 1);
    model.name = g.name;
    build_alphabet();
    if (v_replay_token) {
        if (esx_token_is_for(v_replay_token, g.name)) g_rc |= esx_replay(&model, v_replay_token);
        return;
    }
    if (!in_tier) return;
    if (g_only && !strstr(g.name, g_only)) return;
    model.max_depth = ESX_MAX_DEPTH;
    double t0 = v_now();
    esx_run(&model);
        ESX_CYCLES(&model);
    v_out("INFO   %s: %d symbols, %.1f s", g.name, nops, v_now() - t0);
}

int main(int argc, char **argv) {
    v_init(argc, argv);
    aws_common_library_init(aws_default_allocator());
    make_item_tab();
    static const size_t items[] = {1, 3, 8, 128, 129, 300};
    static const struct {
        int dyn;
        size_t n0;
    } st1[] = {{1, 0}, {1, 1}, {1, 2}, {0, 2}, {0, 3}};
    bool th = v_thorough();
    for (int i = 1; i < argc; ++i) {
        if (!strcmp(argv[i], "--only") && i + 1 < argc) g_only = argv[i + 1];
        if (!strcmp(argv[i], "--light")) g_light = 1;
    }
    /* family 1: single list.  A replay token names its configuration, so every configuration of every tier is
     * visited when replaying.  dyn0/dyn1/dyn2 reach the same set of states (clear + shrink_to_fit leads to capacity 0,
     * growth leads back), so only dyn0 is run at the largest bound; dyn1/dyn2 add their initial allocation path. */
    for (int i = 0; i < 6; ++i)
        for (int s = 0; s < 5; ++s)
            for (int m = 3; m <= MAXLEN_MAX; ++m) {
                bool small_item = items[i] == 8 || items[i] == 129;
                bool init12 = s == 1 || s == 2;
                bool in_tier;
                if (th && !g_light)
                    in_tier = init12 ? m == 3 : m == MAXLEN_MAX;
                else if (th) /* Debug-build pass: one bound lower */
                    in_tier = init12 ? m == 3 : m == 4;
                else
                    in_tier = init12 ? (m == 3 && small_item) : (m == 4 && (small_item || s != 3));
                run_cfg(items[i], 0, m, st1[s].dyn, st1[s].n0, 0, 0, in_tier);
            }
    /* the same with a stale AWS_ERROR_INVALID_INDEX in the thread's last-error slot before every operation (added after a seeded
     * change that made push_back consult aws_last_error() without looking at set_at's return code): 8-byte items, the growing
     * dynamic list and both static ones */
    g_next_ambient = 1;
    for (int s = 0; s < 5; ++s)
        if (s == 0 || s == 3 || s == 4) run_cfg(8, 0, th ? MAXLEN_MAX : 4, st1[s].dyn, st1[s].n0, 0, 0, true);
    g_next_ambient = 0;
    /* family 2: two lists */
    static const struct {
        int dyn;
        size_t n0;
    } stA[] = {{1, 0}, {1, 2}, {0, 3}}, stB[] = {{1, 0}, {1, 1}, {0, 2}, {0, 3}};
    for (int i = 0; i < 6; ++i)
        for (int sa = 0; sa < 3; ++sa)
            for (int sb = 0; sb < 4; ++sb)
                for (int m = 2; m <= 4; ++m) {
                    bool small_item = items[i] == 8 || items[i] == 129;
                    bool variant_init = sa == 1 || sb == 1; /* Adyn2 / Bdyn1: same reachable states as dyn0, other initial path */
                    bool in_tier;
                    if (th && !g_light)
                        in_tier = variant_init ? m == 3 : m == 4;
                    else if (th)
                        in_tier = m == 3;
                    else
                        in_tier = m == 3 && small_item && sa != 1;
                    run_cfg(items[i], 1, m, stA[sa].dyn, stA[sa].n0, stB[sb].dyn, stB[sb].n0, in_tier);
                }
    v_finish();
    return (v_sh->viol_count || g_rc) ? 1 : 0;
}
