/*
 * C09 (b) — intrusive aws_linked_list under ESX (DESIGN §5 C09).
 *
 * Node pool n0..n{N-1}, lists A and B.  Every operation names its nodes explicitly, so every arrangement of every
 * subset of the pool over the two lists is a state and every (anchor, node) / (a, b) combination is a transition:
 * swap_nodes is exercised on adjacent nodes in both argument orders, non-adjacent nodes, nodes of different lists
 * and the identical node.  The space is finite: each model runs to FIXPOINT.
 *
 * Oracle: two reference sequences.  After every operation, for both lists: begin/next/end walk equals the reference,
 * rbegin/prev/rend walk equals its reverse, front/back/empty agree, the sentinels keep NULL outer links; for every
 * pool node aws_linked_list_node_is_in_list agrees with the reference and a node outside every list has NULL links.
 *
 * Documented preconditions respected: pop/front/back only on non-empty lists, remove/swap_nodes/anchors only on
 * nodes that are in a list, inserted/pushed nodes are in no list, swap_contents/move_all on two different lists.
 *
 * canon = the two reference sequences.  Same canon => same futures: the concrete structure (all next/prev links of
 * sentinels and pool nodes) has just been verified to be exactly the one those sequences describe, nodes outside
 * the lists have NULL links, and there is no other state.
 */
#include "esx.h"
#include <aws/common/linked_list.h>

#define MAXN 5

static int N; /* pool size of the current configuration */
static char g_name[32];

static struct aws_linked_list LL[2];
static struct aws_linked_list_node node[MAXN];
static int seq[2][MAXN], rlen[2];

enum okind { O_PUSH_FRONT, O_PUSH_BACK, O_POP_FRONT, O_POP_BACK, O_INSERT_BEFORE, O_INSERT_AFTER, O_REMOVE, O_SWAP_NODES,
             O_SWAP_CONTENTS, O_MOVE_ALL_FRONT, O_MOVE_ALL_BACK };
struct op {
    uint8_t kind, a, b; /* a: list or anchor/first node; b: node / second list */
};
static struct op ops[128];
static int nops;

static const char *lname(int l) { return l ? "B" : "A"; }

/* Vacuity counters count explored transitions only, not the replayed prefixes: the engine bumps its "transitions"
 * counter immediately before the apply() of a new transition. */
static bool g_counting;
static void detect_new_transition(void) {
    static int tc = -1;
    static uint64_t last;
    if (tc < 0) tc = v_counter("transitions");
    uint64_t cur = v_sh->slot[v_worker].counters[tc];
    g_counting = cur != last;
    last = cur;
}
#define EV(name)                                                                                                 \
    do {                                                                                                         \
        if (g_counting) V_COUNT(name, 1);                                                                        \
    } while (0)

static void m_opname(int o, char *buf, size_t cap) {
    const struct op *p = &ops[o];
    switch (p->kind) {
        case O_PUSH_FRONT: snprintf(buf, cap, "push_front(%s,n%d)", lname(p->a), p->b); break;
        case O_PUSH_BACK: snprintf(buf, cap, "push_back(%s,n%d)", lname(p->a), p->b); break;
        case O_POP_FRONT: snprintf(buf, cap, "pop_front(%s)", lname(p->a)); break;
        case O_POP_BACK: snprintf(buf, cap, "pop_back(%s)", lname(p->a)); break;
        case O_INSERT_BEFORE: snprintf(buf, cap, "insert_before(n%d,n%d)", p->a, p->b); break;
        case O_INSERT_AFTER: snprintf(buf, cap, "insert_after(n%d,n%d)", p->a, p->b); break;
        case O_REMOVE: snprintf(buf, cap, "remove(n%d)", p->a); break;
        case O_SWAP_NODES: snprintf(buf, cap, "swap_nodes(n%d,n%d)", p->a, p->b); break;
        case O_SWAP_CONTENTS: snprintf(buf, cap, "swap_contents(%s,%s)", lname(p->a), lname(p->b)); break;
        case O_MOVE_ALL_FRONT: snprintf(buf, cap, "move_all_front(dst=%s,src=%s)", lname(p->a), lname(p->b)); break;
        case O_MOVE_ALL_BACK: snprintf(buf, cap, "move_all_back(dst=%s,src=%s)", lname(p->a), lname(p->b)); break;
        default: snprintf(buf, cap, "?"); break;
    }
}

/* reference helpers */
static bool where(int n, int *l, int *pos) {
    for (int k = 0; k < 2; ++k)
        for (int i = 0; i < rlen[k]; ++i)
            if (seq[k][i] == n) {
                *l = k;
                *pos = i;
                return true;
            }
    return false;
}
static bool in_any(int n) {
    int l, p;
    return where(n, &l, &p);
}
static void r_insert(int l, int at, int n) {
    for (int i = rlen[l]; i > at; --i) seq[l][i] = seq[l][i - 1];
    seq[l][at] = n;
    rlen[l]++;
}
static int r_remove(int l, int at) {
    int n = seq[l][at];
    for (int i = at; i + 1 < rlen[l]; ++i) seq[l][i] = seq[l][i + 1];
    rlen[l]--;
    return n;
}

static void m_reset(void) {
    memset(LL, 0x5a, sizeof(LL));
    for (int l = 0; l < 2; ++l) {
        aws_linked_list_init(&LL[l]);
        rlen[l] = 0;
        memset(seq[l], 0, sizeof(seq[l]));
    }
    for (int n = 0; n < MAXN; ++n) {
        memset(&node[n], 0x5a, sizeof(node[n]));
        aws_linked_list_node_reset(&node[n]);
    }
}

static bool m_enabled(int o) {
    const struct op *p = &ops[o];
    switch (p->kind) {
        case O_PUSH_FRONT:
        case O_PUSH_BACK: return !in_any(p->b);
        case O_POP_FRONT:
        case O_POP_BACK: return rlen[p->a] > 0;
        case O_INSERT_BEFORE:
        case O_INSERT_AFTER: return in_any(p->a) && !in_any(p->b);
        case O_REMOVE: return in_any(p->a);
        case O_SWAP_NODES: return in_any(p->a) && in_any(p->b);
        default: return true;
    }
}

static int node_index(const struct aws_linked_list_node *p) {
    for (int n = 0; n < N; ++n)
        if (p == &node[n]) return n;
    return -1;
}

static void describe(int l, char *buf, size_t cap) {
    size_t o = (size_t)snprintf(buf, cap, "[");
    for (int i = 0; i < rlen[l] && o + 8 < cap; ++i) o += (size_t)snprintf(buf + o, cap - o, "%sn%d", i ? " " : "", seq[l][i]);
    snprintf(buf + o, cap - o, "]");
}

static void check_all(const char *after) {
    char d[64];
    for (int l = 0; l < 2 && !esx_failed; ++l) {
        struct aws_linked_list *list = &LL[l];
        describe(l, d, sizeof(d));
        ESX_CHECK(list->head.prev == NULL && list->tail.next == NULL && list->head.next != NULL && list->tail.prev != NULL && aws_linked_list_is_valid(list),
                  "sentinels", "after %s: sentinel links of list %s are broken (reference %s)", after, lname(l), d);
        if (esx_failed) return;
        ESX_CHECK(aws_linked_list_empty(list) == (rlen[l] == 0), "empty", "after %s: empty(%s) = %d, reference %s", after, lname(l), (int)aws_linked_list_empty(list), d);
        /* forward walk */
        int fwd[MAXN + 2], nf = 0;
        const struct aws_linked_list_node *end = aws_linked_list_end(list);
        for (struct aws_linked_list_node *it = aws_linked_list_begin(list); it != end; it = aws_linked_list_next(it)) {
            int k = node_index(it);
            ESX_CHECK(k >= 0, "forward-walk", "after %s: forward walk of %s reaches something that is not a pool node after %d steps (reference %s)", after, lname(l), nf, d);
            ESX_CHECK(nf < N, "forward-walk", "after %s: forward walk of %s does not end (reference %s)", after, lname(l), d);
            if (esx_failed) return;
            ESX_CHECK(it->next != NULL, "forward-walk", "after %s: n%d in %s has a NULL next (reference %s)", after, k, lname(l), d);
            if (esx_failed) return;
            fwd[nf++] = k;
        }
        /* backward walk */
        int bwd[MAXN + 2], nb = 0;
        const struct aws_linked_list_node *rend = aws_linked_list_rend(list);
        for (struct aws_linked_list_node *it = aws_linked_list_rbegin(list); it != rend; it = aws_linked_list_prev(it)) {
            int k = node_index(it);
            ESX_CHECK(k >= 0, "backward-walk", "after %s: backward walk of %s reaches something that is not a pool node after %d steps (reference %s)", after, lname(l), nb, d);
            ESX_CHECK(nb < N, "backward-walk", "after %s: backward walk of %s does not end (reference %s)", after, lname(l), d);
            if (esx_failed) return;
            ESX_CHECK(it->prev != NULL, "backward-walk", "after %s: n%d in %s has a NULL prev (reference %s)", after, k, lname(l), d);
            if (esx_failed) return;
            bwd[nb++] = k;
        }
        char got[64];
        size_t o = 0;
        got[0] = 0;
        for (int i = 0; i < nf; ++i) o += (size_t)snprintf(got + o, sizeof(got) - o, "%sn%d", i ? " " : "", fwd[i]);
        bool same = nf == rlen[l];
        for (int i = 0; same && i < nf; ++i) same = fwd[i] == seq[l][i];
        ESX_CHECK(same, "order", "after %s: forward walk of %s is [%s], reference %s", after, lname(l), got, d);
        bool mirror = nb == nf;
        for (int i = 0; mirror && i < nf; ++i) mirror = bwd[i] == fwd[nf - 1 - i];
        ESX_CHECK(mirror, "mirror", "after %s: backward walk of %s (%d nodes) is not the mirror image of the forward walk [%s]", after, lname(l), nb, got);
        if (esx_failed) return;
        if (rlen[l]) {
            ESX_CHECK(aws_linked_list_front(list) == &node[seq[l][0]], "front-back", "after %s: front(%s) is not n%d", after, lname(l), seq[l][0]);
            ESX_CHECK(aws_linked_list_back(list) == &node[seq[l][rlen[l] - 1]], "front-back", "after %s: back(%s) is not n%d", after, lname(l), seq[l][rlen[l] - 1]);
        }
    }
    for (int n = 0; n < N && !esx_failed; ++n) {
        bool in = in_any(n);
        ESX_CHECK(aws_linked_list_node_is_in_list(&node[n]) == in, "is-in-list", "after %s: node_is_in_list(n%d) = %d, reference says %d", after, n, (int)aws_linked_list_node_is_in_list(&node[n]), (int)in);
        if (!in) ESX_CHECK(node[n].next == NULL && node[n].prev == NULL, "detached", "after %s: n%d is in no list but keeps a %s link", after, n, node[n].next ? "next" : "prev");
    }
}

static void m_apply(int o) {
    const struct op *p = &ops[o];
    char nm[64];
    m_opname(o, nm, sizeof(nm));
    detect_new_transition();
    int l, pos, l2, pos2;
    switch (p->kind) {
        case O_PUSH_FRONT:
            aws_linked_list_push_front(&LL[p->a], &node[p->b]);
            r_insert(p->a, 0, p->b);
            break;
        case O_PUSH_BACK:
            aws_linked_list_push_back(&LL[p->a], &node[p->b]);
            r_insert(p->a, rlen[p->a], p->b);
            break;
        case O_POP_FRONT:
        case O_POP_BACK: {
            bool front = p->kind == O_POP_FRONT;
            struct aws_linked_list_node *got = front ? aws_linked_list_pop_front(&LL[p->a]) : aws_linked_list_pop_back(&LL[p->a]);
            int want = r_remove(p->a, front ? 0 : rlen[p->a] - 1);
            ESX_CHECK(got == &node[want], "pop-node", "%s returned %s%d, reference pops n%d", nm, node_index(got) >= 0 ? "n" : "non-pool pointer ", node_index(got), want);
            if (!esx_failed) ESX_CHECK(got->next == NULL && got->prev == NULL, "detached", "%s: the popped node n%d keeps a link", nm, want);
            if (rlen[p->a] == 0) EV("pop_last_node");
            break;
        }
        case O_INSERT_BEFORE:
        case O_INSERT_AFTER:
            where(p->a, &l, &pos);
            if (p->kind == O_INSERT_BEFORE) {
                aws_linked_list_insert_before(&node[p->a], &node[p->b]);
                r_insert(l, pos, p->b);
                if (pos == 0) EV("insert_before_first");
            } else {
                aws_linked_list_insert_after(&node[p->a], &node[p->b]);
                r_insert(l, pos + 1, p->b);
                if (pos + 2 == rlen[l]) EV("insert_after_last");
            }
            break;
        case O_REMOVE:
            where(p->a, &l, &pos);
            aws_linked_list_remove(&node[p->a]);
            r_remove(l, pos);
            if (rlen[l] == 0) EV("remove_only_node");
            else if (pos > 0 && pos < rlen[l]) EV("remove_middle");
            break;
        case O_SWAP_NODES:
            where(p->a, &l, &pos);
            where(p->b, &l2, &pos2);
            aws_linked_list_swap_nodes(&node[p->a], &node[p->b]);
            seq[l][pos] = p->b;
            seq[l2][pos2] = p->a;
            if (p->a == p->b) EV("swap_identical");
            else if (l != l2) EV("swap_across_lists");
            else if (pos + 1 == pos2) EV("swap_adjacent_a_first");
            else if (pos2 + 1 == pos) EV("swap_adjacent_b_first");
            else EV("swap_non_adjacent");
            if (p->a != p->b && l != l2 && (rlen[l] == 1 || rlen[l2] == 1)) EV("swap_across_lists_single_node");
            break;
        case O_SWAP_CONTENTS: {
            aws_linked_list_swap_contents(&LL[p->a], &LL[p->b]);
            int t[MAXN], tl = rlen[p->a];
            memcpy(t, seq[p->a], sizeof(t));
            memcpy(seq[p->a], seq[p->b], sizeof(t));
            rlen[p->a] = rlen[p->b];
            memcpy(seq[p->b], t, sizeof(t));
            rlen[p->b] = tl;
            if (rlen[0] && rlen[1]) EV("swap_contents_both_nonempty");
            else if (rlen[0] || rlen[1]) EV("swap_contents_one_empty");
            else EV("swap_contents_both_empty");
            break;
        }
        case O_MOVE_ALL_FRONT:
        case O_MOVE_ALL_BACK: {
            int dst = p->a, src = p->b;
            if (rlen[src] && rlen[dst]) EV("move_all_both_nonempty");
            else if (rlen[src]) EV("move_all_into_empty");
            else EV("move_all_from_empty");
            if (p->kind == O_MOVE_ALL_FRONT) {
                aws_linked_list_move_all_front(&LL[dst], &LL[src]);
                for (int i = rlen[src] - 1; i >= 0; --i) r_insert(dst, 0, seq[src][i]);
            } else {
                aws_linked_list_move_all_back(&LL[dst], &LL[src]);
                for (int i = 0; i < rlen[src]; ++i) r_insert(dst, rlen[dst], seq[src][i]);
            }
            rlen[src] = 0;
            break;
        }
    }
    if (!esx_failed) check_all(nm);
}

static size_t m_canon(uint8_t *b, size_t cap) {
    (void)cap;
    size_t o = 0;
    for (int l = 0; l < 2; ++l) {
        b[o++] = (uint8_t)rlen[l];
        for (int i = 0; i < rlen[l]; ++i) b[o++] = (uint8_t)seq[l][i];
    }
    return o;
}

static struct esx_model model = {
    .reset = m_reset, .enabled = m_enabled, .apply = m_apply, .canon = m_canon, .opname = m_opname,
};

static void add_op(int k, int a, int b) {
    ops[nops].kind = (uint8_t)k;
    ops[nops].a = (uint8_t)a;
    ops[nops].b = (uint8_t)b;
    nops++;
}

static void build(int n) {
    N = n;
    nops = 0;
    for (int l = 0; l < 2; ++l)
        for (int k = 0; k < n; ++k) add_op(O_PUSH_FRONT, l, k);
    for (int l = 0; l < 2; ++l)
        for (int k = 0; k < n; ++k) add_op(O_PUSH_BACK, l, k);
    for (int l = 0; l < 2; ++l) add_op(O_POP_FRONT, l, 0);
    for (int l = 0; l < 2; ++l) add_op(O_POP_BACK, l, 0);
    for (int a = 0; a < n; ++a)
        for (int b = 0; b < n; ++b)
            if (a != b) add_op(O_INSERT_BEFORE, a, b);
    for (int a = 0; a < n; ++a)
        for (int b = 0; b < n; ++b)
            if (a != b) add_op(O_INSERT_AFTER, a, b);
    for (int a = 0; a < n; ++a) add_op(O_REMOVE, a, 0);
    for (int a = 0; a < n; ++a)
        for (int b = 0; b < n; ++b) add_op(O_SWAP_NODES, a, b);
    add_op(O_SWAP_CONTENTS, 0, 1);
    add_op(O_SWAP_CONTENTS, 1, 0);
    add_op(O_MOVE_ALL_FRONT, 0, 1);
    add_op(O_MOVE_ALL_FRONT, 1, 0);
    add_op(O_MOVE_ALL_BACK, 0, 1);
    add_op(O_MOVE_ALL_BACK, 1, 0);
    model.nops = nops;
    snprintf(g_name, sizeof(g_name), "ll-n%d", n);
    model.name = g_name;
    model.max_depth = ESX_MAX_DEPTH;
}

int main(int argc, char **argv) {
    v_init(argc, argv);
    int rc = 0;
    for (int n = 2; n <= MAXN; ++n) {
        build(n);
        if (v_replay_token) {
            if (esx_token_is_for(v_replay_token, g_name)) rc |= esx_replay(&model, v_replay_token);
            continue;
        }
        if (n == MAXN && !v_thorough()) continue;
        if (n == 2 && v_thorough()) continue;
        esx_run(&model);
        ESX_CYCLES(&model);
    }
    v_finish();
    return (v_sh->viol_count || rc) ? 1 : 0;
}
