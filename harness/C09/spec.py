LEVEL = "model_checking"
HARNESSES = [
    dict(name="alist", src=["alist.c"], variant="asan", deadline={"quick": 90, "thorough": 900}),
    dict(name="llist", src=["llist.c"], variant="asan", deadline={"quick": 60, "thorough": 300}),
    # Debug build: AWS_PRECONDITION / AWS_POSTCONDITION and the 0xDD debug fills of array_list.inl / array_list.c are live
    dict(name="alist-dbg", src=["alist.c"], variant="asan-dbg", tiers=["thorough"], args=["--light"],
         deadline={"thorough": 600}),
    dict(name="llist-dbg", src=["llist.c"], variant="asan-dbg", tiers=["thorough"], deadline={"thorough": 300}),
]
ASSUMPTIONS = [
    "array list: item sizes 1,3,8,128,129,300; storage dynamic (initial 0,1,2 items) or static (2,3 items between two 64-byte guard "
    "zones inside a guard-allocator block); family al1 = one list, full single-list alphabet, length <= 5 (quick: <= 4), run to "
    "fixpoint; family al2 = lists A and B with copy in both directions, swap_contents and the storage-changing single-list "
    "operations, length <= 3 (quick: <= 2), run to fixpoint",
    "a new element always gets the smallest id not held by any list (canonical ids keep the space finite); element bytes are a "
    "function of (id, byte offset) over the full item width",
    "reading (DESIGN section 6): elements between the old length and the index written by set_at are unspecified until written; "
    "the reference carries them as wild cards and never compares them; sort is not offered while a list holds a wild card",
    "get_at / get_at_ptr (every index 0..len), front, back, length, capacity are not alphabet symbols: they are called on both lists "
    "after every operation in every state",
    "capacity oracle = what array_list.h states: capacity >= length and fits the storage, static capacity fixed, successful "
    "ensure_capacity/set_at/push covers the index, growth by exactly a factor of 2 whenever doubling suffices, shrink_to_fit leaves "
    "capacity == length, clear keeps capacity; otherwise the observed capacity is adopted",
    "error codes demanded only where a header documents them (LIST_EMPTY, INVALID_INDEX for get/erase/static set_at/static "
    "ensure_capacity, DEST_COPY_TOO_SMALL); push on a full static list may raise LIST_EXCEEDS_MAX_SIZE or INVALID_INDEX; overflowing "
    "indices (SIZE_MAX, SIZE_MAX/item_size) must fail and change nothing, any error code; shrink_to_fit on a static list must change "
    "nothing, either return value",
    "code-level contracts respected as preconditions: swap indices < length, copy from a list whose data is non-NULL "
    "(AWS_FATAL_PRECONDITION in aws_array_list_copy), swap_contents only between two dynamic lists of one allocator",
    "no allocator-balance verdict (the property does not speak about leaks; shrink_to_fit on an empty list with capacity is known "
    "to drop its buffer, DESIGN section 6)",
    "linked list: node pools of 3,4 (quick) and 3,4,5 (thorough) nodes, lists A and B, every operation names its nodes explicitly; "
    "pop/front/back only on non-empty lists, remove/swap_nodes/anchors only on nodes in a list, inserted nodes are in no list",
    "states are de-duplicated on a 128-bit hash of the canonical state (hash compaction)",
]
