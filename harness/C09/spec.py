LEVEL = "model_checking"
HARNESSES = [
    dict(name="alist", src=["alist.c"], variant="asan", deadline={"quick": 90, "thorough": 900}),
    dict(name="llist", src=["llist.c"], variant="asan", deadline={"quick": 60, "thorough": 300}),
    # Debug build: AWS_PRECONDITION / AWS_POSTCONDITION and the 0xDD debug fills of array_list.inl / array_list.c are live
    dict(name="alist-dbg", src=["alist.c"], variant="asan-dbg", tiers=["thorough"], args=["--light"],
         deadline={"thorough": 600}),
    dict(name="llist-dbg", src=["llist.c"], variant="asan-dbg", tiers=["thorough"], deadline={"thorough": 300}),
    # free-running ThreadSanitizer twin: two threads, each with objects of its own (harness/common/twin.c; samples, decides nothing)
    dict(name="own-objects-tsan", src=["../common/twin.c"], variant="tsan", cflags=["-DTWIN_C09", "-DVSX_FREE_RUNS=6"], deadline={"quick": 60, "thorough": 120}),
]
ASSUMPTIONS = [
    "array list: item sizes 1,3,8,128,129,300; storage dynamic (initial 0,1,2 items) or static (2,3 items between two 64-byte guard "
    "zones inside a guard-allocator block).  Family al1 = one list, full single-list alphabet (38 symbols), run to fixpoint with "
    "length <= 5 (quick: <= 4; initial allocations 1 and 2 reach the same states as 0 and run with length <= 3).  Family al2 = "
    "lists A and B, copy in both directions, swap_contents in both argument orders and the storage-changing single-list operations "
    "(17 symbols), run to fixpoint with length <= 4 (quick: <= 3, item sizes 8 and 129 only)",
    "thorough tier repeats both array-list families (one length bound lower) and the linked-list models against a Debug build, where "
    "AWS_PRECONDITION/AWS_POSTCONDITION and the 0xDD debug fills are live",
    "a new element always gets the smallest id not held by any list (canonical ids keep the space finite); element bytes are a "
    "function of (id, byte offset) over the full item width; al2 has no sort, so its canonical state renames ids in order of first "
    "appearance (symmetry reduction); al1 keeps ids because sort orders by them",
    "reading (DESIGN section 6): elements between the old length and the index written by set_at are unspecified until written; "
    "the reference carries them as wild cards and never compares them; sort is not offered while a list holds a wild card",
    "get_at / get_at_ptr (every index 0..len), front, back, length, capacity are not alphabet symbols: they are called on both lists "
    "after every newly explored transition, i.e. in every state and at every index; replayed prefixes are not re-observed "
    "(deterministic re-execution, checked by the engine's canon-on-replay)",
    "capacity oracle = what array_list.h states: capacity >= length and fits the storage (dynamic: current_size <= size of the "
    "live allocation), static capacity fixed, successful ensure_capacity/set_at/push covers the index, growth by exactly a factor "
    "of 2 whenever doubling suffices, shrink_to_fit leaves capacity == length, clear keeps capacity; otherwise the observed "
    "capacity is adopted",
    "error codes demanded only where a header documents them (LIST_EMPTY, INVALID_INDEX for get/erase/static set_at/static "
    "ensure_capacity, DEST_COPY_TOO_SMALL); push on a full static list may raise LIST_EXCEEDS_MAX_SIZE or INVALID_INDEX; overflowing "
    "indices (SIZE_MAX, SIZE_MAX/item_size) must fail and change nothing, any error code; shrink_to_fit on a static list must change "
    "nothing, either return value",
    "code-level contracts respected as preconditions: swap indices < length, copy only from a list whose data is non-NULL "
    "(AWS_FATAL_PRECONDITION in aws_array_list_copy aborts otherwise), swap_contents only between two dynamic lists of one allocator",
    "no allocator-balance verdict (the property does not speak about leaks; shrink_to_fit on an empty list with capacity is known "
    "to drop its buffer, DESIGN section 6)",
    "linked list: node pools of 2,3,4 (quick) and 3,4,5 (thorough) nodes, lists A and B, every operation names its nodes explicitly; "
    "pop/front/back only on non-empty lists, remove/swap_nodes/anchors only on nodes in a list, inserted nodes are in no list",
    "states are de-duplicated on a 128-bit hash of the canonical state (hash compaction)",
]
