/*
 * C13 — URI parsing, building and percent-coding are mutually consistent (DESIGN §5 C13, §6).
 *
 * Sections (BEE, every index is one input):
 *   parse    product of components -> one string -> aws_uri_init_parse -> every component compared with its generator
 *   build    components -> aws_uri_init_from_builder_options (query string / parameter list) -> compare -> re-parse -> re-build
 *   pct      byte strings -> both encoders -> alphabet, table-free reference, urllib table, decode(encode(x)) == x
 *   pct3all  (thorough) every three-byte string through both encoders
 *   dec      strings over {a % 0 9 A F f g} -> decoder: documented failure or reference bytes
 *   dechex   '%' + every two-byte string
 *   query    strings over {a b = &} -> both iterators and both list forms versus a reference split
 */
#include "bee.h"
#include <aws/common/array_list.h>
#include <aws/common/byte_buf.h>
#include <aws/common/common.h>
#include <aws/common/error.h>
#include <aws/common/uri.h>

extern const char *const py_quote_path[256];
extern const char *const py_quote_param[256];
extern const char *const py_quote_version;

static struct aws_allocator *A;

/* ------------------------------------------------------------------ component sets ---------- */
struct cset {
    const char *const *v;
    unsigned nq, nt; /* number of elements used by the quick / thorough tier (quick set is a prefix) */
};
#define CSET(arr, nquick) {arr, nquick, (unsigned)(sizeof(arr) / sizeof(arr[0]))}
static unsigned cn(const struct cset *s) { return v_thorough() ? s->nt : s->nq; }

static const char *const SCHEME_V[] = {"", "http", "a+b", /* thorough */ "s", "h2-x.y"};
/* user-info is written with its '@'; "" = absent, "@" = present and empty */
static const char *const UINFO_V[] = {"", "u@", "u:p@", ":@", "u:@", /* thorough */ "@", "user.name:pw-1@", "%40:%3A@"};
static const char *const HOST_V[] = {"h", "a.b", "1.2.3.4", "[::1]", "[a:b::c]", "",
                                     /* thorough */ "localhost", "[::]", "[fe80::1%25en0]", "a-b.example.com"};
/* port is written with its ':' */
static const char *const PORT_V[] = {"", ":", ":0", ":80", ":4294967295", ":4294967296", ":99999999999999999999", ":8x",
                                     ":00000000443", /* 11 digits, value 443: leading zeros are digits like any other (RFC 3986 port = *DIGIT) */
                                     /* thorough */ ":1", ":65535", ":65536", ":4294967294", ":04294967295", ":000",
                                     ":18446744073709551615", ":18446744073709551616", ":-1", ":+1", ":8 ", ":x"};
static const char *const PATH_V[] = {"", "/", "/p", "/p/q", /* thorough */ "/p/", "/a:b", "/x@y", "/%2F"};
/* query is written with its '?' */
static const char *const QUERY_V[] = {"", "?", "?a", "?a=1", "?a=1&b", "?&&a=&", "?a=b=c",
                                      /* several empty-valued parameters (added after a seeded change in the builder's size
                                       * estimate that only bites with >= 2 empty values) */
                                      "?a&b", "?a=&b=&c=x", "?a&b&c",
                                      /* thorough */ "?a=1&a=2", "?=v", "?a==&&", "?%41=%3d&x"};
static const struct cset SCHEMES = CSET(SCHEME_V, 3), UINFOS = CSET(UINFO_V, 5), HOSTS = CSET(HOST_V, 6), PORTS = CSET(PORT_V, 9),
                         PATHS = CSET(PATH_V, 4), QUERIES = CSET(QUERY_V, 10);
/* numeric ports for the builder (0 = no port) */
static const uint32_t BPORT_V[] = {0, 1, 80, 65535, 4294967295u, /* thorough */ 9, 10, 65536, 999999999, 1000000000, 2147483648u, 4294967294u};
#define BPORT_NQ 5
static unsigned bport_n(void) { return v_thorough() ? (unsigned)(sizeof(BPORT_V) / sizeof(BPORT_V[0])) : BPORT_NQ; }

/* ------------------------------------------------------------------ reference pieces -------- */
#define NOOFF ((size_t)-1)
struct piece {
    const uint8_t *p; /* expected bytes */
    size_t len;
    size_t off; /* expected offset inside uri_str, NOOFF = not demanded */
};
struct expect {
    uint8_t text[320];
    size_t n;
    struct piece scheme, authority, userinfo, user, password, host, path, query, paq;
    int port_err;
    uint32_t port;
    int degenerate; /* nothing after the scheme */
    int ambiguous;  /* scheme-less and first ':' followed by '/' */
    int paq_optional_qmark; /* builder with an empty parameter list */
};

static struct piece mk(const struct expect *e, size_t off, size_t len) {
    struct piece p = {e->text + off, len, off};
    return p;
}

/* port text (after ':') -> number, independent of the library: digits only, value must fit 32 bits */
static int ref_port(const char *digits, uint32_t *out) {
    uint64_t v = 0;
    *out = 0;
    for (const char *d = digits; *d; ++d) {
        if (*d < '0' || *d > '9') return -1;
        v = v * 10 + (uint64_t)(*d - '0');
        if (v > 0xFFFFFFFFull) return -1; /* stays an error however many digits follow */
    }
    *out = (uint32_t)v;
    return 0;
}

static void assemble(struct expect *e, const char *scheme, const char *uinfo, const char *host, const char *port, const char *path,
                     const char *query) {
    memset(e, 0, sizeof(*e));
    size_t sl = strlen(scheme), ul = strlen(uinfo), hl = strlen(host), ol = strlen(port), pl = strlen(path), ql = strlen(query);
    size_t n = 0;
    memcpy(e->text + n, scheme, sl);
    n += sl;
    e->scheme = mk(e, 0, sl);
    if (sl) {
        memcpy(e->text + n, "://", 3);
        n += 3;
    }
    size_t a0 = n;
    memcpy(e->text + n, uinfo, ul);
    n += ul;
    if (ul) {
        size_t uil = ul - 1; /* without '@' */
        e->userinfo = mk(e, a0, uil);
        const char *c = memchr(uinfo, ':', uil);
        if (c) {
            size_t userl = (size_t)(c - uinfo);
            e->user = mk(e, a0, userl);
            e->password = mk(e, a0 + userl + 1, uil - userl - 1);
        } else {
            e->user = mk(e, a0, uil);
            e->password = mk(e, a0 + uil, 0);
        }
    } else {
        e->userinfo = mk(e, a0, 0);
        e->user = mk(e, a0, 0);
        e->password = mk(e, a0, 0);
    }
    size_t h0 = n;
    memcpy(e->text + n, host, hl);
    n += hl;
    if (hl && host[0] == '[') e->host = mk(e, h0 + 1, hl - 2); /* §6: the address inside the brackets */
    else e->host = mk(e, h0, hl);
    memcpy(e->text + n, port, ol);
    n += ol;
    e->authority = mk(e, a0, n - a0);
    if (ol) e->port_err = ref_port(port + 1, &e->port) != 0;
    size_t p0 = n;
    memcpy(e->text + n, path, pl);
    n += pl;
    e->path = mk(e, p0, pl);
    memcpy(e->text + n, query, ql);
    n += ql;
    e->query = ql ? mk(e, p0 + pl + 1, ql - 1) : mk(e, n, 0);
    e->paq = mk(e, p0, pl + ql);
    e->n = n;
    e->degenerate = (n == a0);
    if (!sl) {
        const uint8_t *c = memchr(e->text, ':', n);
        if (c && (size_t)(c - e->text) + 1 < n && c[1] == '/') e->ambiguous = 1;
    }
}

/* ------------------------------------------------------------------ view checks ------------- */
static int view_inside(const struct aws_byte_cursor *c, const struct aws_uri *u) {
    const uint8_t *b = u->uri_str.buffer;
    size_t bl = u->uri_str.len;
    if (c->len == 0) return c->ptr == NULL || (b && c->ptr >= b && c->ptr <= b + bl);
    return b && c->ptr && c->ptr >= b && c->len <= bl && (size_t)(c->ptr - b) <= bl - c->len;
}

static void chk_view(const char *clause, const struct aws_byte_cursor *c, const struct aws_uri *u, const struct expect *e, struct piece want) {
    if (!view_inside(c, u)) {
        bee_fail("view-outside-uri_str", "%s of \"%s\": view of %zu bytes does not lie inside the object's own text (%zu bytes)", clause,
                 v_show(e->text, e->n), c->len, u->uri_str.len);
        return;
    }
    if (!(c->len == want.len && (want.len == 0 || memcmp(c->ptr, want.p, want.len) == 0))) {
        bee_fail(clause, "\"%s\": %s is \"%s\" (%zu bytes), generated from \"%s\" (%zu bytes)", v_show(e->text, e->n), clause,
                 v_show(c->ptr, c->len < 200 ? c->len : 200), c->len, v_show(want.p, want.len), want.len);
        return;
    }
    if (want.len && want.off != NOOFF && (size_t)(c->ptr - u->uri_str.buffer) != want.off)
        bee_fail("view-offset", "\"%s\": %s view starts at offset %zu, the component was written at %zu", v_show(e->text, e->n), clause,
                 (size_t)(c->ptr - u->uri_str.buffer), want.off);
}

static void chk_uri(const struct aws_uri *u, const struct expect *e) {
    chk_view("scheme", aws_uri_scheme(u), u, e, e->scheme);
    chk_view("authority", aws_uri_authority(u), u, e, e->authority);
    chk_view("userinfo", &u->userinfo, u, e, e->userinfo);
    chk_view("user", &u->user, u, e, e->user);
    chk_view("password", &u->password, u, e, e->password);
    chk_view("host", aws_uri_host_name(u), u, e, e->host);
    BEE_CHECK(aws_uri_port(u) == e->port, "port", "\"%s\": port is %" PRIu32 ", generated %" PRIu32, v_show(e->text, e->n), aws_uri_port(u), e->port);
    chk_view("path", aws_uri_path(u), u, e, e->path);
    chk_view("query", aws_uri_query_string(u), u, e, e->query);
    const struct aws_byte_cursor *paq = aws_uri_path_and_query(u);
    if (e->paq_optional_qmark && view_inside(paq, u) && paq->len == e->paq.len + 1 && paq->ptr[paq->len - 1] == '?') {
        struct aws_byte_cursor t = *paq;
        t.len--;
        V_COUNT("build_empty_list_bare_qmark", 1);
        chk_view("path-and-query", &t, u, e, e->paq);
    } else
        chk_view("path-and-query", paq, u, e, e->paq);
}

/* ------------------------------------------------------------------ reference query split --- */
struct rparam {
    size_t koff, klen, voff, vlen;
};
#define MAXP 16
/* pairs are separated by '&'; empty pairs are skipped; the first '=' splits; no '=' -> empty value */
static size_t ref_split(const uint8_t *q, size_t n, struct rparam *out) {
    size_t cnt = 0, i = 0;
    while (i < n) {
        size_t j = i;
        while (j < n && q[j] != '&') ++j;
        if (j > i && cnt < MAXP) {
            size_t k = i;
            while (k < j && q[k] != '=') ++k;
            out[cnt].koff = i;
            out[cnt].klen = k - i;
            if (k < j) {
                out[cnt].voff = k + 1;
                out[cnt].vlen = j - k - 1;
            } else {
                out[cnt].voff = j;
                out[cnt].vlen = 0;
            }
            ++cnt;
        }
        i = j + 1;
    }
    return cnt;
}

static int cur_inside(const struct aws_byte_cursor *c, const uint8_t *base, size_t blen) {
    if (c->len == 0) return c->ptr == NULL || (c->ptr >= base && c->ptr <= base + blen);
    return c->ptr && c->ptr >= base && c->len <= blen && (size_t)(c->ptr - base) <= blen - c->len;
}

/* got[] (views into [base, base+blen)) versus the reference split of q[0..n) */
static void chk_params(const char *who, const struct aws_uri_param *got, size_t ngot, const uint8_t *base, size_t blen, const uint8_t *q,
                       size_t n, const struct rparam *ref, size_t nref) {
    if (ngot != nref) {
        bee_fail("param-count", "%s over \"%s\" yields %zu pairs, the string has %zu non-empty pairs", who, v_show(q, n), ngot, nref);
        return;
    }
    for (size_t i = 0; i < nref; ++i) {
        const struct aws_byte_cursor *k = &got[i].key, *v = &got[i].value;
        if (!cur_inside(k, base, blen) || !cur_inside(v, base, blen)) {
            bee_fail("param-outside-query", "%s over \"%s\": pair %zu does not lie inside the query string", who, v_show(q, n), i);
            return;
        }
        if (!(k->len == ref[i].klen && (k->len == 0 || memcmp(k->ptr, q + ref[i].koff, k->len) == 0)))
            bee_fail("param-key", "%s over \"%s\": pair %zu has key \"%s\", expected \"%s\"", who, v_show(q, n), i, v_show(k->ptr, k->len),
                     v_show(q + ref[i].koff, ref[i].klen));
        else if (k->len && (size_t)(k->ptr - base) != ref[i].koff)
            bee_fail("param-position", "%s over \"%s\": pair %zu key taken from offset %zu, expected %zu (same pair yielded twice / out of order)",
                     who, v_show(q, n), i, (size_t)(k->ptr - base), ref[i].koff);
        if (!(v->len == ref[i].vlen && (v->len == 0 || memcmp(v->ptr, q + ref[i].voff, v->len) == 0)))
            bee_fail("param-value", "%s over \"%s\": pair %zu has value \"%s\", expected \"%s\"", who, v_show(q, n), i, v_show(v->ptr, v->len),
                     v_show(q + ref[i].voff, ref[i].vlen));
        else if (v->len && (size_t)(v->ptr - base) != ref[i].voff)
            bee_fail("param-position", "%s over \"%s\": pair %zu value taken from offset %zu, expected %zu", who, v_show(q, n), i,
                     (size_t)(v->ptr - base), ref[i].voff);
    }
}

/* run the stand-alone iterator; returns number of pairs, MAXP+1.. means it did not stop */
static size_t iterate_cursor(struct aws_byte_cursor qs, struct aws_uri_param *out) {
    struct aws_uri_param p;
    AWS_ZERO_STRUCT(p);
    size_t n = 0;
    while (aws_query_string_next_param(qs, &p)) {
        if (n < 2 * MAXP) out[n] = p;
        if (++n > 2 * MAXP) break;
    }
    return n;
}
static size_t iterate_uri(const struct aws_uri *u, struct aws_uri_param *out) {
    struct aws_uri_param p;
    AWS_ZERO_STRUCT(p);
    size_t n = 0;
    while (aws_uri_query_string_next_param(u, &p)) {
        if (n < 2 * MAXP) out[n] = p;
        if (++n > 2 * MAXP) break;
    }
    return n;
}
static size_t list_to_array(struct aws_array_list *l, struct aws_uri_param *out) {
    size_t n = aws_array_list_length(l);
    for (size_t i = 0; i < n && i < 2 * MAXP; ++i) aws_array_list_get_at(l, &out[i], i);
    return n;
}

/* iterator and list form of a parsed uri versus the reference split of the generating query */
static void chk_uri_query(const struct aws_uri *u, const uint8_t *q, size_t n) {
    struct rparam ref[MAXP];
    size_t nref = ref_split(q, n, ref);
    const struct aws_byte_cursor *qs = aws_uri_query_string(u);
    if (!view_inside(qs, u) || qs->len != n) return; /* already reported by chk_uri */
    struct aws_uri_param got[2 * MAXP];
    size_t ng = iterate_uri(u, got);
    BEE_CHECK(ng <= 2 * MAXP, "iterator-does-not-stop", "aws_uri_query_string_next_param over \"%s\" yielded more than %d pairs", v_show(q, n), 2 * MAXP);
    if (ng <= 2 * MAXP) chk_params("aws_uri_query_string_next_param", got, ng, qs->ptr, n, q, n, ref, nref);
    struct aws_array_list l;
    aws_array_list_init_dynamic(&l, A, 2, sizeof(struct aws_uri_param));
    int rc = aws_uri_query_string_params(u, &l);
    BEE_CHECK(rc == AWS_OP_SUCCESS, "list-form-fails", "aws_uri_query_string_params over \"%s\": rc=%d err=%d", v_show(q, n), rc, aws_last_error());
    if (rc == AWS_OP_SUCCESS) {
        ng = list_to_array(&l, got);
        chk_params("aws_uri_query_string_params", got, ng, qs->ptr, n, q, n, ref, nref);
    }
    aws_array_list_clean_up(&l);
}

/* ------------------------------------------------------------------ section: parse ---------- */
static uint64_t parse_total(void) {
    return (uint64_t)cn(&SCHEMES) * cn(&UINFOS) * cn(&HOSTS) * cn(&PORTS) * cn(&PATHS) * cn(&QUERIES);
}
static void parse_eval(uint64_t idx, void *ctx) {
    (void)ctx;
    BEE_ITEM(idx);
    uint64_t x = idx;
    unsigned qi = bee_digit(&x, cn(&QUERIES)), pi = bee_digit(&x, cn(&PATHS)), oi = bee_digit(&x, cn(&PORTS)), hi = bee_digit(&x, cn(&HOSTS)),
             ui = bee_digit(&x, cn(&UINFOS)), si = bee_digit(&x, cn(&SCHEMES));
    static struct expect e;
    assemble(&e, SCHEME_V[si], UINFO_V[ui], HOST_V[hi], PORT_V[oi], PATH_V[pi], QUERY_V[qi]);
    if (e.ambiguous) {
        V_COUNT("parse_skipped_rfc_ambiguous", 1);
        return;
    }
    V_COUNT("evaluations", 1);
    int has_auth_detail = UINFO_V[ui][0] || HOST_V[hi][0] == '[' || PORT_V[oi][0];
    if (has_auth_detail && (PATH_V[pi][0] || QUERY_V[qi][0])) V_COUNT("nontrivial", 1);
    if (HOST_V[hi][0] == '[' && PORT_V[oi][0]) V_COUNT("parse_ipv6_with_port", 1);
    if (!HOST_V[hi][0]) V_COUNT("parse_empty_host", 1);
    if (idx == 10414) v_sample("parse %" PRIu64 ": \"%s\"", idx, v_show(e.text, e.n));

    uint8_t *blk = bee_block(e.text, e.n);
    struct aws_byte_cursor c = aws_byte_cursor_from_array(blk, e.n);
    struct aws_uri uri;
    memset(&uri, 0xEE, sizeof(uri));
    aws_reset_error();
    int rc = aws_uri_init_parse(&uri, A, &c);
    int err = aws_last_error();
    int own_copy = rc == AWS_OP_SUCCESS && uri.uri_str.buffer != blk;
    free(blk); /* the input is gone: a view that still points into it is a use-after-free under ASan */

    if (e.port_err) {
        V_COUNT("parse_port_errors_expected", 1);
        BEE_CHECK(rc == AWS_OP_ERR, "bad-port-accepted", "\"%s\" parses although the port \"%s\" is not a number up to 4294967295 (port reported %" PRIu32 ")",
                  v_show(e.text, e.n), PORT_V[oi] + 1, rc == AWS_OP_SUCCESS ? aws_uri_port(&uri) : 0);
        BEE_CHECK(rc != AWS_OP_ERR || err == AWS_ERROR_MALFORMED_INPUT_STRING, "bad-port-error-code", "\"%s\": error %d instead of MALFORMED_INPUT_STRING",
                  v_show(e.text, e.n), err);
        if (rc == AWS_OP_SUCCESS) aws_uri_clean_up(&uri);
        return;
    }
    if (e.degenerate && rc != AWS_OP_SUCCESS) {
        V_COUNT("degenerate_empty_uri", 1); /* "" / "http://": nothing documented, see spec.py */
        return;
    }
    if (rc != AWS_OP_SUCCESS) {
        bee_fail("parse-rejects-wellformed", "\"%s\" (scheme \"%s\" user-info \"%s\" host \"%s\" port \"%s\" path \"%s\" query \"%s\") rejected, error %d",
                 v_show(e.text, e.n), SCHEME_V[si], UINFO_V[ui], HOST_V[hi], PORT_V[oi], PATH_V[pi], QUERY_V[qi], err);
        return;
    }
    BEE_CHECK(own_copy && uri.uri_str.len == e.n && memcmp(uri.uri_str.buffer, e.text, e.n) == 0, "uri_str-copy",
              "\"%s\": uri_str is not an own copy of the text (len %zu)", v_show(e.text, e.n), uri.uri_str.len);
    chk_uri(&uri, &e);
    chk_uri_query(&uri, e.query.p, e.query.len);
    aws_uri_clean_up(&uri);
}

/* ------------------------------------------------------------------ section: build ---------- */
static uint64_t build_total(void) { return 2ull * cn(&QUERIES) * cn(&PATHS) * bport_n() * cn(&HOSTS) * cn(&SCHEMES); }

static struct aws_byte_cursor blk_cursor(const char *s, uint8_t **blk) {
    size_t n = strlen(s);
    *blk = bee_block(s, n);
    return aws_byte_cursor_from_array(*blk, n);
}

static void build_eval(uint64_t idx, void *ctx) {
    (void)ctx;
    BEE_ITEM(idx);
    uint64_t x = idx;
    unsigned mode = bee_digit(&x, 2), qi = bee_digit(&x, cn(&QUERIES)), pi = bee_digit(&x, cn(&PATHS)), oi = bee_digit(&x, bport_n()),
             hi = bee_digit(&x, cn(&HOSTS)), si = bee_digit(&x, cn(&SCHEMES));
    if (qi == 1) return; /* "?" (present, empty) is not expressible through the options: same options as "no query" */
    const char *scheme = SCHEME_V[si], *host = HOST_V[hi], *path = PATH_V[pi], *qtext = QUERY_V[qi][0] ? QUERY_V[qi] + 1 : "";
    uint32_t port = BPORT_V[oi];
    size_t qn = strlen(qtext);
    struct rparam ref[MAXP];
    size_t nref = ref_split((const uint8_t *)qtext, qn, ref);

    /* the text the components stand for: what a parse of the result must give back */
    char ptxt[16] = "", qexp[64] = "";
    if (port) snprintf(ptxt, sizeof(ptxt), ":%" PRIu32, port);
    if (mode == 0) {
        if (qn) snprintf(qexp, sizeof(qexp), "?%s", qtext);
    } else {
        size_t o = 0;
        for (size_t i = 0; i < nref; ++i)
            o += (size_t)snprintf(qexp + o, sizeof(qexp) - o, "%c%.*s=%.*s", i ? '&' : '?', (int)ref[i].klen, qtext + ref[i].koff, (int)ref[i].vlen,
                                  qtext + ref[i].voff);
    }
    static struct expect e;
    assemble(&e, scheme, "", host, ptxt, path, qexp);
    if (e.ambiguous) { /* cannot happen with numeric ports; kept so that a change of the sets cannot smuggle one in */
        V_COUNT("build_skipped_rfc_ambiguous", 1);
        return;
    }
    e.paq_optional_qmark = (mode == 1 && nref == 0);
    V_COUNT("evaluations", 1);
    if (port || (mode == 1 && nref)) V_COUNT("nontrivial", 1);
    if (mode == 1) V_COUNT("build_param_list", 1);
    if (idx == 4463) v_sample("build %" PRIu64 ": scheme \"%s\" host \"%s\" port %" PRIu32 " path \"%s\" query %s \"%s\" -> \"%s\"", idx, scheme, host, port, path,
                                  mode ? "list" : "string", qtext, v_show(e.text, e.n));

    uint8_t *b_s, *b_h, *b_p, *b_q;
    struct aws_uri_builder_options o;
    AWS_ZERO_STRUCT(o);
    o.scheme = blk_cursor(scheme, &b_s);
    o.host_name = blk_cursor(host, &b_h);
    o.path = blk_cursor(path, &b_p);
    o.port = port;
    struct aws_byte_cursor qc = blk_cursor(qtext, &b_q);
    struct aws_array_list plist;
    aws_array_list_init_dynamic(&plist, A, 1, sizeof(struct aws_uri_param));
    if (mode == 0) {
        o.query_string = qc;
    } else {
        for (size_t i = 0; i < nref; ++i) {
            struct aws_uri_param p;
            p.key = aws_byte_cursor_from_array(b_q + ref[i].koff, ref[i].klen);
            p.value = aws_byte_cursor_from_array(b_q + ref[i].voff, ref[i].vlen);
            aws_array_list_push_back(&plist, &p);
        }
        o.query_params = &plist;
    }
    /* the same options object is used for two builds, the first URI being cleaned up in between: the options belong to the
     * caller and describe the same URI the second time (added after a seeded change that redirected options->path into the
     * storage of the URI just built) */
    uint8_t *first_txt = NULL;
    size_t first_len = 0;
    int first_rc;
    {
        struct aws_uri first;
        memset(&first, 0xEE, sizeof(first));
        first_rc = aws_uri_init_from_builder_options(&first, A, &o);
        if (first_rc == AWS_OP_SUCCESS) {
            first_len = first.uri_str.len;
            first_txt = bee_block(first.uri_str.buffer, first_len);
            aws_uri_clean_up(&first);
        }
    }
    struct aws_uri built;
    memset(&built, 0xEE, sizeof(built));
    aws_reset_error();
    int rc = aws_uri_init_from_builder_options(&built, A, &o);
    int err = aws_last_error();
    if (rc == AWS_OP_SUCCESS || first_rc == AWS_OP_SUCCESS)
        BEE_CHECK(rc == first_rc && first_len == built.uri_str.len && memcmp(first_txt, built.uri_str.buffer, first_len) == 0, "build-twice-from-the-same-options",
                  "two builds from one options object (the first URI cleaned up in between): first rc %d \"%s\", second rc %d \"%s\"", first_rc, first_txt ? v_show(first_txt, first_len) : "",
                  rc, rc == AWS_OP_SUCCESS ? v_show(built.uri_str.buffer, built.uri_str.len) : "");
    free(first_txt);
    aws_array_list_clean_up(&plist);
    free(b_s);
    free(b_h);
    free(b_p);
    free(b_q); /* every input is gone before the result is read */

    if (e.degenerate && rc != AWS_OP_SUCCESS) {
        V_COUNT("degenerate_empty_uri", 1);
        return;
    }
    if (rc != AWS_OP_SUCCESS) {
        bee_fail("build-fails", "builder fails (error %d) for scheme \"%s\" host \"%s\" port %" PRIu32 " path \"%s\" query %s \"%s\"", err, scheme, host, port, path,
                 mode ? "list" : "string", qtext);
        return;
    }
    /* offsets are not demanded of the builder's serialisation, contents and containment are */
    struct expect eb = e;
    eb.scheme.off = eb.authority.off = eb.userinfo.off = eb.user.off = eb.password.off = eb.host.off = eb.path.off = eb.query.off = eb.paq.off = NOOFF;
    chk_uri(&built, &eb);
    chk_uri_query(&built, e.query.p, e.query.len);

    /* re-parse the builder's text */
    uint8_t *txt = bee_block(built.uri_str.buffer, built.uri_str.len);
    struct aws_byte_cursor tc = aws_byte_cursor_from_array(txt, built.uri_str.len);
    struct aws_uri re;
    aws_reset_error();
    int rc2 = aws_uri_init_parse(&re, A, &tc);
    free(txt);
    BEE_CHECK(rc2 == AWS_OP_SUCCESS, "built-text-does-not-parse", "builder produced \"%s\" which aws_uri_init_parse rejects (error %d)",
              v_show(built.uri_str.buffer, built.uri_str.len), aws_last_error());
    if (rc2 == AWS_OP_SUCCESS) {
        chk_uri(&re, &eb);
        chk_uri_query(&re, e.query.p, e.query.len);
        /* build again from what was parsed: fixed point */
        char hb[64];
        struct aws_uri_builder_options o2;
        AWS_ZERO_STRUCT(o2);
        o2.scheme = re.scheme;
        o2.path = re.path;
        o2.port = re.port;
        o2.query_string = re.query_string;
        if (host[0] == '[') {
            int hn = snprintf(hb, sizeof(hb), "[%.*s]", (int)re.host_name.len, (const char *)re.host_name.ptr);
            o2.host_name = aws_byte_cursor_from_array(hb, (size_t)hn);
        } else
            o2.host_name = re.host_name;
        struct aws_uri again;
        int rc3 = aws_uri_init_from_builder_options(&again, A, &o2);
        BEE_CHECK(rc3 == AWS_OP_SUCCESS, "rebuild-fails", "building again from the parsed components of \"%s\" fails", v_show(built.uri_str.buffer, built.uri_str.len));
        if (rc3 == AWS_OP_SUCCESS) {
            size_t bl = built.uri_str.len;
            if (e.paq_optional_qmark && bl && built.uri_str.buffer[bl - 1] == '?') --bl;
            BEE_CHECK(again.uri_str.len == bl && memcmp(again.uri_str.buffer, built.uri_str.buffer, bl) == 0, "build-parse-build-fixed-point",
                      "build -> parse -> build: \"%s\" became \"%s\"", v_show(built.uri_str.buffer, built.uri_str.len),
                      v_show(again.uri_str.buffer, again.uri_str.len));
            aws_uri_clean_up(&again);
        }
        aws_uri_clean_up(&re);
    }
    aws_uri_clean_up(&built);
}

/* ------------------------------------------------------------------ percent coding ---------- */
static int r_unreserved(uint8_t c) {
    return (c >= 'A' && c <= 'Z') || (c >= 'a' && c <= 'z') || (c >= '0' && c <= '9') || c == '-' || c == '.' || c == '_' || c == '~';
}
static uint8_t r_hexdigit(unsigned v) { return (uint8_t)(v < 10 ? '0' + v : 'A' + (v - 10)); }
static size_t r_encode(const uint8_t *in, size_t n, int is_path, uint8_t *out) {
    size_t o = 0;
    for (size_t i = 0; i < n; ++i) {
        if (r_unreserved(in[i]) || (is_path && in[i] == '/'))
            out[o++] = in[i];
        else {
            out[o++] = '%';
            out[o++] = r_hexdigit(in[i] >> 4);
            out[o++] = r_hexdigit(in[i] & 15u);
        }
    }
    return o;
}
static int r_hexval(uint8_t c) {
    if (c >= '0' && c <= '9') return c - '0';
    if (c >= 'a' && c <= 'f') return c - 'a' + 10;
    if (c >= 'A' && c <= 'F') return c - 'A' + 10;
    return -1;
}
/* -1: a '%' is not followed by two hex digits */
static long r_decode(const uint8_t *in, size_t n, uint8_t *out) {
    size_t o = 0;
    for (size_t i = 0; i < n; ++i) {
        if (in[i] != '%') {
            out[o++] = in[i];
            continue;
        }
        if (n - i < 3) return -1;
        int h = r_hexval(in[i + 1]), l = r_hexval(in[i + 2]);
        if (h < 0 || l < 0) return -1;
        out[o++] = (uint8_t)(h * 16 + l);
        i += 2;
    }
    return (long)o;
}
/* only unreserved, '/' (paths) and %XX with upper-case hex */
static int alphabet_ok(const uint8_t *s, size_t n, int is_path) {
    for (size_t i = 0; i < n; ++i) {
        if (r_unreserved(s[i]) || (is_path && s[i] == '/')) continue;
        if (s[i] != '%' || n - i < 3) return 0;
        for (int k = 1; k <= 2; ++k)
            if (!((s[i + k] >= '0' && s[i + k] <= '9') || (s[i + k] >= 'A' && s[i + k] <= 'F'))) return 0;
        i += 2;
    }
    return 1;
}

static const size_t STARTS[3] = {0, 1, 7};
/* output buffer holding `start` marker bytes; tight: capacity == start, roomy: capacity == start + room */
static void out_init(struct aws_byte_buf *b, size_t start, size_t room) {
    aws_byte_buf_init(b, A, start + room);
    for (size_t i = 0; i < start; ++i) b->buffer[i] = (uint8_t)(0xA1 + i);
    b->len = start;
}
static int prefix_intact(const struct aws_byte_buf *b, size_t start) {
    if (b->len < start) return 0;
    for (size_t i = 0; i < start; ++i)
        if (b->buffer[i] != (uint8_t)(0xA1 + i)) return 0;
    return 1;
}

static const char *const ENC_NAME[2] = {"aws_byte_buf_append_encoding_uri_path", "aws_byte_buf_append_encoding_uri_param"};

static void pct_check(const uint8_t *in, size_t n, int enc, size_t start, int roomy) {
    int is_path = enc == 0;
    uint8_t ref[3 * 8], py[3 * 8 + 1];
    size_t rl = r_encode(in, n, is_path, ref), pl = 0;
    for (size_t i = 0; i < n; ++i) {
        const char *q = (is_path ? py_quote_path : py_quote_param)[in[i]];
        size_t ql = strlen(q);
        memcpy(py + pl, q, ql);
        pl += ql;
    }
    V_COUNT("evaluations", 1);
    if (rl > n) V_COUNT("nontrivial", 1);
    if (rl == 3 * n && n) V_COUNT("pct_worst_case_fill", 1); /* output ends exactly at the reserved capacity when tight */
    uint8_t *src = bee_block(in, n);
    struct aws_byte_cursor c = aws_byte_cursor_from_array(src, n);
    struct aws_byte_buf out;
    out_init(&out, start, roomy ? 3 * n : 0);
    aws_reset_error();
    int rc = (is_path ? aws_byte_buf_append_encoding_uri_path : aws_byte_buf_append_encoding_uri_param)(&out, &c);
    free(src);
    if (rc != AWS_OP_SUCCESS) {
        bee_fail("encode-fails", "%s(\"%s\") at len %zu fails with error %d", ENC_NAME[enc], v_show(in, n), start, aws_last_error());
        aws_byte_buf_clean_up(&out);
        return;
    }
    BEE_CHECK(prefix_intact(&out, start), "encode-clobbers-existing-bytes", "%s(\"%s\") changed the %zu bytes already in the buffer", ENC_NAME[enc], v_show(in, n), start);
    if (out.len < start || out.len > out.capacity) {
        bee_fail("encode-length", "%s(\"%s\"): len %zu capacity %zu after starting at %zu", ENC_NAME[enc], v_show(in, n), out.len, out.capacity, start);
        aws_byte_buf_clean_up(&out);
        return;
    }
    const uint8_t *enc_p = out.buffer + start;
    size_t enc_n = out.len - start;
    BEE_CHECK(alphabet_ok(enc_p, enc_n, is_path), "encoded-alphabet", "%s(\"%s\") = \"%s\": not only unreserved%s and %%XX with upper-case hex", ENC_NAME[enc],
              v_show(in, n), v_show(enc_p, enc_n), is_path ? ", '/'" : "");
    BEE_CHECK(enc_n == rl && memcmp(enc_p, ref, rl) == 0, "encode-vs-reference", "%s(\"%s\") = \"%s\", RFC 3986 reference \"%s\"", ENC_NAME[enc], v_show(in, n),
              v_show(enc_p, enc_n), v_show(ref, rl));
    BEE_CHECK(enc_n == pl && memcmp(enc_p, py, pl) == 0, "encode-vs-urllib", "%s(\"%s\") = \"%s\", urllib.parse.quote gives \"%s\"", ENC_NAME[enc], v_show(in, n),
              v_show(enc_p, enc_n), v_show(py, pl));
    /* decode what the library produced, from an exact-size block, same starting length / capacity mode */
    uint8_t *txt = bee_block(enc_p, enc_n);
    struct aws_byte_cursor tc = aws_byte_cursor_from_array(txt, enc_n);
    struct aws_byte_buf back;
    out_init(&back, start, roomy ? enc_n : 0);
    aws_reset_error();
    int rc2 = aws_byte_buf_append_decoding_uri(&back, &tc);
    BEE_CHECK(rc2 == AWS_OP_SUCCESS && back.len == start + n && prefix_intact(&back, start) && (n == 0 || memcmp(back.buffer + start, in, n) == 0), "round-trip",
              "decode(%s(\"%s\") = \"%s\") at len %zu: rc=%d, %zu bytes \"%s\"", ENC_NAME[enc], v_show(in, n), v_show(enc_p, enc_n), start, rc2,
              back.len >= start ? back.len - start : 0, back.len >= start && back.len <= back.capacity ? v_show(back.buffer + start, back.len - start) : "?");
    free(txt);
    aws_byte_buf_clean_up(&back);
    aws_byte_buf_clean_up(&out);
}

/* 24 boundary bytes (edges of the alnum ranges, the other unreserved, '/', '%', NUL, 0x7f/0x80/0xff); thorough: 64 */
static const uint8_t PCT_B[64] = {0x00, ' ', '%', '-', '.', '/', '0', '9', ':', '@', 'A', 'F', 'Z', '[', '_', '`', 'a', 'f', 'z', '{', '~', 0x7F, 0x80, 0xFF,
                                  /* thorough */ 0x01, 0x09, 0x0A, 0x0D, 0x1F, '!', '"', '#', '$', '&', '\'', '(', ')', '*', '+', ',', '1', '5', ';', '<', '=', '>',
                                  '?', 'B', 'G', 'Y', '\\', ']', '^', 'b', 'g', 'y', '|', '}', 0x81, 0xA0, 0xBF, 0xC2, 0xE2, 0xFE};
static unsigned pct_bn(void) { return v_thorough() ? 64 : 24; }
static uint64_t pct_strings(void) { return 1 + 256 + 65536 + bee_pow(pct_bn(), 3); }
static uint64_t pct_total(void) { return pct_strings() * 12; }
static void pct_eval(uint64_t idx, void *ctx) {
    (void)ctx;
    BEE_ITEM(idx);
    uint64_t x = idx;
    unsigned startsel = bee_digit(&x, 3), roomy = bee_digit(&x, 2), enc = bee_digit(&x, 2);
    uint8_t in[3];
    size_t n;
    if (x < 1) n = 0;
    else if ((x -= 1) < 256) {
        n = 1;
        in[0] = (uint8_t)x;
    } else if ((x -= 256) < 65536) {
        n = 2;
        in[0] = (uint8_t)(x >> 8);
        in[1] = (uint8_t)x;
    } else {
        x -= 65536;
        n = 3;
        for (int i = 0; i < 3; ++i) in[i] = PCT_B[bee_digit(&x, pct_bn())];
    }
    if (idx == 147860) v_sample("pct %" PRIu64 ": %s of \"%s\" appended at len %zu (%s capacity)", idx, ENC_NAME[enc], v_show(in, n), STARTS[startsel], roomy ? "roomy" : "tight");
    pct_check(in, n, (int)enc, STARTS[startsel], (int)roomy);
}
/* the same with an allocator that has no realloc of its own: the growth of the output buffer goes through the library's
 * acquire + copy + release emulation */
static void pct_min_eval(uint64_t idx, void *ctx) {
    A = bee_min_allocator();
    pct_eval(idx, ctx);
    A = aws_default_allocator();
}
/* thorough only: every three-byte string, both encoders, appended at len 1 into a tight buffer */
static uint64_t pct3_total(void) { return v_thorough() ? 2ull << 24 : 0; }
static void pct3_eval(uint64_t idx, void *ctx) {
    (void)ctx;
    BEE_ITEM(idx);
    uint8_t in[3] = {(uint8_t)(idx >> 17), (uint8_t)(idx >> 9), (uint8_t)(idx >> 1)};
    pct_check(in, 3, (int)(idx & 1), 1, 0);
}

/* ------------------------------------------------------------------ section: dec ------------ */
static int hexv(uint8_t c) {
    if (c >= '0' && c <= '9') return c - '0';
    if (c >= 'a' && c <= 'f') return c - 'a' + 10;
    if (c >= 'A' && c <= 'F') return c - 'A' + 10;
    return -1;
}
static void dec_check(const uint8_t *t, size_t n, size_t start) {
    uint8_t ref[16];
    long rl = r_decode(t, n, ref);
    V_COUNT("evaluations", 1);
    if (memchr(t, '%', n)) V_COUNT("nontrivial", 1);
    if (rl < 0) V_COUNT("dec_malformed_inputs", 1);
    uint8_t *src = bee_block(t, n);
    struct aws_byte_cursor c = aws_byte_cursor_from_array(src, n);
    struct aws_byte_buf out;
    out_init(&out, start, 0);
    aws_reset_error();
    int rc = aws_byte_buf_append_decoding_uri(&out, &c);
    int err = aws_last_error();
    if (rl < 0) {
        BEE_CHECK(rc == AWS_OP_ERR, "decode-accepts-malformed", "decode of \"%s\" succeeds although a '%%' is not followed by two hex digits (gives \"%s\")", v_show(t, n),
                  out.len >= start && out.len <= out.capacity ? v_show(out.buffer + start, out.len - start) : "?");
        BEE_CHECK(rc != AWS_OP_ERR || err == AWS_ERROR_MALFORMED_INPUT_STRING, "decode-error-code", "decode of \"%s\": error %d instead of MALFORMED_INPUT_STRING", v_show(t, n), err);
        if (rc == AWS_OP_ERR) {
            /* a refused decode may have appended what it decoded before the bad escape, but it must not report bytes it never
             * decoded (added after a seeded change that advanced len before validating the escape) */
            uint8_t part[16];
            size_t pn = 0;
            for (size_t i = 0; i < n;) {
                if (t[i] != '%') {
                    part[pn++] = t[i++];
                    continue;
                }
                int h = i + 1 < n ? hexv(t[i + 1]) : -1, l = i + 2 < n ? hexv(t[i + 2]) : -1;
                if (h < 0 || l < 0) break;
                part[pn++] = (uint8_t)(h * 16 + l);
                i += 3;
            }
            BEE_CHECK(out.len >= start && out.len <= out.capacity && out.len - start <= pn && prefix_intact(&out, start) &&
                          (out.len == start || memcmp(out.buffer + start, part, out.len - start) == 0),
                      "refused-decode-reports-undecoded-bytes", "decode of \"%s\" at len %zu is refused but leaves len %zu: only %zu byte(s) \"%s\" precede the malformed escape, buffer holds \"%s\"",
                      v_show(t, n), start, out.len, pn, v_show(part, pn), out.len >= start && out.len <= out.capacity ? v_show(out.buffer + start, out.len - start) : "?");
        }
    } else {
        BEE_CHECK(rc == AWS_OP_SUCCESS, "decode-rejects-wellformed", "decode of \"%s\" fails with error %d", v_show(t, n), err);
        if (rc == AWS_OP_SUCCESS)
            BEE_CHECK(out.len == start + (size_t)rl && out.len <= out.capacity && prefix_intact(&out, start) && (rl == 0 || memcmp(out.buffer + start, ref, (size_t)rl) == 0),
                      "decode-bytes", "decode of \"%s\" at len %zu gives %zu bytes \"%s\", expected \"%s\"", v_show(t, n), start, out.len >= start ? out.len - start : 0,
                      out.len >= start && out.len <= out.capacity ? v_show(out.buffer + start, out.len - start) : "?", v_show(ref, (size_t)rl));
    }
    free(src);
    aws_byte_buf_clean_up(&out);
}
static const uint8_t DEC_ALPHA[8] = {'a', '%', '0', '9', 'A', 'F', 'f', 'g'};
static unsigned dec_maxlen(void) { return v_thorough() ? 7 : 4; }
static uint64_t dec_total(void) { return 3 * bee_strings_upto(8, dec_maxlen()); }
static void dec_eval(uint64_t idx, void *ctx) {
    (void)ctx;
    BEE_ITEM(idx);
    uint64_t x = idx;
    unsigned startsel = bee_digit(&x, 3);
    uint8_t t[8];
    size_t n = bee_string_at(x, DEC_ALPHA, 8, dec_maxlen(), t);
    dec_check(t, n, STARTS[startsel]);
}
static uint64_t dechex_total(void) { return 65536; }
static void dechex_eval(uint64_t idx, void *ctx) {
    (void)ctx;
    BEE_ITEM(idx);
    uint8_t t[3] = {'%', (uint8_t)(idx >> 8), (uint8_t)idx};
    dec_check(t, 3, 1);
}

/* ------------------------------------------------------------------ section: query ---------- */
static const uint8_t Q_ALPHA[4] = {'a', 'b', '=', '&'};
static unsigned q_maxlen(void) { return v_thorough() ? 10 : 6; }
static uint64_t query_total(void) { return bee_strings_upto(4, q_maxlen()); }
static void query_eval(uint64_t idx, void *ctx) {
    (void)ctx;
    BEE_ITEM(idx);
    uint8_t q[12];
    size_t n = bee_string_at(idx, Q_ALPHA, 4, q_maxlen(), q);
    struct rparam ref[MAXP];
    size_t nref = ref_split(q, n, ref);
    V_COUNT("evaluations", 1);
    {
        int nt = 0;
        if (n && (q[0] == '&' || q[n - 1] == '&')) nt = 1;
        for (size_t i = 0; i + 1 < n; ++i)
            if (q[i] == '&' && q[i + 1] == '&') nt = 1;
        for (size_t i = 0; i < nref; ++i) {
            if (ref[i].voff == ref[i].koff + ref[i].klen) nt = 1; /* no '=' */
            if (memchr(q + ref[i].voff, '=', ref[i].vlen)) nt = 1; /* second '=' */
        }
        if (nt) V_COUNT("nontrivial", 1);
        V_COUNT("query_pairs_yielded", nref);
    }
    if (idx == 3256) v_sample("query %" PRIu64 ": \"%s\" -> %zu pairs", idx, v_show(q, n), nref);

    /* stand-alone forms on an exact-size block */
    uint8_t *blk = bee_block(q, n);
    struct aws_byte_cursor qc = aws_byte_cursor_from_array(blk, n);
    struct aws_uri_param got[2 * MAXP];
    size_t ng = iterate_cursor(qc, got);
    BEE_CHECK(ng <= 2 * MAXP, "iterator-does-not-stop", "aws_query_string_next_param over \"%s\" yielded more than %d pairs", v_show(q, n), 2 * MAXP);
    if (ng <= 2 * MAXP) chk_params("aws_query_string_next_param", got, ng, blk, n, q, n, ref, nref);
    struct aws_array_list l;
    aws_array_list_init_dynamic(&l, A, 1, sizeof(struct aws_uri_param));
    int rc = aws_query_string_params(qc, &l);
    BEE_CHECK(rc == AWS_OP_SUCCESS, "list-form-fails", "aws_query_string_params over \"%s\": rc=%d", v_show(q, n), rc);
    if (rc == AWS_OP_SUCCESS) {
        ng = list_to_array(&l, got);
        chk_params("aws_query_string_params", got, ng, blk, n, q, n, ref, nref);
    }
    aws_array_list_clean_up(&l);
    free(blk);

    /* the same query inside a URI */
    uint8_t text[32];
    size_t tn = 0;
    memcpy(text, "http://h/p?", 11);
    tn = 11;
    memcpy(text + tn, q, n);
    tn += n;
    uint8_t *ublk = bee_block(text, tn);
    struct aws_byte_cursor uc = aws_byte_cursor_from_array(ublk, tn);
    struct aws_uri uri;
    int prc = aws_uri_init_parse(&uri, A, &uc);
    free(ublk);
    BEE_CHECK(prc == AWS_OP_SUCCESS, "parse-rejects-wellformed", "\"%s\" rejected", v_show(text, tn));
    if (prc == AWS_OP_SUCCESS) {
        const struct aws_byte_cursor *qs = aws_uri_query_string(&uri);
        BEE_CHECK(view_inside(qs, &uri) && qs->len == n && (n == 0 || memcmp(qs->ptr, q, n) == 0), "query", "\"%s\": query string is \"%s\"", v_show(text, tn),
                  view_inside(qs, &uri) ? v_show(qs->ptr, qs->len) : "?");
        chk_uri_query(&uri, q, n);
        aws_uri_clean_up(&uri);
    }
}

int main(int argc, char **argv) {
    v_init(argc, argv);
    A = aws_default_allocator();
    aws_common_library_init(A);
    v_out("INFO urllib.parse.quote table generated by Python %s", py_quote_version);
    bee_register("parse", parse_total, parse_eval, 10);
    bee_register("build", build_total, build_eval, 10);
    bee_register("pct", pct_total, pct_eval, 10);
    bee_register("pct-minalloc", pct_total, pct_min_eval, 10);
    bee_register("pct3all", pct3_total, pct3_eval, 10);
    bee_register("dec", dec_total, dec_eval, 10);
    bee_register("dechex", dechex_total, dechex_eval, 10);
    bee_register("query", query_total, query_eval, 10);
    return bee_main(argc, argv);
}
