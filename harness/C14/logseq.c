/*
 * C14 (sequential half) — logging delivers every accepted line exactly once, whole and in order
 * (DESIGN §5 C14 "Sequential").  BEE sections, all on the real library code:
 *
 *   fmtline  aws_format_standard_log_line called directly: every total_length 1..300 x message length 0..120
 *            x 7 levels x subject {none, short, 40 chars} x message supplied as "%s" argument / as the literal
 *            format x date format {RFC822, ISO_8601, ISO_8601_BASIC}; buffer = exact-size heap block.
 *   deffmt   aws_log_formatter_init_default -> vtable->format -> aws_string (never truncates).
 *   noalloc  aws_logger_init_noalloc writing to an in-memory FILE* (open_memstream); message lengths 0..8400,
 *            every length 8000..8400 (the fixed line buffer is 8192 bytes), followed by a second short call.
 *   gate     level gate: 4-call program, every call level 0..6 per call x initial filter level x level change
 *            (aws_logger_set_log_level) to every level at every position x {AWS_LOGF_<LEVEL> macros,
 *            aws_logger_get_conditional + AWS_LOGUF} x {pipeline logger = real default formatter + real
 *            FOREGROUND channel + recording writer (public aws_log_writer vtable), no-alloc logger}.
 *   shapes   format-argument shapes (empty format, %%, %s, %d extremes, width/precision/star, >6 integer and
 *            >8 floating arguments, mixed types ...) through the macros and both loggers.
 *
 * Oracle (exactly the property): a call at or below the active level produces exactly ONE write/line
 *   "[LEVEL] [timestamp] [thread-id] [subject] - message\n"
 * (level tag, timestamp parses in the selected format and lies inside the wall-clock bracket of the call,
 * thread id of the caller, subject, message equal to the independently formatted message), exactly one '\n'
 * and it is the last byte, no NUL inside the reported length, length <= buffer; calls above the level produce
 * nothing; a level change applies to all later calls; a line that does not fit a fixed buffer is cut but is still
 * newline-terminated, inside the buffer, and a prefix of the full line followed by '\n'.
 *
 * One violation per item (the first failing clause), so that one defect keeps one signature.
 */
#include "bee.h"
#include "galloc.h"
#include <aws/common/common.h>
#include <aws/common/date_time.h>
#include <aws/common/log_channel.h>
#include <aws/common/log_formatter.h>
#include <aws/common/log_writer.h>
#include <aws/common/logging.h>
#include <aws/common/string.h>
#include <limits.h>
#include <pthread.h>

#pragma GCC diagnostic ignored "-Wformat-security"
#pragma GCC diagnostic ignored "-Wformat-zero-length"
#pragma GCC diagnostic ignored "-Wformat-nonliteral"

/* ------------------------------------------------------------------ reference data ---------------------- */
/* names as the enum constants of logging.h spell them (AWS_LL_<NAME>); not read from the library's table */
static const char *const r_level_name[7] = {"NONE", "FATAL", "ERROR", "WARN", "INFO", "DEBUG", "TRACE"};

/* the no-alloc logger's fixed line buffer ("Log lines larger than the internal constant are truncated") */
#define NOALLOC_CAP_SHIPPED 8192 /* only sizes the harness's own buffers; the library's cut point is measured, see noalloc_cap() */

#define SUBJ40 "subject-name-that-is-exactly-40-chars-xx"
/* subject names longer than anything the formatter's own slack could hide (added after a seeded change that left the name out
 * of the default formatter's size computation: about 88 bytes of head-room masked it for every ordinary subject) */
#define SUBJ10X "0123456789"
#define SUBJ120 SUBJ10X SUBJ10X SUBJ10X SUBJ10X SUBJ10X SUBJ10X SUBJ10X SUBJ10X SUBJ10X SUBJ10X SUBJ10X SUBJ10X
#define SUBJ300 SUBJ120 SUBJ120 SUBJ10X SUBJ10X SUBJ10X SUBJ10X SUBJ10X SUBJ10X
/* log subjects registered by the harness through the public registration call (package slot 9) */
#define HSUBJ_BASE AWS_LOG_SUBJECT_BEGIN_RANGE(9)
static struct aws_log_subject_info h_subject_infos[] = {
    DEFINE_LOG_SUBJECT_INFO(HSUBJ_BASE + 0, "s3", "short subject"),
    DEFINE_LOG_SUBJECT_INFO(HSUBJ_BASE + 1, SUBJ40, "40-character subject"),
    DEFINE_LOG_SUBJECT_INFO(HSUBJ_BASE + 2, NULL, "subject without a name: the line has no subject field"),
    DEFINE_LOG_SUBJECT_INFO(HSUBJ_BASE + 3, SUBJ120, "120-character subject"),
    DEFINE_LOG_SUBJECT_INFO(HSUBJ_BASE + 4, SUBJ300, "300-character subject"),
};
static struct aws_log_subject_info_list h_subject_list = {.subject_list = h_subject_infos, .count = 5};
/* subject selector -> (id, expected name in the line; NULL = no subject field) */
#define NSUBJ 7
static const aws_log_subject_t subj_id[NSUBJ] = {HSUBJ_BASE + 2, HSUBJ_BASE + 0, HSUBJ_BASE + 1, HSUBJ_BASE + 7,
                                                 AWS_LS_COMMON_GENERAL, HSUBJ_BASE + 3, HSUBJ_BASE + 4};
static const char *const subj_name[NSUBJ] = {NULL, "s3", SUBJ40, "Unknown", "aws-c-common", SUBJ120, SUBJ300};

/* date formats: index -> library enum, template ('#' digit, '^' upper, '_' lower, anything else literal) */
#define NDF 3
static const enum aws_date_format df_enum[NDF] = {AWS_DATE_FORMAT_RFC822, AWS_DATE_FORMAT_ISO_8601,
                                                  AWS_DATE_FORMAT_ISO_8601_BASIC};
static const char *const df_name[NDF] = {"RFC822", "ISO_8601", "ISO_8601_BASIC"};
static const char *const df_tmpl[NDF] = {"^__, ## ^__ #### ##:##:## GMT", "####-##-##T##:##:##Z", "########T######Z"};

static char r_tid[40]; /* expected thread-id field of the calling (main) thread */

static int64_t now_s(void) {
    struct timespec ts;
    clock_gettime(CLOCK_REALTIME, &ts);
    return (int64_t)ts.tv_sec;
}

/* ------------------------------------------------------------------ timestamp parser -------------------- */
static int64_t days_from_civil(int64_t y, unsigned m, unsigned d) {
    y -= m <= 2;
    int64_t era = (y >= 0 ? y : y - 399) / 400;
    unsigned yoe = (unsigned)(y - era * 400);
    unsigned doy = (153 * (m + (m > 2 ? -3 : 9)) + 2) / 5 + d - 1;
    unsigned doe = yoe * 365 + yoe / 4 - yoe / 100 + doy;
    return era * 146097 + (int64_t)doe - 719468;
}
static unsigned num(const uint8_t *s, size_t a, size_t b) {
    unsigned v = 0;
    for (size_t i = a; i < b; ++i) v = v * 10 + (unsigned)(s[i] - '0');
    return v;
}
/* checks the first k characters of a timestamp in format f; k == full length: full validation.
 * returns NULL if fine, else a short reason */
static const char *ts_check(int f, const uint8_t *s, size_t k, int64_t lo, int64_t hi) {
    static const char *const wd[7] = {"Sun", "Mon", "Tue", "Wed", "Thu", "Fri", "Sat"};
    static const char *const mn[12] = {"Jan", "Feb", "Mar", "Apr", "May", "Jun", "Jul", "Aug", "Sep", "Oct", "Nov", "Dec"};
    const char *t = df_tmpl[f];
    size_t L = strlen(t);
    for (size_t i = 0; i < k && i < L; ++i) {
        int ok;
        switch (t[i]) {
            case '#': ok = s[i] >= '0' && s[i] <= '9'; break;
            case '^': ok = s[i] >= 'A' && s[i] <= 'Z'; break;
            case '_': ok = s[i] >= 'a' && s[i] <= 'z'; break;
            default: ok = s[i] == (uint8_t)t[i];
        }
        if (!ok) return "character class";
    }
    if (k < L) return NULL;
    unsigned Y, M = 0, D, h, mi, se;
    int wday = -1;
    if (f == 0) {
        for (int i = 0; i < 7; ++i)
            if (!memcmp(s, wd[i], 3)) wday = i;
        if (wday < 0) return "weekday name";
        D = num(s, 5, 7);
        for (unsigned i = 0; i < 12; ++i)
            if (!memcmp(s + 8, mn[i], 3)) M = i + 1;
        if (!M) return "month name";
        Y = num(s, 12, 16), h = num(s, 17, 19), mi = num(s, 20, 22), se = num(s, 23, 25);
    } else if (f == 1) {
        Y = num(s, 0, 4), M = num(s, 5, 7), D = num(s, 8, 10), h = num(s, 11, 13), mi = num(s, 14, 16), se = num(s, 17, 19);
    } else {
        Y = num(s, 0, 4), M = num(s, 4, 6), D = num(s, 6, 8), h = num(s, 9, 11), mi = num(s, 11, 13), se = num(s, 13, 15);
    }
    static const unsigned dim[12] = {31, 28, 31, 30, 31, 30, 31, 31, 30, 31, 30, 31};
    if (M < 1 || M > 12) return "month range";
    unsigned leap = (Y % 4 == 0 && Y % 100 != 0) || Y % 400 == 0;
    if (D < 1 || D > dim[M - 1] + (M == 2 ? leap : 0)) return "day range";
    if (h > 23 || mi > 59 || se > 60) return "time range";
    int64_t days = days_from_civil(Y, M, D);
    if (wday >= 0 && (int)(((days % 7) + 11) % 7) != wday) return "weekday does not match the date";
    int64_t ep = days * 86400 + (int64_t)h * 3600 + mi * 60 + se;
    if (ep < lo - 1 || ep > hi + 1) return "not the time of the call (UTC)";
    return NULL;
}

/* ------------------------------------------------------------------ the line oracle ---------------------- */
struct lx {
    int level;
    const char *subject;  /* NULL: no subject field */
    const uint8_t *msg;   /* independently formatted message */
    size_t msglen;
    int df;               /* date format index */
    size_t cap;           /* size of the fixed line buffer; 0 = allocating formatter (must be complete) */
    int64_t t_lo, t_hi;   /* wall-clock bracket of the call */
    const char *what;     /* description of the call for messages */
};
struct lres {
    int truncated;        /* the line had to be cut (does not fit cap together with its terminating NUL) */
    int exact;            /* full line + NUL fills the buffer exactly */
    int cut_region;       /* 0 level 1 timestamp 2 thread id 3 subject 4 separator 5 message (when cut) */
};

static char lbuf[NOALLOC_CAP_SHIPPED + 1024 + 8400];
static const char *show_line(const uint8_t *p, size_t n) {
    static char o[1400];
    size_t j = 0;
    size_t head = n <= 200 ? n : 110, tail = n <= 200 ? 0 : 70;
    for (size_t i = 0; i < n; ++i) {
        if (i == head && tail) {
            j += (size_t)sprintf(o + j, "...(%zu bytes)...", n - head - tail);
            i = n - tail;
        }
        if (p[i] >= 0x20 && p[i] < 0x7f && p[i] != '\\')
            o[j++] = (char)p[i];
        else if (p[i] == '\n')
            j += (size_t)sprintf(o + j, "\\n");
        else
            j += (size_t)sprintf(o + j, "\\x%02x", p[i]);
        if (j > sizeof(o) - 40) break;
    }
    o[j] = 0;
    return o;
}

/* returns 0 if the n bytes at line are exactly the one line the property promises for e, else reports the first
 * failing clause and returns -1 */
static int check_line(const uint8_t *line, size_t n, const struct lx *e, struct lres *r) {
    /* expected full line, timestamp as a window of '?' */
    char *E = lbuf;
    size_t o = 0, tsl = strlen(df_tmpl[e->df]);
    o += (size_t)sprintf(E + o, "[%s] [", r_level_name[e->level]);
    size_t ts_off = o;
    memset(E + o, '?', tsl);
    o += tsl;
    size_t ts_end = o;
    o += (size_t)sprintf(E + o, "] [%s] ", r_tid);
    size_t tid_end = o;
    if (e->subject) o += (size_t)sprintf(E + o, "[%s]", e->subject);
    size_t subj_end = o;
    o += (size_t)sprintf(E + o, " - ");
    size_t sep_end = o;
    if (e->msglen) memcpy(E + o, e->msg, e->msglen);
    o += e->msglen;
    size_t Lc = o, Lfull = Lc + 1;
    int fits = e->cap == 0 || Lfull + 1 <= e->cap; /* room for the line and the C-string terminator */
    int must_cut = e->cap != 0 && Lfull > e->cap;
    r->truncated = !fits;
    r->exact = e->cap != 0 && Lfull + 1 == e->cap;
    r->cut_region = -1;

    if (n == 0) {
        bee_fail("accepted-call-produced-no-bytes", "%s: nothing was delivered, expected a %zu-byte line", e->what, Lfull);
        return -1;
    }
    if (e->cap && n > e->cap) {
        bee_fail("line-exceeds-buffer", "%s: reported length %zu > buffer %zu", e->what, n, e->cap);
        return -1;
    }
    if (line[n - 1] != '\n') {
        size_t nuls = 0, nl = 0;
        for (size_t i = 0; i < n; ++i) nuls += line[i] == 0, nl += line[i] == '\n';
        bee_fail(fits ? "line-not-newline-terminated" : "truncated-line-not-newline-terminated",
                 "%s: full line needs %zu bytes (+NUL), buffer %zu; delivered %zu bytes whose last byte is 0x%02x, "
                 "%zu NUL byte(s) inside the reported length, %zu newline(s): %s",
                 e->what, Lfull, e->cap, n, line[n - 1], nuls, nl, show_line(line, n));
        return -1;
    }
    for (size_t i = 0; i < n; ++i)
        if (line[i] == 0) {
            bee_fail("nul-inside-line", "%s: NUL at offset %zu of %zu: %s", e->what, i, n, show_line(line, n));
            return -1;
        }
    for (size_t i = 0; i + 1 < n; ++i)
        if (line[i] == '\n') {
            bee_fail("more-than-one-newline", "%s: newline at offset %zu of %zu: %s", e->what, i, n, show_line(line, n));
            return -1;
        }
    size_t clen = n - 1;
    if (clen > Lc) {
        bee_fail("line-longer-than-message", "%s: %zu content bytes, the full line has %zu: %s", e->what, clen, Lc,
                 show_line(line, n));
        return -1;
    }
    for (size_t i = 0; i < clen; ++i) {
        if (i >= ts_off && i < ts_end) continue;
        if (line[i] != (uint8_t)E[i]) {
            const char *cl = i < ts_off     ? "level-tag-wrong"
                             : i < tid_end  ? "thread-id-field-wrong"
                             : i < subj_end ? "subject-wrong"
                             : i < sep_end  ? "separator-wrong"
                                            : "message-differs";
            memset(E + ts_off, '?', tsl);
            bee_fail(cl, "%s: offset %zu is 0x%02x, expected 0x%02x; got %s", e->what, i, line[i], (uint8_t)E[i],
                     show_line(line, n));
            return -1;
        }
    }
    if (clen > ts_off) {
        size_t k = (clen < ts_end ? clen : ts_end) - ts_off;
        const char *why = ts_check(e->df, line + ts_off, k, e->t_lo, e->t_hi);
        if (why) {
            bee_fail("timestamp-malformed", "%s: timestamp (%s, first %zu of %zu chars) fails: %s; line %s", e->what,
                     df_name[e->df], k, tsl, why, show_line(line, n));
            return -1;
        }
    }
    if (fits && clen != Lc) {
        bee_fail("line-cut-although-it-fits", "%s: buffer %zu holds the %zu-byte line, delivered only %zu bytes: %s", e->what,
                 e->cap, Lfull, n, show_line(line, n));
        return -1;
    }
    (void)must_cut; /* n <= cap and "prefix followed by newline" were established above */
    if (clen < Lc) {
        r->cut_region = clen < ts_off ? 0 : clen < ts_end ? 1 : clen < tid_end ? 2 : clen < subj_end ? 3 : clen < sep_end ? 4 : 5;
        V_MAXSTAT("max_cut_slack_bytes", e->cap - n);
    }
    V_COUNT("lines_validated", 1);
    return 0;
}

static void count_cut(const struct lres *r) {
    if (r->truncated) V_COUNT("truncated_lines", 1);
    if (r->exact) V_COUNT("exact_fit_lines", 1);
    switch (r->cut_region) {
        case 0: V_COUNT("cut_in_level_tag", 1); break;
        case 1: V_COUNT("cut_in_timestamp", 1); break;
        case 2: V_COUNT("cut_in_thread_id", 1); break;
        case 3: V_COUNT("cut_in_subject", 1); break;
        case 4: V_COUNT("cut_in_separator", 1); break;
        case 5: V_COUNT("cut_in_message", 1); break;
        default: break;
    }
}

/* deterministic, position-coded message text without '%', newline or NUL */
static uint8_t *make_msg(size_t len) {
    static const char a[] = "abcdefghijklmnopqrstuvwxyzABCDEFGHIJKLMNOPQRSTUVWXYZ0123456789+/=_.,:;()[]{}<>!?#@&*^~ -";
    uint8_t *m = (uint8_t *)malloc(len + 1);
    for (size_t i = 0; i < len; ++i) m[i] = (uint8_t)a[(i * 7 + i / 89 + len) % (sizeof(a) - 1)];
    m[len] = 0;
    return m;
}

/* ------------------------------------------------------------------ (a) fmtline -------------------------- */
static int call_fsl(struct aws_logging_standard_formatting_data *d, ...) {
    va_list ap;
    va_start(ap, d);
    int rc = aws_format_standard_log_line(d, ap);
    va_end(ap);
    return rc;
}

static unsigned fmtline_ndf(void) { return v_thorough() ? NDF : 2; }
static uint64_t fmtline_total(void) { return (uint64_t)300 * 121 * 7 * 3 * 2 * fmtline_ndf(); }
static void fmtline_eval(uint64_t index, void *ctx) {
    (void)ctx;
    BEE_ITEM(index);
    uint64_t i = index;
    size_t total = 1 + bee_digit(&i, 300);
    size_t msglen = bee_digit(&i, 121);
    int level = (int)bee_digit(&i, 7);
    int sj = (int)bee_digit(&i, 3);
    int supply = (int)bee_digit(&i, 2);
    int df = (int)bee_digit(&i, fmtline_ndf());
    uint8_t *msg = make_msg(msglen);
    char *fmt = supply ? (char *)bee_block(msg, msglen + 1) : (char *)bee_block("%s", 3);
    char *subject = subj_name[sj] ? (char *)bee_block(subj_name[sj], strlen(subj_name[sj]) + 1) : NULL;
    uint8_t *buf = (uint8_t *)malloc(total);
    memset(buf, 0xA5, total);
    struct aws_logging_standard_formatting_data d = {
        .log_line_buffer = (char *)buf,
        .total_length = total,
        .level = (enum aws_log_level)level,
        .subject_name = subject,
        .format = fmt,
        .date_format = df_enum[df],
        .allocator = galloc_get(0, 1),
        .amount_written = 0,
    };
    char what[200];
    snprintf(what, sizeof(what), "aws_format_standard_log_line(total_length=%zu, level=%s, subject=%s, date=%s, %s, message of %zu bytes)",
             total, r_level_name[level], sj == 0 ? "none" : sj == 1 ? "short" : "40 chars", df_name[df],
             supply ? "literal format" : "\"%s\" argument", msglen);
    struct lx e = {.level = level, .subject = subj_name[sj], .msg = msg, .msglen = msglen, .df = df, .cap = total, .what = what};
    e.t_lo = now_s();
    int rc = supply ? call_fsl(&d) : call_fsl(&d, (const char *)msg);
    e.t_hi = now_s();
    V_COUNT("evaluations", 1);
    if (rc != AWS_OP_SUCCESS) {
        /* reading: a formatter call that reports failure delivers no line; it is accepted only where the buffer
         * cannot hold "[LEVEL] [" + timestamp + NUL (the timestamp is produced by strftime, all or nothing) */
        size_t need = strlen(r_level_name[level]) + 4 + strlen(df_tmpl[df]) + 1;
        if (total <= need)
            V_COUNT("refused_buffer_below_timestamp", 1);
        else
            bee_fail("unexpected-error", "%s returned %d (error %d) although the buffer holds the prefix through the timestamp (%zu bytes)",
                     what, rc, aws_last_error(), need);
    } else {
        struct lres r;
        int bad = check_line(buf, d.amount_written, &e, &r);
        if (r.truncated) V_COUNT("nontrivial", 1); /* the truncation path ran, whatever the verdict */
        if (!bad) {
            count_cut(&r);
            if ((total == 300 || total == 90) && msglen == 60 && level == 4 && sj == 1 && !supply && df == 1) v_sample("fmtline: %s -> %s", what, show_line(buf, d.amount_written));
        }
    }
    free(buf);
    free(subject);
    free(fmt);
    free(msg);
}

/* ------------------------------------------------------------------ (a2) deffmt -------------------------- */
static int call_format(struct aws_log_formatter *f, struct aws_string **out, enum aws_log_level level, aws_log_subject_t subject,
                       const char *format, ...) {
    va_list ap;
    va_start(ap, format);
    int rc = (f->vtable->format)(f, out, level, subject, format, ap);
    va_end(ap);
    return rc;
}
static unsigned deffmt_maxlen(void) { return v_thorough() ? 600 : 120; }
static uint64_t deffmt_total(void) { return (uint64_t)(deffmt_maxlen() + 1) * 7 * NSUBJ * 2 * NDF; }
static void deffmt_eval(uint64_t index, void *ctx) {
    (void)ctx;
    BEE_ITEM(index);
    uint64_t i = index;
    size_t msglen = bee_digit(&i, deffmt_maxlen() + 1);
    int level = (int)bee_digit(&i, 7);
    int sj = (int)bee_digit(&i, NSUBJ);
    int supply = (int)bee_digit(&i, 2);
    int df = (int)bee_digit(&i, NDF);
    galloc_reset();
    struct aws_allocator *alloc = galloc_get(0, 1);
    uint8_t *msg = make_msg(msglen);
    char *fmt = supply ? (char *)bee_block(msg, msglen + 1) : (char *)bee_block("%s", 3);
    struct aws_log_formatter f;
    struct aws_log_formatter_standard_options fo = {.date_format = df_enum[df]};
    char what[200];
    snprintf(what, sizeof(what), "default formatter(level=%s, subject=%s, date=%s, %s, message of %zu bytes)", r_level_name[level],
             subj_name[sj] ? subj_name[sj] : "(no name)", df_name[df], supply ? "literal format" : "\"%s\" argument", msglen);
    V_COUNT("evaluations", 1);
    if (aws_log_formatter_init_default(&f, alloc, &fo) != AWS_OP_SUCCESS) {
        bee_fail("init-failed", "%s: aws_log_formatter_init_default failed", what);
        goto out;
    }
    struct aws_string *s = NULL;
    struct lx e = {.level = level, .subject = subj_name[sj], .msg = msg, .msglen = msglen, .df = df, .cap = 0, .what = what};
    e.t_lo = now_s();
    int rc = supply ? call_format(&f, &s, (enum aws_log_level)level, subj_id[sj], fmt)
                    : call_format(&f, &s, (enum aws_log_level)level, subj_id[sj], fmt, (const char *)msg);
    e.t_hi = now_s();
    if (rc != AWS_OP_SUCCESS || s == NULL) {
        bee_fail("format-failed", "%s: format returned %d, output %s", what, rc, s ? "set" : "NULL");
    } else {
        struct lres r;
        if (!galloc_is_live(s))
            bee_fail("line-string-not-owned", "%s: output string is not a live block of the formatter's allocator", what);
        else if (offsetof(struct aws_string, bytes) + s->len > galloc_size_of(s)) /* the bytes must lie inside the block, however tightly it was sized */
            bee_fail("line-exceeds-buffer", "%s: string length %zu exceeds its allocation", what, s->len);
        else if (check_line(s->bytes, s->len, &e, &r) == 0) {
            if (msglen > 0) V_COUNT("nontrivial", 1);
            if (msglen == 30 && level == 3 && sj == 2 && !supply && df == 0) v_sample("deffmt: %s -> %s", what, show_line(s->bytes, s->len));
        }
        aws_string_destroy(s);
    }
    aws_log_formatter_clean_up(&f);
    if (ga.live_blocks != 0) bee_fail("allocator-imbalance", "%s: %" PRIu64 " block(s) live after destroy + clean-up", what, ga.live_blocks);
out:
    free(fmt);
    free(msg);
}

/* ------------------------------------------------------------------ (b) noalloc -------------------------- */
/* logging.h: "log lines larger than the internal constant are truncated" - the constant is the library's business, so the
 * harness measures it (once per process): the length at which an over-long message is cut.  Everything else is judged
 * against that: shorter lines arrive whole, longer ones are cut there, every line ends in one newline. */
static size_t g_noalloc_cap;
static size_t noalloc_cap(void) {
    if (g_noalloc_cap) return g_noalloc_cap;
    g_noalloc_cap = SIZE_MAX / 2;
    char *mptr = NULL;
    size_t msz = 0;
    FILE *fp = open_memstream(&mptr, &msz);
    struct aws_logger lg;
    struct aws_logger_standard_options lo = {.level = AWS_LL_TRACE, .filename = NULL, .file = fp};
    if (fp && aws_logger_init_noalloc(&lg, aws_default_allocator(), &lo) == AWS_OP_SUCCESS) {
        static char big[40001];
        memset(big, 'x', sizeof(big) - 1);
        lg.vtable->log(&lg, AWS_LL_INFO, subj_id[1], "%s", big);
        fflush(fp);
        if (msz > 0 && msz < 40000) g_noalloc_cap = msz + 1; /* cut line of cap-1 bytes, newline included */
        aws_logger_clean_up(&lg);
    }
    if (fp) fclose(fp);
    free(mptr);
    return g_noalloc_cap;
}
static size_t noalloc_edge(void) { /* first message length of the boundary region: 192 below the measured cut point */
    size_t c = noalloc_cap();
    if (c > 16384) c = NOALLOC_CAP_SHIPPED; /* no cut point within reach: probe the shipped one anyway */
    return c > 192 ? c - 192 : 0;
}
static unsigned noalloc_nlens(void) { return v_thorough() ? (unsigned)(noalloc_edge() + 401u) : 301u + 145u + 401u; }
static size_t noalloc_len(unsigned d) {
    if (v_thorough()) return d;
    if (d < 301) return d;
    if (d < 446) return 353 + (size_t)(d - 301) * (noalloc_edge() > 400 ? (noalloc_edge() - 353) / 145 : 1); /* 353 .. just below the edge */
    return noalloc_edge() + (d - 446);
}
static uint64_t noalloc_total(void) { return (uint64_t)noalloc_nlens() * 7 * 4 * 2; }
static void noalloc_eval(uint64_t index, void *ctx) {
    (void)ctx;
    BEE_ITEM(index);
    uint64_t i = index;
    size_t msglen = noalloc_len(bee_digit(&i, noalloc_nlens()));
    int level = (int)bee_digit(&i, 7);
    int sj = (int)bee_digit(&i, 4);
    int supply = (int)bee_digit(&i, 2);
    galloc_reset();
    struct aws_allocator *alloc = galloc_get(0, 1);
    uint8_t *msg = make_msg(msglen);
    char *fmt = supply ? (char *)bee_block(msg, msglen + 1) : (char *)bee_block("%s", 3);
    char *mptr = NULL;
    size_t msz = 0;
    FILE *fp = open_memstream(&mptr, &msz);
    struct aws_logger lg;
    struct aws_logger_standard_options lo = {.level = AWS_LL_TRACE, .filename = NULL, .file = fp};
    char what[220], what2[260];
    snprintf(what, sizeof(what), "no-alloc logger log(level=%s, subject=%s, %s, message of %zu bytes)", r_level_name[level],
             subj_name[sj] ? subj_name[sj] : "(no name)", supply ? "literal format" : "\"%s\" argument", msglen);
    snprintf(what2, sizeof(what2), "second (short) call after %s", what);
    V_COUNT("evaluations", 1);
    if (!fp || aws_logger_init_noalloc(&lg, alloc, &lo) != AWS_OP_SUCCESS) {
        bee_fail("init-failed", "%s: open_memstream / aws_logger_init_noalloc failed", what);
        goto out;
    }
    struct lx e = {.level = level, .subject = subj_name[sj], .msg = msg, .msglen = msglen, .df = 1, .cap = noalloc_cap(), .what = what};
    e.t_lo = now_s();
    int rc = supply ? lg.vtable->log(&lg, (enum aws_log_level)level, subj_id[sj], fmt)
                    : lg.vtable->log(&lg, (enum aws_log_level)level, subj_id[sj], fmt, (const char *)msg);
    fflush(fp);
    size_t n1 = msz;
    int rc2 = lg.vtable->log(&lg, AWS_LL_INFO, subj_id[1], "tail %d", 7);
    fflush(fp);
    size_t n2 = msz;
    e.t_hi = now_s();
    struct lres r;
    if (rc != AWS_OP_SUCCESS || rc2 != AWS_OP_SUCCESS) {
        bee_fail("log-failed", "%s: log returned %d, second call %d (error %d)", what, rc, rc2, aws_last_error());
    } else if (check_line((const uint8_t *)mptr, n1, &e, &r) != 0) {
        if (r.truncated) V_COUNT("nontrivial", 1); /* the truncation path ran, whatever the verdict */
    } else {
        count_cut(&r);
        if (r.truncated) V_COUNT("nontrivial", 1);
        struct lx e2 = e;
        e2.level = AWS_LL_INFO, e2.subject = subj_name[1], e2.msg = (const uint8_t *)"tail 7", e2.msglen = 6, e2.what = what2;
        check_line((const uint8_t *)mptr + n1, n2 - n1, &e2, &r);
        if ((msglen == 100 || msglen == noalloc_edge() + 200) && level == 2 && sj == 1 && !supply) v_sample("noalloc: %s -> %s", what, show_line((uint8_t *)mptr, n1));
    }
    aws_logger_clean_up(&lg);
    if (ga.live_blocks != 0) bee_fail("allocator-imbalance", "%s: %" PRIu64 " block(s) live after clean-up", what, ga.live_blocks);
out:
    if (fp) fclose(fp);
    free(mptr);
    free(fmt);
    free(msg);
}

/* ------------------------------------------------------------------ section stderrdef -------------------- */
/* the no-alloc logger left at its defaults (neither .file nor .filename): it writes to stderr, which it does not own.  File
 * descriptor 2 is pointed at an in-memory file for the duration of the item; two loggers live one after the other, each logs a
 * line, is cleaned up; both lines must have reached the file and stderr must still be open afterwards (added after a seeded
 * change whose clean-up closed a stream the logger had not opened: the first life is flawless, the second one's lines vanish) */
#include <fcntl.h>
#include <sys/mman.h>
static uint64_t stderrdef_total(void) { return 7 * 3; }
static void stderrdef_eval(uint64_t index, void *ctx) {
    (void)ctx;
    BEE_ITEM(index);
    uint64_t i = index;
    int level = (int)bee_digit(&i, 7);
    static const size_t lens[3] = {0, 40, 300};
    size_t msglen = lens[bee_digit(&i, 3)];
    V_COUNT("evaluations", 1);
    V_COUNT("nontrivial", 1);
    fflush(stderr);
    if (fcntl(2, F_GETFD) == -1) { /* started without a stderr: give the process one */
        int nul = open("/dev/null", O_WRONLY);
        if (nul >= 0 && nul != 2) {
            dup2(nul, 2);
            close(nul);
        }
    }
    int saved = dup(2), mfd = memfd_create("c14-stderr", 0);
    if (mfd < 0) { /* no memfd here: an unlinked scratch file does the same job */
        char tmpl[] = "/verif/build/tmp/c14-stderr-XXXXXX";
        mfd = mkstemp(tmpl);
        if (mfd >= 0) unlink(tmpl);
    }
    if (saved < 0 || mfd < 0 || dup2(mfd, 2) < 0) {
        v_out("INFO stderrdef: stderr cannot be captured in this environment, item skipped");
        v_exhaustive = 0;
        if (saved >= 0) close(saved);
        if (mfd >= 0) close(mfd);
        return;
    }
    uint8_t *msg = make_msg(msglen);
    char what[2][160];
    int rcs[2] = {-1, -1}, inits[2] = {-1, -1};
    double t_lo = now_s();
    for (int life = 0; life < 2; ++life) {
        struct aws_logger lg;
        struct aws_logger_standard_options lo = {.level = AWS_LL_TRACE, .filename = NULL, .file = NULL};
        snprintf(what[life], sizeof(what[life]), "default no-alloc logger (stderr), life %d: log(level=%s, message of %zu bytes)", life + 1, r_level_name[level], msglen);
        inits[life] = aws_logger_init_noalloc(&lg, aws_default_allocator(), &lo);
        if (inits[life] != AWS_OP_SUCCESS) break;
        rcs[life] = lg.vtable->log(&lg, (enum aws_log_level)level, subj_id[1], "%s", (const char *)msg);
        aws_logger_clean_up(&lg);
    }
    double t_hi = now_s();
    int still_open = fcntl(2, F_GETFD) != -1 && !ferror(stderr) && fileno(stderr) == 2;
    fflush(stderr);
    /* put the real stderr back before anything is reported */
    off_t sz = lseek(mfd, 0, SEEK_END);
    uint8_t *got = (uint8_t *)malloc((size_t)sz + 1);
    ssize_t rd = pread(mfd, got, (size_t)sz, 0);
    dup2(saved, 2);
    close(saved);
    close(mfd);
    clearerr(stderr);
    if (inits[0] || inits[1] || rcs[0] || rcs[1]) {
        bee_fail("log-failed", "default no-alloc logger writing to stderr: init %d / %d, log %d / %d (error %d) - the second logger's life starts after the first one's clean-up", inits[0], inits[1],
                 rcs[0], rcs[1], aws_last_error());
    } else if (!still_open) {
        bee_fail("stderr-closed", "after two lives of the default no-alloc logger stderr is closed or in an error state: the logger does not own that stream");
    } else if (rd != sz) {
        bee_fail("harness", "short read from the stderr capture");
    } else {
        /* two lines */
        size_t n1 = 0;
        while (n1 < (size_t)sz && got[n1] != '\n') ++n1;
        if (n1 < (size_t)sz) ++n1;
        struct lres r;
        for (int life = 0; life < 2; ++life) {
            struct lx e = {.level = level, .subject = subj_name[1], .msg = msg, .msglen = msglen, .df = 1, .cap = noalloc_cap(), .what = what[life]};
            e.t_lo = t_lo;
            e.t_hi = t_hi;
            if (life == 0) check_line(got, n1, &e, &r);
            else check_line(got + n1, (size_t)sz - n1, &e, &r);
        }
    }
    free(got);
    free(msg);
}

/* ------------------------------------------------------------------ loggers under the macros ------------- */
/* The process-wide logger is set ONCE per process (aws_logger_set: "Must only be called once") to this object,
 * which every item re-initialises in place; between items it is a harness-owned silent logger. */
static struct aws_logger g_lg;
static int g_lg_set;
static enum aws_log_level quiet_level(struct aws_logger *l, aws_log_subject_t s) {
    (void)l, (void)s;
    return AWS_LL_NONE;
}
static int quiet_log(struct aws_logger *l, enum aws_log_level lv, aws_log_subject_t s, const char *f, ...) {
    (void)l, (void)lv, (void)s, (void)f;
    return AWS_OP_SUCCESS;
}
static void quiet_clean(struct aws_logger *l) { (void)l; }
static struct aws_logger_vtable quiet_vtable = {.log = quiet_log, .get_log_level = quiet_level, .clean_up = quiet_clean, .set_log_level = NULL};

/* recording writer, implemented through the public aws_log_writer vtable */
#define REC_MAX 16
struct rec {
    uint8_t *bytes[REC_MAX]; /* exact-size copies */
    size_t len[REC_MAX];
    int live[REC_MAX];       /* the string handed to write was a live allocator block */
    unsigned n;
    unsigned cleaned;
    unsigned fail_mask; /* bit k set: the k-th write reports failure (the sink is full, the pipe is closed ...) */
};
static int rec_write(struct aws_log_writer *w, const struct aws_string *out) {
    struct rec *rc = (struct rec *)w->impl;
    if (rc->n < REC_MAX) {
        rc->live[rc->n] = galloc_is_live(out);
        rc->len[rc->n] = out->len;
        rc->bytes[rc->n] = bee_block(out->bytes, out->len);
    }
    rc->n++;
    if (rc->fail_mask & (1u << (rc->n - 1))) return aws_raise_error(AWS_ERROR_SYS_CALL_FAILURE);
    return AWS_OP_SUCCESS;
}
static void rec_clean(struct aws_log_writer *w) { ((struct rec *)w->impl)->cleaned++; }
static struct aws_log_writer_vtable rec_vtable = {.write = rec_write, .clean_up = rec_clean};

/* ------------------------------------------------------------------ section staticline -------------------- */
/* a channel is handed lines it takes ownership of - also statically initialised ones (AWS_STATIC_STRING_FROM_LITERAL: no
 * allocator, destroying them is a documented no-op), which a caller may therefore send again.  Both deliveries must be the
 * complete line (added after a seeded change that released delivered lines with the zeroing destroy, which wipes the bytes
 * before it looks at the allocator).  Foreground and background channel, the line sent 1..3 times. */
AWS_STATIC_STRING_FROM_LITERAL(s_static_line, "[INFO] fixed notice that is sent more than once\n");
static uint64_t staticline_total(void) { return 2 * 3; }
static void staticline_eval(uint64_t index, void *ctx) {
    (void)ctx;
    BEE_ITEM(index);
    int background = (int)(index % 2), sends = (int)(index / 2) + 1;
    V_COUNT("evaluations", 1);
    V_COUNT("nontrivial", 1);
    galloc_reset();
    struct aws_allocator *alloc = galloc_get(0, 1);
    struct rec rc;
    memset(&rc, 0, sizeof(rc));
    struct aws_log_writer w = {.vtable = &rec_vtable, .allocator = alloc, .impl = &rc};
    struct aws_log_channel ch;
    int irc = background ? aws_log_channel_init_background(&ch, alloc, &w) : aws_log_channel_init_foreground(&ch, alloc, &w);
    if (irc) {
        bee_fail("init-failed", "channel init failed");
        return;
    }
    /* a writable copy of the static string object (same layout, allocator NULL), so that a library that writes to it shows as a
     * wrong line rather than only as a fault on read-only memory */
    size_t obj = offsetof(struct aws_string, bytes) + s_static_line->len + 1;
    struct aws_string *line = (struct aws_string *)malloc(obj);
    memcpy(line, s_static_line, obj);
    for (int k = 0; k < sends; ++k)
        if (ch.vtable->send(&ch, line)) bee_fail("send-failed", "send %d of a static line failed (error %d)", k, aws_last_error());
    aws_log_channel_clean_up(&ch); /* the background channel flushes here */
    BEE_CHECK((int)rc.n == sends, "line-count", "%s channel: a statically initialised line sent %d time(s), the writer saw %u", background ? "background" : "foreground", sends, rc.n);
    for (unsigned k = 0; k < rc.n && k < REC_MAX; ++k)
        BEE_CHECK(rc.len[k] == s_static_line->len && memcmp(rc.bytes[k], s_static_line->bytes, rc.len[k]) == 0, "static-line-damaged",
                  "%s channel: delivery %u of a statically initialised line sent %d time(s) reads \"%s\"", background ? "background" : "foreground", k, sends, v_show(rc.bytes[k], rc.len[k]));
    BEE_CHECK(memcmp(line, s_static_line, obj) == 0, "static-line-damaged", "the caller's statically initialised line was modified by the channel");
    for (unsigned k = 0; k < rc.n && k < REC_MAX; ++k) free(rc.bytes[k]);
    free(line);
    if (ga.live_blocks != 0) bee_fail("allocator-imbalance", "%" PRIu64 " block(s) live after channel clean-up", ga.live_blocks);
}

struct rig {
    int kind; /* 0 pipeline (default formatter, foreground channel, recording writer), 1 no-alloc logger on a memstream */
    int df;
    struct aws_allocator *alloc;
    struct aws_log_formatter formatter;
    struct aws_log_channel channel;
    struct aws_log_writer writer;
    struct rec rec;
    FILE *fp;
    char *mptr;
    size_t msz;
    uint64_t base_blocks;
    /* observation cursor */
    unsigned seen_writes;
    size_t seen_bytes;
};
static struct rig R;

static int rig_up(int kind, int df, enum aws_log_level level) {
    memset(&R, 0, sizeof(R));
    R.kind = kind;
    R.df = kind ? 1 : df;
    galloc_reset();
    R.alloc = galloc_get(0, 1);
    if (kind == 0) {
        struct aws_log_formatter_standard_options fo = {.date_format = df_enum[df]};
        R.writer.vtable = &rec_vtable;
        R.writer.allocator = R.alloc;
        R.writer.impl = &R.rec;
        if (aws_log_formatter_init_default(&R.formatter, R.alloc, &fo)) return -1;
        if (aws_log_channel_init_foreground(&R.channel, R.alloc, &R.writer)) return -1;
        if (aws_logger_init_from_external(&g_lg, R.alloc, &R.formatter, &R.channel, &R.writer, level)) return -1;
    } else {
        R.fp = open_memstream(&R.mptr, &R.msz);
        struct aws_logger_standard_options lo = {.level = level, .filename = NULL, .file = R.fp};
        if (!R.fp || aws_logger_init_noalloc(&g_lg, R.alloc, &lo)) return -1;
    }
    if (!g_lg_set) {
        aws_logger_set(&g_lg);
        g_lg_set = 1;
    }
    R.base_blocks = ga.live_blocks;
    return 0;
}
/* what the last call delivered: number of writes (pipeline) / 1 if any bytes (no-alloc); the bytes of the first */
static unsigned rig_delta(const uint8_t **p, size_t *n) {
    *p = NULL, *n = 0;
    if (R.kind == 0) {
        unsigned d = R.rec.n - R.seen_writes;
        if (d && R.seen_writes < REC_MAX) *p = R.rec.bytes[R.seen_writes], *n = R.rec.len[R.seen_writes];
        R.seen_writes = R.rec.n;
        return d;
    }
    fflush(R.fp);
    size_t d = R.msz - R.seen_bytes;
    *p = (const uint8_t *)R.mptr + R.seen_bytes, *n = d;
    R.seen_bytes = R.msz;
    return d ? 1 : 0;
}
static void rig_down(const char *what) {
    aws_logger_clean_up(&g_lg);
    g_lg.vtable = &quiet_vtable, g_lg.allocator = NULL, g_lg.p_impl = NULL;
    if (R.kind == 0) {
        aws_log_channel_clean_up(&R.channel);
        aws_log_formatter_clean_up(&R.formatter);
        aws_log_writer_clean_up(&R.writer);
        for (unsigned k = 0; k < R.rec.n && k < REC_MAX; ++k) {
            if (!R.rec.live[k]) bee_fail("line-string-not-owned", "%s: write %u received a string that is not a live allocator block", what, k);
            free(R.rec.bytes[k]);
        }
    } else {
        fclose(R.fp);
        free(R.mptr);
    }
    if (ga.live_blocks != 0) bee_fail("allocator-imbalance", "%s: %" PRIu64 " block(s) live after clean-up", what, ga.live_blocks);
}

#define LOG_BY_MACRO(lvl, subj, ...)                                                                             \
    do {                                                                                                         \
        switch (lvl) {                                                                                           \
            case AWS_LL_FATAL: AWS_LOGF_FATAL(subj, __VA_ARGS__); break;                                         \
            case AWS_LL_ERROR: AWS_LOGF_ERROR(subj, __VA_ARGS__); break;                                         \
            case AWS_LL_WARN: AWS_LOGF_WARN(subj, __VA_ARGS__); break;                                           \
            case AWS_LL_INFO: AWS_LOGF_INFO(subj, __VA_ARGS__); break;                                           \
            case AWS_LL_DEBUG: AWS_LOGF_DEBUG(subj, __VA_ARGS__); break;                                         \
            case AWS_LL_TRACE: AWS_LOGF_TRACE(subj, __VA_ARGS__); break;                                         \
            default: break;                                                                                      \
        }                                                                                                        \
    } while (0)
#define LOG_BY_CONDITIONAL(lvl, subj, ...)                                                                       \
    do {                                                                                                         \
        struct aws_logger *lg__ = aws_logger_get_conditional(subj, (enum aws_log_level)(lvl));                  \
        if (lg__) AWS_LOGUF(lg__, (enum aws_log_level)(lvl), subj, __VA_ARGS__);                                 \
    } while (0)
#define LOG_VIA(path, lvl, subj, ...)                                                                            \
    do {                                                                                                         \
        if (path)                                                                                                \
            LOG_BY_CONDITIONAL(lvl, subj, __VA_ARGS__);                                                          \
        else                                                                                                     \
            LOG_BY_MACRO(lvl, subj, __VA_ARGS__);                                                                \
    } while (0)

/* ------------------------------------------------------------------ (c) gate ----------------------------- */
/* quick: call-level tuples (a, b, c, a) - 343 of them; thorough: all 7^4 */
static uint64_t gate_total(void) { return (uint64_t)(v_thorough() ? 2401 : 343) * 7 * 5 * 7 * 2 * 2; }
static void gate_eval(uint64_t index, void *ctx) {
    (void)ctx;
    BEE_ITEM(index);
    uint64_t i = index;
    int c[4];
    for (int k = 0; k < 3; ++k) c[k] = (int)bee_digit(&i, 7);
    c[3] = v_thorough() ? (int)bee_digit(&i, 7) : c[0];
    int f0 = (int)bee_digit(&i, 7);
    int pos = (int)bee_digit(&i, 5); /* level change before call pos; 4 = after the last call */
    int f1 = (int)bee_digit(&i, 7);
    int path = (int)bee_digit(&i, 2);
    int kind = (int)bee_digit(&i, 2);
    char prog[160];
    snprintf(prog, sizeof(prog), "%s logger, filter %s, calls [%s %s %s %s] via %s, set_log_level(%s) before call %d",
             kind ? "no-alloc" : "pipeline/foreground", r_level_name[f0], r_level_name[c[0]], r_level_name[c[1]], r_level_name[c[2]],
             r_level_name[c[3]], path ? "get_conditional+LOGUF" : "AWS_LOGF_<LEVEL>", r_level_name[f1], pos);
    V_COUNT("evaluations", 1);
    if (rig_up(kind, 1, (enum aws_log_level)f0)) {
        bee_fail("init-failed", "%s: logger set-up failed", prog);
        return;
    }
    int active = f0, accepted = 0, rejected = 0, flips = 0, bad = 0;
    for (int k = 0; k <= 4 && !bad; ++k) {
        if (pos == k) {
            int rc = aws_logger_set_log_level(&g_lg, (enum aws_log_level)f1);
            if (rc != AWS_OP_SUCCESS) {
                bee_fail("set-log-level-failed", "%s: aws_logger_set_log_level returned %d", prog, rc);
                bad = 1;
                break;
            }
            active = f1;
        }
        if (k == 4) break;
        int called = 1;
        aws_log_subject_t sid = subj_id[1 + (k & 1)];
        char exp[64], what[260];
        int explen = snprintf(exp, sizeof(exp), "call %d at %s", k, r_level_name[c[k]]);
        snprintf(what, sizeof(what), "%s: call %d", prog, k);
        struct lx e = {.level = c[k], .subject = subj_name[1 + (k & 1)], .msg = (const uint8_t *)exp, .msglen = (size_t)explen,
                       .df = R.df, .cap = kind ? noalloc_cap() : 0, .what = what};
        e.t_lo = now_s();
        if (path == 0 && c[k] == AWS_LL_NONE) {
            /* AWS_LOGF asserts log_level > 0 and there is no AWS_LOGF_NONE: not a call the macros offer */
            called = 0;
            V_COUNT("gate_macro_level_none_skipped", 1);
        } else {
            LOG_VIA(path, c[k], sid, "call %d at %s", k, r_level_name[c[k]]);
        }
        e.t_hi = now_s();
        const uint8_t *p;
        size_t n;
        unsigned writes = rig_delta(&p, &n);
        int expect = called && c[k] <= active;
        if (called && (c[k] <= f0) != (c[k] <= active)) ++flips;
        if (!expect) {
            if (called) ++rejected;
            if (writes) {
                bee_fail("line-emitted-above-level", "%s (level %s) produced %u write(s) although the active level is %s: %s", what,
                         r_level_name[c[k]], writes, r_level_name[active], show_line(p, n));
                bad = 1;
            }
        } else {
            ++accepted;
            struct lres r;
            if (writes == 0) {
                bee_fail("accepted-call-produced-no-line", "%s (level %s) produced nothing although the active level is %s", what,
                         r_level_name[c[k]], r_level_name[active]);
                bad = 1;
            } else if (writes > 1) {
                bee_fail("accepted-call-produced-several-writes", "%s produced %u writes", what, writes);
                bad = 1;
            } else if (check_line(p, n, &e, &r)) {
                bad = 1;
            }
        }
        if (!bad && ga.live_blocks != R.base_blocks) {
            bee_fail("line-string-not-destroyed", "%s: %" PRIu64 " allocator blocks live after the call, %" PRIu64 " before", what,
                     ga.live_blocks, R.base_blocks);
            bad = 1;
        }
    }
    if (!bad) {
        int got = (int)g_lg.vtable->get_log_level(&g_lg, subj_id[1]);
        if (got != active) bee_fail("level-change-not-retained", "%s: logger reports level %d at the end, expected %s", prog, got, r_level_name[active]);
    }
    V_COUNT("gate_lines_delivered", accepted);
    V_COUNT("gate_calls_suppressed", rejected);
    V_COUNT("gate_verdicts_flipped_by_level_change", flips);
    if (accepted && rejected && flips) V_COUNT("nontrivial", 1);
    if (index == 77777) v_sample("gate: %s -> %d line(s), %d suppressed", prog, accepted, rejected);
    rig_down(prog);
}

/* ------------------------------------------------------------------ (d) shapes --------------------------- */
static const char s300[] =
    "0123456789012345678901234567890123456789012345678901234567890123456789012345678901234567890123456789"
    "0123456789012345678901234567890123456789012345678901234567890123456789012345678901234567890123456789"
    "0123456789012345678901234567890123456789012345678901234567890123456789012345678901234567890123456789";
#define NSHAPES 34
static uint64_t shapes_total(void) { return (uint64_t)NSHAPES * 6 * 4 * 2; }
static void shapes_eval(uint64_t index, void *ctx) {
    (void)ctx;
    BEE_ITEM(index);
    uint64_t i = index;
    int shape = (int)bee_digit(&i, NSHAPES);
    int level = 1 + (int)bee_digit(&i, 6);
    int variant = (int)bee_digit(&i, 4); /* 0..2 pipeline with date format, 3 no-alloc */
    int path = (int)bee_digit(&i, 2);
    int kind = variant == 3;
    char exp[1200], what[200];
    int explen = -1;
    const char *shown = "?";
    aws_log_subject_t sid = subj_id[1];
    V_COUNT("evaluations", 1);
    if (rig_up(kind, kind ? 1 : variant, AWS_LL_TRACE)) {
        bee_fail("init-failed", "logger set-up failed");
        return;
    }
    struct lx e = {.level = level, .subject = subj_name[1], .df = R.df, .cap = kind ? noalloc_cap() : 0, .what = what};
    e.t_lo = now_s();
#define SHAPE(n, ...)                                                                                            \
    case n:                                                                                                      \
        shown = #__VA_ARGS__;                                                                                    \
        explen = snprintf(exp, sizeof(exp), __VA_ARGS__);                                                        \
        LOG_VIA(path, level, sid, __VA_ARGS__);                                                                  \
        break;
    switch (shape) {
        SHAPE(0, "")
        SHAPE(1, "plain text without conversions")
        SHAPE(2, "%s", "")
        SHAPE(3, "%s", "abc")
        SHAPE(4, "%d", 0)
        SHAPE(5, "%d", -1)
        SHAPE(6, "%d", INT_MAX)
        SHAPE(7, "%d", INT_MIN)
        SHAPE(8, "%%")
        SHAPE(9, "100%% sure")
        SHAPE(10, "%s=%d", "key", 42)
        SHAPE(11, "%d%s%d", 1, "x", 2)
        SHAPE(12, "%5d|%-5d|%05d|", 42, 42, 42)
        SHAPE(13, "%x %X %o %#x", 255u, 255u, 8u, 4096u)
        SHAPE(14, "%c%c", 'o', 'k')
        SHAPE(15, "%lu %zu", ULONG_MAX, (size_t)12345)
        SHAPE(16, "%lld %llu", LLONG_MIN, ULLONG_MAX)
        SHAPE(17, "%.3s|%10s|%-10s|", "abcdef", "r", "l")
        SHAPE(18, "%*d|%.*s|%-*d|", 6, 42, 2, "xyz", 4, 7)
        SHAPE(19, "%f %g %e %.2f", 3.5, 0.0001, 1e10, -2.675)
        SHAPE(20, "%s %f %d %s %lld %c %g", "mix", 1.25, -7, "of", 1234567890123LL, 'z', 2.5e-3)
        SHAPE(21, "%p", (void *)0x1234)
        SHAPE(22, "%s", s300)
        SHAPE(23, "%d %d %d %d %d %d %d %d %d %d %d %d", 1, 2, 3, 4, 5, 6, 7, 8, 9, 10, 11, 12)
        SHAPE(24, "%f %f %f %f %f %f %f %f %f %f %f", 1.0, 2.0, 3.0, 4.0, 5.0, 6.0, 7.0, 8.0, 9.0, 10.0, 11.0)
        SHAPE(25, "%" PRIu64 " %" PRId64, UINT64_MAX, INT64_MIN)
        SHAPE(26, "%hhu %hd", (unsigned char)200, (short)-123)
        SHAPE(27, "trailing literal percents %%%%")
        SHAPE(28, "%s%%%d%%", "a", 5)
        SHAPE(29, " ")
        SHAPE(30, " - ")
        SHAPE(31, "[FATAL] [x] [y] [z] - looks like a prefix")
        SHAPE(32, "%s|%s|%s|%s|%s|%s|%s|%s", "a", "", "bc", "", "def", "", "ghij", "")
        SHAPE(33, "%d %f %d %f %d %f %d %f %d %f %d %f %d %f %d %f %d %f", 1, 1.5, 2, 2.5, 3, 3.5, 4, 4.5, 5, 5.5, 6, 6.5, 7, 7.5, 8, 8.5, 9, 9.5)
    }
#undef SHAPE
    e.t_hi = now_s();
    snprintf(what, sizeof(what), "%s logger (%s), %s, level %s, shape %d: (%.90s)", kind ? "no-alloc" : "pipeline/foreground", df_name[R.df],
             path ? "get_conditional+LOGUF" : "AWS_LOGF_<LEVEL>", r_level_name[level], shape, shown);
    e.msg = (const uint8_t *)exp, e.msglen = explen < 0 ? 0 : (size_t)explen;
    const uint8_t *p;
    size_t n;
    unsigned writes = rig_delta(&p, &n);
    struct lres r;
    if (explen < 0 || (size_t)explen >= sizeof(exp))
        bee_fail("harness-shape", "shape %d does not fit the reference buffer", shape);
    else if (writes != 1)
        bee_fail(writes ? "accepted-call-produced-several-writes" : "accepted-call-produced-no-line", "%s produced %u writes", what, writes);
    else if (check_line(p, n, &e, &r) == 0) {
        if (strchr(shown, '%')) V_COUNT("nontrivial", 1);
        if (shape == 20 && level == 4 && path == 0 && variant == 0) v_sample("shapes: %s -> %s", what, show_line(p, n));
        if (ga.live_blocks != R.base_blocks)
            bee_fail("line-string-not-destroyed", "%s: %" PRIu64 " allocator blocks live after the call, %" PRIu64 " before", what, ga.live_blocks,
                     R.base_blocks);
    }
    rig_down(what);
}

/* ------------------------------------------------------------------ main --------------------------------- */
/* ------------------------------------------------------------------------------------------------------------
 * section sinkfail: the pipeline on the foreground channel with a writer whose k-th write fails, for every subset of
 * four writes and both macro paths.  Every accepted call still reaches the writer exactly once with a live line, and
 * the line is destroyed exactly once whatever the writer answers (a second destroy trips the guard allocator / the
 * sanitizer) - added after a seeded change in which channel and pipeline both destroyed the line of a failed write
 * ---------------------------------------------------------------------------------------------------------- */
static uint64_t sinkfail_total(void) { return 16ull * 2 * 3; }
static void sinkfail_eval(uint64_t index, void *ctx) {
    (void)ctx;
    BEE_ITEM(index);
    uint64_t i = index;
    unsigned mask = (unsigned)bee_digit(&i, 16);
    int path = (int)bee_digit(&i, 2);
    int df = (int)bee_digit(&i, 3);
    char prog[160];
    snprintf(prog, sizeof(prog), "pipeline/foreground logger, writer fails on writes {%s%s%s%s }, via %s", mask & 1 ? " 0" : "", mask & 2 ? " 1" : "", mask & 4 ? " 2" : "",
             mask & 8 ? " 3" : "", path ? "get_conditional+LOGUF" : "AWS_LOGF_<LEVEL>");
    V_COUNT("evaluations", 1);
    if (mask) V_COUNT("nontrivial", 1);
    if (rig_up(0, df, AWS_LL_INFO)) {
        bee_fail("init-failed", "%s: logger set-up failed", prog);
        return;
    }
    R.rec.fail_mask = mask;
    int bad = 0;
    for (int k = 0; k < 4 && !bad; ++k) {
        char exp[64], what[260];
        int explen = snprintf(exp, sizeof(exp), "call %d at %s", k, r_level_name[AWS_LL_INFO]);
        snprintf(what, sizeof(what), "%s: call %d", prog, k);
        struct lx e = {.level = AWS_LL_INFO, .subject = subj_name[1 + (k & 1)], .msg = (const uint8_t *)exp, .msglen = (size_t)explen, .df = R.df, .cap = 0, .what = what};
        aws_log_subject_t sid = subj_id[1 + (k & 1)];
        e.t_lo = now_s();
        LOG_VIA(path, AWS_LL_INFO, sid, "call %d at %s", k, r_level_name[AWS_LL_INFO]);
        e.t_hi = now_s();
        const uint8_t *p;
        size_t n;
        unsigned writes = rig_delta(&p, &n);
        struct lres r;
        if (writes != 1) {
            bee_fail(writes ? "accepted-call-produced-several-writes" : "accepted-call-produced-no-line", "%s reached the writer %u times", what, writes);
            bad = 1;
        } else if (check_line(p, n, &e, &r)) {
            bad = 1;
        } else if (ga.live_blocks != R.base_blocks) {
            bee_fail("line-string-not-destroyed", "%s: %" PRIu64 " allocator blocks live after the call, %" PRIu64 " before (the write %s)", what, ga.live_blocks, R.base_blocks,
                     (mask >> k) & 1 ? "failed" : "succeeded");
            bad = 1;
        }
        V_COUNT((mask >> k) & 1 ? "sink_writes_failed" : "sink_writes_ok", 1);
    }
    rig_down(prog);
}

int main(int argc, char **argv) {
    v_init(argc, argv);
    aws_common_library_init(aws_default_allocator());
    aws_register_log_subject_info_list(&h_subject_list);
    g_lg.vtable = &quiet_vtable;
    /* expected thread-id field: the caller's pthread_t as fixed-width hexadecimal (every item runs on the main thread
     * of a forked worker, whose pthread_self() equals the parent's) */
    snprintf(r_tid, sizeof(r_tid), "%0*lx", (int)(2 * sizeof(pthread_t)), (unsigned long)pthread_self());
    /* small sections first: the engine stops printing VIOL lines after 100000 raw violations of a run */
    bee_register("shapes", shapes_total, shapes_eval, 20);
    bee_register("deffmt", deffmt_total, deffmt_eval, 20);
    bee_register("noalloc", noalloc_total, noalloc_eval, 20);
    bee_register("stderrdef", stderrdef_total, stderrdef_eval, 20);
    bee_register("staticline", staticline_total, staticline_eval, 20);
    bee_register("gate", gate_total, gate_eval, 20);
    bee_register("fmtline", fmtline_total, fmtline_eval, 20);
    bee_register("sinkfail", sinkfail_total, sinkfail_eval, 20);
    return bee_main(argc, argv);
}
