/*
 * C14 (concurrent half) — background / foreground log channels under VSX (DESIGN §5 C14).
 * pipeline = [real default formatter +] real channel + recording writer (public aws_log_writer vtable).
 */
#include <stddef.h>
#ifdef VSX_FREE
#    define GALLOC_PASSTHROUGH 1
#    include "vsx_free.h"
#else
#    include "vsx.h"
#endif
#include "galloc.h"
#include <aws/common/log_channel.h>
#include <aws/common/log_formatter.h>
#include <aws/common/log_writer.h>
#include <aws/common/logging.h>
#include <aws/common/string.h>
#include <aws/common/thread.h>

#define MAXL 16
static struct aws_allocator *A;
static struct aws_log_channel chan;
static struct aws_log_writer writer;
static char seen[MAXL][160];
static size_t seen_len[MAXL];
static int nseen;
static int in_write, overlap;
static int cleaned, wrote_after_cleanup;
static pthread_mutex_t wm = PTHREAD_MUTEX_INITIALIZER; /* a schedule point inside the writer */

static void (*write_hook)(void); /* scenario-specific: runs inside the writer, i.e. on the thread that delivers the line */
static int rec_write(struct aws_log_writer *w, const struct aws_string *line) {
    (void)w;
    if (in_write) overlap++;
    in_write = 1;
    if (write_hook) write_hook();
    pthread_mutex_lock(&wm); /* lets the scheduler preempt in the middle of a write */
    pthread_mutex_unlock(&wm);
    if (cleaned) wrote_after_cleanup++;
    if (nseen < MAXL) {
        size_t n = line->len < sizeof(seen[0]) - 1 ? line->len : sizeof(seen[0]) - 1;
        memcpy(seen[nseen], aws_string_bytes(line), n);
        seen[nseen][n] = 0;
        seen_len[nseen] = line->len;
    }
    nseen++;
    in_write = 0;
    return AWS_OP_SUCCESS;
}
static void rec_cleanup(struct aws_log_writer *w) { (void)w; }
static struct aws_log_writer_vtable rec_vt = {.write = rec_write, .clean_up = rec_cleanup};

static void setup_common(void) {
    galloc_reset();
    A = galloc_get(0, 0);
    nseen = in_write = overlap = cleaned = wrote_after_cleanup = 0;
    write_hook = NULL;
    writer.vtable = &rec_vt;
    writer.allocator = A;
    writer.impl = NULL;
}

static void send_line(int sender, int seq) {
    char b[32];
    snprintf(b, sizeof(b), "s%d-%d\n", sender, seq);
    struct aws_string *s = aws_string_new_from_c_str(A, b);
    if (chan.vtable->send(&chan, s)) vs_fail("send-failed", "send of %s failed", b);
}
struct sarg {
    int sender, count;
};
static void *sender_fn(void *p) {
    struct sarg *a = (struct sarg *)p;
    for (int i = 0; i < a->count; ++i) send_line(a->sender, i);
    return NULL;
}

/* every accepted line exactly once, whole, per-sender order preserved */
static void check_lines(const int *count_per_sender, int nsenders) {
    int total = 0;
    for (int s = 0; s < nsenders; ++s) total += count_per_sender[s];
    VS_CHECK(nseen == total, "line-count", "writer saw %d lines, %d were accepted before clean-up", nseen, total);
    for (int s = 0; s < nsenders; ++s) {
        int next = 0;
        for (int i = 0; i < nseen && i < MAXL; ++i) {
            int ss, q;
            char nl = 0;
            if (sscanf(seen[i], "s%d-%d%c", &ss, &q, &nl) != 3 || nl != '\n' || seen_len[i] != strlen(seen[i])) {
                vs_fail("torn-line", "writer got a damaged line: '%s' (len %zu)", v_show(seen[i], strlen(seen[i])), seen_len[i]);
                continue;
            }
            if (ss != s) continue;
            VS_CHECK(q == next, "order", "sender %d: line %d arrived where %d was expected (lost, duplicated or reordered)", s, q, next);
            next = q + 1;
        }
        VS_CHECK(next == count_per_sender[s], "lost-line", "sender %d: %d of %d lines reached the writer", s, next, count_per_sender[s]);
    }
    VS_CHECK(overlap == 0, "overlapping-writes", "writer calls overlapped %d times", overlap);
    VS_CHECK(wrote_after_cleanup == 0, "write-after-cleanup", "a line was written after clean-up returned");
}

static void finish_channel(const int *cnt, int n) {
    aws_log_channel_clean_up(&chan);
    cleaned = 1;
    VS_CHECK(vs_threads_unfinished() == 0, "thread-alive-after-cleanup", "background thread still running after clean-up returned");
    check_lines(cnt, n);
    VS_CHECK(ga.live_blocks == 0, "leak", "%llu allocation(s) still live after clean-up (line strings are owned by the channel)", (unsigned long long)ga.live_blocks);
}

/* L1: background channel, one sender thread x 2 lines + main x 1 line */
static void l1(void) {
    setup_common();
    if (aws_log_channel_init_background(&chan, A, &writer)) vs_harness_error("channel init");
    struct sarg a = {0, 2};
    pthread_t t;
    pthread_create(&t, NULL, sender_fn, &a);
    send_line(1, 0);
    pthread_join(t, NULL);
    int cnt[2] = {2, 1};
    finish_channel(cnt, 2);
}
/* L2: two sender threads x 2 lines */
static void l2(void) {
    setup_common();
    if (aws_log_channel_init_background(&chan, A, &writer)) vs_harness_error("channel init");
    struct sarg a = {0, 2}, b = {1, 2};
    pthread_t ta, tb;
    pthread_create(&ta, NULL, sender_fn, &a);
    pthread_create(&tb, NULL, sender_fn, &b);
    pthread_join(ta, NULL);
    pthread_join(tb, NULL);
    int cnt[2] = {2, 2};
    finish_channel(cnt, 2);
}
/* L3: main sends 3 lines and cleans up at once: clean-up races the background thread's batches */
static void l3(void) {
    setup_common();
    if (aws_log_channel_init_background(&chan, A, &writer)) vs_harness_error("channel init");
    send_line(0, 0);
    send_line(0, 1);
    send_line(0, 2);
    int cnt[1] = {3};
    finish_channel(cnt, 1);
}
/* L4: foreground channel, two senders: writes never overlap */
static void l4(void) {
    setup_common();
    if (aws_log_channel_init_foreground(&chan, A, &writer)) vs_harness_error("channel init");
    struct sarg a = {0, 2}, b = {1, 2};
    pthread_t ta, tb;
    pthread_create(&ta, NULL, sender_fn, &a);
    pthread_create(&tb, NULL, sender_fn, &b);
    pthread_join(ta, NULL);
    pthread_join(tb, NULL);
    int cnt[2] = {2, 2};
    finish_channel(cnt, 2);
}
/* L5: full pipeline logger (real default formatter + background channel + recording writer) through AWS_LOGF */
static struct aws_logger logger;
static struct aws_log_formatter fmt;
static char logf_tid[2][AWS_THREAD_ID_T_REPR_BUFSZ + 4]; /* "[<id of the thread that logged message k>]", in the formatter's own spelling */
static void *logf_fn(void *p) {
    int id = (int)(intptr_t)p;
    char repr[AWS_THREAD_ID_T_REPR_BUFSZ];
    if (aws_thread_id_t_to_string(aws_thread_current_thread_id(), repr, sizeof(repr)) == AWS_OP_SUCCESS) snprintf(logf_tid[id], sizeof(logf_tid[id]), "[%s]", repr);
    AWS_LOGF_INFO(AWS_LS_COMMON_GENERAL, "hello from %d", id);
    AWS_LOGF_TRACE(AWS_LS_COMMON_GENERAL, "suppressed %d", id);
    return NULL;
}
static void l5(void) {
    setup_common();
    memset(logf_tid, 0, sizeof(logf_tid));
    struct aws_log_formatter_standard_options fo = {.date_format = AWS_DATE_FORMAT_ISO_8601};
    if (aws_log_formatter_init_default(&fmt, A, &fo)) vs_harness_error("formatter init");
    if (aws_log_channel_init_background(&chan, A, &writer)) vs_harness_error("channel init");
    if (aws_logger_init_from_external(&logger, A, &fmt, &chan, &writer, AWS_LL_INFO)) vs_harness_error("logger init");
    aws_logger_set(&logger);
    pthread_t t;
    pthread_create(&t, NULL, logf_fn, (void *)(intptr_t)1);
    logf_fn((void *)(intptr_t)0);
    pthread_join(t, NULL);
    aws_logger_set(NULL);
    aws_logger_clean_up(&logger);       /* init_from_external: the pipeline does not own its components ... */
    aws_log_channel_clean_up(&chan);    /* ... so the channel is cleaned up (flushed) by its owner */
    cleaned = 1;
    VS_CHECK(vs_threads_unfinished() == 0, "thread-alive-after-cleanup", "background thread still running after channel clean-up");
    VS_CHECK(nseen == 2, "line-count", "pipeline: writer saw %d lines, 2 calls were at or below the level", nseen);
    int got[2] = {0, 0};
    for (int i = 0; i < nseen && i < MAXL; ++i) {
        size_t n = strlen(seen[i]);
        VS_CHECK(n == seen_len[i] && n > 0 && seen[i][n - 1] == '\n' && strchr(seen[i], '\n') == seen[i] + n - 1, "torn-line", "pipeline line not whole / not newline-terminated: '%s'", v_show(seen[i], n));
        VS_CHECK(strncmp(seen[i], "[INFO] [", 8) == 0, "prefix", "pipeline line lacks its prefix: '%s'", v_show(seen[i], n));
        for (int k = 0; k < 2; ++k) {
            char tail[32];
            snprintf(tail, sizeof(tail), " - hello from %d\n", k);
            if (!strstr(seen[i], tail)) continue;
            got[k]++;
            /* "a prefix with level, timestamp, thread id and subject": the id is that of the thread that made the call (added
             * after a seeded change that turned the formatter's per-thread id cache into a process-wide one) */
            VS_CHECK(logf_tid[k][0] && strstr(seen[i], logf_tid[k]) != NULL, "thread-id", "the line of thread %d does not carry that thread's id %s: '%s'", k, logf_tid[k], v_show(seen[i], n));
        }
        VS_CHECK(!strstr(seen[i], "suppressed"), "level-gate", "a TRACE line passed an INFO filter");
    }
    VS_CHECK(got[0] == 1 && got[1] == 1, "lost-line", "pipeline: message of thread 0 seen %d times, of thread 1 %d times", got[0], got[1]);
    VS_CHECK(wrote_after_cleanup == 0, "write-after-cleanup", "a line was written after clean-up returned");
    aws_log_formatter_clean_up(&fmt);
    VS_CHECK(ga.live_blocks == 0, "leak", "%llu allocation(s) still live after logger clean-up", (unsigned long long)ga.live_blocks);
}


/* L10: the formatter's allocator is a tracing allocator that reports every release through the logger (with the usual per-thread
 * guard against reporting its own work).  The foreground channel destroys a line once it is written, so the report is logged
 * from inside the channel's send: the call has to return and both lines reach the writer, the report after the line (added
 * after a seeded change that destroyed the line while the channel's mutex was still held: the nested send blocks on it) */
static int la_inside;
static void *la_acquire(struct aws_allocator *a, size_t n) {
    (void)a;
    return aws_mem_acquire(A, n);
}
static void la_release(struct aws_allocator *a, void *p) {
    (void)a;
    if (!la_inside) {
        la_inside = 1;
        AWS_LOGF_INFO(AWS_LS_COMMON_GENERAL, "released a block");
        la_inside = 0;
    }
    aws_mem_release(A, p);
}
static struct aws_allocator la_alloc = {.mem_acquire = la_acquire, .mem_release = la_release, .mem_realloc = NULL, .mem_calloc = NULL, .impl = NULL};
static void l10(void) {
    setup_common();
    la_inside = 0;
    struct aws_log_formatter_standard_options fo = {.date_format = AWS_DATE_FORMAT_ISO_8601};
    if (aws_log_formatter_init_default(&fmt, &la_alloc, &fo)) vs_harness_error("formatter init");
    if (aws_log_channel_init_foreground(&chan, A, &writer)) vs_harness_error("channel init");
    if (aws_logger_init_from_external(&logger, A, &fmt, &chan, &writer, AWS_LL_INFO)) vs_harness_error("logger init");
    aws_logger_set(&logger);
    AWS_LOGF_INFO(AWS_LS_COMMON_GENERAL, "hello from %d", 0);
    aws_logger_set(NULL);
    aws_logger_clean_up(&logger);
    aws_log_channel_clean_up(&chan);
    cleaned = 1;
    VS_CHECK(nseen == 2, "line-count", "foreground pipeline with a reporting allocator: writer saw %d lines, expected the line and the allocator's report", nseen);
    if (nseen == 2) {
        VS_CHECK(strstr(seen[0], " - hello from 0\n") != NULL, "lost-line", "first line is '%s'", v_show(seen[0], strlen(seen[0])));
        VS_CHECK(strstr(seen[1], " - released a block\n") != NULL, "lost-line", "second line is '%s'", v_show(seen[1], strlen(seen[1])));
    }
    aws_log_formatter_clean_up(&fmt);
    VS_CHECK(ga.live_blocks == 0, "leak", "%llu allocation(s) still live after logger clean-up", (unsigned long long)ga.live_blocks);
}

/* L6: the no-alloc logger (fixed 8 KiB line buffer, mutex around the fwrite only) used by two threads at once.
 * (added after a seeded change - the line buffer made static, i.e. shared - was missed: formatting happens outside
 * the logger's lock, so the buffer must be private to each call) */
static struct aws_logger nlogger;
static void *noalloc_fn(void *p) {
    int id = (int)(intptr_t)p;
    AWS_LOGF_INFO(AWS_LS_COMMON_GENERAL, "m%d-0 %s", id, id ? "bbbbbbbbbbbbbbbbbbbbbbbb" : "aaaa");
    AWS_LOGF_DEBUG(AWS_LS_COMMON_GENERAL, "hidden %d", id);
    AWS_LOGF_WARN(AWS_LS_COMMON_GENERAL, "m%d-1 %s", id, id ? "dd" : "cccccccccccccccccccc");
    return NULL;
}
static void l6(void) {
    setup_common();
    char *mem = NULL;
    size_t memlen = 0;
    FILE *f = open_memstream(&mem, &memlen);
    if (!f) vs_harness_error("open_memstream");
    struct aws_logger_standard_options o = {.level = AWS_LL_INFO, .file = f};
    if (aws_logger_init_noalloc(&nlogger, A, &o)) vs_harness_error("noalloc init");
    aws_logger_set(&nlogger);
    pthread_t t;
    pthread_create(&t, NULL, noalloc_fn, (void *)(intptr_t)1);
    noalloc_fn((void *)(intptr_t)0);
    pthread_join(t, NULL);
    aws_logger_set(NULL);
    aws_logger_clean_up(&nlogger);
    fclose(f);
    /* every accepted call: exactly one whole line */
    int seen_msg[2][2] = {{0, 0}, {0, 0}}, lines = 0;
    size_t pos = 0;
    VS_CHECK(memchr(mem, 0, memlen) == NULL, "torn-line", "NUL byte inside the no-alloc logger's output");
    while (pos < memlen) {
        const char *nl = memchr(mem + pos, 10, memlen - pos);
        if (!nl) {
            vs_fail("torn-line", "no-alloc logger output does not end in a newline: '%s'", v_show(mem + pos, memlen - pos < 80 ? memlen - pos : 80));
            break;
        }
        size_t n = (size_t)(nl - (mem + pos));
        char line[300];
        snprintf(line, sizeof(line), "%.*s", (int)(n < 290 ? n : 290), mem + pos);
        lines++;
        int id = -1, q = -1;
        const char *dash = strstr(line, " - m");
        if (!dash || sscanf(dash, " - m%d-%d", &id, &q) != 2 || id < 0 || id > 1 || q < 0 || q > 1) {
            vs_fail("torn-line", "unrecognisable no-alloc line '%s'", v_show(line, strlen(line)));
        } else {
            seen_msg[id][q]++;
            const char *tail = id ? (q ? "dd" : "bbbbbbbbbbbbbbbbbbbbbbbb") : (q ? "cccccccccccccccccccc" : "aaaa");
            const char *sp = strchr(dash + 4, ' ');
            VS_CHECK(sp && strcmp(sp + 1, tail) == 0, "torn-line", "line of thread %d call %d carries another call's text: '%s'", id, q, v_show(line, strlen(line)));
            VS_CHECK(strncmp(line, q ? "[WARN] [" : "[INFO] [", 8) == 0, "prefix", "wrong level prefix: '%s'", v_show(line, strlen(line)));
        }
        VS_CHECK(!strstr(line, "hidden"), "level-gate", "a DEBUG line passed an INFO filter");
        pos += n + 1;
    }
    VS_CHECK(lines == 4, "line-count", "no-alloc logger wrote %d lines for 4 accepted calls", lines);
    for (int i = 0; i < 2; ++i)
        for (int q = 0; q < 2; ++q) VS_CHECK(seen_msg[i][q] == 1, "lost-line", "message m%d-%d appears %d times in the output", i, q, seen_msg[i][q]);
    free(mem);
    VS_CHECK(ga.live_blocks == 0, "leak", "%llu allocation(s) still live after no-alloc logger clean-up", (unsigned long long)ga.live_blocks);
}

/* L7: the no-alloc logger on a sink whose k-th write fails (ENOSPC-style short write): that one line may be lost, every
 * other accepted call must still deliver its line and nothing may block (added after a seeded change that returned from
 * the error path without releasing the logger's mutex) */
static int sink_fail_at, sink_writes;
static char sink_buf[4096];
static size_t sink_len;
static ssize_t sink_write(void *c, const char *b, size_t n) {
    (void)c;
    if (++sink_writes == sink_fail_at) {
        errno = ENOSPC;
        return 0;
    }
    if (sink_len + n <= sizeof(sink_buf)) memcpy(sink_buf + sink_len, b, n);
    sink_len += n;
    return (ssize_t)n;
}
static void l7_run(int fail_at) {
    setup_common();
    sink_fail_at = fail_at;
    sink_writes = 0;
    sink_len = 0;
    cookie_io_functions_t io = {.write = sink_write};
    FILE *f = fopencookie(NULL, "w", io);
    if (!f) vs_harness_error("fopencookie");
    setvbuf(f, NULL, _IONBF, 0); /* every fwrite reaches the sink */
    struct aws_logger_standard_options o = {.level = AWS_LL_INFO, .file = f};
    if (aws_logger_init_noalloc(&nlogger, A, &o)) vs_harness_error("noalloc init");
    aws_logger_set(&nlogger);
    pthread_t t;
    pthread_create(&t, NULL, noalloc_fn, (void *)(intptr_t)1);
    noalloc_fn((void *)(intptr_t)0);
    pthread_join(t, NULL);
    aws_logger_set(NULL);
    aws_logger_clean_up(&nlogger);
    fclose(f);
    int lines = 0;
    for (size_t i = 0; i < sink_len && i < sizeof(sink_buf); ++i) lines += sink_buf[i] == 10;
    VS_CHECK(sink_writes == 4, "lost-line", "4 accepted calls, the sink was written %d times (a failed write must not stop later lines)", sink_writes);
    VS_CHECK(lines == 3, "line-count", "one of 4 writes failed: expected the other 3 lines in the sink, found %d", lines);
    VS_CHECK(ga.live_blocks == 0, "leak", "%llu allocation(s) still live", (unsigned long long)ga.live_blocks);
}
static void l7a(void) { l7_run(1); }
static void l7b(void) { l7_run(2); }

static uint64_t dig(void) {
    uint64_t h = 1469598103934665603ull;
    h = (h ^ (uint64_t)nseen) * 1099511628211ull;
    for (int i = 0; i < nseen && i < MAXL; ++i)
        for (const char *p = seen[i]; *p && p < seen[i] + 6; ++p) h = (h ^ (uint8_t)*p) * 1099511628211ull;
    h = (h ^ ga.live_blocks) * 1099511628211ull;
    return h;
}

/* L8: the queue of pending lines is full (10 lines wait because the writer is held back) when two threads send one more
 * line each, so both sends have to grow the queue.  Everything accepted reaches the writer once and whole.  Under VSX the
 * growth is explored at the channel's lock points; its real purpose is the free-running thread-sanitizer twin, which sees a
 * growth done outside the lock (round-4 seed C14-7 - a plain data race, section 9) */
static void l8(void) {
    setup_common();
    if (aws_log_channel_init_background(&chan, A, &writer)) vs_harness_error("channel init");
    pthread_mutex_lock(&wm); /* the background thread gets stuck inside its first write */
    for (int i = 0; i < 11; ++i) send_line(2, i);
    struct sarg a = {0, 1}, b = {1, 1};
    pthread_t ta, tb;
    pthread_create(&ta, NULL, sender_fn, &a);
    pthread_create(&tb, NULL, sender_fn, &b);
    pthread_join(ta, NULL);
    pthread_join(tb, NULL);
    pthread_mutex_unlock(&wm);
    int cnt[3] = {1, 1, 11};
    finish_channel(cnt, 3);
}
/* L9: a third party.  Main has sent a line and is inside clean-up; while the background thread is writing a batch, another
 * thread's send is accepted (the writer itself lets that thread go and waits until its send has returned, so the line is
 * accepted strictly before the background thread looks at the queue again).  It has to reach the writer like any other
 * accepted line, whichever of clean-up's "finished" store and the background thread's batch swap came first (added after a
 * seeded change that let the background thread leave right after a batch it had taken with the finished flag already set) */
static pthread_mutex_t l9m = PTHREAD_MUTEX_INITIALIZER;
static pthread_cond_t l9c = PTHREAD_COND_INITIALIZER;
static int l9_cleanup_called, l9_go, l9_sent, l9_abort;
static void l9_hook(void) {
    pthread_mutex_lock(&l9m);
    if (l9_cleanup_called && !l9_go) {
        l9_go = 1;
        pthread_cond_broadcast(&l9c);
        while (!l9_sent) pthread_cond_wait(&l9c, &l9m);
    }
    pthread_mutex_unlock(&l9m);
}
static void *l9_sender(void *p) {
    (void)p;
    pthread_mutex_lock(&l9m);
    while (!l9_go && !l9_abort) pthread_cond_wait(&l9c, &l9m);
    int send = l9_go;
    pthread_mutex_unlock(&l9m);
    if (send) {
        send_line(0, 0);
        pthread_mutex_lock(&l9m);
        l9_sent = 1;
        pthread_cond_broadcast(&l9c);
        pthread_mutex_unlock(&l9m);
    }
    return NULL;
}
static void l9(void) {
    setup_common();
    l9_cleanup_called = l9_go = l9_sent = l9_abort = 0;
    write_hook = l9_hook;
    if (aws_log_channel_init_background(&chan, A, &writer)) vs_harness_error("channel init");
    pthread_t t;
    pthread_create(&t, NULL, l9_sender, NULL);
    send_line(2, 0);
    pthread_mutex_lock(&l9m);
    l9_cleanup_called = 1;
    pthread_mutex_unlock(&l9m);
    aws_log_channel_clean_up(&chan);
    cleaned = 1;
    pthread_mutex_lock(&l9m);
    l9_abort = 1;
    pthread_cond_broadcast(&l9c);
    pthread_mutex_unlock(&l9m);
    pthread_join(t, NULL);
    VS_CHECK(vs_threads_unfinished() == 0, "thread-alive-after-cleanup", "background thread still running after clean-up returned");
    int cnt[3] = {l9_go ? 1 : 0, 0, 1};
    check_lines(cnt, 3);
    VS_CHECK(ga.live_blocks == 0, "leak", "%llu allocation(s) still live after clean-up", (unsigned long long)ga.live_blocks);
    vs_outcome("third-party send %s", l9_go ? "accepted during a write while clean-up was in progress" : "not triggered (line written before clean-up began)");
}
int main(int argc, char **argv) {
    v_init(argc, argv);
    aws_common_library_init(aws_default_allocator());
    struct vsx_scenario sc[] = {
        {.name = "L1-bg-sender-plus-main", .run = l1, .bound_quick = 2, .bound_thorough = 3, .digest = dig},
        {.name = "L2-bg-two-senders", .run = l2, .bound_quick = 2, .bound_thorough = 3, .digest = dig},
        {.name = "L3-bg-send-then-cleanup", .run = l3, .bound_quick = 3, .bound_thorough = 4, .digest = dig},
        {.name = "L4-fg-two-senders", .run = l4, .bound_quick = 2, .bound_thorough = 3, .digest = dig},
        {.name = "L5-pipeline-logf", .run = l5, .bound_quick = 2, .bound_thorough = 3, .digest = dig},
        {.name = "L10-allocator-reports-releases-through-the-logger", .run = l10, .bound_quick = 1, .bound_thorough = 2, .digest = dig},
        {.name = "L6-noalloc-two-threads", .run = l6, .bound_quick = 2, .bound_thorough = 4, .digest = dig},
        {.name = "L8-bg-two-senders-on-a-full-queue", .run = l8, .bound_quick = 1, .bound_thorough = 2, .digest = dig},
        {.name = "L9-bg-third-party-send-during-cleanup", .run = l9, .bound_quick = 2, .bound_thorough = 3, .digest = dig},
        {.name = "L7-noalloc-first-write-fails", .run = l7a, .bound_quick = 1, .bound_thorough = 3, .digest = dig},
        {.name = "L7-noalloc-second-write-fails", .run = l7b, .bound_quick = 1, .bound_thorough = 3, .digest = dig},
    };
    return vsx_main(sc, (int)(sizeof(sc) / sizeof(sc[0])));
}
