LEVEL = "model_checking"      # the concurrent half (background channel under the controlled scheduler) adds states/transitions

RULE = ("sequential half, odometer enumeration on the real library (no randomness). fmtline: aws_format_standard_log_line for every "
        "total_length 1..300 x message length 0..120 x 7 levels x subject {none, short, 40 chars} x message as \"%s\" argument / "
        "literal format x date format {RFC822, ISO_8601, ISO_8601_BASIC}, buffer = exact-size heap block. deffmt: default "
        "formatter -> aws_string, message 0..120 (thorough 0..600) x 7 levels x 5 subjects x 2 x 3 date formats. noalloc: no-alloc "
        "logger on an in-memory FILE*, message lengths 0..300, every 53rd up to 8000, EVERY length 8000..8400 (thorough: every "
        "length 0..8400) x 7 levels x 4 subjects x 2, plus a second short call. gate: 4-call program, all 7^4 call-level tuples x 7 "
        "initial filter levels x aws_logger_set_log_level to each of 7 levels at each of 5 positions x {AWS_LOGF_<LEVEL> macros, "
        "aws_logger_get_conditional+AWS_LOGUF} x {pipeline logger = default formatter + foreground channel + recording writer, "
        "no-alloc logger}. shapes: 34 format/argument shapes x 6 levels x 4 logger variants x 2 call paths. "
        "non-trivial = fmtline/noalloc: the full line (+NUL) does not fit the fixed buffer, i.e. the truncation path runs "
        "(also counted as truncated_lines, cut_in_<field>); gate: the program has an accepted AND a suppressed call AND the level "
        "change flips the verdict of at least one call; shapes: format has a conversion; deffmt: non-empty message.")

HARNESSES = [
    dict(name="logseq", src=["logseq.c"], variant="asan", deadline={"quick": 120, "thorough": 900}),
    # concurrent half: background / foreground channel and the full pipeline under the controlled scheduler
    dict(name="logmt", src=["logmt.c"], variant="sched", wrap=True, deadline={"quick": 150, "thorough": 1500}),
    # free-running ThreadSanitizer twin of the scenario bodies (DESIGN 4.5): no wrapping, OS scheduler, decides nothing;
    # discharges VSX's proviso that there is no unsynchronised access between schedule points
    dict(name="logmt-tsan", src=["logmt.c"], variant="tsan", cflags=["-DVSX_FREE"], tiers=["thorough"], deadline={"thorough": 600}),
]

ASSUMPTIONS = [
    "concurrent half (logmt): 1-2 sender threads x 1-3 lines against the real background/foreground channel and the pipeline logger, recording writer with a schedule point inside write; preemption bound 2-3 (quick) / 3-4 (thorough); sequentially consistent interleavings at lock/condvar/atomic/create/join points (DESIGN 4.4)",
    "sequential half only: one thread, foreground channel; the background channel under a controlled scheduler is a separate harness of this property",
    "bounds: direct formatter calls total_length <= 300 and message <= 120 bytes; no-alloc logger messages <= 8400 bytes (buffer 8192); programs of 4 calls with one level change",
    "the timestamp is parsed, not predicted: it must match the selected format exactly, be a valid UTC calendar time (weekday consistent) and lie within +-1 s of the wall-clock bracket of the call",
    "reading: a line 'fits' a fixed buffer when line + terminating NUL <= buffer; a line of exactly buffer bytes may be delivered whole or cut; a cut line may have any length <= buffer (the shortfall is reported as max_cut_slack_bytes, not judged)",
    "reading: aws_format_standard_log_line returning an error delivers no line; this is accepted only when the buffer cannot hold '[LEVEL] [' + timestamp + NUL (strftime is all-or-nothing); counted as refused_buffer_below_timestamp",
    "call level NONE is not offered by the AWS_LOGF_<LEVEL> macros (AWS_LOGF asserts log_level > 0): it is exercised through aws_logger_get_conditional + AWS_LOGUF only",
    "aws_logger_set is documented 'must only be called once': each process sets one harness-owned aws_logger object once and re-initialises it in place per case",
    "messages contain no newline and no NUL (an embedded newline is the caller's business)",
]
