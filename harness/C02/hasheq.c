/*
 * C02 — BEE part: the library's own hash/equality pairs (DESIGN §5 C02).
 *
 * For every ordered pair (x,y) of byte strings of length <= 3 over {a A b B 0x00 0xFF} (0x00 left out for C strings),
 * in the forms aws_string / C string / aws_byte_cursor, and for every pair from a pointer and a uint64 boundary set:
 *      eq(x,y)  =>  hash(x) == hash(y)            for the pair (hash_fn, equals_fn) as one would hand it to
 *                                                 aws_hash_table_init,
 *      eq(x,y)  ==  byte equality (ASCII case folded for the ignore-case pair) — what the headers document,
 * and a real aws_hash_table built with that pair treats x and y as one key iff they are equal:
 *      put(x,1); put(y,2)  ->  count 1 and find(x) == 2 when equal, count 2 and find(x)==1, find(y)==2 otherwise.
 * x and y are always two separately allocated exact-size heap objects (ASan sees a one-byte over-read).
 * On the diagonal the documented cross-form statement is checked too: aws_hash_string / aws_hash_byte_cursor_ptr
 * hash the bytes the way aws_hash_c_string does.
 */
#include "bee.h"
#include <aws/common/byte_buf.h>
#include <aws/common/hash_table.h>
#include <aws/common/string.h>

static const uint8_t ALPHA6[6] = {'a', 'A', 'b', 'B', 0x00, 0xFF};
static const uint8_t ALPHA5[5] = {'a', 'A', 'b', 'B', 0xFF};

static bool bytes_eq(const uint8_t *a, size_t la, const uint8_t *b, size_t lb) { return la == lb && (la == 0 || memcmp(a, b, la) == 0); }
static uint8_t fold(uint8_t c) { return (c >= 'A' && c <= 'Z') ? (uint8_t)(c + 32) : c; }
static bool bytes_eq_fold(const uint8_t *a, size_t la, const uint8_t *b, size_t lb) {
    if (la != lb) return false;
    for (size_t i = 0; i < la; ++i)
        if (fold(a[i]) != fold(b[i])) return false;
    return true;
}

static int V1, V2;
/* x and y as keys of a real table using the pair under test */
static void table_check(aws_hash_fn *hf, aws_hash_callback_eq_fn *ef, const void *x, const void *y, bool equal, const char *desc) {
    struct aws_hash_table t;
    if (aws_hash_table_init(&t, aws_default_allocator(), 2, hf, ef, NULL, NULL)) {
        bee_fail("table-init", "init failed");
        return;
    }
    int c1 = -1, c2 = -1;
    aws_hash_table_put(&t, x, &V1, &c1);
    aws_hash_table_put(&t, y, &V2, &c2);
    struct aws_hash_element *ex = NULL, *ey = NULL;
    aws_hash_table_find(&t, x, &ex);
    aws_hash_table_find(&t, y, &ey);
    size_t n = aws_hash_table_get_entry_count(&t);
    if (equal) {
        BEE_CHECK(c1 == 1 && c2 == 0 && n == 1, "table-equal-keys-one-entry", "%s: equal keys gave was_created %d,%d and %zu entries", desc, c1, c2, n);
        BEE_CHECK(ex && ey && ex->value == &V2 && ey->value == &V2, "table-equal-keys-one-entry", "%s: equal keys do not find the overwritten value", desc);
    } else {
        BEE_CHECK(c1 == 1 && c2 == 1 && n == 2, "table-distinct-keys-two-entries", "%s: distinct keys gave was_created %d,%d and %zu entries", desc, c1, c2, n);
        BEE_CHECK(ex && ey && ex->value == &V1 && ey->value == &V2, "table-distinct-keys-two-entries", "%s: distinct keys are mixed up", desc);
    }
    aws_hash_table_clean_up(&t);
}

static void verdict(const char *form, bool eq, bool want_eq, uint64_t hx, uint64_t hy, bool distinct_bytes, const char *desc) {
    V_COUNT("evaluations", 1);
    BEE_CHECK(eq == want_eq, "eq-matches-bytes", "%s %s: equality function says %d", form, desc, eq);
    if (eq) {
        V_COUNT("nontrivial", 1);
        if (distinct_bytes) V_COUNT("equal_with_different_bytes", 1);
        BEE_CHECK(hx == hy, "equal-keys-hash-differently", "%s %s: equal keys hash to %" PRIx64 " and %" PRIx64, form, desc, hx, hy);
    } else if (hx == hy) {
        V_COUNT("unequal_keys_same_hash", 1);
    }
}

static const char *pair_desc(const uint8_t *x, size_t lx, const uint8_t *y, size_t ly) {
    static char b[200];
    snprintf(b, sizeof(b), "x=\"%s\"(%zu) y=\"%s\"(%zu)", v_show(x, lx), lx, v_show(y, ly), ly);
    return b;
}

/* ---- aws_string ---- */
static uint64_t n6(void) { return bee_strings_upto(6, 3); }
static uint64_t n5(void) { return bee_strings_upto(5, 3); }
static uint64_t total_pairs6(void) { return n6() * n6(); }
static uint64_t total_pairs5(void) { return n5() * n5(); }

static void eval_string(uint64_t idx, void *ctx) {
    (void)ctx;
    BEE_ITEM(idx);
    uint8_t x[4], y[4];
    size_t lx = bee_string_at(idx % n6(), ALPHA6, 6, 3, x), ly = bee_string_at(idx / n6(), ALPHA6, 6, 3, y);
    struct aws_string *sx = aws_string_new_from_array(aws_default_allocator(), x, lx);
    struct aws_string *sy = aws_string_new_from_array(aws_default_allocator(), y, ly);
    const char *d = pair_desc(x, lx, y, ly);
    bool eq = aws_hash_callback_string_eq(sx, sy);
    uint64_t hx = aws_hash_string(sx), hy = aws_hash_string(sy);
    verdict("aws_string", eq, bytes_eq(x, lx, y, ly), hx, hy, false, d);
    table_check(aws_hash_string, aws_hash_callback_string_eq, sx, sy, bytes_eq(x, lx, y, ly), d);
    if (idx % n6() == idx / n6()) {
        /* hash_table.h: "Hash is same as used on the string bytes by aws_hash_c_string" (string and cursor) */
        uint8_t *blk = bee_block(x, lx);
        struct aws_byte_cursor c = {.len = lx, .ptr = blk};
        BEE_CHECK(aws_hash_byte_cursor_ptr(&c) == hx, "cross-form-hash", "cursor and aws_string over the same bytes %s hash differently", d);
        if (!memchr(x, 0, lx)) {
            char *cs = (char *)malloc(lx + 1);
            memcpy(cs, x, lx);
            cs[lx] = 0;
            BEE_CHECK(aws_hash_c_string(cs) == hx, "cross-form-hash", "C string and aws_string over the same bytes %s hash differently", d);
            free(cs);
        }
        free(blk);
        V_COUNT("cross_form_checks", 1);
    }
    aws_string_destroy(sx);
    aws_string_destroy(sy);
}

/* ---- C strings (no 0x00 inside) ---- */
static void eval_cstr(uint64_t idx, void *ctx) {
    (void)ctx;
    BEE_ITEM(idx);
    uint8_t x[4], y[4];
    size_t lx = bee_string_at(idx % n5(), ALPHA5, 5, 3, x), ly = bee_string_at(idx / n5(), ALPHA5, 5, 3, y);
    x[lx] = 0;
    y[ly] = 0;
    char *cx = (char *)bee_block(x, lx + 1), *cy = (char *)bee_block(y, ly + 1);
    const char *d = pair_desc(x, lx, y, ly);
    bool eq = aws_hash_callback_c_str_eq(cx, cy);
    verdict("c_string", eq, bytes_eq(x, lx, y, ly), aws_hash_c_string(cx), aws_hash_c_string(cy), false, d);
    table_check(aws_hash_c_string, aws_hash_callback_c_str_eq, cx, cy, bytes_eq(x, lx, y, ly), d);
    free(cx);
    free(cy);
}

/* ---- byte cursors, case sensitive and not ---- */
static void eval_cursor_common(uint64_t idx, bool ignore_case) {
    BEE_ITEM(idx);
    uint8_t x[4], y[4];
    size_t lx = bee_string_at(idx % n6(), ALPHA6, 6, 3, x), ly = bee_string_at(idx / n6(), ALPHA6, 6, 3, y);
    uint8_t *bx = bee_block(x, lx), *by = bee_block(y, ly);
    /* the cursors themselves live in exact-size heap blocks as well */
    struct aws_byte_cursor tx = {.len = lx, .ptr = bx}, ty = {.len = ly, .ptr = by};
    struct aws_byte_cursor *px = (struct aws_byte_cursor *)bee_block(&tx, sizeof(tx)), *py = (struct aws_byte_cursor *)bee_block(&ty, sizeof(ty));
    const char *d = pair_desc(x, lx, y, ly);
    if (!ignore_case) {
        bool eq = aws_byte_cursor_eq(px, py);
        verdict("byte_cursor", eq, bytes_eq(x, lx, y, ly), aws_hash_byte_cursor_ptr(px), aws_hash_byte_cursor_ptr(py), false, d);
        table_check(aws_hash_byte_cursor_ptr, (aws_hash_callback_eq_fn *)aws_byte_cursor_eq, px, py, bytes_eq(x, lx, y, ly), d);
    } else {
        bool eq = aws_byte_cursor_eq_ignore_case(px, py);
        bool want = bytes_eq_fold(x, lx, y, ly);
        verdict("byte_cursor_ignore_case", eq, want, aws_hash_byte_cursor_ptr_ignore_case(px), aws_hash_byte_cursor_ptr_ignore_case(py), !bytes_eq(x, lx, y, ly), d);
        table_check(aws_hash_byte_cursor_ptr_ignore_case, (aws_hash_callback_eq_fn *)aws_byte_cursor_eq_ignore_case, px, py, want, d);
    }
    free(px);
    free(py);
    free(bx);
    free(by);
}
static void eval_cursor(uint64_t idx, void *ctx) {
    (void)ctx;
    eval_cursor_common(idx, false);
}
static void eval_cursor_ic(uint64_t idx, void *ctx) {
    (void)ctx;
    eval_cursor_common(idx, true);
}

/* ---- pointers and uint64 ---- */
static const uint64_t BOUND[] = {
    0ull, 1ull, 2ull, 0x2Aull /* the code the table gives the NULL key */, 0xFFull, 0x100ull, 0xFFFFull, 0x10000ull, 0x7FFFFFFFull, 0x80000000ull,
    0xFFFFFFFFull, 0x100000000ull, 0x00007FFFFFFFF000ull, 0x0000800000000000ull, 0x7FFFFFFFFFFFFFFFull, 0x8000000000000000ull,
    0xFFFFFFFF00000000ull, 0xFFFFFFFFFFFFFFFEull, 0xFFFFFFFFFFFFFFFFull, 0x0123456789ABCDEFull,
};
#define NBOUND (sizeof(BOUND) / sizeof(BOUND[0]))
static uint64_t total_bound(void) { return NBOUND * NBOUND; }

static void eval_ptr(uint64_t idx, void *ctx) {
    (void)ctx;
    BEE_ITEM(idx);
    const void *x = (const void *)(uintptr_t)BOUND[idx % NBOUND], *y = (const void *)(uintptr_t)BOUND[idx / NBOUND];
    char d[100];
    snprintf(d, sizeof(d), "x=%p y=%p", x, y);
    bool eq = aws_ptr_eq(x, y);
    verdict("ptr", eq, x == y, aws_hash_ptr(x), aws_hash_ptr(y), false, d);
    table_check(aws_hash_ptr, aws_ptr_eq, x, y, x == y, d);
}
static void eval_u64(uint64_t idx, void *ctx) {
    (void)ctx;
    BEE_ITEM(idx);
    uint64_t vx = BOUND[idx % NBOUND], vy = BOUND[idx / NBOUND];
    uint64_t *x = (uint64_t *)bee_block(&vx, 8), *y = (uint64_t *)bee_block(&vy, 8);
    char d[100];
    snprintf(d, sizeof(d), "x=%" PRIx64 " y=%" PRIx64, vx, vy);
    bool eq = aws_hash_compare_uint64_t_eq(x, y);
    verdict("uint64", eq, vx == vy, aws_hash_uint64_t_by_identity(x), aws_hash_uint64_t_by_identity(y), false, d);
    table_check(aws_hash_uint64_t_by_identity, aws_hash_compare_uint64_t_eq, x, y, vx == vy, d);
    free(x);
    free(y);
}


/* ---- equal keys at different addresses/alignments and of every length 0..72 (added after a seeded change in
 * lookup3.inl's byte-at-a-time branch was missed): hashlittle2 has three code paths selected by the alignment of
 * the key (32-bit, 16-bit, byte) and a 12-byte block loop, so "equal keys hash equally" must hold across
 * alignments and across the block boundaries 12, 24, 36, 48, 60, 72. ---- */
#define AL_MAXLEN 73
static uint64_t total_align(void) { return (uint64_t)AL_MAXLEN * 8 * 8 * 2; }
static void eval_align(uint64_t idx, void *ctx) {
    (void)ctx;
    BEE_ITEM(idx);
    uint64_t x = idx;
    unsigned nul = bee_digit(&x, 2), o2 = bee_digit(&x, 8), o1 = bee_digit(&x, 8);
    size_t len = bee_digit(&x, AL_MAXLEN);
    (void)nul;
    V_COUNT("evaluations", 1);
    if (len >= 12 && (o1 & 3) != (o2 & 3)) V_COUNT("nontrivial", 1); /* different lookup3 paths and >= one full block */
    /* two separately allocated blocks, 8-byte aligned by malloc; the key sits at offset o1 / o2 and ends exactly at the
     * end of the block, with its NUL terminator for the C-string form */
    uint8_t *b1 = (uint8_t *)malloc(o1 + len + 1), *b2 = (uint8_t *)malloc(o2 + len + 1);
    for (size_t i = 0; i < len; ++i) b1[o1 + i] = b2[o2 + i] = (uint8_t)(nul ? ('a' + (i * 7 + len) % 26) : (1 + (i * 37 + len * 11) % 255));
    b1[o1 + len] = b2[o2 + len] = 0;
    struct aws_byte_cursor c1 = aws_byte_cursor_from_array(b1 + o1, len), c2 = aws_byte_cursor_from_array(b2 + o2, len);
    char desc[160];
    snprintf(desc, sizeof(desc), "%zu-byte key at address offsets %u and %u (mod 8)", len, o1, o2);
    BEE_CHECK(aws_byte_cursor_eq(&c1, &c2), "eq-matches-bytes", "%s: cursors with identical bytes compare unequal", desc);
    uint64_t h1 = aws_hash_byte_cursor_ptr(&c1), h2 = aws_hash_byte_cursor_ptr(&c2);
    BEE_CHECK(h1 == h2, "equal-keys-hash-differently:alignment", "aws_hash_byte_cursor_ptr: %s hash to %#llx and %#llx", desc, (unsigned long long)h1, (unsigned long long)h2);
    h1 = aws_hash_byte_cursor_ptr_ignore_case(&c1);
    h2 = aws_hash_byte_cursor_ptr_ignore_case(&c2);
    BEE_CHECK(h1 == h2, "equal-keys-hash-differently:alignment", "aws_hash_byte_cursor_ptr_ignore_case: %s hash to %#llx and %#llx", desc, (unsigned long long)h1, (unsigned long long)h2);
    h1 = aws_hash_c_string(b1 + o1);
    h2 = aws_hash_c_string(b2 + o2);
    BEE_CHECK(h1 == h2, "equal-keys-hash-differently:alignment", "aws_hash_c_string: %s hash to %#llx and %#llx", desc, (unsigned long long)h1, (unsigned long long)h2);
    if (o1 != o2) table_check(aws_hash_byte_cursor_ptr, (aws_hash_callback_eq_fn *)aws_byte_cursor_eq, &c1, &c2, true, desc);
    /* the same key as a view into larger storage: what follows the key (here 0xFF bytes, above a NUL) is not part of it
     * (added after a seeded change whose word-at-a-time tail mask let one following byte into the hash) */
    uint8_t *b3 = (uint8_t *)malloc(o1 + len + 8);
    memcpy(b3 + o1, b1 + o1, len);
    memset(b3 + o1 + len, 0xFF, 8);
    struct aws_byte_cursor c3 = aws_byte_cursor_from_array(b3 + o1, len);
    h1 = aws_hash_byte_cursor_ptr(&c1);
    h2 = aws_hash_byte_cursor_ptr(&c3);
    BEE_CHECK(h1 == h2, "equal-keys-hash-differently:following-bytes", "aws_hash_byte_cursor_ptr: %zu-byte key at offset %u (mod 8) hashes to %#llx when a NUL follows it and to %#llx when 0xFF bytes follow it", len, o1,
              (unsigned long long)h1, (unsigned long long)h2);
    h1 = aws_hash_byte_cursor_ptr_ignore_case(&c1);
    h2 = aws_hash_byte_cursor_ptr_ignore_case(&c3);
    BEE_CHECK(h1 == h2, "equal-keys-hash-differently:following-bytes", "aws_hash_byte_cursor_ptr_ignore_case: %zu-byte key at offset %u (mod 8) hashes to %#llx / %#llx depending on the bytes that follow it", len, o1,
              (unsigned long long)h1, (unsigned long long)h2);
    free(b3);
    free(b1);
    free(b2);
}

int main(int argc, char **argv) {
    v_init(argc, argv);
    aws_common_library_init(aws_default_allocator());
    bee_register("hasheq-string", total_pairs6, eval_string, 20);
    bee_register("hasheq-c_string", total_pairs5, eval_cstr, 20);
    bee_register("hasheq-byte_cursor", total_pairs6, eval_cursor, 20);
    bee_register("hasheq-byte_cursor_ignore_case", total_pairs6, eval_cursor_ic, 20);
    bee_register("hasheq-alignment", total_align, eval_align, 20);
    bee_register("hasheq-ptr", total_bound, eval_ptr, 20);
    bee_register("hasheq-uint64", total_bound, eval_u64, 20);
    return bee_main(argc, argv);
}
