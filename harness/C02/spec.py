LEVEL = "model_checking"
RULE = ("BEE part (hasheq): odometer over all ordered pairs (x,y) of byte strings of length <=3 over {a,A,b,B,0x00,0xFF} "
        "(0x00 left out for C strings) as aws_string / C string / byte cursor / case-insensitive byte cursor keys, plus all "
        "pairs from a 20-value pointer and uint64 boundary set; x and y are always separate exact-size heap objects. "
        "non-trivial = the pair's equality function returned true (the antecedent of 'equal keys hash equally' holds).")
HARNESSES = [
    dict(name="map", src=["map.c"], variant="asan", deadline={"quick": 240, "thorough": 1500}),
    dict(name="hasheq", src=["hasheq.c"], variant="asan", deadline={"quick": 120, "thorough": 300}),
]
ASSUMPTIONS = []
