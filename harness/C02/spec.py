LEVEL = "model_checking"
RULE = ("BEE part (hasheq): odometer over all ordered pairs (x,y) of byte strings of length <=3 over {a,A,b,B,0x00,0xFF} "
        "(0x00 left out for C strings) as aws_string / C string / byte cursor / case-insensitive byte cursor keys, plus all "
        "pairs from a 20-value pointer and uint64 boundary set; x and y are always separate exact-size heap objects; each "
        "pair is also used as two keys of a real aws_hash_table built with the (hash, equality) pair under test. "
        "non-trivial = the pair's equality function returned true, i.e. the antecedent of 'equal keys hash equally' holds.")
EXPLANATION = ("ESX part (map): the real aws_hash_table under harness-chosen hash functions, every configuration explored to a "
               "fixpoint (all operation histories of any length over its alphabet); reference association list compared after "
               "every operation: count, find() of all 8 key pointers, slot array contents, structural invariants, per-operation "
               "destructor deltas; iteration with every deletion pattern by visit index.")
HARNESSES = [
    dict(name="map", src=["map.c"], variant="asan", deadline={"quick": 240, "thorough": 1500}, fallback_cflags=["-DNO_WHITEBOX"]),
    dict(name="hasheq", src=["hasheq.c"], variant="asan", deadline={"quick": 120, "thorough": 300}),
    # free-running ThreadSanitizer twin: two threads, each with objects of its own (harness/common/twin.c; samples, decides nothing)
    dict(name="own-objects-tsan", src=["../common/twin.c"], variant="tsan", cflags=["-DTWIN_C02", "-DVSX_FREE_RUNS=6"], deadline={"quick": 60, "thorough": 120}),
]
ASSUMPTIONS = [
    "key universe: key objects k0..k4, twins k0' k1' (equal to k0 / k1 under the equality function, different pointer), the NULL key; "
    "values v0, v1 and the NULL value left by aws_hash_table_create; at most 5 entries live (6 in the thorough-only layout6 "
    "configurations), slot arrays of 2, 4, 8 and 16 slots (initial sizes 0 and 16 in quick; 0,1,2,3,4,5,8,9,16 in thorough)",
    "hash functions: zero (library maps it to code 1), constant 5, identity (k0 and k1 share code 1), last-slot (distinct codes, low "
    "bits all ones: chain spills over the end of the array), two adjacent clusters ..0E/..0F, high-bits-only (home slot 0 at every size); "
    "the NULL key always carries the library's own code",
    "the alphabet is bounded by four profiles, each configuration is run to a FIXPOINT: layout = six identities with one value "
    "(create on k2, twin k0' as lookup key); payload = identities k0 k1 k2 NULL with both twins, both values and create on every "
    "key, <=4 live; full = all eight key objects, v1 only with k0 k0' k1, create only with k0 k2 NULL; pair = two tables with their "
    "own hash function / destructor set / initial size, keys k0 k1 k0' NULL, <=3 live, every single-table operation on table A "
    "plus swap, move in both directions, clean_up (also repeated), init, eq in both directions",
    "find and get_entry_count are not alphabet symbols: they are called for all 8 key pointers after every operation and after "
    "every iterator deletion in the middle of an iteration; clean_up with its destructor deltas runs in every reachable state",
    "iteration: all 2^n deletion patterns by visit index with destroy_contents=false, six patterns with destroy_contents=true, "
    "foreach with CONTINUE / DELETE / stop / ERROR flags; reading (DESIGN section 6): the set visited is exactly the set stored "
    "at aws_hash_iter_begin, each once",
    "reading: put() with the very key pointer that is already stored does not overwrite that key object (it stays in the table): "
    "key destructor expected 0 times, value destructor once; put() with an equal but distinct key object destroys the old key object once",
    "destructor calls are counted per argument pointer including NULL (NULL key, NULL value of a created entry)",
    "not demanded because neither property nor header states it: the return value of remove_element, the number of visits after a "
    "foreach callback returns ITER_DELETE without ITER_CONTINUE, allocator balance, the exact hash code stored for NULL / zero-hash keys",
    "a table grown from 2 slots passes through every state a table initialised with more slots can be in (tables never shrink, "
    "keys can be removed), so initial sizes other than 0 and 16 add only the init path",
    "replayed history prefixes keep the per-operation result checks but skip the whole-state oracle (it ran when the prefix was first "
    "explored; the engine verifies the canonical state after every replay); --replay runs the full oracle at every step",
    "states are de-duplicated on a 128-bit hash of the canonical state (hash compaction)",
]
