/*
 * C02 — aws_hash_table behaves as a map under any operation history (DESIGN §5 C02), ESX part.
 *
 * The REAL aws_hash_table is driven with harness-chosen hash functions (so that every collision / wrap-around /
 * resize layout is produced on purpose) over a bounded key universe:
 *      key objects k0..k4, twins k0' k1' (distinct pointers, equal to k0 / k1 under the equality function) and
 *      the NULL key; value objects v0, v1 and the NULL value left behind by aws_hash_table_create().
 * Reference model: an association list indexed by key identity (present?, which key object, which value).
 * After EVERY operation: same count, same find() answer for all 8 key pointers, slot array == reference
 * (white-box through private/hash_table_impl.h), structural invariants, and the key/value destructor call
 * DELTAS of that one operation equal what the property prescribes for it.
 *
 * Canonical state (m_canon) = per table: valid?, hash function, destructor mode, size, every slot
 * (key object, value id, hash code).  Two histories with the same canonical state have the same futures because
 * the library's behaviour is a function of exactly (callbacks, size, slots[]): entry_count / mask / max_load are
 * checked to be functions of those after every operation, the reference list is checked to be equal to the slot
 * contents after every operation, and destructor counters are compared per operation (deltas), never accumulated.
 * Heap addresses of the table blocks are not part of the state (the oracle never looks at them).
 *
 * Cost device: an expansion replays the stored history before applying the new operation.  Every prefix was
 * already checked in full when it was first explored and replays are deterministic (the engine verifies the
 * canonical hash after the replay), so while replaying a prefix the per-operation result checks stay on but the
 * whole-state oracle (find-all / invariants) and the vacuity counters are skipped; they run for the new
 * operation (engine flag esx_in_replay).  --replay always runs everything.
 */
#include "esx.h"
#include "galloc.h"
#include <aws/common/hash_table.h>
#ifndef NO_WHITEBOX
#    include <aws/common/private/hash_table_impl.h>
#endif

/* ------------------------------------------------------------------ universe ------------------------ */
#define NOBJ 8  /* k0 k1 k2 k3 k4 k0' k1' NULL */
#define NID 6   /* identities 0..4, 5 = the NULL key */
#define OBJ_NULL 7
#define VAL_NULL 2
#define MAXSLOTS 64

struct kobj {
    int id;
    int obj;
};
static struct kobj KO[7] = {{0, 0}, {1, 1}, {2, 2}, {3, 3}, {4, 4}, {0, 5}, {1, 6}};
static int VO[2];
static const char *OBJN[NOBJ] = {"k0", "k1", "k2", "k3", "k4", "k0'", "k1'", "NULL"};
static const char *VALN[3] = {"v0", "v1", "NULLv"};

static const void *KEY(int obj) { return obj == OBJ_NULL ? NULL : (const void *)&KO[obj]; }
static void *VAL(int v) { return v == VAL_NULL ? NULL : (void *)&VO[v]; }
static int ID(int obj) { return obj == OBJ_NULL ? 5 : KO[obj].id; }
static int obj_of(const void *p) {
    if (!p) return OBJ_NULL;
    for (int i = 0; i < 7; ++i)
        if (p == (const void *)&KO[i]) return i;
    return -1;
}
static int val_of(const void *p) {
    if (!p) return VAL_NULL;
    if (p == (void *)&VO[0]) return 0;
    if (p == (void *)&VO[1]) return 1;
    return -1;
}

/* ------------------------------------------------------------------ hash functions ------------------ */
enum { H_ZERO, H_CONST, H_IDENT, H_LAST, H_TWO, H_HIGH, H_NULLCODE, NHASH };
static const char *HASHN[NHASH] = {"zero", "const", "ident", "last", "two", "high", "nullcode"};
static uint64_t raw_hash(int kind, int id) {
    switch (kind) {
        case H_ZERO: return 0;                                             /* library turns 0 into 1 */
        case H_CONST: return 5;                                            /* one chain from slot 1/1/5/5; wraps at size 8 */
        case H_IDENT: return (uint64_t)id;                                 /* k0 -> 0 -> 1 collides with k1 */
        case H_LAST: return ((uint64_t)(id + 1) << 8) | 0xFF;              /* distinct codes, home = last slot, spill to 0.. */
        case H_TWO: return ((uint64_t)id << 8) | ((id & 1) ? 0x0F : 0x0E); /* two adjacent clusters at the end of the array */
        case H_NULLCODE: return 42;                                        /* the fixed code the library gives the NULL key: every key
                                                                              collides with a stored NULL key, hash codes equal (added
                                                                              after a seeded change that passed a stored NULL key on to
                                                                              the user's equality function) */
        default: return (uint64_t)(id + 1) << 61;                          /* only high bits: home 0 for every size */
    }
}
#define DEF_HASH(n, kind)                                                                                        \
    static uint64_t n(const void *k) { return raw_hash(kind, ((const struct kobj *)k)->id); }
DEF_HASH(hf_zero, H_ZERO)
DEF_HASH(hf_const, H_CONST)
DEF_HASH(hf_ident, H_IDENT)
DEF_HASH(hf_last, H_LAST)
DEF_HASH(hf_two, H_TWO)
DEF_HASH(hf_high, H_HIGH)
DEF_HASH(hf_nullcode, H_NULLCODE)
static aws_hash_fn *HF[NHASH] = {hf_zero, hf_const, hf_ident, hf_last, hf_two, hf_high, hf_nullcode};
static bool key_eq(const void *a, const void *b) {
    return ((const struct kobj *)a)->id == ((const struct kobj *)b)->id;
}
static bool value_eq(const void *a, const void *b) { return a == b; } /* only called for two distinct non-NULL values */

/* ------------------------------------------------------------------ destructor observers -------------- */
static int kd[NOBJ + 1], vd[4];   /* calls seen during the current operation, per argument */
static int ekd[NOBJ + 1], evd[4]; /* calls the reference predicts for the current operation */
static void dk(void *p) {
    int o = obj_of(p);
    kd[o < 0 ? NOBJ : o]++;
}
static void dv(void *p) {
    int v = val_of(p);
    vd[v < 0 ? 3 : v]++;
}

/* ------------------------------------------------------------------ configuration ------------------- */
struct cfg {
    char name[80];
    int hash[2];
    size_t init_size[2];
    int dtor[2]; /* bit0 key destructor, bit1 value destructor */
    int pair;    /* second table + swap/move/clean_up/init/eq */
    int max_live;
    unsigned put0, put1, create, lookup; /* masks over key objects */
};
static struct cfg g;

/* ------------------------------------------------------------------ objects + reference -------------- */
struct refent {
    bool present;
    int obj, val;
};
struct reftab {
    bool valid;
    int hash, dtor;
    struct refent e[NID];
};
static struct aws_hash_table T[2];
static struct reftab R[2];
static bool g_light;

static int rcount(const struct reftab *r) {
    int n = 0;
    for (int i = 0; i < NID; ++i) n += r->e[i].present;
    return n;
}
static void rclear(struct reftab *r) {
    for (int i = 0; i < NID; ++i) r->e[i].present = false;
}
static void expect_destroy(const struct reftab *r, int id) {
    if (r->dtor & 1) ekd[r->e[id].obj]++;
    if (r->dtor & 2) evd[r->e[id].val]++;
}
static void table_init(int t, int which) {
    struct aws_allocator *a = galloc_get(0, 0);
    int d = g.dtor[which];
    if (aws_hash_table_init(&T[t], a, g.init_size[which], HF[g.hash[which]], key_eq, (d & 1) ? dk : NULL, (d & 2) ? dv : NULL)) {
        fprintf(stderr, "aws_hash_table_init failed\n");
        _exit(2);
    }
    R[t].valid = true;
    R[t].hash = g.hash[which];
    R[t].dtor = d;
    rclear(&R[t]);
}

/* ------------------------------------------------------------------ operations ------------------------ */
enum { K_PUT, K_CREATE, K_REMOVE, K_REMOVE_ELEM, K_CLEAR, K_ITER, K_FOREACH, K_SWAP, K_MOVE_AB, K_MOVE_BA, K_CLEANUP, K_INIT, K_EQ };
enum { TERM_NONE, TERM_STOP, TERM_DELETE_STOP, TERM_ERROR, TERM_ERROR_DELETE };
struct opd {
    uint8_t kind, a, b, c;
};
static struct opd g_ops[256];
static int g_nops;
static void add_op(int kind, int a, int b, int c) {
    if (g_nops >= 256) _exit(2);
    g_ops[g_nops].kind = (uint8_t)kind;
    g_ops[g_nops].a = (uint8_t)a;
    g_ops[g_nops].b = (uint8_t)b;
    g_ops[g_nops].c = (uint8_t)c;
    ++g_nops;
}
static void build_ops(void) {
    g_nops = 0;
    for (int o = 0; o < NOBJ; ++o)
        if (g.put0 >> o & 1) add_op(K_PUT, o, 0, 0);
    for (int o = 0; o < NOBJ; ++o)
        if (g.put1 >> o & 1) add_op(K_PUT, o, 1, 0);
    for (int o = 0; o < NOBJ; ++o)
        if (g.create >> o & 1) add_op(K_CREATE, o, 0, 0);
    for (int v = 0; v < 2; ++v) /* 0: no out-parameter (destructors run), 1: element returned (they do not) */
        for (int o = 0; o < NOBJ; ++o)
            if (g.lookup >> o & 1) add_op(K_REMOVE, o, v, 0);
    for (int o = 0; o < NOBJ; ++o)
        if (g.lookup >> o & 1) add_op(K_REMOVE_ELEM, o, 0, 0);
    add_op(K_CLEAR, 0, 0, 0);
    /* iteration; bit i of the mask = delete the i-th visited entry.  All 2^n patterns for n live entries. */
    for (int m = 0; m < (1 << g.max_live); ++m) add_op(K_ITER, m, 0, 0);
    static const int tm[] = {0x3F, 0x01, 0x15, 0x2A, 0x30, 0x3E}; /* with destroy_contents = true */
    for (int i = 0; i < 6; ++i) add_op(K_ITER, tm[i], 1, 0);
    static const int fm[] = {0x00, 0x3F, 0x15, 0x2A};
    for (int i = 0; i < 4; ++i) add_op(K_FOREACH, fm[i], TERM_NONE, 0);
    for (int term = TERM_STOP; term <= TERM_ERROR_DELETE; ++term)
        for (int t = 0; t < 2; ++t)
            for (int i = 0; i < 2; ++i) add_op(K_FOREACH, fm[i], term, t);
    if (g.pair) {
        add_op(K_SWAP, 0, 0, 0);
        add_op(K_MOVE_AB, 0, 0, 0);
        add_op(K_MOVE_BA, 0, 0, 0);
        add_op(K_CLEANUP, 0, 0, 0);
        add_op(K_INIT, 0, 0, 0);
        add_op(K_EQ, 0, 0, 0);
    }
}

static void m_opname(int op, char *buf, size_t cap) {
    const struct opd *d = &g_ops[op];
    static const char *TN[] = {"", "stop", "DELETE-and-stop", "ERROR", "ERROR|DELETE|CONTINUE"};
    switch (d->kind) {
        case K_PUT: snprintf(buf, cap, "put(%s,%s)", OBJN[d->a], VALN[d->b]); break;
        case K_CREATE: snprintf(buf, cap, "create(%s)", OBJN[d->a]); break;
        case K_REMOVE: snprintf(buf, cap, d->b ? "remove(%s,&elem)" : "remove(%s,NULL)", OBJN[d->a]); break;
        case K_REMOVE_ELEM: snprintf(buf, cap, "remove_element(find(%s))", OBJN[d->a]); break;
        case K_CLEAR: snprintf(buf, cap, "clear"); break;
        case K_ITER: snprintf(buf, cap, "iterate(delete-visits=0x%02x,destroy=%d)", d->a, d->b); break;
        case K_FOREACH:
            if (d->b == TERM_NONE)
                snprintf(buf, cap, "foreach(delete-visits=0x%02x)", d->a);
            else
                snprintf(buf, cap, "foreach(delete-visits=0x%02x,%s@visit%d)", d->a, TN[d->b], d->c);
            break;
        case K_SWAP: snprintf(buf, cap, "swap(A,B)"); break;
        case K_MOVE_AB: snprintf(buf, cap, "move(to=B,from=A)"); break;
        case K_MOVE_BA: snprintf(buf, cap, "move(to=A,from=B)"); break;
        case K_CLEANUP: snprintf(buf, cap, "clean_up(A)"); break;
        case K_INIT: snprintf(buf, cap, "init(A)"); break;
        case K_EQ: snprintf(buf, cap, "eq(A,B)"); break;
        default: snprintf(buf, cap, "op%d", op);
    }
}

static bool m_enabled(int op) {
    const struct opd *d = &g_ops[op];
    int n = R[0].valid ? rcount(&R[0]) : 0;
    switch (d->kind) {
        case K_PUT:
        case K_CREATE: return R[0].valid && (R[0].e[ID(d->a)].present || n < g.max_live);
        case K_REMOVE:
        case K_CLEAR: return R[0].valid;
        case K_REMOVE_ELEM: return R[0].valid && R[0].e[ID(d->a)].present; /* needs an element returned by find() */
        case K_ITER:
            if (!R[0].valid) return false;
            if (d->b == 0) return d->a < (1u << n);     /* one op per distinct deletion pattern */
            return (d->a & ((1u << n) - 1)) != 0;
        case K_FOREACH:
            if (!R[0].valid) return false;
            if (d->b != TERM_NONE && n <= d->c) return false;
            return d->a == 0 || (d->a & ((1u << n) - 1)) != 0;
        case K_SWAP: return true;                              /* header: neither table needs to be initialised */
        case K_MOVE_AB: return R[0].valid && !R[1].valid;      /* 'to' must be uninitialised or cleaned up */
        case K_MOVE_BA: return R[1].valid && !R[0].valid;
        case K_CLEANUP: return true;                           /* idempotent */
        case K_INIT: return !R[0].valid;
        case K_EQ: return R[0].valid && R[1].valid;
    }
    return false;
}

/* ------------------------------------------------------------------ whole-state oracle ---------------- */
#ifndef NO_WHITEBOX
struct snap {
    bool valid;
    size_t size;
    struct hash_table_entry s[MAXSLOTS];
};
static void take_snap(struct snap *sn, int t) {
    sn->valid = false;
    if (!R[t].valid || !T[t].p_impl) return;
    struct hash_table_state *st = T[t].p_impl;
    if (st->size > MAXSLOTS) return;
    sn->valid = true;
    sn->size = st->size;
    memcpy(sn->s, st->slots, st->size * sizeof(struct hash_table_entry));
}
static int snap_slot_of(const struct snap *sn, int id) {
    for (size_t i = 0; i < sn->size; ++i)
        if (sn->s[i].hash_code) {
            int o = obj_of(sn->s[i].element.key);
            if (o >= 0 && ID(o) == id) return (int)i;
        }
    return -1;
}
static const char *dump_table(int t) {
    static char b[1200];
    size_t o = 0;
    struct hash_table_state *st = T[t].p_impl;
    if (!st) return "(no table)";
    o += (size_t)snprintf(b + o, sizeof(b) - o, "size=%zu count=%zu [", st->size, st->entry_count);
    for (size_t i = 0; i < st->size && i < 16 && o + 60 < sizeof(b); ++i) {
        struct hash_table_entry *e = &st->slots[i];
        if (!e->hash_code)
            o += (size_t)snprintf(b + o, sizeof(b) - o, " -");
        else {
            int ob = obj_of(e->element.key), v = val_of(e->element.value);
            o += (size_t)snprintf(b + o, sizeof(b) - o, " %s=%s#%" PRIx64, ob < 0 ? "??" : OBJN[ob], v < 0 ? "??" : VALN[v], e->hash_code);
        }
    }
    snprintf(b + o, sizeof(b) - o, " ]");
    return b;
}
#else
/* fallback build (-DNO_WHITEBOX, chosen by the driver when hash_table_impl.h no longer has the shape the white-box part
 * expects): the table is observed through its public iterator only - slot positions become positions in iteration order,
 * the structural clauses and the slot-level vacuity counters are not available, the run is reported as degraded */
struct snap {
    bool valid;
    size_t size;
    int obj[MAXSLOTS], val[MAXSLOTS];
};
static void take_snap(struct snap *sn, int t) {
    sn->valid = false;
    if (!R[t].valid || !T[t].p_impl) return;
    sn->size = 0;
    for (struct aws_hash_iter it = aws_hash_iter_begin(&T[t]); !aws_hash_iter_done(&it) && sn->size < MAXSLOTS; aws_hash_iter_next(&it)) {
        sn->obj[sn->size] = obj_of(it.element.key);
        sn->val[sn->size] = val_of(it.element.value);
        sn->size++;
    }
    sn->valid = true;
}
static int snap_slot_of(const struct snap *sn, int id) {
    for (size_t i = 0; i < sn->size; ++i)
        if (sn->obj[i] >= 0 && ID(sn->obj[i]) == id) return (int)i;
    return -1;
}
static const char *dump_table(int t) {
    static char b[1200];
    size_t o = 0;
    if (!T[t].p_impl) return "(no table)";
    struct snap sn;
    take_snap(&sn, t);
    o += (size_t)snprintf(b + o, sizeof(b) - o, "count=%zu iteration order [", aws_hash_table_get_entry_count(&T[t]));
    for (size_t i = 0; i < sn.size && i < 16 && o + 60 < sizeof(b); ++i)
        o += (size_t)snprintf(b + o, sizeof(b) - o, " %s=%s", sn.obj[i] < 0 ? "??" : OBJN[sn.obj[i]], sn.val[i] < 0 ? "??" : VALN[sn.val[i]]);
    snprintf(b + o, sizeof(b) - o, " ]");
    return b;
}
#endif
static const char *dump_ref(int t) {
    static char b[300];
    size_t o = 0;
    b[0] = 0;
    for (int i = 0; i < NID; ++i)
        if (R[t].e[i].present) o += (size_t)snprintf(b + o, sizeof(b) - o, " %s=%s", OBJN[R[t].e[i].obj], VALN[R[t].e[i].val]);
    return b;
}

static void check_table(int t, const char *after) {
    const char *tn = t ? "B" : "A";
    if (!R[t].valid) {
        ESX_CHECK(T[t].p_impl == NULL, "cleaned-up-state", "after %s: table %s should be in the cleaned-up state but p_impl is not NULL", after, tn);
        return;
    }
#ifndef NO_WHITEBOX
    struct hash_table_state *st = T[t].p_impl;
    ESX_CHECK(st != NULL, "lost-table", "after %s: table %s has no state", after, tn);
    if (esx_failed) return;
    const struct reftab *r = &R[t];
    int n = rcount(r);
    /* --- structural invariants (white box) --- */
    ESX_CHECK(st->size >= 2 && (st->size & (st->size - 1)) == 0, "inv-size", "after %s: size %zu is not a power of two >= 2", after, st->size);
    ESX_CHECK(st->size <= MAXSLOTS, "size-out-of-model", "after %s: %zu slots for <= %d entries", after, st->size, g.max_live);
    if (esx_failed) return;
    ESX_CHECK(st->mask == st->size - 1, "inv-mask", "after %s: mask %zu with size %zu", after, st->mask, st->size);
    ESX_CHECK(st->max_load < st->size, "inv-max-load", "after %s: max_load %zu leaves no empty slot in %zu", after, st->max_load, st->size);
    ESX_CHECK(st->entry_count <= st->max_load, "inv-load", "after %s: entry_count %zu above max_load %zu", after, st->entry_count, st->max_load);
    size_t occ = 0;
    bool seen[NID] = {false};
    for (size_t i = 0; i < st->size && !esx_failed; ++i) {
        struct hash_table_entry *e = &st->slots[i];
        if (!e->hash_code) continue;
        ++occ;
        int ob = obj_of(e->element.key), v = val_of(e->element.value);
        ESX_CHECK(ob >= 0 && v >= 0, "contents", "after %s: slot %zu holds a key/value pointer nobody stored; %s", after, i, dump_table(t));
        if (esx_failed) return;
        int id = ID(ob);
        ESX_CHECK(r->e[id].present, "contents", "after %s: slot %zu holds %s which the reference map does not contain (reference:%s); %s", after, i, OBJN[ob], dump_ref(t), dump_table(t));
        ESX_CHECK(!seen[id], "duplicate-key", "after %s: key %s is stored twice; %s", after, OBJN[ob], dump_table(t));
        if (esx_failed) return;
        seen[id] = true;
        ESX_CHECK(r->e[id].obj == ob, "contents-key-object", "after %s: slot %zu stores key object %s, reference says %s", after, i, OBJN[ob], OBJN[r->e[id].obj]);
        ESX_CHECK(r->e[id].val == v, "contents-value", "after %s: %s maps to %s, reference says %s; %s", after, OBJN[ob], VALN[v], VALN[r->e[id].val], dump_table(t));
        /* the probe sequence of a key starts at hash_fn(key) & mask; for the NULL key and for a zero hash the library
         * substitutes a code of its own choosing (only "never 0" is demanded), so the stored code names the home slot */
        uint64_t raw = id == 5 ? 0 : raw_hash(r->hash, id);
        size_t home = (size_t)((raw ? raw : e->hash_code) & st->mask);
        for (size_t j = home; j != i && !esx_failed; j = (j + 1) & st->mask)
            ESX_CHECK(st->slots[j].hash_code != 0, "inv-probe-chain", "after %s: %s in slot %zu is cut off from its home slot %zu by empty slot %zu; %s", after, OBJN[ob], i, home, j, dump_table(t));
    }
    if (esx_failed) return;
    ESX_CHECK(st->entry_count == occ, "inv-entry-count", "after %s: entry_count %zu but %zu occupied slots; %s", after, st->entry_count, occ, dump_table(t));
    ESX_CHECK(occ == (size_t)n, "contents-count", "after %s: %zu occupied slots, reference holds %d (%s); %s", after, occ, n, dump_ref(t), dump_table(t));
#else
    ESX_CHECK(T[t].p_impl != NULL, "lost-table", "after %s: table %s has no state", after, tn);
    if (esx_failed) return;
    const struct reftab *r = &R[t];
    int n = rcount(r);
    {
        struct snap sn;
        take_snap(&sn, t);
        bool seen[NID] = {false};
        for (size_t i = 0; i < sn.size && !esx_failed; ++i) {
            int ob = sn.obj[i], v = sn.val[i];
            ESX_CHECK(ob >= 0 && v >= 0, "contents", "after %s: entry %zu holds a key/value pointer nobody stored; %s", after, i, dump_table(t));
            if (esx_failed) return;
            int id = ID(ob);
            ESX_CHECK(r->e[id].present, "contents", "after %s: the table holds %s which the reference map does not contain (reference:%s); %s", after, OBJN[ob], dump_ref(t), dump_table(t));
            ESX_CHECK(!seen[id], "duplicate-key", "after %s: key %s is stored twice; %s", after, OBJN[ob], dump_table(t));
            if (esx_failed) return;
            seen[id] = true;
            ESX_CHECK(r->e[id].obj == ob, "contents-key-object", "after %s: the table stores key object %s, reference says %s", after, OBJN[ob], OBJN[r->e[id].obj]);
            ESX_CHECK(r->e[id].val == v, "contents-value", "after %s: %s maps to %s, reference says %s; %s", after, OBJN[ob], VALN[v], VALN[r->e[id].val], dump_table(t));
        }
        if (esx_failed) return;
        ESX_CHECK(sn.size == (size_t)n, "contents-count", "after %s: iteration presents %zu entries, reference holds %d (%s); %s", after, sn.size, n, dump_ref(t), dump_table(t));
    }
#endif
    /* --- public API --- */
    size_t cnt = aws_hash_table_get_entry_count(&T[t]);
    ESX_CHECK(cnt == (size_t)n, "count", "after %s: get_entry_count %zu, reference %d", after, cnt, n);
    for (int ob = 0; ob < NOBJ && !esx_failed; ++ob) {
        struct aws_hash_element *el = (struct aws_hash_element *)(uintptr_t)0x1;
        int rc = aws_hash_table_find(&T[t], KEY(ob), &el);
        int id = ID(ob);
        ESX_CHECK(rc == AWS_OP_SUCCESS, "find-result", "find(%s) returned %d", OBJN[ob], rc);
        if (r->e[id].present) {
            ESX_CHECK(el != NULL, "find-stored-key", "after %s: find(%s) does not find a stored key (reference:%s); %s", after, OBJN[ob], dump_ref(t), dump_table(t));
            if (el) {
                ESX_CHECK(el->key == KEY(r->e[id].obj), "find-key-object", "after %s: find(%s) returns key object %p", after, OBJN[ob], el->key);
                ESX_CHECK(el->value == VAL(r->e[id].val), "find-value", "after %s: find(%s) returns value %s, reference %s", after, OBJN[ob], val_of(el->value) < 0 ? "??" : VALN[val_of(el->value)], VALN[r->e[id].val]);
            }
        } else {
            ESX_CHECK(el == NULL, "find-absent-key", "after %s: find(%s) finds a key that is not stored; %s", after, OBJN[ob], dump_table(t));
        }
        V_COUNT("find_checks", 1);
    }
}
static void check_all(const char *after) {
    check_table(0, after);
    if (g.pair && !esx_failed) check_table(1, after);
}
static void check_dtors(const char *after) {
    for (int i = 0; i <= NOBJ && !esx_failed; ++i)
        ESX_CHECK(kd[i] == ekd[i], "destructor-key", "%s: key destructor ran %d time(s) on %s, the property prescribes %d", after, kd[i], i < NOBJ ? OBJN[i] : "an unknown pointer", ekd[i]);
    for (int i = 0; i < 4 && !esx_failed; ++i)
        ESX_CHECK(vd[i] == evd[i], "destructor-value", "%s: value destructor ran %d time(s) on %s, the property prescribes %d", after, vd[i], i < 3 ? VALN[i] : "an unknown pointer", evd[i]);
}

/* vacuity evidence: what did this removal / insertion do to the slot array */
#ifndef NO_WHITEBOX
static void classify_change(const struct snap *before, int t, bool insert, int id) {
    struct snap after;
    take_snap(&after, t);
    if (!before->valid || !after.valid) return;
    if (after.size != before->size) {
        V_COUNT("resizes", 1);
        if (after.size == 16) V_COUNT("resizes_to_16", 1);
        return;
    }
    int moved = 0, wrapped = 0;
    for (int i = 0; i < NID; ++i) {
        int a = snap_slot_of(before, i), b = snap_slot_of(&after, i);
        if (a >= 0 && b >= 0 && a != b) {
            ++moved;
            if (a == 0 && b == (int)after.size - 1) wrapped = 1;
        }
    }
    if (insert) {
        int s = snap_slot_of(&after, id);
        if (s < 0) return;
        uint64_t code = after.s[s].hash_code;
        V_COUNT("inserts", 1);
        if (before->s[code & (after.size - 1)].hash_code) V_COUNT("inserts_home_slot_taken", 1);
        if (moved) V_COUNT("inserts_evicting_robin_hood", 1);
        if ((size_t)s < (code & (after.size - 1))) V_COUNT("inserts_wrapped_past_end", 1);
        for (size_t i = 0; i < before->size; ++i)
            if (before->s[i].hash_code == code) {
                V_COUNT("inserts_same_hash_code_collision", 1);
                break;
            }
    } else {
        V_COUNT("removals", 1);
        if (moved) V_COUNT("backward_shift_deletes", 1);
        if (wrapped) V_COUNT("wraparound_shift_deletes", 1);
    }
}
#else
static void classify_change(const struct snap *before, int t, bool insert, int id) {
    (void)before, (void)t, (void)insert, (void)id; /* slot-level vacuity counters need the private layout */
}
#endif

/* ------------------------------------------------------------------ iteration ------------------------ */
struct itctx {
    bool at_begin[NID], visited[NID];
    int visits, mask, term, term_at, deleted;
    bool foreach;
};
static struct itctx ic;
static void it_begin(int mask, int term, int term_at, bool foreach) {
    memset(&ic, 0, sizeof(ic));
    for (int i = 0; i < NID; ++i) ic.at_begin[i] = R[0].e[i].present;
    ic.mask = mask;
    ic.term = term;
    ic.term_at = term_at;
    ic.foreach = foreach;
}
/* one visited element; returns identity or -1 */
static int it_visit(const struct aws_hash_element *el, const char *what) {
    int ob = obj_of(el->key), v = val_of(el->value);
    ESX_CHECK(ob >= 0, "iter-element", "%s: visit %d yields a key pointer nobody stored", what, ic.visits);
    if (esx_failed) return -1;
    int id = ID(ob);
    ESX_CHECK(ic.at_begin[id], "iter-stranger", "%s: visit %d yields %s which was not stored when the iteration began", what, ic.visits, OBJN[ob]);
    ESX_CHECK(!ic.visited[id], "iter-twice", "%s: %s visited a second time (visit %d); %s", what, OBJN[ob], ic.visits, dump_table(0));
    if (esx_failed) return -1;
    ESX_CHECK(R[0].e[id].present, "iter-deleted-entry", "%s: visit %d yields %s which this iteration already deleted", what, ic.visits, OBJN[ob]);
    ESX_CHECK(R[0].e[id].obj == ob && R[0].e[id].val == v, "iter-element", "%s: visit %d yields (%s,%s), stored is (%s,%s)", what, ic.visits, OBJN[ob], v < 0 ? "??" : VALN[v], OBJN[R[0].e[id].obj], VALN[R[0].e[id].val]);
    ic.visited[id] = true;
    return esx_failed ? -1 : id;
}
static void it_end(const char *what, bool complete) {
    if (esx_failed || !complete) return;
    for (int i = 0; i < NID; ++i)
        ESX_CHECK(!ic.at_begin[i] || ic.visited[i], "iter-missed", "%s: entry with key identity %d (%s) was stored at begin but never visited (%d visits); %s", what, i, i == 5 ? "NULL" : OBJN[i], ic.visits, dump_table(0));
}

static void do_iter(int mask, bool destroy, const char *what) {
    it_begin(mask, TERM_NONE, 0, false);
    struct aws_hash_iter it = aws_hash_iter_begin(&T[0]);
    for (; !aws_hash_iter_done(&it); aws_hash_iter_next(&it)) {
        if (ic.visits >= 40) {
            esx_fail("iter-endless", "%s: more than 40 visits over %d entries", what, rcount(&R[0]));
            return;
        }
        int id = it_visit(&it.element, what);
        if (id < 0) return;
        if (mask >> ic.visits & 1) {
            struct snap before;
            size_t limit0 = it.limit, slot0 = it.slot;
            if (!g_light) take_snap(&before, 0);
            if (destroy) expect_destroy(&R[0], id);
            aws_hash_iter_delete(&it, destroy);
            R[0].e[id].present = false;
            ic.deleted++;
            if (!g_light) {
                V_COUNT("iter_deletes", 1);
                if (it.limit != limit0) V_COUNT("iter_limit_adjusts", 1);
                if (slot0 == 0) V_COUNT("iter_deletes_in_slot0", 1);
#ifndef NO_WHITEBOX
                if (before.valid) {
                    /* the backward shift of this deletion crossed the end of the slot array */
                    size_t last = before.size - 1;
                    bool chain_to_end = true;
                    for (size_t j = slot0 + 1; j <= last; ++j)
                        if (!before.s[j].hash_code || (before.s[j].hash_code & last) == j) chain_to_end = false;
                    if (chain_to_end && before.s[0].hash_code && (before.s[0].hash_code & last) != 0) V_COUNT("iter_deletes_wraparound", 1);
                }
#endif
                classify_change(&before, 0, false, id);
                check_dtors(what);          /* destructor calls so far */
                if (!esx_failed) check_all(what); /* the table is a consistent map in the middle of the iteration too */
                if (esx_failed) return;
            }
        }
        ic.visits++;
    }
    it_end(what, true);
}

static int foreach_cb(void *ctx, struct aws_hash_element *el) {
    (void)ctx;
    if (esx_failed) return 0;
    if (ic.visits >= 40) {
        esx_fail("iter-endless", "foreach: more than 40 visits");
        return 0;
    }
    int id = it_visit(el, "foreach");
    if (id < 0) return 0;
    int v = ic.visits++;
    if (ic.term != TERM_NONE && v == ic.term_at) {
        switch (ic.term) {
            case TERM_STOP: return 0;
            case TERM_DELETE_STOP:
                R[0].e[id].present = false;
                ic.deleted++;
                return AWS_COMMON_HASH_TABLE_ITER_DELETE;
            case TERM_ERROR: return AWS_COMMON_HASH_TABLE_ITER_ERROR;
            default: return AWS_COMMON_HASH_TABLE_ITER_ERROR | AWS_COMMON_HASH_TABLE_ITER_DELETE | AWS_COMMON_HASH_TABLE_ITER_CONTINUE;
        }
    }
    if (ic.mask >> v & 1) {
        R[0].e[id].present = false; /* ITER_DELETE: removed, destroy_fn NOT invoked */
        ic.deleted++;
        return AWS_COMMON_HASH_TABLE_ITER_CONTINUE | AWS_COMMON_HASH_TABLE_ITER_DELETE;
    }
    return AWS_COMMON_HASH_TABLE_ITER_CONTINUE;
}
static void do_foreach(int mask, int term, int term_at, const char *what) {
    it_begin(mask, term, term_at, true);
    int n0 = rcount(&R[0]);
    aws_reset_error();
    int rc = aws_hash_table_foreach(&T[0], foreach_cb, NULL);
    if (esx_failed) return;
    bool stopped = term != TERM_NONE && n0 > term_at;
    if (stopped && (term == TERM_ERROR || term == TERM_ERROR_DELETE))
        ESX_CHECK(rc == AWS_OP_ERR, "foreach-error-result", "%s: callback returned ITER_ERROR but foreach returned %d", what, rc);
    else
        ESX_CHECK(rc == AWS_OP_SUCCESS, "foreach-result", "%s: returned %d", what, rc);
    /* a return value without ITER_CONTINUE stops the iteration; for a bare ITER_DELETE the header is of two minds
     * ("deletes ... and continues" / "if CONTINUE is not set, iteration stops"), so no visit count is demanded there */
    if (stopped && term != TERM_DELETE_STOP)
        ESX_CHECK(ic.visits == term_at + 1, "foreach-stop", "%s: callback asked to stop at visit %d but was called %d times", what, term_at, ic.visits);
    it_end(what, !stopped);
    if (!g_light && ic.deleted) V_COUNT("foreach_deletes", ic.deleted);
}

/* ------------------------------------------------------------------ reset / apply -------------------- */
static void m_reset(void) {
    galloc_reset();
    AWS_ZERO_STRUCT(T[0]);
    AWS_ZERO_STRUCT(T[1]);
    memset(R, 0, sizeof(R));
    table_init(0, 0);
    if (g.pair) table_init(1, 1);
    memset(kd, 0, sizeof(kd));
    memset(vd, 0, sizeof(vd));
}

static void m_apply(int op) {
    const struct opd *d = &g_ops[op];
    char nm[96];
    m_opname(op, nm, sizeof(nm));
    g_light = esx_in_replay != 0; /* 0 for the new transition and for every step of --replay */
    memset(kd, 0, sizeof(kd));
    memset(vd, 0, sizeof(vd));
    memset(ekd, 0, sizeof(ekd));
    memset(evd, 0, sizeof(evd));
    struct snap before;
    before.valid = false;
    if (!g_light) take_snap(&before, 0);
    struct reftab *r = &R[0];
    bool key_op = d->kind == K_PUT || d->kind == K_CREATE || d->kind == K_REMOVE || d->kind == K_REMOVE_ELEM;
    int id = key_op ? ID(d->a) : 0;
    struct refent *e = &r->e[id];
    bool was = e->present;
    int changed = 0; /* 1 insert, 2 removal */

    switch (d->kind) {
        case K_PUT: {
            int wc = -7;
            int *pwc = (d->a == 3 || d->a == 6) ? NULL : &wc; /* was_created may be NULL */
            if (was) {
                /* overwritten entry: old value destroyed; old key object destroyed unless it is the very pointer being
                 * stored again (reading: a key object that stays in the table is not an overwritten one) */
                if (e->obj != d->a) {
                    if (r->dtor & 1) ekd[e->obj]++;
                    if (!g_light) V_COUNT("overwrites_replacing_key_object", 1);
                } else if (!g_light) {
                    V_COUNT("overwrites_same_key_pointer", 1);
                }
                if (r->dtor & 2) evd[e->val]++;
                if (!g_light) V_COUNT("overwrites", 1);
            }
            int rc = aws_hash_table_put(&T[0], KEY(d->a), VAL(d->b), pwc);
            ESX_CHECK(rc == AWS_OP_SUCCESS, "put-result", "%s returned %d", nm, rc);
            if (pwc) ESX_CHECK(wc == (was ? 0 : 1), "put-was-created", "%s: was_created=%d but the key was %s", nm, wc, was ? "present" : "absent");
            e->present = true;
            e->obj = d->a;
            e->val = d->b;
            if (!was) changed = 1;
            break;
        }
        case K_CREATE: {
            struct aws_hash_element *el = NULL;
            int wc = -7;
            int rc = aws_hash_table_create(&T[0], KEY(d->a), &el, &wc);
            ESX_CHECK(rc == AWS_OP_SUCCESS && el != NULL, "create-result", "%s returned %d, element %p", nm, rc, (void *)el);
            if (esx_failed) return;
            ESX_CHECK(wc == (was ? 0 : 1), "create-was-created", "%s: was_created=%d but the key was %s", nm, wc, was ? "present" : "absent");
            if (was) {
                ESX_CHECK(el->key == KEY(e->obj) && el->value == VAL(e->val), "create-existing-element", "%s: element returned is not the stored (%s,%s)", nm, OBJN[e->obj], VALN[e->val]);
            } else {
                ESX_CHECK(el->key == KEY(d->a) && el->value == NULL, "create-new-element", "%s: new element is not (%s,NULL)", nm, OBJN[d->a]);
                e->present = true;
                e->obj = d->a;
                e->val = VAL_NULL;
                changed = 1;
            }
            break;
        }
        case K_REMOVE: {
            int wp = -7;
            struct aws_hash_element out = {(const void *)(uintptr_t)0x11, (void *)(uintptr_t)0x22};
            int rc;
            if (d->b == 0) {
                if (was) expect_destroy(r, id);
                rc = aws_hash_table_remove(&T[0], KEY(d->a), NULL, &wp);
                ESX_CHECK(wp == (was ? 1 : 0), "remove-was-present", "%s: was_present=%d but the key was %s", nm, wp, was ? "present" : "absent");
            } else {
                rc = aws_hash_table_remove(&T[0], KEY(d->a), &out, NULL);
                if (was) ESX_CHECK(out.key == KEY(e->obj) && out.value == VAL(e->val), "remove-out-element", "%s: element handed back is not the stored (%s,%s)", nm, OBJN[e->obj], VALN[e->val]);
            }
            ESX_CHECK(rc == AWS_OP_SUCCESS, "remove-result", "%s returned %d", nm, rc);
            if (was) changed = 2;
            e->present = false;
            if (!g_light && d->a == OBJ_NULL) V_COUNT("null_key_removes", 1);
            break;
        }
        case K_REMOVE_ELEM: {
            struct aws_hash_element *el = NULL;
            aws_hash_table_find(&T[0], KEY(d->a), &el);
            ESX_CHECK(el != NULL, "find-stored-key", "%s: find does not find a stored key; %s", nm, dump_table(0));
            if (esx_failed) return;
            aws_hash_table_remove_element(&T[0], el);
            e->present = false;
            changed = 2;
            break;
        }
        case K_CLEAR:
            for (int i = 0; i < NID; ++i)
                if (r->e[i].present) expect_destroy(r, i);
            aws_hash_table_clear(&T[0]);
            rclear(r);
            if (!g_light) V_COUNT("clears", 1);
            break;
        case K_ITER:
            do_iter(d->a, d->b != 0, nm);
            if (!g_light) V_COUNT("iterations", 1);
            break;
        case K_FOREACH:
            do_foreach(d->a, d->b, d->c, nm);
            if (!g_light) V_COUNT("foreach_calls", 1);
            break;
        case K_SWAP: {
            aws_hash_table_swap(&T[0], &T[1]);
            struct reftab tmp = R[0];
            R[0] = R[1];
            R[1] = tmp;
            if (!g_light) V_COUNT("swaps", 1);
            break;
        }
        case K_MOVE_AB:
        case K_MOVE_BA: {
            int from = d->kind == K_MOVE_AB ? 0 : 1, to = 1 - from;
            aws_hash_table_move(&T[to], &T[from]);
            R[to] = R[from];
            memset(&R[from], 0, sizeof(R[from]));
            if (!g_light) V_COUNT("moves", 1);
            break;
        }
        case K_CLEANUP:
            if (r->valid)
                for (int i = 0; i < NID; ++i)
                    if (r->e[i].present) expect_destroy(r, i);
            aws_hash_table_clean_up(&T[0]);
            memset(r, 0, sizeof(*r));
            if (!g_light) V_COUNT("clean_ups", 1);
            break;
        case K_INIT: table_init(0, 0); break;
        case K_EQ: {
            bool want = true;
            for (int i = 0; i < NID; ++i) {
                if (R[0].e[i].present != R[1].e[i].present) want = false;
                else if (R[0].e[i].present && R[0].e[i].val != R[1].e[i].val) want = false;
            }
            bool ab = aws_hash_table_eq(&T[0], &T[1], value_eq), ba = aws_hash_table_eq(&T[1], &T[0], value_eq);
            ESX_CHECK(ab == want, "eq", "eq(A,B) = %d; A:%s  B:%s", ab, dump_ref(0), dump_ref(1));
            ESX_CHECK(ba == want, "eq", "eq(B,A) = %d; A:%s  B:%s", ba, dump_ref(0), dump_ref(1));
            if (!g_light) {
                V_COUNT("eq_calls", 2);
                if (want) V_COUNT("eq_true", 2);
            }
            break;
        }
    }
    if (esx_failed) return;
    check_dtors(nm);
    if (esx_failed || g_light) return;
    if (changed) classify_change(&before, 0, changed == 1, id);
    check_all(nm);
}

static void m_teardown(void) {
    /* clean_up: every entry still stored is destroyed exactly once; runs after every expansion, i.e. in every reachable state */
    for (int t = 0; t < 2 && !esx_failed; ++t) {
        if (!R[t].valid) continue;
        memset(kd, 0, sizeof(kd));
        memset(vd, 0, sizeof(vd));
        memset(ekd, 0, sizeof(ekd));
        memset(evd, 0, sizeof(evd));
        for (int i = 0; i < NID; ++i)
            if (R[t].e[i].present) expect_destroy(&R[t], i);
        aws_hash_table_clean_up(&T[t]);
        R[t].valid = false;
        check_dtors("clean_up");
        ESX_CHECK(T[t].p_impl == NULL, "cleaned-up-state", "clean_up left p_impl set");
        if (!esx_failed) {
            memset(kd, 0, sizeof(kd));
            memset(ekd, 0, sizeof(ekd));
            aws_hash_table_clean_up(&T[t]); /* idempotent */
            check_dtors("second clean_up");
        }
    }
}

static size_t m_canon(uint8_t *b, size_t cap) {
    (void)cap;
    size_t o = 0;
    for (int t = 0; t < (g.pair ? 2 : 1); ++t) {
        b[o++] = (uint8_t)R[t].valid;
        if (!R[t].valid) continue;
#ifndef NO_WHITEBOX
        struct hash_table_state *st = T[t].p_impl;
        b[o++] = (uint8_t)R[t].hash;
        b[o++] = (uint8_t)R[t].dtor;
        b[o++] = (uint8_t)st->size;
        for (size_t i = 0; i < st->size; ++i) {
            struct hash_table_entry *e = &st->slots[i];
            if (!e->hash_code) {
                b[o++] = 0xFF;
                continue;
            }
            b[o++] = (uint8_t)obj_of(e->element.key);
            b[o++] = (uint8_t)val_of(e->element.value);
            memcpy(b + o, &e->hash_code, 8);
            o += 8;
        }
#else
        b[o++] = (uint8_t)R[t].hash;
        b[o++] = (uint8_t)R[t].dtor;
        {
            struct snap sn;
            take_snap(&sn, t);
            b[o++] = (uint8_t)sn.size;
            for (size_t i = 0; i < sn.size; ++i) {
                b[o++] = (uint8_t)sn.obj[i];
                b[o++] = (uint8_t)sn.val[i];
            }
        }
#endif
    }
    return o;
}

static struct esx_model model = {
    .reset = m_reset, .enabled = m_enabled, .apply = m_apply, .canon = m_canon, .opname = m_opname, .teardown = m_teardown,
};

/* ------------------------------------------------------------------ configurations ------------------- */
#define M(o) (1u << (o))
#define ALL8 0xFFu
enum { P_FULL, P_LAYOUT, P_PAYLOAD, P_PAIR, P_LAYOUT6 };
static const char *PROFN[] = {"full", "layout", "payload", "pair", "layout6"};

static int g_rc;
static void run_cfg(int profile, int hash, size_t init_size, int dtor, int hashB, size_t init_sizeB, int dtorB) {
    memset(&g, 0, sizeof(g));
    g.hash[0] = hash;
    g.init_size[0] = init_size;
    g.dtor[0] = dtor;
    g.hash[1] = hashB;
    g.init_size[1] = init_sizeB;
    g.dtor[1] = dtorB;
    switch (profile) {
        case P_FULL: /* everything at once, values thinned out */
            g.max_live = 5;
            g.put0 = ALL8;
            g.put1 = M(0) | M(5) | M(1);
            g.create = M(0) | M(2) | M(OBJ_NULL);
            g.lookup = ALL8;
            break;
        case P_LAYOUT6: /* as layout, but all six identities may be live at once (6 of 8 slots) */
            g.max_live = 6;
            g.put0 = M(0) | M(1) | M(2) | M(3) | M(4) | M(OBJ_NULL);
            g.create = M(2);
            g.lookup = M(0) | M(1) | M(2) | M(3) | M(4) | M(5) | M(OBJ_NULL);
            break;
        case P_LAYOUT: /* all six identities, one twin, one value: every slot layout of <= 5 of 6 keys */
            g.max_live = 5;
            g.put0 = M(0) | M(1) | M(2) | M(3) | M(4) | M(OBJ_NULL);
            g.put1 = 0;
            g.create = M(2);
            g.lookup = M(0) | M(1) | M(2) | M(3) | M(4) | M(5) | M(OBJ_NULL);
            break;
        case P_PAYLOAD: /* every key-object / value combination on four identities */
            g.max_live = 4;
            g.put0 = g.put1 = g.create = g.lookup = M(0) | M(1) | M(2) | M(5) | M(6) | M(OBJ_NULL);
            break;
        default:
            g.pair = 1;
            g.max_live = 3;
            g.put0 = M(0) | M(1) | M(5) | M(OBJ_NULL);
            g.put1 = M(0);
            g.create = M(1);
            g.lookup = M(0) | M(1) | M(5) | M(OBJ_NULL);
    }
    if (g.pair)
        snprintf(g.name, sizeof(g.name), "map-pair-%s%zu-d%d+%s%zu-d%d", HASHN[hash], init_size, dtor, HASHN[hashB], init_sizeB, dtorB);
    else
        snprintf(g.name, sizeof(g.name), "map-%s-%s-s%zu-d%d", PROFN[profile], HASHN[hash], init_size, dtor);
    build_ops();
    model.name = g.name;
    model.nops = g_nops;
    model.max_depth = ESX_MAX_DEPTH;
    model.max_states = 3000000;
    if (v_replay_token) {
        if (esx_token_is_for(v_replay_token, g.name)) g_rc |= esx_replay(&model, v_replay_token);
        return;
    }
    double t0 = v_now();
    esx_run(&model);
        ESX_CYCLES(&model);
    v_out("INFO   %s nops=%d wall=%.1fs", g.name, g_nops, v_now() - t0);
}

static bool want(const char *only, const char *p) { return !only || !strcmp(only, p); }

int main(int argc, char **argv) {
    v_init(argc, argv);
    aws_common_library_init(aws_default_allocator());
    const char *only = getenv("C02_ONLY"); /* development aid: run one profile */
    bool th = v_thorough();
    static const size_t sizes_q[] = {0, 16}, sizes_t[] = {0, 1, 2, 3, 4, 5, 8, 9, 16};
    /* layout: every hash function x initial sizes; a table of n slots that was grown from 2 passes through every state a
     * table initialised with n slots can be in (tables never shrink, keys can be removed), so 0 and 16 carry the weight
     * and the other initial sizes are run for the init path itself */
    if (want(only, "layout"))
        for (int h = 0; h < NHASH; ++h)
            for (int s = 0; s < (th ? 9 : 2); ++s) {
                size_t sz = th ? sizes_t[s] : sizes_q[s];
                run_cfg(P_LAYOUT, h, sz, 3, 0, 0, 0);
                if (th && (sz == 0 || sz == 16)) run_cfg(P_LAYOUT, h, sz, 0, 0, 0, 0);
            }
    /* tables that start with 32 / 64 slots (size hints 17 and 40): whatever is computed from the slot count or the load
     * limit differs from it by more than one only from 32 slots up (added after a seeded change whose clear() wiped
     * max_load + 1 slots instead of all of them: equal up to 16 slots) */
    if (want(only, "layout")) {
        run_cfg(P_LAYOUT, H_LAST, 17, 3, 0, 0, 0);
        if (th) {
            for (int h = 0; h < NHASH; ++h) {
                if (h != H_LAST) run_cfg(P_LAYOUT, h, 17, 3, 0, 0, 0);
                run_cfg(P_LAYOUT, h, 40, 3, 0, 0, 0);
            }
        }
    }
    if (th && want(only, "layout6"))
        for (int h = 0; h < NHASH; ++h)
            for (int s = 0; s < 2; ++s) run_cfg(P_LAYOUT6, h, sizes_q[s], 3, 0, 0, 0);
    /* payload: destructor accounting with every key-object/value combination */
    if (want(only, "payload"))
        for (int h = 0; h < NHASH; ++h)
            for (int d = 3; d >= 0; --d) {
                if (!th && d != 3 && h != H_ZERO && h != H_TWO) continue;
                run_cfg(P_PAYLOAD, h, 0, d, 0, 0, 0);
                if (th) run_cfg(P_PAYLOAD, h, 16, d, 0, 0, 0);
            }
    /* full: all keys, twins, NULL key, values thinned */
    if (want(only, "full"))
        for (int h = 0; h < NHASH; ++h) {
            if (!th && (h == H_ZERO || h == H_HIGH)) continue;
            if (!th && h == H_NULLCODE) {
                run_cfg(P_FULL, h, 0, 0, 0, 0, 0); /* quick: one destructor-less run is enough to exercise NULL/eq */
                continue;
            }
            for (int d = 3; d >= (th ? 0 : 3); --d)
                for (int s = 0; s < (th ? 2 : 1); ++s) run_cfg(P_FULL, h, sizes_q[s], d, 0, 0, 0);
        }
    /* pair: second table with its own hash function / destructors / size; swap, move, clean_up, init, eq */
    if (want(only, "pair")) {
        static const struct {
            int ha, hb, da, db;
            size_t sa, sb;
        } pc[] = {
            {H_LAST, H_IDENT, 3, 0, 0, 4}, {H_ZERO, H_TWO, 0, 3, 0, 0},  {H_CONST, H_HIGH, 1, 2, 4, 0},  {H_IDENT, H_IDENT, 3, 3, 0, 0},
            {H_TWO, H_LAST, 2, 1, 0, 16},  {H_HIGH, H_ZERO, 3, 3, 16, 4}, {H_CONST, H_CONST, 0, 0, 0, 0}, {H_LAST, H_TWO, 3, 1, 2, 8},
        };
        for (int i = 0; i < (th ? 8 : 2); ++i) run_cfg(P_PAIR, pc[i].ha, pc[i].sa, pc[i].da, pc[i].hb, pc[i].sb, pc[i].db);
    }
    v_finish();
    return (v_sh->viol_count || g_rc) ? 1 : 0;
}
