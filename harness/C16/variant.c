/*
 * C16 — one implementation variant of <aws/common/math.h> + <aws/common/clock.h>, compiled from the working
 * tree's headers (include path = $VERIF_REPO/include, nothing is copied).
 *
 *   -DC16_IMPL=1  compiler-builtin   math.gcc_builtin.inl + math.gcc_overflow.inl  (what this build ships)
 *   -DC16_IMPL=2  x86-64 inline asm  math.gcc_builtin.inl + math.gcc_x64_asm.inl
 *   -DC16_IMPL=3  portable           math.fallback.inl
 *   -DC16_SYM=<exported table symbol>  -DC16_OPT="<O0|O1|O2>"
 *
 * The variant is NOT chosen by including a .inl by hand: the feature macros that math.inl's own #if chain
 * (math.inl:20-46) looks at are steered, and math.h/math.inl are then included as a user would.  That chain is
 *   CBMC                                                         -> math.cbmc.inl
 *   AWS_HAVE_GCC_OVERFLOW_MATH_EXTENSIONS || __has_builtin(__builtin_add_overflow) -> gcc_builtin + gcc_overflow
 *   __x86_64__ && AWS_HAVE_GCC_INLINE_ASM                        -> gcc_builtin + gcc_x64_asm
 *   __aarch64__ && AWS_HAVE_GCC_INLINE_ASM / AWS_HAVE_MSVC_INTRINSICS_X64 -> (not buildable here)
 *   else                                                         -> fallback
 * so: asm = pretend the compiler has no overflow builtins (config macro undefined, __has_builtin undefined so that
 * math.inl's own "#ifndef __has_builtin / #define __has_builtin(x) 0" takes effect); fallback = additionally no
 * inline asm.  All functions are AWS_STATIC_IMPL (= static inline, exports.h:37), so each translation unit gets
 * its own private copies and nine of them link into one binary without renaming; the table below takes their
 * addresses.  The include guards of the .inl files are used afterwards to PROVE which body was selected.
 */
#include <aws/common/common.h> /* config.h, exports.h, error.h ... (does not include math.h) */
#include <limits.h>
#include <stdlib.h>

#if C16_IMPL == 1
/* as configured */
#elif C16_IMPL == 2
#    undef AWS_HAVE_GCC_OVERFLOW_MATH_EXTENSIONS
#    undef __has_builtin
#    ifndef AWS_HAVE_GCC_INLINE_ASM
#        define AWS_HAVE_GCC_INLINE_ASM
#    endif
#elif C16_IMPL == 3
#    undef AWS_HAVE_GCC_OVERFLOW_MATH_EXTENSIONS
#    undef __has_builtin
#    undef AWS_HAVE_GCC_INLINE_ASM
#    undef AWS_HAVE_MSVC_INTRINSICS_X64
#else
#    error "C16_IMPL must be 1, 2 or 3"
#endif
#ifdef CBMC
#    error "CBMC must not be defined"
#endif

#include <aws/common/math.h>

#include <aws/common/clock.h>

/* ---- which body did math.inl select? --------------------------------------------------------------------- */
#if defined(AWS_COMMON_MATH_GCC_OVERFLOW_INL)
#    define C16_SEL_OVERFLOW 1
#else
#    define C16_SEL_OVERFLOW 0
#endif
#if defined(AWS_COMMON_MATH_GCC_X64_ASM_INL)
#    define C16_SEL_ASM 1
#else
#    define C16_SEL_ASM 0
#endif
#if defined(AWS_COMMON_MATH_FALLBACK_INL)
#    define C16_SEL_FALLBACK 1
#else
#    define C16_SEL_FALLBACK 0
#endif
#if defined(AWS_COMMON_MATH_GCC_BUILTIN_INL)
#    define C16_SEL_CLZ_BUILTIN 1
#else
#    define C16_SEL_CLZ_BUILTIN 0
#endif
#if C16_SEL_OVERFLOW + C16_SEL_ASM + C16_SEL_FALLBACK != 1
#    error "math.inl selected zero or several arithmetic bodies"
#endif
#if C16_IMPL == 1 && !(C16_SEL_OVERFLOW && C16_SEL_CLZ_BUILTIN)
#    error "builtin variant: math.inl did not select math.gcc_overflow.inl + math.gcc_builtin.inl"
#elif C16_IMPL == 2 && !(C16_SEL_ASM && C16_SEL_CLZ_BUILTIN)
#    error "asm variant: math.inl did not select math.gcc_x64_asm.inl + math.gcc_builtin.inl"
#elif C16_IMPL == 3 && !(C16_SEL_FALLBACK && !C16_SEL_CLZ_BUILTIN)
#    error "portable variant: math.inl did not select math.fallback.inl alone"
#endif
#ifndef AWS_COMMON_MATH_INL
#    error "generic tail (math.inl) not included"
#endif
#ifndef AWS_COMMON_CLOCK_INL
#    error "clock.inl not included"
#endif

#include "c16_table.h"

static uint64_t s_convert_units(uint64_t ticks, uint64_t from, uint64_t to, uint64_t *remainder) {
    return aws_timestamp_convert(ticks, (enum aws_timestamp_unit)from, (enum aws_timestamp_unit)to, remainder);
}

#define C16_GEN_MIX(SUF, T)                                                                                      \
    static void s_mix_##SUF(T a, T b, struct c16_mix *o) {                                                       \
        T r[5] = {0, 0, 0, 0, 0};                                                                                \
        T s0 = aws_add_##SUF##_saturating(a, b);                                                                 \
        T s1 = aws_mul_##SUF##_saturating(a, b);                                                                 \
        T s2 = aws_sub_##SUF##_saturating(a, b);                                                                 \
        T s3 = aws_add_##SUF##_saturating(s2, b);                                                                \
        T s4 = aws_mul_##SUF##_saturating(s2, s0);                                                               \
        aws_reset_error();                                                                                       \
        o->rc[0] = aws_add_##SUF##_checked(a, b, &r[0]);                                                         \
        o->err[0] = aws_last_error();                                                                            \
        aws_reset_error();                                                                                       \
        o->rc[1] = aws_mul_##SUF##_checked(a, b, &r[1]);                                                         \
        o->err[1] = aws_last_error();                                                                            \
        aws_reset_error();                                                                                       \
        o->rc[2] = aws_sub_##SUF##_checked(a, b, &r[2]);                                                         \
        o->err[2] = aws_last_error();                                                                            \
        aws_reset_error();                                                                                       \
        o->rc[3] = aws_add_##SUF##_checked(b, s2, &r[3]);                                                        \
        o->err[3] = aws_last_error();                                                                            \
        aws_reset_error();                                                                                       \
        o->rc[4] = aws_mul_##SUF##_checked(s0, s2, &r[4]);                                                       \
        o->err[4] = aws_last_error();                                                                            \
        o->s[0] = s0;                                                                                            \
        o->s[1] = s1;                                                                                            \
        o->s[2] = s2;                                                                                            \
        o->s[3] = s3;                                                                                            \
        o->s[4] = s4;                                                                                            \
        for (int i = 0; i < 5; ++i) o->r[i] = o->rc[i] == AWS_OP_SUCCESS ? r[i] : 0;                             \
    }
C16_GEN_MIX(u64, uint64_t)
C16_GEN_MIX(u32, uint32_t)

/* the accumulator is initialised and folded in place inside one function, the fold stops at the first step that does
 * not fit (returns 0 or 1 + the index of the refused step).  One function per operation and type, no run-time operation
 * selector: what an optimiser may do with the loads and stores around the call depends on exactly this shape. */
#define ACC_FOLD(NAME, T, FN, INIT)                                                                                    \
    static __attribute__((noinline)) int NAME(const T *f, int n, T *out) {                                            \
        *out = INIT;                                                                                                   \
        for (int i = 0; i < n; ++i) {                                                                                  \
            if (FN(*out, f[i], out)) return i + 1;                                                                     \
        }                                                                                                              \
        return 0;                                                                                                      \
    }
ACC_FOLD(s_prod_u64, uint64_t, aws_mul_u64_checked, 1)
ACC_FOLD(s_sum_u64, uint64_t, aws_add_u64_checked, 0)
ACC_FOLD(s_prod_size, size_t, aws_mul_size_checked, 1)
ACC_FOLD(s_sum_size, size_t, aws_add_size_checked, 0)
ACC_FOLD(s_diff_u64, uint64_t, aws_sub_u64_checked, UINT64_MAX)
ACC_FOLD(s_diff_size, size_t, aws_sub_size_checked, SIZE_MAX)
static __attribute__((noinline)) int s_prod_field(struct c16_accbox *box, const uint64_t *f, int n) {
    box->value = 1;
    box->count = 0;
    for (int i = 0; i < n; ++i) {
        if (aws_mul_u64_checked(box->value, f[i], &box->value)) return i + 1;
        box->count++;
    }
    return 0;
}
static __attribute__((noinline)) int s_sum_field(struct c16_accbox *box, const uint64_t *f, int n) {
    box->value = 0;
    box->count = 0;
    for (int i = 0; i < n; ++i) {
        if (aws_add_u64_checked(box->value, f[i], &box->value)) return i + 1;
        box->count++;
    }
    return 0;
}
static __attribute__((noinline)) int s_diff_field(struct c16_accbox *box, const uint64_t *f, int n) {
    box->value = UINT64_MAX;
    box->count = 0;
    for (int i = 0; i < n; ++i) {
        if (aws_sub_u64_checked(box->value, f[i], &box->value)) return i + 1;
        box->count++;
    }
    return 0;
}
/* op: 0 = sum from 0, 1 = product from 1, 2 = difference from the type's maximum */
static int s_acc_u64(uint64_t *acc, const uint64_t *f, int n, int op) { return op == 2 ? s_diff_u64(f, n, acc) : op ? s_prod_u64(f, n, acc) : s_sum_u64(f, n, acc); }
static int s_acc_size(size_t *acc, const size_t *f, int n, int op) { return op == 2 ? s_diff_size(f, n, acc) : op ? s_prod_size(f, n, acc) : s_sum_size(f, n, acc); }
static int s_acc_field(struct c16_accbox *box, const uint64_t *f, int n, int op) { return op == 2 ? s_diff_field(box, f, n) : op ? s_prod_field(box, f, n) : s_sum_field(box, f, n); }

const struct c16_table C16_SYM = {
#if C16_IMPL == 1
    .impl = "builtin",
    .inl = "math.gcc_builtin.inl+math.gcc_overflow.inl",
#elif C16_IMPL == 2
    .impl = "asm",
    .inl = "math.gcc_builtin.inl+math.gcc_x64_asm.inl",
#else
    .impl = "fallback",
    .inl = "math.fallback.inl",
#endif
    .opt = C16_OPT,
    .chk64 = {aws_add_u64_checked, aws_mul_u64_checked, aws_sub_u64_checked},
    .sat64 = {aws_add_u64_saturating, aws_mul_u64_saturating, aws_sub_u64_saturating},
    .chk32 = {aws_add_u32_checked, aws_mul_u32_checked, aws_sub_u32_checked},
    .sat32 = {aws_add_u32_saturating, aws_mul_u32_saturating, aws_sub_u32_saturating},
    .chksz = {aws_add_size_checked, aws_mul_size_checked, aws_sub_size_checked},
    .satsz = {aws_add_size_saturating, aws_mul_size_saturating, aws_sub_size_saturating},
    .acc64 = s_acc_u64,
    .accsz = s_acc_size,
    .accfield = s_acc_field,
    .mix64 = s_mix_u64,
    .mix32 = s_mix_u32,
    .is_power_of_two = aws_is_power_of_two,
    .round_up_to_power_of_two = aws_round_up_to_power_of_two,
    .clz_u32 = aws_clz_u32,
    .clz_i32 = aws_clz_i32,
    .clz_u64 = aws_clz_u64,
    .clz_i64 = aws_clz_i64,
    .clz_size = aws_clz_size,
    .ctz_u32 = aws_ctz_u32,
    .ctz_i32 = aws_ctz_i32,
    .ctz_u64 = aws_ctz_u64,
    .ctz_i64 = aws_ctz_i64,
    .ctz_size = aws_ctz_size,
#define C16_X(n, T) .min_##n = aws_min_##n, .max_##n = aws_max_##n,
    C16_MINMAX_TYPES(C16_X)
#undef C16_X
    .convert_units = s_convert_units,
    .convert_u64 = aws_timestamp_convert_u64,
};
