import os, subprocess

LEVEL = "exploration"
RULE = ("odometer enumeration (no randomness) on nine function tables = {compiler-builtin, x86-64 inline-asm, portable} "
        "selected through math.inl's own #if chain x {-O0,-O1,-O2}.  B(w) = {0,1,2, 2^k-1, 2^k, 2^k+1 (all k<w), MAX-1, MAX} u "
        "{floor(MAX/b), floor(MAX/b)+1, MAX-b, MAX-b+1 : b in that set} (thorough: also 2^k+-2, 2^k+-3, 3*2^k, 10^j, "
        "sqrt(MAX+1)+-1, floor(MAX/b)-1).  ALL PAIRS of B(w) for add/mul/sub x {checked,saturating} x {u32,u64,size_t} (+ "
        "aws_add_size_checked_varargs on the same pairs); all of B(64) u B(32) for is_power_of_two/round_up/clz_*/ctz_*; "
        "min/max: all pairs of 13 boundary values for each of the 12 types, ALL pairs of the 8-bit types (thorough: ALL 2^32 "
        "pairs of the 16-bit types on the shipped table); aws_timestamp_convert: 16 unit pairs x (B(64) + 40 pair-dependent tick counts around "
        "the saturation point, ratio multiples, old*new), each with remainder pre-set 0 / sentinel / NULL; "
        "aws_timestamp_convert_u64: same ticks x all ordered pairs of {1,2,3,7,10^3,10^6,10^9-1,10^9} (thorough: 22 "
        "frequencies).  Oracle: unsigned __int128.  non-trivial = arithmetic pair whose exact a+b or a*b lies within +-2 of "
        "MAX+1 or whose a-b lies within +-2 of 0; unary operand that is a power of two +-1 or above 2^63-2; min/max pair "
        "with a != b; conversion whose tick count is within +-2 of the first saturating tick count or whose documented "
        "remainder is defined and non-zero.")

IMPLS = [("builtin", 1), ("asm", 2), ("fallback", 3)]
OPTS = ["O1", "O0", "O2"]


def prebuild(ctx):
    """variant.c compiled 9 times from the working tree's headers: the three implementation variants of math.h
    (chosen by steering the feature macros math.inl tests, not by copying code) at three optimisation levels.
    Every object exports one table c16_tab_<impl>_<opt>; all library functions in it are `static inline` copies
    private to that object."""
    d = os.path.join(ctx["tmp"], "C16")
    os.makedirs(d, exist_ok=True)
    src = os.path.join(ctx["root"], "harness", ctx["pid"], "variant.c")
    jobs = []
    for impl, num in IMPLS:
        for opt in OPTS:
            o = os.path.join(d, "variant_%s_%s.o" % (impl, opt))
            if os.path.exists(o):
                os.unlink(o)
            cmd = (["gcc", "-std=gnu11", "-fno-pie", "-c", src, "-o", o] + ctx["cflags"] +
                   ["-" + opt, "-DC16_IMPL=%d" % num, "-DC16_SYM=c16_tab_%s_%s" % (impl, opt), "-DC16_OPT=\"%s\"" % opt])
            jobs.append((o, cmd, subprocess.Popen(cmd, stdout=subprocess.PIPE, stderr=subprocess.STDOUT, text=True)))
    objs = []
    for o, cmd, p in jobs:
        out = p.communicate()[0]
        if p.returncode != 0:
            raise SystemExit("BUILD-ERROR: C16 variant failed: %s\n%s" % (" ".join(cmd), out[-4000:]))
        objs.append(o)
    return objs


HARNESSES = [
    dict(name="arith", src=["arith.c"], variant="asan", prebuild=prebuild, deadline={"quick": 120, "thorough": 600}),
    # free-running ThreadSanitizer twin: two threads, each with objects of its own (harness/common/twin.c; samples, decides nothing)
    dict(name="own-objects-tsan", src=["../common/twin.c"], variant="tsan", cflags=["-DTWIN_C16", "-DVSX_FREE_RUNS=6"], deadline={"quick": 60, "thorough": 120}),
]
ASSUMPTIONS = [
    "bounds: operands on the boundary grid B(w) only (all pairs of it); frequencies <= 10^9 from a fixed list; operands off "
    "the grid are not decided (the natural tool is a solver)",
    "variants: compiler-builtin / x86-64 inline asm / portable, each obtained by driving math.inl's preprocessor selection "
    "(AWS_HAVE_GCC_OVERFLOW_MATH_EXTENSIONS, __has_builtin, AWS_HAVE_GCC_INLINE_ASM) in its own translation unit, compiled "
    "with gcc at -O0/-O1/-O2; the arm64 and MSVC variants cannot be built on this host; gcc only (no clang)",
    "reading: on overflow a checked op returns AWS_OP_ERR with aws_last_error()==AWS_ERROR_OVERFLOW_DETECTED and *r is "
    "unspecified (not inspected); on success aws_last_error() is not inspected",
    "reading: the conversion remainder is defined only when old_frequency > new_frequency and old % new == 0 and is then "
    "ticks mod (old/new); otherwise the function may leave *remainder untouched or zero it (clock.h: 'not zero initialized "
    "... set it to 0 first'), so 0 is demanded after a pre-set of 0 and {sentinel, 0} accepted after a sentinel pre-set",
    "min/max on float/double: operands without NaN; -0.0 and 0.0 compare equal (either may be returned)",
    "size_t is 64-bit on this host: the SIZE_BITS==32 dispatch branches of math.inl are not compiled",
]
