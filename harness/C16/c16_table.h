/*
 * C16 — function table exported by every implementation variant (variant.c is compiled once per
 * {builtin, asm, fallback} x {-O0, -O1, -O2} from the WORKING TREE's headers; see spec.py prebuild).
 */
#ifndef C16_TABLE_H
#define C16_TABLE_H
#include <stdbool.h>
#include <stddef.h>
#include <stdint.h>

enum { C16_ADD = 0, C16_MUL = 1, C16_SUB = 2 };

/* name, C type — every min/max pair declared in math.h */
#define C16_MINMAX_TYPES(X)                                                                                      \
    X(u8, uint8_t)                                                                                               \
    X(i8, int8_t)                                                                                                \
    X(u16, uint16_t)                                                                                             \
    X(i16, int16_t)                                                                                              \
    X(u32, uint32_t)                                                                                             \
    X(i32, int32_t)                                                                                              \
    X(u64, uint64_t)                                                                                             \
    X(i64, int64_t)                                                                                              \
    X(size, size_t)                                                                                              \
    X(int, int)                                                                                                  \
    X(float, float)                                                                                              \
    X(double, double)

/* the binary helpers instantiated INLINE inside one larger function (several call sites chained through live
 * values), so that the asm bodies are also register-allocated in contexts other than "sole body of an out-of-line
 * function":  s0=add_sat(a,b) s1=mul_sat(a,b) s2=sub_sat(a,b) s3=add_sat(s2,b) s4=mul_sat(s2,s0)
 *             checked: (a+b) (a*b) (a-b) (b+s2) (s0*s2); r[i] is reported only when rc[i]==AWS_OP_SUCCESS */
struct c16_mix {
    uint64_t s[5];
    uint64_t r[5];
    int rc[5];
    int err[5];
};

struct c16_accbox {
    uint32_t tag;
    uint64_t value;
    size_t count;
};

struct c16_table {
    const char *impl; /* "builtin" | "asm" | "fallback" */
    const char *opt;  /* "O0" | "O1" | "O2" */
    const char *inl;  /* which .inl the selection logic of math.inl picked (from its include guard) */

    int (*chk64[3])(uint64_t, uint64_t, uint64_t *);
    uint64_t (*sat64[3])(uint64_t, uint64_t);
    int (*chk32[3])(uint32_t, uint32_t, uint32_t *);
    uint32_t (*sat32[3])(uint32_t, uint32_t);
    int (*chksz[3])(size_t, size_t, size_t *);
    size_t (*satsz[3])(size_t, size_t);

    /* in-place accumulation through a pointer parameter / a struct field (the result location is also the next operand and is
     * also read as a plain uint64_t / size_t by the caller): op 0 = add, 1 = mul; returns the number of failed steps, the value
     * is left in *acc (callers of the checked functions write code like this; an implementation that stores its result
     * through a differently typed lvalue is only wrong here, and only when optimised) */
    int (*acc64)(uint64_t *acc, const uint64_t *f, int n, int op);
    int (*accsz)(size_t *acc, const size_t *f, int n, int op);
    int (*accfield)(struct c16_accbox *box, const uint64_t *f, int n, int op);
    void (*mix64)(uint64_t a, uint64_t b, struct c16_mix *out);
    void (*mix32)(uint32_t a, uint32_t b, struct c16_mix *out);

    bool (*is_power_of_two)(size_t);
    int (*round_up_to_power_of_two)(size_t, size_t *);
    size_t (*clz_u32)(uint32_t);
    size_t (*clz_i32)(int32_t);
    size_t (*clz_u64)(uint64_t);
    size_t (*clz_i64)(int64_t);
    size_t (*clz_size)(size_t);
    size_t (*ctz_u32)(uint32_t);
    size_t (*ctz_i32)(int32_t);
    size_t (*ctz_u64)(uint64_t);
    size_t (*ctz_i64)(int64_t);
    size_t (*ctz_size)(size_t);

#define C16_X(n, T)                                                                                              \
    T (*min_##n)(T, T);                                                                                          \
    T (*max_##n)(T, T);
    C16_MINMAX_TYPES(C16_X)
#undef C16_X

    /* clock.inl compiled on top of this variant's saturating mul/add.  The unit arguments are passed as
     * uint64_t and cast to enum aws_timestamp_unit inside the variant TU. */
    uint64_t (*convert_units)(uint64_t ticks, uint64_t from, uint64_t to, uint64_t *remainder);
    uint64_t (*convert_u64)(uint64_t ticks, uint64_t old_f, uint64_t new_f, uint64_t *remainder);
};

#define C16_TABLES(X)                                                                                            \
    X(builtin, O1)                                                                                               \
    X(asm, O1)                                                                                                   \
    X(fallback, O1)                                                                                              \
    X(builtin, O0)                                                                                               \
    X(asm, O0)                                                                                                   \
    X(fallback, O0)                                                                                              \
    X(builtin, O2)                                                                                               \
    X(asm, O2)                                                                                                   \
    X(fallback, O2)

#define C16_X(i, o) extern const struct c16_table c16_tab_##i##_##o;
C16_TABLES(C16_X)
#undef C16_X

#endif
