/*
 * C16 — overflow-checked arithmetic and time-unit conversion are exact or flagged (DESIGN §5 C16).
 *
 * BEE harness.  Nine function tables (three implementation variants of math.h selected through math.inl's own
 * preprocessor chain x three optimisation levels, see variant.c / spec.py) are evaluated on the same operands and
 * compared with unsigned __int128 arithmetic and with each other.
 *
 * Sections (replay token "<section>:<index>"; the index -> input mapping depends only on index and tier):
 *   arith_u64 / arith_u32 / arith_size   ALL PAIRS (a,b) of the operand set B(w): add, mul, sub x checked, saturating
 *   unary                                every x of B(64) u B(32): is_power_of_two, round_up_to_power_of_two, clz_*, ctz_*
 *   minmax                               all pairs of 13 boundary values per type, all 12 min/max types
 *   minmax8                              ALL 65536 pairs of the 8-bit types (truly exhaustive)
 *   minmax16 (thorough)                  ALL 2^32 pairs of the 16-bit types, table 0 (shipped configuration)
 *   convert_units                        ticks in T(from,to) x all 16 unit pairs, aws_timestamp_convert
 *   convert_freq                         ticks in T(old,new) x all frequency pairs, aws_timestamp_convert_u64
 *
 * Readings the oracle commits to (HARNESS_GUIDE rule 2 — no more than the headers state):
 *   - checked op, exact result fits: returns AWS_OP_SUCCESS and *r == exact.  Does not fit: returns AWS_OP_ERR and
 *     aws_last_error() == AWS_ERROR_OVERFLOW_DETECTED; *r is then unspecified and NOT inspected.
 *   - saturating op: exact result, or MAX of the type (0 for subtraction).
 *   - conversion value: min(floor(ticks*new/old), UINT64_MAX).
 *   - remainder (clock.h:22-28 and clock.inl:15-20 read together): "set to the remainder if convert_from is a more
 *     precise unit than convert_to (but only if the old frequency is a multiple of the new one)"; "'remainder' is
 *     not zero initialized in this function, be sure to set it to 0 first if you care".  So
 *        defined case  (old > new && old % new == 0): *remainder == ticks mod (old/new)   (in old-unit ticks)
 *        otherwise     the function may leave *remainder alone or zero it: with the documented pre-set of 0 the
 *                      caller must read 0; with a sentinel pre-set either the sentinel or 0 is accepted.
 *     remainder == NULL is allowed and must give the same value.
 */
#include "bee.h"
#include <pthread.h>

#include <aws/common/clock.h>
#include <aws/common/error.h>
#include <aws/common/math.h>

#include "c16_table.h"
#include <float.h>
#include <math.h>

typedef unsigned __int128 u128;
typedef __int128 i128;

/* ------------------------------------------------------------------ tables -------------------------------- */
#define C16_X(i, o) &c16_tab_##i##_##o,
static const struct c16_table *const tabs[] = {C16_TABLES(C16_X)};
#undef C16_X
#define NTABS ((int)(sizeof(tabs) / sizeof(tabs[0])))

static const char *const op_name[3] = {"add", "mul", "sub"};

static void c16_fail(const char *fn, const struct c16_table *t, const char *what, const char *fmt, ...) {
    char clause[160], msg[1200];
    va_list ap;
    va_start(ap, fmt);
    vsnprintf(msg, sizeof(msg), fmt, ap);
    va_end(ap);
    snprintf(clause, sizeof(clause), "%s:%s:%s", fn, t ? t->impl : "lib", what);
    bee_fail(clause, "%s [%s at -%s, %s]", msg, t ? t->impl : "shipped library", t ? t->opt : "O1", t ? t->inl : "-");
}

/* ------------------------------------------------------------------ operand sets -------------------------- */
struct oset {
    uint64_t *v;
    size_t n, cap;
};
static void os_add(struct oset *s, uint64_t x) {
    if (s->n == s->cap) {
        s->cap = s->cap ? 2 * s->cap : 1024;
        s->v = (uint64_t *)realloc(s->v, s->cap * sizeof(uint64_t));
    }
    s->v[s->n++] = x;
}
static int os_cmp(const void *a, const void *b) {
    uint64_t x = *(const uint64_t *)a, y = *(const uint64_t *)b;
    return x < y ? -1 : x > y;
}
static void os_finish(struct oset *s) {
    qsort(s->v, s->n, sizeof(uint64_t), os_cmp);
    size_t o = 0;
    for (size_t i = 0; i < s->n; ++i)
        if (!o || s->v[o - 1] != s->v[i]) s->v[o++] = s->v[i];
    s->n = o;
}
static uint64_t isqrt_u128(u128 x) {
    uint64_t r = 0;
    for (int bit = 63; bit >= 0; --bit) {
        uint64_t c = r | (1ull << bit);
        if ((u128)c * c <= x) r = c;
    }
    return r;
}

/*
 * B(w) = {0,1,2, 2^k-1, 2^k, 2^k+1 (all k<w), MAX-1, MAX}  u  {floor(MAX/b), floor(MAX/b)+1 : b in that base set}
 *        u {MAX-b, MAX-b+1 : b in that base set}   (additive complements, a superset of the property's set)
 * thorough ("plus"): base additionally holds 2^k+-2, 2^k+-3, 3*2^k, 10^j, floor(sqrt(MAX+1))+-1, and the closure
 * additionally holds floor(MAX/b)-1.
 */
static void build_B(struct oset *out, unsigned w, bool plus) {
    const uint64_t MAX = w == 64 ? UINT64_MAX : (uint64_t)UINT32_MAX;
    struct oset base = {0};
    os_add(&base, 0);
    os_add(&base, 1);
    os_add(&base, 2);
    os_add(&base, MAX - 1);
    os_add(&base, MAX);
    for (unsigned k = 0; k < w; ++k) {
        uint64_t p = 1ull << k;
        os_add(&base, p - 1);
        os_add(&base, p);
        os_add(&base, p + 1);
        if (plus) {
            os_add(&base, (p + 2) & MAX);
            os_add(&base, (p + 3) & MAX);
            os_add(&base, (p - 2) & MAX);
            os_add(&base, (p - 3) & MAX);
            os_add(&base, (3 * p) & MAX);
        }
    }
    if (plus) {
        for (uint64_t t = 10; t <= MAX / 10; t *= 10) os_add(&base, t);
        uint64_t r = isqrt_u128((u128)MAX + 1);
        os_add(&base, r - 1);
        os_add(&base, r);
        os_add(&base, r + 1);
    }
    os_finish(&base);
    for (size_t i = 0; i < base.n; ++i) {
        uint64_t b = base.v[i];
        os_add(out, b);
        if (!b) continue;
        uint64_t q = MAX / b;
        os_add(out, q);
        if (q < MAX) os_add(out, q + 1);
        /* additive complements: a+b lands on MAX / MAX+1 for these (the multiplicative rule above does the same
         * for a*b); floor(MAX/b)-1 only in the thorough tier */
        os_add(out, MAX - b);
        os_add(out, MAX - b + 1);
        if (plus && q) os_add(out, q - 1);
    }
    os_finish(out);
    free(base.v);
}

static struct oset B64, B32;

/* ------------------------------------------------------------------ binary arithmetic --------------------- */
/* exact result of a op b as a signed 128-bit number (sub may be negative) */
static inline i128 exact_of(int op, uint64_t a, uint64_t b) {
    switch (op) {
        case C16_ADD: return (i128)((u128)a + b);
        case C16_MUL: return (i128)((u128)a * b);
        default: return (i128)a - (i128)b;
    }
}

static const char *hex128(i128 x) {
    static char buf[4][48];
    static int k;
    char *o = buf[k = (k + 1) & 3];
    if (x < 0)
        snprintf(o, 48, "-0x%" PRIx64, (uint64_t)(-x));
    else if ((u128)x >> 64)
        snprintf(o, 48, "0x%" PRIx64 "%016" PRIx64, (uint64_t)((u128)x >> 64), (uint64_t)x);
    else
        snprintf(o, 48, "0x%" PRIx64, (uint64_t)x);
    return o;
}

#define GEN_PAIR(SUF, T, TMAX, CHK, SAT, PRI)                                                                    \
    static unsigned pair_##SUF(uint64_t a64, uint64_t b64) {                                                     \
        const T a = (T)a64, b = (T)b64;                                                                          \
        unsigned near = 0, evals = 0;                                                                            \
        for (int op = 0; op < 3; ++op) {                                                                         \
            const i128 ex = exact_of(op, a, b);                                                                  \
            const bool fits = ex >= 0 && ex <= (i128)(TMAX);                                                     \
            const T want_sat = fits ? (T)ex : (op == C16_SUB ? (T)0 : (T)(TMAX));                                \
            /* within +-2 of the point where the answer changes kind */                                          \
            const i128 dist = op == C16_SUB ? ex : ex - ((i128)(TMAX) + 1);                                      \
            if (dist >= -2 && dist <= 2) near |= 1u << op;                                                       \
            char fn[40];                                                                                         \
            int rc0 = 0;                                                                                         \
            T r0 = 0, s0 = 0;                                                                                    \
            for (int ti = 0; ti < NTABS; ++ti) {                                                                 \
                const struct c16_table *t = tabs[ti];                                                            \
                T r = (T)0xA5A5A5A5A5A5A5A5ull;                                                                  \
                aws_reset_error();                                                                               \
                int rc = t->CHK[op](a, b, &r);                                                                   \
                int err = aws_last_error();                                                                      \
                T s = t->SAT[op](a, b);                                                                          \
                evals += 2;                                                                                      \
                snprintf(fn, sizeof(fn), "%s_" #SUF "_checked", op_name[op]);                                    \
                if (fits) {                                                                                      \
                    if (rc != AWS_OP_SUCCESS)                                                                    \
                        c16_fail(fn, t, "spurious_overflow", "a=0x%" PRI " b=0x%" PRI " exact=%s fits but rc=%d " \
                                 "(last_error=%d)", a, b, hex128(ex), rc, err);                                  \
                    else if (r != (T)ex)                                                                         \
                        c16_fail(fn, t, "wrong_result", "a=0x%" PRI " b=0x%" PRI " exact=%s but *r=0x%" PRI, a,  \
                                 b, hex128(ex), r);                                                              \
                } else {                                                                                         \
                    if (rc != AWS_OP_ERR)                                                                        \
                        c16_fail(fn, t, "missed_overflow", "a=0x%" PRI " b=0x%" PRI " exact=%s does not fit but " \
                                 "rc=%d *r=0x%" PRI, a, b, hex128(ex), rc, r);                                   \
                    else if (err != AWS_ERROR_OVERFLOW_DETECTED)                                                 \
                        c16_fail(fn, t, "wrong_error_code", "a=0x%" PRI " b=0x%" PRI " overflow reported with "  \
                                 "last_error=%d, want AWS_ERROR_OVERFLOW_DETECTED", a, b, err);                  \
                }                                                                                                \
                snprintf(fn, sizeof(fn), "%s_" #SUF "_saturating", op_name[op]);                                 \
                if (s != want_sat)                                                                               \
                    c16_fail(fn, t, fits ? "wrong_result" : "wrong_saturation", "a=0x%" PRI " b=0x%" PRI         \
                             " exact=%s want 0x%" PRI " got 0x%" PRI, a, b, hex128(ex), want_sat, s);            \
                /* every variant gives the identical answer (observable part only) */                            \
                if (ti == 0) {                                                                                   \
                    rc0 = rc;                                                                                    \
                    r0 = r;                                                                                      \
                    s0 = s;                                                                                      \
                } else if (rc != rc0 || (rc == AWS_OP_SUCCESS && r != r0) || s != s0) {                          \
                    snprintf(fn, sizeof(fn), "%s_" #SUF, op_name[op]);                                           \
                    c16_fail(fn, t, "variants_differ", "a=0x%" PRI " b=0x%" PRI " %s/-%s: rc=%d r=0x%" PRI       \
                             " sat=0x%" PRI " vs rc=%d r=0x%" PRI " sat=0x%" PRI, a, b, tabs[0]->impl,           \
                             tabs[0]->opt, rc0, r0, s0, rc, r, s);                                               \
                }                                                                                                \
            }                                                                                                    \
            if (fits)                                                                                            \
                V_COUNT("cases_exact_fits", 1);                                                                  \
            else                                                                                                 \
                V_COUNT("cases_overflow", 1);                                                                    \
        }                                                                                                        \
        /* a sits on the division predicate of the portable multiply: floor(MAX/b) or floor(MAX/b)+1 */         \
        if (b && ((T)((TMAX) / b) == a || (i128)((TMAX) / b) + 1 == (i128)a)) V_COUNT("mul_division_boundary_pairs", 1); \
        if (near & 1) V_COUNT("near_boundary_add", 1);                                                           \
        if (near & 2) V_COUNT("near_boundary_mul", 1);                                                           \
        if (near & 4) V_COUNT("near_boundary_sub", 1);                                                           \
        if (near) V_COUNT("nontrivial", 1);                                                                      \
        V_COUNT("evaluations", evals);                                                                           \
        V_COUNT("operand_pairs", 1);                                                                             \
        return near;                                                                                             \
    }

GEN_PAIR(u64, uint64_t, UINT64_MAX, chk64, sat64, PRIx64)
GEN_PAIR(u32, uint32_t, UINT32_MAX, chk32, sat32, PRIx32)
GEN_PAIR(size, size_t, SIZE_MAX, chksz, satsz, "zx")

/* the same helpers inlined into one larger function of the variant TU (c16_table.h: struct c16_mix) */
static void mix_check(const char *suf, uint64_t a, uint64_t b, uint64_t MAX, const struct c16_table *t, const struct c16_mix *m) {
    /* reference chain in 128-bit arithmetic */
    const int ops[5] = {C16_ADD, C16_MUL, C16_SUB, C16_ADD, C16_MUL};
    uint64_t sx[5], sy[5], cx[5], cy[5], s[5];
    sx[0] = a, sy[0] = b;
    sx[1] = a, sy[1] = b;
    sx[2] = a, sy[2] = b;
    for (int i = 0; i < 5; ++i) {
        if (i == 3) sx[3] = s[2], sy[3] = b;
        if (i == 4) sx[4] = s[2], sy[4] = s[0];
        i128 ex = exact_of(ops[i], sx[i], sy[i]);
        bool fits = ex >= 0 && ex <= (i128)MAX;
        s[i] = fits ? (uint64_t)ex : (ops[i] == C16_SUB ? 0 : MAX);
        if (m->s[i] != s[i]) {
            char fn[48];
            snprintf(fn, sizeof(fn), "%s_%s_saturating", op_name[ops[i]], suf);
            c16_fail(fn, t, "wrong_when_inlined", "chain step s%d: %s(0x%" PRIx64 ", 0x%" PRIx64 ") exact=%s want 0x%" PRIx64
                     " got 0x%" PRIx64 " (a=0x%" PRIx64 " b=0x%" PRIx64 ")", i, op_name[ops[i]], sx[i], sy[i], hex128(ex), s[i],
                     m->s[i], a, b);
            return;
        }
    }
    cx[0] = a, cy[0] = b;
    cx[1] = a, cy[1] = b;
    cx[2] = a, cy[2] = b;
    cx[3] = b, cy[3] = s[2];
    cx[4] = s[0], cy[4] = s[2];
    for (int i = 0; i < 5; ++i) {
        i128 ex = exact_of(ops[i], cx[i], cy[i]);
        bool fits = ex >= 0 && ex <= (i128)MAX;
        bool ok = fits ? (m->rc[i] == AWS_OP_SUCCESS && m->r[i] == (uint64_t)ex)
                       : (m->rc[i] == AWS_OP_ERR && m->err[i] == AWS_ERROR_OVERFLOW_DETECTED);
        if (!ok) {
            char fn[48];
            snprintf(fn, sizeof(fn), "%s_%s_checked", op_name[ops[i]], suf);
            c16_fail(fn, t, "wrong_when_inlined", "chain step c%d: %s(0x%" PRIx64 ", 0x%" PRIx64 ") exact=%s got rc=%d r=0x%" PRIx64
                     " last_error=%d (a=0x%" PRIx64 " b=0x%" PRIx64 ")", i, op_name[ops[i]], cx[i], cy[i], hex128(ex), m->rc[i],
                     m->r[i], m->err[i], a, b);
            return;
        }
    }
}
static void mix_pair(uint64_t a, uint64_t b, bool is32) {
    struct c16_mix m;
    for (int ti = 0; ti < NTABS; ++ti) {
        memset(&m, 0x5a, sizeof(m));
        if (is32)
            tabs[ti]->mix32((uint32_t)a, (uint32_t)b, &m);
        else
            tabs[ti]->mix64(a, b, &m);
        mix_check(is32 ? "u32" : "u64", a, b, is32 ? UINT32_MAX : UINT64_MAX, tabs[ti], &m);
    }
    V_COUNT("evaluations", 10 * NTABS);
}

/* in-place accumulation (c16_table.h): fold f[0..n) into an accumulator with the checked add / mul, through a pointer parameter,
 * a size_t pointer and a struct field; the reference folds in 128-bit arithmetic and stops at the first step that does not fit */
static void acc_case(uint64_t a, uint64_t b) {
    const uint64_t f[5] = {a, b, 3, b, a | 1};
    static const char *const OPN64[3] = {"add_u64_checked", "mul_u64_checked", "sub_u64_checked"};
    static const char *const OPNSZ[3] = {"add_size_checked", "mul_size_checked", "sub_size_checked"};
    for (int op = 0; op < 3; ++op) {
        uint64_t want = op == 2 ? UINT64_MAX : op ? 1 : 0;
        int want_stop = 0; /* 0 = all five steps fit, else 1 + index of the first step that does not */
        for (int i = 0; i < 5 && !want_stop; ++i) {
            if (op == 2) {
                if (f[i] > want) want_stop = i + 1;
                else want -= f[i];
                continue;
            }
            u128 ex = op ? (u128)want * f[i] : (u128)want + f[i];
            if (ex > UINT64_MAX) want_stop = i + 1;
            else want = (uint64_t)ex;
        }
        for (int ti = 0; ti < NTABS; ++ti) {
            uint64_t acc = 0x5a5a;
            int stop = tabs[ti]->acc64(&acc, f, 5, op);
            if (stop != want_stop || (!want_stop && acc != want))
                c16_fail(OPN64[op], tabs[ti], "wrong_when_accumulating_in_place", "fold of {0x%" PRIx64 ",0x%" PRIx64 ",3,0x%" PRIx64 ",0x%" PRIx64 "} through a pointer: got 0x%" PRIx64
                         " (stopped at step %d), exact 0x%" PRIx64 " (stops at step %d)", f[0], f[1], f[3], f[4], acc, stop, want, want_stop);
            size_t accs = 0x5a5a;
            size_t fs[5] = {(size_t)f[0], (size_t)f[1], 3, (size_t)f[3], (size_t)f[4]};
            stop = tabs[ti]->accsz(&accs, fs, 5, op);
            if (stop != want_stop || (!want_stop && (uint64_t)accs != want))
                c16_fail(OPNSZ[op], tabs[ti], "wrong_when_accumulating_in_place", "fold of {0x%" PRIx64 ",0x%" PRIx64 ",3,...} through a size_t pointer: got 0x%zx (stopped at step %d), exact 0x%" PRIx64
                         " (stops at step %d)", f[0], f[1], accs, stop, want, want_stop);
            struct c16_accbox box = {.tag = 7, .value = 0x5a5a, .count = 99};
            stop = tabs[ti]->accfield(&box, f, 5, op);
            if (stop != want_stop || (!want_stop && box.value != want) || box.tag != 7)
                c16_fail(OPN64[op], tabs[ti], "wrong_when_accumulating_in_place", "fold of {0x%" PRIx64 ",0x%" PRIx64 ",3,...} into a struct field: got 0x%" PRIx64 " (stopped at step %d), exact 0x%" PRIx64
                         " (stops at step %d)", f[0], f[1], box.value, stop, want, want_stop);
        }
    }
    V_COUNT("evaluations", 9 * NTABS);
}

static uint64_t total_pairs64(void) { return (uint64_t)B64.n * B64.n; }
static uint64_t total_pairs32(void) { return (uint64_t)B32.n * B32.n; }

static void eval_u64(uint64_t index, void *ctx) {
    (void)ctx;
    BEE_ITEM(index);
    uint64_t a = B64.v[index / B64.n], b = B64.v[index % B64.n];
    pair_u64(a, b);
    mix_pair(a, b, false);
    acc_case(a, b);
    if (a == 0x100000000ull && b == 0x100000000ull) {
        uint64_t r = 0;
        int rc = tabs[1]->chk64[C16_MUL](a, b, &r);
        v_sample("arith_u64:%" PRIu64 " mul_u64 a=0x%" PRIx64 " b=0x%" PRIx64 " exact=%s asm: rc=%d sat=0x%" PRIx64
                 " fallback sat=0x%" PRIx64,
                 index, a, b, hex128(exact_of(C16_MUL, a, b)), rc, tabs[1]->sat64[C16_MUL](a, b),
                 tabs[2]->sat64[C16_MUL](a, b));
    }
}
static void eval_u32(uint64_t index, void *ctx) {
    (void)ctx;
    BEE_ITEM(index);
    uint64_t a = B32.v[index / B32.n], b = B32.v[index % B32.n];
    pair_u32(a, b);
    mix_pair(a, b, true);
}

/* shipped library: aws_add_size_checked_varargs (source/math.c) is a fold of aws_add_size_checked */
static void varargs_case(uint64_t a, uint64_t b) {
    for (int n = 2; n <= 3; ++n) {
        u128 ex = (u128)a + b + (n == 3 ? (u128)a : 0);
        bool fits = ex <= SIZE_MAX;
        size_t r = (size_t)0xA5A5A5A5A5A5A5A5ull;
        aws_reset_error();
        int rc = n == 2 ? aws_add_size_checked_varargs(2, &r, (size_t)a, (size_t)b)
                        : aws_add_size_checked_varargs(3, &r, (size_t)a, (size_t)b, (size_t)a);
        int err = aws_last_error();
        V_COUNT("evaluations", 1);
        if (fits) {
            if (rc != AWS_OP_SUCCESS || r != (size_t)ex)
                c16_fail("add_size_checked_varargs", NULL, "wrong_result", "n=%d a=0x%" PRIx64 " b=0x%" PRIx64
                         " exact=%s rc=%d r=0x%zx", n, a, b, hex128((i128)ex), rc, r);
        } else if (rc != AWS_OP_ERR || err != AWS_ERROR_OVERFLOW_DETECTED) {
            c16_fail("add_size_checked_varargs", NULL, "missed_overflow", "n=%d a=0x%" PRIx64 " b=0x%" PRIx64
                     " exact=%s rc=%d last_error=%d", n, a, b, hex128((i128)ex), rc, err);
        }
    }
}
static void eval_size(uint64_t index, void *ctx) {
    (void)ctx;
    BEE_ITEM(index);
    uint64_t a = B64.v[index / B64.n], b = B64.v[index % B64.n];
    pair_size(a, b);
    varargs_case(a, b);
    if (index == 0) {
        size_t r = 77;
        int rc = aws_add_size_checked_varargs(0, &r);
        if (rc != AWS_OP_SUCCESS || r != 0)
            c16_fail("add_size_checked_varargs", NULL, "empty_sum", "num=0 gives rc=%d r=%zu", rc, r);
    }
    if (a == UINT64_MAX / 3 && b == 3)
        v_sample("arith_size:%" PRIu64 " mul_size a=floor(MAX/3)=0x%" PRIx64 " b=3 exact=%s fallback sat=0x%zx ; a+1: "
                 "fallback sat=0x%zx", index, a, hex128(exact_of(C16_MUL, a, b)), tabs[2]->satsz[C16_MUL](a, b),
                 tabs[2]->satsz[C16_MUL](a + 1, b));
}

/* ------------------------------------------------------------------ unary --------------------------------- */
static unsigned ref_clz(uint64_t x, unsigned w) { /* number of zero bits above the highest set bit; w if none */
    unsigned n = 0;
    for (int bit = (int)w - 1; bit >= 0 && !((x >> bit) & 1); --bit) ++n;
    return n;
}
static unsigned ref_ctz(uint64_t x, unsigned w) {
    unsigned n = 0;
    for (unsigned bit = 0; bit < w && !((x >> bit) & 1); ++bit) ++n;
    return n;
}
static unsigned ref_popcount(uint64_t x) {
    unsigned n = 0;
    for (; x; x >>= 1) n += (unsigned)(x & 1);
    return n;
}

#define UNARY_CNT(FN, ARG, WANT, PRIARG)                                                                         \
    do {                                                                                                         \
        size_t got__ = t->FN(ARG);                                                                               \
        ++evals;                                                                                                 \
        if (got__ != (size_t)(WANT)) c16_fail(#FN, t, "wrong_count", "n=0x%" PRIARG " want %u got %zu", ARG, (unsigned)(WANT), got__); \
    } while (0)

static void unary_32(uint32_t x) {
    unsigned evals = 0;
    for (int ti = 0; ti < NTABS; ++ti) {
        const struct c16_table *t = tabs[ti];
        UNARY_CNT(clz_u32, x, ref_clz(x, 32), PRIx32);
        UNARY_CNT(clz_i32, (int32_t)x, ref_clz(x, 32), PRIx32);
        UNARY_CNT(ctz_u32, x, ref_ctz(x, 32), PRIx32);
        UNARY_CNT(ctz_i32, (int32_t)x, ref_ctz(x, 32), PRIx32);
    }
    V_COUNT("evaluations", evals);
}
static void unary_64(uint64_t x) {
    unsigned evals = 0;
    /* smallest power of two >= x, or "does not exist in size_t" */
    bool ru_ok = x <= ((uint64_t)1 << 63);
    uint64_t ru = 1;
    if (ru_ok)
        while (ru < x) ru <<= 1;
    bool p2 = ref_popcount(x) == 1;
    if (p2 || ref_popcount(x - 1) == 1 || ref_popcount(x + 1) == 1 || x > ((uint64_t)1 << 63) - 2) V_COUNT("nontrivial", 1);
    for (int ti = 0; ti < NTABS; ++ti) {
        const struct c16_table *t = tabs[ti];
        UNARY_CNT(clz_u64, x, ref_clz(x, 64), PRIx64);
        UNARY_CNT(clz_i64, (int64_t)x, ref_clz(x, 64), PRIx64);
        UNARY_CNT(clz_size, (size_t)x, ref_clz(x, 64), "zx");
        UNARY_CNT(ctz_u64, x, ref_ctz(x, 64), PRIx64);
        UNARY_CNT(ctz_i64, (int64_t)x, ref_ctz(x, 64), PRIx64);
        UNARY_CNT(ctz_size, (size_t)x, ref_ctz(x, 64), "zx");
        bool g = t->is_power_of_two((size_t)x);
        if (g != p2) c16_fail("is_power_of_two", t, "wrong_answer", "x=0x%" PRIx64 " want %d got %d", x, p2, g);
        size_t r = (size_t)0xA5A5A5A5A5A5A5A5ull;
        aws_reset_error();
        int rc = t->round_up_to_power_of_two((size_t)x, &r);
        int err = aws_last_error();
        evals += 2;
        if (ru_ok) {
            if (rc != AWS_OP_SUCCESS || r != ru)
                c16_fail("round_up_to_power_of_two", t, "wrong_result", "n=0x%" PRIx64 " want 0x%" PRIx64 " got rc=%d "
                         "r=0x%zx", x, ru, rc, r);
        } else if (rc != AWS_OP_ERR || err != AWS_ERROR_OVERFLOW_DETECTED) {
            c16_fail("round_up_to_power_of_two", t, "missed_overflow", "n=0x%" PRIx64 " > 2^63: want AWS_OP_ERR/"
                     "OVERFLOW_DETECTED, got rc=%d last_error=%d r=0x%zx", x, rc, err, r);
        }
    }
    V_COUNT("evaluations", evals);
}
static uint64_t total_unary(void) { return B64.n + B32.n; }
static void eval_unary(uint64_t index, void *ctx) {
    (void)ctx;
    BEE_ITEM(index);
    uint64_t x = index < B64.n ? B64.v[index] : B32.v[index - B64.n];
    unary_64(x);
    unary_32((uint32_t)x);
    unary_32((uint32_t)(x >> 32));
    if (index >= B64.n) unary_64(x << 32);
}

/* ------------------------------------------------------------------ min / max ----------------------------- */
#define MM_L 13
/* boundary values of an integer type given width and signedness, as mathematical integers */
static i128 mm_value(unsigned w, bool is_signed, unsigned k) {
    const i128 one = 1;
    if (is_signed) {
        const i128 MIN = -(one << (w - 1)), MAX = (one << (w - 1)) - 1;
        const i128 v[MM_L] = {MIN, MIN + 1, MIN + 2, -(one << (w / 2)), -2, -1, 0, 1, 2, one << (w / 2), MAX - 2, MAX - 1, MAX};
        return v[k];
    }
    const i128 MAX = (one << w) - 1, H = one << (w - 1);
    const i128 v[MM_L] = {0, 1, 2, 3, one << (w / 2), H - 2, H - 1, H, H + 1, H + 2, MAX - 2, MAX - 1, MAX};
    return v[k];
}
#define MM_INT(n, T, FMTCAST)                                                                                    \
    static void mm_##n(T a, T b, int ntabs) {                                                                    \
        const i128 A = (i128)a, B = (i128)b, lo = A <= B ? A : B, hi = A <= B ? B : A;                           \
        for (int ti = 0; ti < ntabs; ++ti) {                                                                     \
            const struct c16_table *t = tabs[ti];                                                                \
            T gl = t->min_##n(a, b), gh = t->max_##n(a, b);                                                      \
            if ((i128)gl != lo) c16_fail("min_" #n, t, "wrong_result", "a=%s b=%s want %s got %s", hex128(A), hex128(B), hex128(lo), hex128((i128)gl)); \
            if ((i128)gh != hi) c16_fail("max_" #n, t, "wrong_result", "a=%s b=%s want %s got %s", hex128(A), hex128(B), hex128(hi), hex128((i128)gh)); \
        }                                                                                                        \
    }
MM_INT(u8, uint8_t, 0)
MM_INT(i8, int8_t, 0)
MM_INT(u16, uint16_t, 0)
MM_INT(i16, int16_t, 0)
MM_INT(u32, uint32_t, 0)
MM_INT(i32, int32_t, 0)
MM_INT(u64, uint64_t, 0)
MM_INT(i64, int64_t, 0)
MM_INT(size, size_t, 0)
MM_INT(int, int, 0)

#define MM_FP(n, T)                                                                                              \
    static void mm_##n(T a, T b) {                                                                               \
        /* no NaN in the operand list: min/max are then total; -0.0 and 0.0 are the same number */             \
        const long double A = a, B = b, lo = A <= B ? A : B, hi = A <= B ? B : A;                                \
        for (int ti = 0; ti < NTABS; ++ti) {                                                                     \
            const struct c16_table *t = tabs[ti];                                                                \
            T gl = t->min_##n(a, b), gh = t->max_##n(a, b);                                                      \
            if (!((long double)gl == lo)) c16_fail("min_" #n, t, "wrong_result", "a=%La b=%La want %La got %La", A, B, lo, (long double)gl); \
            if (!((long double)gh == hi)) c16_fail("max_" #n, t, "wrong_result", "a=%La b=%La want %La got %La", A, B, hi, (long double)gh); \
        }                                                                                                        \
    }
MM_FP(float, float)
MM_FP(double, double)

static uint64_t total_minmax(void) { return MM_L * MM_L; }
static void eval_minmax(uint64_t index, void *ctx) {
    (void)ctx;
    BEE_ITEM(index);
    unsigned i = (unsigned)(index / MM_L), j = (unsigned)(index % MM_L);
#define V(w, s, k) mm_value(w, s, k)
    mm_u8((uint8_t)V(8, 0, i), (uint8_t)V(8, 0, j), NTABS);
    mm_i8((int8_t)V(8, 1, i), (int8_t)V(8, 1, j), NTABS);
    mm_u16((uint16_t)V(16, 0, i), (uint16_t)V(16, 0, j), NTABS);
    mm_i16((int16_t)V(16, 1, i), (int16_t)V(16, 1, j), NTABS);
    mm_u32((uint32_t)V(32, 0, i), (uint32_t)V(32, 0, j), NTABS);
    mm_i32((int32_t)V(32, 1, i), (int32_t)V(32, 1, j), NTABS);
    mm_u64((uint64_t)V(64, 0, i), (uint64_t)V(64, 0, j), NTABS);
    mm_i64((int64_t)V(64, 1, i), (int64_t)V(64, 1, j), NTABS);
    mm_size((size_t)V(64, 0, i), (size_t)V(64, 0, j), NTABS);
    mm_int((int)V(32, 1, i), (int)V(32, 1, j), NTABS);
#undef V
    const float f[MM_L] = {-INFINITY, -FLT_MAX, -1e10f, -1.0f, -FLT_TRUE_MIN, -0.0f, 0.0f, FLT_TRUE_MIN, 1.0f, 1.0f + FLT_EPSILON, 1e10f, FLT_MAX, INFINITY};
    const double d[MM_L] = {-INFINITY, -DBL_MAX, -1e300, -1.0, -DBL_TRUE_MIN, -0.0, 0.0, DBL_TRUE_MIN, 1.0, 1.0 + DBL_EPSILON, 1e300, DBL_MAX, INFINITY};
    mm_float(f[i], f[j]);
    mm_double(d[i], d[j]);
    V_COUNT("evaluations", 24 * NTABS);
    /* pairs that straddle the signed/unsigned reinterpretation point or the extremes */
    if (i != j) V_COUNT("nontrivial", 1);
}
static uint64_t total_minmax8(void) { return 65536; }
static void eval_minmax8(uint64_t index, void *ctx) {
    (void)ctx;
    BEE_ITEM(index);
    uint8_t a = (uint8_t)(index >> 8), b = (uint8_t)index;
    mm_u8(a, b, NTABS);
    mm_i8((int8_t)a, (int8_t)b, NTABS);
    V_COUNT("evaluations", 4 * NTABS);
}
static uint64_t total_minmax16(void) { return v_thorough() ? 65536 : 0; }
static void eval_minmax16(uint64_t index, void *ctx) {
    (void)ctx;
    BEE_ITEM(index);
    /* table 0 only (the configuration the build ships): min/max are the same source text in every variant and all
     * nine tables are compared on the boundary pairs (minmax) and on all 8-bit pairs (minmax8) */
    const struct c16_table *t = tabs[0];
    const uint16_t a = (uint16_t)index;
    const int ua = a, sa = (int16_t)a;
    for (uint32_t bb = 0; bb < 65536; ++bb) {
        const uint16_t b = (uint16_t)bb;
        const int ub = b, sb = (int16_t)b;
        if ((int)t->min_u16(a, b) != (ua <= ub ? ua : ub) || (int)t->max_u16(a, b) != (ua <= ub ? ub : ua))
            mm_u16(a, b, 1); /* re-evaluate with the reporting version */
        if ((int)t->min_i16((int16_t)a, (int16_t)b) != (sa <= sb ? sa : sb) ||
            (int)t->max_i16((int16_t)a, (int16_t)b) != (sa <= sb ? sb : sa))
            mm_i16((int16_t)a, (int16_t)b, 1);
    }
    V_COUNT("evaluations", 4 * 65536);
}

/* ------------------------------------------------------------------ time conversion ----------------------- */
static const uint64_t units[4] = {AWS_TIMESTAMP_SECS, AWS_TIMESTAMP_MILLIS, AWS_TIMESTAMP_MICROS, AWS_TIMESTAMP_NANOS};
static const uint64_t freqs_quick[] = {1, 2, 3, 7, 1000, 1000000, 999999999, 1000000000};
/* thorough: real counter frequencies and a few more shapes, all <= 10^9 */
static const uint64_t freqs_thorough[] = {1,        2,        3,        7,         1000,      1000000,   999999999, 1000000000,
                                          4,        10,       60,       999,       1024,      1193182,   3579545,   10000000,
                                          19200000, 24000000, 500000000, 536870912, 999999937, 333333333};
static const uint64_t *freqs;
static unsigned nfreqs;

#define CONV_EXTRA 40
/* ticks: all of B(64), then values that depend on the frequency pair (the b's of the property's
 * floor(MAX/b) rule are here the frequencies themselves, which are not powers of two):
 *   the smallest tick count whose exact result is >= 2^64, +-2;  q*old-1, q*old, q*old+1, (q+1)*old-1.. for
 *   q = floor(MAX/new) (whole-second part saturates);  multiples of the ratio +-1 at both ends of the range;
 *   old, new, old*new +-1. */
static uint64_t conv_ticks(uint64_t k, uint64_t oldf, uint64_t newf, bool *is_extra) {
    *is_extra = false;
    if (k < B64.n) return B64.v[k];
    *is_extra = true;
    k -= B64.n;
    u128 cand[CONV_EXTRA];
    unsigned n = 0;
    u128 t0 = (((u128)1 << 64) * oldf + newf - 1) / newf; /* ceil(2^64*old/new) */
    for (int d = -2; d <= 2; ++d) cand[n++] = t0 + (u128)(i128)d;
    u128 q = UINT64_MAX / newf;
    for (int d = -1; d <= 1; ++d) cand[n++] = q * oldf + (u128)(i128)d;
    for (int d = -1; d <= 1; ++d) cand[n++] = (q + 1) * oldf + (u128)(i128)d;
    u128 ratio = oldf > newf ? oldf / newf : newf / oldf;
    if (ratio == 0) ratio = 1;
    u128 m = UINT64_MAX / ratio;
    for (int d = -1; d <= 1; ++d) cand[n++] = m * ratio + (u128)(i128)d;
    for (int d = -1; d <= 1; ++d) cand[n++] = (m - 1) * ratio + (u128)(i128)d;
    for (int d = -1; d <= 1; ++d) cand[n++] = ratio + (u128)(i128)d;
    for (int d = -1; d <= 1; ++d) cand[n++] = 7 * ratio + (u128)(i128)d;
    for (int d = -1; d <= 1; ++d) cand[n++] = (u128)oldf + (u128)(i128)d;
    for (int d = -1; d <= 1; ++d) cand[n++] = (u128)newf + (u128)(i128)d;
    for (int d = -1; d <= 1; ++d) cand[n++] = (u128)oldf * newf + (u128)(i128)d;
    for (int d = -1; d <= 1; ++d) cand[n++] = (u128)UINT64_MAX / oldf * oldf + (u128)(i128)d;
    while (n < CONV_EXTRA) cand[n++] = 0;
    u128 c = cand[k];
    if (c >> 64) c = UINT64_MAX; /* out of range (incl. negative wrap): clamp — duplicates are harmless */
    return (uint64_t)c;
}

static void conv_case(uint64_t index, const char *fname, bool use_units, uint64_t ticks, uint64_t oldf, uint64_t newf, uint64_t k) {
    const u128 ex = (u128)ticks * newf / oldf;
    const uint64_t want = ex > UINT64_MAX ? UINT64_MAX : (uint64_t)ex;
    const bool rem_defined = oldf > newf && oldf % newf == 0;
    const uint64_t want_rem = rem_defined ? ticks % (oldf / newf) : 0;
    const uint64_t SENT = 0xA5A5A5A5A5A5A5A5ull;
    uint64_t g0 = 0, r0 = 0;
    for (int ti = 0; ti < NTABS; ++ti) {
        const struct c16_table *t = tabs[ti];
        uint64_t (*f)(uint64_t, uint64_t, uint64_t, uint64_t *) = use_units ? t->convert_units : t->convert_u64;
        uint64_t rem = 0; /* "be sure to set it to 0 first if you care" */
        uint64_t got = f(ticks, oldf, newf, &rem);
        uint64_t rem2 = SENT;
        uint64_t got2 = f(ticks, oldf, newf, &rem2);
        uint64_t got3 = f(ticks, oldf, newf, NULL);
        if (got != want)
            c16_fail(fname, t, ex > UINT64_MAX ? "wrong_saturation" : "wrong_value", "ticks=%" PRIu64 " old=%" PRIu64
                     " new=%" PRIu64 " floor(ticks*new/old)=%s want %" PRIu64 " got %" PRIu64, ticks, oldf, newf,
                     hex128((i128)ex), want, got);
        if (got2 != got || got3 != got)
            c16_fail(fname, t, "value_depends_on_remainder_arg", "ticks=%" PRIu64 " old=%" PRIu64 " new=%" PRIu64
                     " got %" PRIu64 " / %" PRIu64 " (sentinel) / %" PRIu64 " (NULL)", ticks, oldf, newf, got, got2, got3);
        if (rem_defined) {
            if (rem != want_rem || rem2 != want_rem)
                c16_fail(fname, t, "wrong_remainder", "ticks=%" PRIu64 " old=%" PRIu64 " new=%" PRIu64 " want ticks mod %"
                         PRIu64 " = %" PRIu64 " got %" PRIu64 " (pre-set 0) / %" PRIu64 " (pre-set sentinel)", ticks, oldf,
                         newf, oldf / newf, want_rem, rem, rem2);
        } else {
            if (rem != 0 || (rem2 != 0 && rem2 != SENT))
                c16_fail(fname, t, "remainder_written_when_undefined", "ticks=%" PRIu64 " old=%" PRIu64 " new=%" PRIu64
                         ": remainder is not defined for this pair, got %" PRIu64 " (pre-set 0) / 0x%" PRIx64
                         " (pre-set sentinel)", ticks, oldf, newf, rem, rem2);
        }
        if (ti == 0) {
            g0 = got;
            r0 = rem;
        } else if (got != g0 || rem != r0) {
            c16_fail(fname, t, "variants_differ", "ticks=%" PRIu64 " old=%" PRIu64 " new=%" PRIu64 ": %s/-%s gives %"
                     PRIu64 " rem %" PRIu64 ", this one %" PRIu64 " rem %" PRIu64, ticks, oldf, newf, tabs[0]->impl,
                     tabs[0]->opt, g0, r0, got, rem);
        }
    }
    V_COUNT("evaluations", 3 * NTABS);
    /* non-trivial: within +-2 ticks of the first saturating tick count, or a defined non-zero remainder */
    bool near = false;
    if (newf > oldf) {
        u128 t0 = (((u128)1 << 64) * oldf + newf - 1) / newf;
        i128 d = (i128)ticks - (i128)t0;
        near = d >= -2 && d <= 2;
    }
    if (near) V_COUNT("conv_near_saturation_point", 1);
    if (ex > UINT64_MAX) V_COUNT("conv_saturated", 1);
    if (rem_defined && want_rem) V_COUNT("conv_remainder_nonzero", 1);
    if (rem_defined && !want_rem) V_COUNT("conv_remainder_zero_defined", 1);
    if (near || (rem_defined && want_rem)) V_COUNT("nontrivial", 1);
    if (use_units && oldf == 1 && newf == 1000000000 && ticks == 18446744074ull && k == B64.n + 2)
        v_sample("%s:%" PRIu64 " aws_timestamp_convert(%" PRIu64 " s -> ns): floor=%s -> %" PRIu64 " (saturated); %" PRIu64
                 " s -> %" PRIu64, "convert_units", index, ticks, hex128((i128)ex), tabs[1]->convert_units(ticks, oldf, newf, NULL),
                 ticks - 1, tabs[1]->convert_units(ticks - 1, oldf, newf, NULL));
    if (use_units && oldf == 1000000000 && newf == 1000 && ticks == UINT64_MAX && k < B64.n) {
        uint64_t rr = 0;
        uint64_t gg = tabs[2]->convert_units(ticks, oldf, newf, &rr);
        v_sample("convert_units:%" PRIu64 " aws_timestamp_convert(UINT64_MAX ns -> ms) = %" PRIu64 " remainder %" PRIu64
                 " ns (fallback)", index, gg, rr);
    }
}

static uint64_t total_conv_units(void) { return (uint64_t)(B64.n + CONV_EXTRA) * 16; }
static void eval_conv_units(uint64_t index, void *ctx) {
    (void)ctx;
    BEE_ITEM(index);
    uint64_t i = index;
    unsigned to = bee_digit(&i, 4), from = bee_digit(&i, 4);
    bool extra;
    uint64_t ticks = conv_ticks(i, units[from], units[to], &extra);
    conv_case(index, "timestamp_convert", true, ticks, units[from], units[to], i);
}
static uint64_t total_conv_freq(void) { return (uint64_t)(B64.n + CONV_EXTRA) * nfreqs * nfreqs; }
/* a conversion is a function of its arguments: not of which other conversions were made before it, on this thread or another.
 * Every case is therefore evaluated again after "priming" calls with the same source frequency and another target, made
 * on this thread and on a freshly created one (added after two seeded changes that cached a divisor / a ratio of the last
 * frequency pair in static and thread-local storage - invisible when pairs are visited in a fixed order) */
struct prime_job {
    uint64_t oldf, newf;
};
static void *prime_fn(void *p) {
    const struct prime_job *j = (const struct prime_job *)p;
    for (int ti = 0; ti < NTABS; ++ti) {
        uint64_t rem = 0;
        (void)tabs[ti]->convert_u64(1234567891ull, j->oldf == 7919 ? 7907 : 7919, 11, &rem); /* an unrelated pair first ... */
        (void)tabs[ti]->convert_u64(1234567891ull, j->oldf, j->newf, &rem);                  /* ... then same source, other target */
    }
    return NULL;
}
static void eval_conv_freq(uint64_t index, void *ctx) {
    (void)ctx;
    BEE_ITEM(index);
    uint64_t i = index;
    unsigned nw = bee_digit(&i, nfreqs), od = bee_digit(&i, nfreqs);
    bool extra;
    uint64_t ticks = conv_ticks(i, freqs[od], freqs[nw], &extra);
    conv_case(index, "timestamp_convert_u64", false, ticks, freqs[od], freqs[nw], i);
    static const uint64_t primes[3] = {1000000ull, 3ull, 1000ull};
    for (int pk = 0; pk < 3 && !v_sh->viol_count; ++pk) {
        if (primes[pk] == freqs[nw]) continue;
        struct prime_job j = {freqs[od], primes[pk]};
        prime_fn(&j);
        conv_case(index, "timestamp_convert_u64", false, ticks, freqs[od], freqs[nw], i);
        pthread_t th;
        if (pthread_create(&th, NULL, prime_fn, &j) != 0) _exit(2);
        pthread_join(th, NULL);
        conv_case(index, "timestamp_convert_u64", false, ticks, freqs[od], freqs[nw], i);
    }
}

/* ------------------------------------------------------------------ main ---------------------------------- */
int main(int argc, char **argv) {
    v_init(argc, argv);
    build_B(&B64, 64, v_thorough());
    build_B(&B32, 32, v_thorough());
    if (v_thorough()) {
        freqs = freqs_thorough;
        nfreqs = sizeof(freqs_thorough) / sizeof(freqs_thorough[0]);
    } else {
        freqs = freqs_quick;
        nfreqs = sizeof(freqs_quick) / sizeof(freqs_quick[0]);
    }
    if (!v_replay_token) {
        v_out("INFO tier=%s |B(64)|=%zu |B(32)|=%zu frequencies=%u tables=%d", v_tier, B64.n, B32.n, nfreqs, NTABS);
        for (int ti = 0; ti < NTABS; ++ti)
            v_out("INFO table %d: %s at -%s, selected by math.inl: %s", ti, tabs[ti]->impl, tabs[ti]->opt, tabs[ti]->inl);
    }
    bee_register("arith_u64", total_pairs64, eval_u64, 10);
    bee_register("arith_u32", total_pairs32, eval_u32, 10);
    bee_register("arith_size", total_pairs64, eval_size, 10);
    bee_register("unary", total_unary, eval_unary, 10);
    bee_register("minmax", total_minmax, eval_minmax, 10);
    bee_register("minmax8", total_minmax8, eval_minmax8, 10);
    bee_register("minmax16", total_minmax16, eval_minmax16, 30);
    bee_register("convert_units", total_conv_units, eval_conv_units, 10);
    bee_register("convert_freq", total_conv_freq, eval_conv_freq, 10);
    return bee_main(argc, argv);
}
