LEVEL = "model_checking"
HARNESSES = [
    # black box: the scheduler as linked from the library archive
    dict(name="sched", src=["sched.c"], variant="asan", deadline={"quick": 90, "thorough": 900}),
    # thorough-only deviation (DESIGN section 2 rule 5, section 5 C07): task_scheduler.c compiled into the harness TU with
    # aws_priority_queue_push_ref redirected, so that <=2 pushes per history can be made to fail (timed_list code)
    dict(name="sched-inj", src=["sched.c"], variant="asan", cflags=["-DC07_INJECT"], tiers=["thorough"],
         deadline={"quick": 90, "thorough": 900}),
    # timed-heap shapes with 6 (quick) / 7 (thorough) entries: every schedule order x cancel x run_all threshold (BEE)
    dict(name="heapperm", src=["heapperm.c"], variant="asan", deadline={"quick": 120, "thorough": 900}),
]
ASSUMPTIONS = [
    "bounds: 3 tasks (thorough also 4: T3 passive), times {0,1,2,5,UINT64_MAX} for schedule_future and run_all; every "
    "configuration is explored to a fixpoint (histories of every length over that alphabet), clean_up is terminal",
    "re-entrancy is a configuration: each task function has one behaviour out of {nothing, schedule_now(other), "
    "schedule_future(other,t), re-schedule itself once per foreign hand-over and only on RUN_READY, cancel(other) if "
    "pending}; quick = 20 single-behaviour (every target, every time) + 12 hand-picked assignments on 3 tasks; thorough = "
    "additionally all 5^3 kind assignments for 3 tasks in two parametrisations (target next/previous task, times 1/now "
    "resp. UINT64_MAX/2), the 32 quick assignments + 2 more on 4 tasks, and 25 assignments (plain, 20 single-behaviour, 4 interplay) with injected push failures",
    "documented preconditions only: a task is handed over only while it is not pending (also from callbacks); cancel is "
    "applied only to pending tasks (DESIGN section 6); inside clean_up each task function schedules at most once, so "
    "clean_up terminates",
    "exactly-once is counted per hand-over, not per task object (DESIGN section 6); equal-time tasks may run in either order",
    "injected push failure (thorough, harness sched-inj): the wrapper returns AWS_OP_ERR/AWS_ERROR_OOM and leaves queue "
    "and handle untouched, exactly what a failed growth of the heap array does; <=2 per history, armed by an alphabet "
    "symbol so that pushes made from callbacks can fail as well",
    "states are de-duplicated on a 128-bit hash of the canonical state (hash compaction)",
]
