/*
 * C07 — timed-heap shapes beyond the ESX model's four tasks (BEE section, added after a seeded change in the heap's
 * remove-from-the-middle path that needs six or more timed entries: s_remove_node only has to sift UP the element it moved
 * into a vacated slot when the heap is at least six entries big).
 *
 * For N in {6 (quick), 7 (thorough)}: every order of scheduling N tasks with distinct times (N! heap build orders), then
 * cancel one of them (or none), optionally schedule two later tasks, then run_all at every threshold, then run_all(MAX),
 * then clean_up.  Oracle = the property: cancelled task invoked once with CANCELED at once; each run_all runs exactly the
 * pending tasks whose time <= now, in non-decreasing time order; has_tasks reports the earliest pending time (MAX when
 * none); nothing runs twice, nothing is lost.
 */
#include "bee.h"
#include "galloc.h"
#include <aws/common/task_scheduler.h>

#define MAXT 9
static struct aws_task tk[MAXT];
static uint64_t ttime[MAXT];
static int nrun[MAXT], ncan[MAXT];
static int order[64], norder;
static void fn(struct aws_task *t, void *arg, enum aws_task_status st) {
    (void)t;
    int i = (int)(intptr_t)arg;
    if (st == AWS_TASK_STATUS_RUN_READY) nrun[i]++;
    else ncan[i]++;
    if (norder < 64) order[norder++] = i * 2 + (st == AWS_TASK_STATUS_RUN_READY ? 0 : 1);
}
static unsigned fact(unsigned n) { return n < 2 ? 1 : n * fact(n - 1); }
static unsigned N_(void) { return v_thorough() ? 7 : 6; }
static uint64_t perm_total(void) { return (uint64_t)fact(N_()) * (N_() + 1) * 2 * (N_() + 1); }

static void perm_eval(uint64_t idx, void *ctx) {
    (void)ctx;
    BEE_ITEM(idx);
    unsigned N = N_();
    uint64_t x = idx;
    unsigned thr = bee_digit(&x, N + 1), extra = bee_digit(&x, 2), canc = bee_digit(&x, N + 1);
    /* x is now a permutation index: Lehmer code */
    unsigned perm[MAXT], avail[MAXT];
    for (unsigned i = 0; i < N; ++i) avail[i] = i;
    for (unsigned i = 0; i < N; ++i) {
        unsigned f = fact(N - 1 - i), d = (unsigned)(x / f);
        x %= f;
        perm[i] = avail[d];
        for (unsigned k = d; k + 1 < N - i; ++k) avail[k] = avail[k + 1];
    }
    galloc_reset();
    struct aws_task_scheduler s;
    if (aws_task_scheduler_init(&s, galloc_get(0, 0))) {
        bee_fail("init", "scheduler init failed");
        return;
    }
    memset(nrun, 0, sizeof(nrun));
    memset(ncan, 0, sizeof(ncan));
    norder = 0;
    V_COUNT("evaluations", 1);
    unsigned total = N + (extra ? 2 : 0);
    for (unsigned i = 0; i < total; ++i) aws_task_init(&tk[i], fn, (void *)(intptr_t)i, "t");
    /* task with identity p gets time 10*(p+1): schedule in permuted order */
    for (unsigned i = 0; i < N; ++i) {
        unsigned p = perm[i];
        ttime[p] = 10ull * (p + 1);
        aws_task_scheduler_schedule_future(&s, &tk[p], ttime[p]);
    }
    int cancelled = canc < N ? (int)canc : -1;
    if (cancelled >= 0) {
        V_COUNT("nontrivial", 1);
        aws_task_scheduler_cancel_task(&s, &tk[cancelled]);
        BEE_CHECK(ncan[cancelled] == 1 && nrun[cancelled] == 0, "cancel-not-invoked", "cancel of the task with time %llu: %d CANCELED / %d RUN invocations", (unsigned long long)ttime[cancelled], ncan[cancelled], nrun[cancelled]);
        for (unsigned i = 0; i < N; ++i)
            if ((int)i != cancelled) BEE_CHECK(nrun[i] + ncan[i] == 0, "cancel-wrong-task", "cancelling the task with time %llu invoked the task with time %llu", (unsigned long long)ttime[cancelled], (unsigned long long)ttime[i]);
    }
    if (extra) {
        ttime[N] = 10ull * (N + 1);
        ttime[N + 1] = 10ull * (N + 2);
        aws_task_scheduler_schedule_future(&s, &tk[N], ttime[N]);
        aws_task_scheduler_schedule_future(&s, &tk[N + 1], ttime[N + 1]);
    }
    /* earliest pending */
    uint64_t now = thr == 0 ? 5 : 10ull * thr + 5; /* between two task times */
    for (int pass = 0; pass < 2; ++pass) {
        uint64_t earliest = UINT64_MAX;
        for (unsigned i = 0; i < total; ++i)
            if ((int)i != cancelled && !nrun[i] && ttime[i] < earliest) earliest = ttime[i];
        uint64_t next = 1;
        bool has = aws_task_scheduler_has_tasks(&s, &next);
        BEE_CHECK(has == (earliest != UINT64_MAX) && next == earliest, "next-task-time", "has_tasks says %d / %llu, the earliest pending time is %llu", (int)has, (unsigned long long)next, (unsigned long long)earliest);
        int o0 = norder;
        uint64_t t = pass == 0 ? now : UINT64_MAX;
        aws_task_scheduler_run_all(&s, t);
        uint64_t last = 0;
        for (int k = o0; k < norder && k < 64; ++k) {
            int i = order[k] / 2;
            BEE_CHECK(order[k] % 2 == 0, "run-status", "run_all invoked a task with CANCELED");
            BEE_CHECK(ttime[i] <= t, "ran-early", "run_all(%llu) ran the task with time %llu", (unsigned long long)t, (unsigned long long)ttime[i]);
            BEE_CHECK(ttime[i] >= last, "time-order", "run_all(%llu) ran time %llu after time %llu", (unsigned long long)t, (unsigned long long)ttime[i], (unsigned long long)last);
            last = ttime[i];
        }
        for (unsigned i = 0; i < total; ++i) {
            if ((int)i == cancelled) continue;
            if (ttime[i] <= t) BEE_CHECK(nrun[i] == 1 && ncan[i] == 0, "not-run-when-due", "after run_all(%llu) the task with time %llu has %d RUN / %d CANCELED invocations (schedule order index %llu)", (unsigned long long)t, (unsigned long long)ttime[i], nrun[i], ncan[i], (unsigned long long)idx);
            else BEE_CHECK(nrun[i] + ncan[i] == 0, "ran-early", "task with time %llu invoked before its time", (unsigned long long)ttime[i]);
        }
        if (v_sh->viol_count) break;
    }
    aws_task_scheduler_clean_up(&s);
    for (unsigned i = 0; i < total; ++i) BEE_CHECK(nrun[i] + ncan[i] == 1, "exactly-once", "task with time %llu invoked %d times in total", (unsigned long long)ttime[i], nrun[i] + ncan[i]);
    BEE_CHECK(ga.live_blocks == 0, "leak", "%llu blocks live after clean_up", (unsigned long long)ga.live_blocks);
}

int main(int argc, char **argv) {
    v_init(argc, argv);
    aws_common_library_init(aws_default_allocator());
    bee_register("heapperm", perm_total, perm_eval, 20);
    v_sample("heapperm index = (schedule order of N timed tasks as a permutation, task cancelled or none, two later tasks or not, run_all threshold)");
    return bee_main(argc, argv);
}
