/*
 * C07 — aws_task_scheduler under ESX (DESIGN §5 C07, readings in §6).
 *
 * The real scheduler is driven over every history of schedule_now / schedule_future / cancel / run_all / has_tasks /
 * clean_up; task functions are re-entrant according to a per-configuration behaviour assignment (outer loop).
 *
 * Oracle = a monitor that is stepped from inside the task functions, so it stays in lock-step with the library even
 * when callbacks schedule / cancel re-entrantly.  It is a reference scheduler reduced to what the property states:
 *   per task: pending hand-over?  run-now or timed(time)?  scheduling sequence number;  "belongs to the batch of the
 *   run_all in progress" (= was pending and due when that run_all started).
 * Every invocation is checked when it happens (the log delta of the current operation is only kept for messages):
 *   exactly-once      an invocation needs a pending hand-over and consumes it (per HAND-OVER, DESIGN §6)
 *   cancel-*          inside cancel_task(T) the next invocation is T, status CANCELED, and it does happen
 *   run-status        run_all invokes with RUN_READY;  cleanup-status: clean_up invokes with CANCELED
 *   ran-early         RUN of a task whose time is after the run_all time
 *   same-run          RUN of a task that was handed over during this very run_all
 *   now-first         a run-now task runs after a timed task of the same run_all
 *   fifo-order        run-now tasks not in scheduling order
 *   time-order        timed tasks of one run_all not in non-decreasing time order
 *   not-run-when-due  run_all returned and a task that was pending and due at its start was not invoked
 *   cleanup-missed    clean_up returned and a hand-over is still pending
 *   spurious          an invocation outside run_all / cancel / clean_up
 *   next-task-time / has-tasks-result   the query vs (0 | earliest pending time | UINT64_MAX)
 *   structure         a pending task sits in no container / twice / a consumed one still sits in one / wrong FIFO order /
 *                     wrong stored time / heap handle not naming its own slot: each of these is a definite future
 *                     violation of exactly-once or of the order (clean_up or cancel is the observer), reported early.
 * Ties (equal times) may run in either order; the monitor follows the library's choice.
 *
 * Build flavours: default = black box (library archive);  -DC07_INJECT = task_scheduler.c is compiled into this TU with
 * aws_priority_queue_push_ref redirected so that an "arm" symbol of the alphabet makes the next push fail (<=2 per
 * history) — the only way into the timed_list fallback / merge code.
 *
 * Canonical state and why equal canon => equal futures: see m_canon().
 */
#include "esx.h"
#include "galloc.h"
#include <aws/common/task_scheduler.h>

#ifdef C07_INJECT
#    include <aws/common/logging.h>
static int inj_armed, inj_used;
static int inj_consumed_in_op;
static int c07_push_ref(struct aws_priority_queue *q, void *item, struct aws_priority_queue_node *bp) {
    if (inj_armed) {
        /* same observable outcome as a failed growth of the heap array: queue and handle untouched, AWS_OP_ERR */
        inj_armed = 0;
        inj_consumed_in_op++;
        return aws_raise_error(AWS_ERROR_OOM);
    }
    return aws_priority_queue_push_ref(q, item, bp);
}
#    define aws_priority_queue_push_ref c07_push_ref
#    include "task_scheduler.c"
#    undef aws_priority_queue_push_ref
#    define INJ 1
#else
static int inj_armed, inj_used, inj_consumed_in_op;
#    define INJ 0
#endif

#define MAXT 4
#define NTIMES 5
static const uint64_t TIMES[NTIMES] = {0, 1, 2, 5, UINT64_MAX};
static const char *const TNAME[NTIMES] = {"0", "1", "2", "5", "MAX"};

/* ---- configuration: number of tasks + behaviour of each task function ---------------------------------------- */
enum { B_NONE, B_NOW, B_FUT, B_SELF, B_CANCEL };
struct beh {
    int kind;
    int other; /* B_NOW, B_FUT, B_CANCEL */
    int tix;   /* B_FUT: time index; B_SELF: -1 = schedule_now(self), else schedule_future(self, TIMES[tix]) */
};
static struct {
    char name[96];
    int nt;
    struct beh b[MAXT];
} g_cfg;

/* ---- objects --------------------------------------------------------------------------------------------------- */
static struct aws_task_scheduler *S;
static struct aws_task *T[MAXT];
static int g_cleaned;
static uint64_t g_base_blocks;
static int g_no_structure;

/* ---- reference / monitor ---------------------------------------------------------------------------------------- */
struct rtask {
    int pending;  /* a hand-over is outstanding */
    int is_now;   /* run-now hand-over */
    int tix;      /* time index of a timed hand-over */
    int in_batch; /* pending and due when the run_all in progress started */
    int fuel;     /* B_SELF: may re-schedule itself once more (set by every hand-over that is not its own) */
    uint64_t seq; /* order of hand-overs */
    int inv_in_op; /* invocations during the current operation (vacuity only) */
};
static struct rtask ref[MAXT];
static uint64_t g_seq;
enum { M_IDLE, M_RUN, M_CLEANUP };
static struct {
    int mode;
    int now_ix;
    int cancel_target; /* cancel_task(T) entered, T not yet invoked */
    int cancel_depth;
    int timed_started;
    uint64_t last_now_seq;
    int last_tix;
    int cleanup_fired[MAXT];
    int cleanup_rounds_seen;
} cx;

/* log delta of the current operation (messages only) */
static struct {
    int8_t task, status;
} g_log[48];
static int g_nlog;

/* ---- vacuity events: counted once per explored transition (not per replay), see m_teardown --------------------- */
enum {
    EV_INV_RUN, EV_INV_CANCELED, EV_RE_SCHED_OTHER, EV_RE_SCHED_SELF, EV_RE_SCHED_FROM_CANCEL_CB, EV_RE_CANCEL,
    EV_RE_CANCEL_IN_BATCH, EV_RE_CANCEL_HEAP, EV_RE_CANCEL_ASAP, EV_RE_CANCEL_TLIST, EV_NESTED_CANCEL, EV_TWICE_IN_RUN,
    EV_RESCHED_THEN_CANCELLED_SAME_RUN, EV_OP_CANCEL_ASAP, EV_OP_CANCEL_HEAP, EV_OP_CANCEL_HEAP_INNER, EV_OP_CANCEL_TLIST,
    EV_RUN_TIES, EV_RUN_MIXED, EV_RUN_LEFT_NOT_DUE, EV_RUN_MAXTIME_TASK, EV_CLEANUP_CANCELS, EV_CLEANUP_RE_SCHED,
    EV_PUSH_FAIL, EV_PUSH_FAIL_REENTRANT, EV_TLIST_SORTED_INSERT, EV_TLIST_MERGE, EV_TLIST_RUN, EV_TLIST_HAS_TASKS_MIN,
    EV_TEMPLATE_COPY, EV_N
};
static const char *const EV_NAME[EV_N] = {
    "inv_run", "inv_canceled", "reentrant_schedules_of_other", "reentrant_self_reschedules",
    "reentrant_schedules_from_cancel_callback", "reentrant_cancels", "reentrant_cancels_of_task_in_running_batch",
    "reentrant_cancels_from_heap", "reentrant_cancels_from_asap", "reentrant_cancels_from_timed_list",
    "nested_cancels_depth2plus", "task_invoked_twice_in_one_run_all", "self_rescheduled_then_cancelled_in_same_run_all",
    "op_cancels_from_asap", "op_cancels_from_heap", "op_cancels_from_heap_not_last_slot", "op_cancels_from_timed_list",
    "run_all_with_equal_time_ties", "run_all_with_now_and_timed", "run_all_leaving_later_tasks", "run_all_running_uint64max_task",
    "cleanup_cancelled_tasks", "cleanup_reentrant_schedules", "injected_push_failures", "injected_push_failures_reentrant",
    "timed_list_sorted_inserts_nonempty", "timed_list_merges_with_heap", "timed_list_tasks_run", "has_tasks_min_from_timed_list",
    "tasks_scheduled_as_struct_copy_of_pending_task",
};
static uint32_t ev[EV_N];
static int ev_idx[EV_N];
static int g_since_enabled; /* 1 = an apply() happened after the last enabled() call (ie. ev[] belongs to a new transition) */

/* ---- helpers ---------------------------------------------------------------------------------------------------- */
static int task_index(const struct aws_task *t) {
    for (int i = 0; i < g_cfg.nt; ++i)
        if (t == T[i]) return i;
    return -1;
}
static int tix_of(uint64_t t) {
    for (int k = 0; k < NTIMES; ++k)
        if (TIMES[k] == t) return k;
    return -1;
}
static const char *log_str(void) {
    static char b[400];
    size_t o = 0;
    b[0] = 0;
    for (int i = 0; i < g_nlog && o + 16 < sizeof(b); ++i)
        o += (size_t)snprintf(b + o, sizeof(b) - o, "%sT%d:%s", i ? " " : "", g_log[i].task, g_log[i].status == AWS_TASK_STATUS_RUN_READY ? "RUN" : "CANCELED");
    return b;
}
static const char *ctx_str(void) {
    static char b[80];
    if (cx.mode == M_RUN) snprintf(b, sizeof(b), "run_all(%s)", TNAME[cx.now_ix]);
    else if (cx.mode == M_CLEANUP) snprintf(b, sizeof(b), "clean_up");
    else snprintf(b, sizeof(b), "no run in progress");
    return b;
}
static const char *ref_str(int i) {
    static char b[4][48];
    static int k;
    char *o = b[k = (k + 1) & 3];
    if (!ref[i].pending) snprintf(o, 48, "T%d(not pending)", i);
    else if (ref[i].is_now) snprintf(o, 48, "T%d(now,#%" PRIu64 ")", i, ref[i].seq);
    else snprintf(o, 48, "T%d(t=%s)", i, TNAME[ref[i].tix]);
    return o;
}

/* where does the library hold task i right now?  0 nowhere, 1 asap_list, 2 heap, 3 timed_list, -1 broken */
static int list_find(const struct aws_linked_list *l, const struct aws_task *t) {
    int n = 0;
    for (const struct aws_linked_list_node *nd = l->head.next; nd && nd != &l->tail && n <= MAXT + 1; nd = nd->next, ++n)
        if (nd == &t->node) return n;
    return -1;
}
static int where_is(int i) {
    if (list_find(&S->asap_list, T[i]) >= 0) return 1;
    if (list_find(&S->timed_list, T[i]) >= 0) return 3;
    size_t n = aws_priority_queue_size(&S->timed_queue);
    struct aws_task **d = (struct aws_task **)S->timed_queue.container.data;
    for (size_t s = 0; s < n; ++s)
        if (d[s] == T[i]) return 2;
    return 0;
}

/* ---- harness-side calls into the scheduler (driver ops and task behaviours share them) ------------------------- */
static void do_schedule(int i, int k /* -1 = now */, int by /* -1 = driver */) {
    if (ref[i].pending) {
        fprintf(stderr, "C07 harness bug: scheduling pending task T%d\n", i);
        _exit(2);
    }
    ref[i].pending = 1;
    ref[i].is_now = k < 0;
    ref[i].tix = k < 0 ? 0 : k;
    ref[i].in_batch = 0;
    ref[i].seq = ++g_seq;
    if (by != i) ref[i].fuel = 1;
    if (i & 1) {
        /* odd-numbered tasks begin each life as a struct copy of a task that is pending at that moment (a user filling in
         * a new task from a template; both schedule calls re-initialise every link field themselves): prefer a template
         * that sits in one of the lists, so that the copy carries live list links and a live heap handle */
        int p = -1;
        for (int j = 0; j < g_cfg.nt && p < 0; ++j)
            if (j != i && ref[j].pending && T[j]->node.next) p = j;
        for (int j = 0; j < g_cfg.nt && p < 0; ++j)
            if (j != i && ref[j].pending) p = j;
        if (p >= 0) {
            *T[i] = *T[p];
            T[i]->arg = (void *)(intptr_t)i;
            ev[EV_TEMPLATE_COPY]++;
        }
    }
    if (k < 0) {
        aws_task_scheduler_schedule_now(S, T[i]);
    } else {
        int was_armed = inj_armed;
        int tl_nonempty = !aws_linked_list_empty(&S->timed_list);
        aws_task_scheduler_schedule_future(S, T[i], TIMES[k]);
        if (was_armed && !inj_armed) {
            ev[EV_PUSH_FAIL]++;
            if (by >= 0) ev[EV_PUSH_FAIL_REENTRANT]++;
            if (tl_nonempty) ev[EV_TLIST_SORTED_INSERT]++;
        }
    }
}

static void do_cancel(int j) {
    if (!ref[j].pending || cx.cancel_target != -1) {
        fprintf(stderr, "C07 harness bug: cancel of T%d (pending %d, target %d)\n", j, ref[j].pending, cx.cancel_target);
        _exit(2);
    }
    cx.cancel_target = j;
    cx.cancel_depth++;
    aws_task_scheduler_cancel_task(S, T[j]);
    cx.cancel_depth--;
    if (!esx_failed)
        ESX_CHECK(cx.cancel_target == -1, "cancel-not-invoked", "cancel_task(T%d) returned without invoking T%d (during %s); log of this op: [%s]", j, j, ctx_str(), log_str());
    cx.cancel_target = -1;
}

/* ---- the monitor: called first thing by every task function ------------------------------------------------------ */
static void monitor_invoke(int i, enum aws_task_status status) {
    struct rtask *r = &ref[i];
    const char *st = status == AWS_TASK_STATUS_RUN_READY ? "RUN_READY" : (status == AWS_TASK_STATUS_CANCELED ? "CANCELED" : "?");
    if (!r->pending) {
        esx_fail("exactly-once", "T%d invoked (%s, during %s) although it has no outstanding hand-over (already invoked for it, or never scheduled); log of this op: [%s]", i, st, ctx_str(), log_str());
        return;
    }
    if (cx.cancel_target >= 0) {
        if (i != cx.cancel_target) {
            esx_fail("cancel-wrong-task", "cancel_task(T%d) invoked T%d (%s) first; log of this op: [%s]", cx.cancel_target, i, st, log_str());
            return;
        }
        ESX_CHECK(status == AWS_TASK_STATUS_CANCELED, "cancel-status", "cancel_task(T%d) invoked it with status %s", i, st);
        cx.cancel_target = -1;
    } else if (cx.mode == M_CLEANUP) {
        ESX_CHECK(status == AWS_TASK_STATUS_CANCELED, "cleanup-status", "clean_up invoked T%d with status %s", i, st);
        ev[EV_CLEANUP_CANCELS]++;
    } else if (cx.mode == M_RUN) {
        ESX_CHECK(status == AWS_TASK_STATUS_RUN_READY, "run-status", "run_all invoked %s with status %s", ref_str(i), st);
        if (!r->in_batch) {
            if (!r->is_now && TIMES[r->tix] > TIMES[cx.now_ix])
                esx_fail("ran-early", "%s was run by run_all(%s), before its time; log of this op: [%s]", ref_str(i), TNAME[cx.now_ix], log_str());
            else
                esx_fail("same-run", "%s was handed over during run_all(%s) and was run by that same call instead of waiting for the next one; log of this op: [%s]", ref_str(i), TNAME[cx.now_ix], log_str());
            return;
        }
        if (r->is_now) {
            ESX_CHECK(!cx.timed_started, "now-first", "run-now task T%d ran after a timed task in run_all(%s); log of this op: [%s]", i, TNAME[cx.now_ix], log_str());
            ESX_CHECK(r->seq > cx.last_now_seq, "fifo-order", "run-now task T%d (hand-over #%" PRIu64 ") ran after a run-now task handed over later (#%" PRIu64 "); log of this op: [%s]", i, r->seq, cx.last_now_seq, log_str());
            cx.last_now_seq = r->seq;
        } else {
            if (cx.timed_started)
                ESX_CHECK(TIMES[r->tix] >= TIMES[cx.last_tix], "time-order", "timed task %s ran after a task with the later time %s in run_all(%s); log of this op: [%s]", ref_str(i), TNAME[cx.last_tix], TNAME[cx.now_ix], log_str());
            cx.timed_started = 1;
            cx.last_tix = r->tix;
            if (r->tix == NTIMES - 1) ev[EV_RUN_MAXTIME_TASK]++;
        }
    } else {
        esx_fail("spurious", "T%d invoked (%s) outside run_all / cancel_task / clean_up", i, st);
        return;
    }
    r->pending = 0;
    r->in_batch = 0;
}

static void behave(int i, enum aws_task_status status) {
    const struct beh *b = &g_cfg.b[i];
    bool in_cancel_cb = status == AWS_TASK_STATUS_CANCELED && cx.mode != M_CLEANUP;
    switch (b->kind) {
        case B_NOW:
        case B_FUT: {
            int j = b->other;
            if (ref[j].pending) break; /* documented precondition: a task is handed over only while it is not pending */
            if (cx.mode == M_CLEANUP) {
                /* so that clean_up terminates: inside clean_up every task function schedules at most once */
                if (cx.cleanup_fired[i]) break;
                cx.cleanup_fired[i] = 1;
                ev[EV_CLEANUP_RE_SCHED]++;
            }
            ev[EV_RE_SCHED_OTHER]++;
            if (in_cancel_cb) ev[EV_RE_SCHED_FROM_CANCEL_CB]++;
            do_schedule(j, b->kind == B_NOW ? -1 : b->tix, i);
            break;
        }
        case B_SELF:
            if (status != AWS_TASK_STATUS_RUN_READY || !ref[i].fuel) break;
            ref[i].fuel = 0;
            ev[EV_RE_SCHED_SELF]++;
            do_schedule(i, b->tix, i);
            break;
        case B_CANCEL: {
            int j = b->other;
            if (!ref[j].pending) break; /* reading §6: cancel only pending tasks */
            ev[EV_RE_CANCEL]++;
            if (cx.cancel_depth > 0) ev[EV_NESTED_CANCEL]++;
            if (ref[j].in_batch) {
                ev[EV_RE_CANCEL_IN_BATCH]++;
            } else {
                int w = where_is(j);
                if (w == 1) ev[EV_RE_CANCEL_ASAP]++;
                if (w == 2) ev[EV_RE_CANCEL_HEAP]++;
                if (w == 3) ev[EV_RE_CANCEL_TLIST]++;
            }
            if (cx.mode == M_RUN && ref[j].inv_in_op > 0 && g_cfg.b[j].kind == B_SELF) ev[EV_RESCHED_THEN_CANCELLED_SAME_RUN]++;
            do_cancel(j);
            break;
        }
        default:
            break;
    }
}

static struct aws_task_scheduler SB;
static int SB_live;
static void task_fn(struct aws_task *task, void *arg, enum aws_task_status status) {
    int i = (int)(intptr_t)arg;
    if (i < 0 || i >= g_cfg.nt || task != T[i]) {
        esx_fail("fn-args", "task function called with task/arg that do not belong together (arg %d)", i);
        return;
    }
    if (g_nlog < 48) {
        g_log[g_nlog].task = (int8_t)i;
        g_log[g_nlog].status = (int8_t)status;
        ++g_nlog;
    }
    ev[status == AWS_TASK_STATUS_RUN_READY ? EV_INV_RUN : EV_INV_CANCELED]++;
    monitor_invoke(i, status);
    if (esx_failed) return; /* no behaviours once the verdict is in: keeps the first report the only one */
    /* every task function also drives a second, unrelated scheduler (empty: its run-all has nothing to do).  Two schedulers are
     * two objects: running one from inside a task of the other does not disturb the batch that is being executed (added after a
     * seeded change that made the run-all batch list a function-level static) */
    if (SB_live) aws_task_scheduler_run_all(&SB, 1000);
    if (cx.mode == M_RUN && ++ref[i].inv_in_op == 2) ev[EV_TWICE_IN_RUN]++;
    behave(i, status);
}

/* ---- model ------------------------------------------------------------------------------------------------------ */
static void m_reset(void) {
    galloc_reset();
    struct aws_allocator *a = galloc_get(0, 0);
    S = (struct aws_task_scheduler *)aws_mem_acquire(a, sizeof(*S));
    for (int i = 0; i < MAXT; ++i) T[i] = NULL;
    for (int i = 0; i < g_cfg.nt; ++i) {
        T[i] = (struct aws_task *)aws_mem_acquire(a, sizeof(struct aws_task));
        aws_task_init(T[i], task_fn, (void *)(intptr_t)i, "c07");
    }
    SB_live = 0;
    if (!INJ) { /* (not in the allocation-failure configurations: the companion's own allocations would shift the injection points) */
        if (aws_task_scheduler_init(&SB, a)) _exit(2);
        SB_live = 1;
    }
    g_base_blocks = ga.live_blocks;
    if (aws_task_scheduler_init(S, a)) {
        fprintf(stderr, "scheduler init failed\n");
        _exit(2);
    }
    memset(ref, 0, sizeof(ref));
    memset(&cx, 0, sizeof(cx));
    cx.cancel_target = -1;
    g_seq = 0;
    g_cleaned = 0;
    g_nlog = 0;
    inj_armed = inj_used = inj_consumed_in_op = 0;
    memset(ev, 0, sizeof(ev));
    g_since_enabled = 0;
}

/* op numbering for N tasks:
 * [0,N) schedule_now(Ti)   [N,6N) schedule_future(Ti,TIMES[k]) = N+5i+k   [6N,7N) cancel(Ti)   [7N,7N+5) run_all(TIMES[k])
 * 7N+5 has_tasks   7N+6 clean_up   7N+7 arm-push-failure (C07_INJECT only) */
static int nops(void) { return 7 * g_cfg.nt + 7 + INJ; }

static bool m_enabled(int op) {
    int N = g_cfg.nt;
    g_since_enabled = 0;
    if (g_cleaned) return false; /* clean_up is terminal */
    if (op < N) return !ref[op].pending;
    if (op < 6 * N) return !ref[(op - N) / NTIMES].pending;
    if (op < 7 * N) return ref[op - 6 * N].pending;
    if (op == 7 * N + 7) return INJ && !inj_armed && inj_used < 2;
    return true;
}

static void check_has_tasks(const char *after) {
    bool eh = false;
    uint64_t et = UINT64_MAX;
    for (int i = 0; i < g_cfg.nt; ++i) {
        if (!ref[i].pending) continue;
        eh = true;
        uint64_t t = ref[i].is_now ? 0 : TIMES[ref[i].tix];
        if (t < et) et = t;
    }
    uint64_t t = 0xDEADBEEFull;
    bool h = aws_task_scheduler_has_tasks(S, &t);
    bool h2 = aws_task_scheduler_has_tasks(S, NULL);
    ESX_CHECK(h == eh, "has-tasks-result", "after %s: has_tasks returned %d, reference has %s pending tasks", after, (int)h, eh ? "some" : "no");
    ESX_CHECK(h2 == h, "has-tasks-result", "after %s: has_tasks(NULL) returned %d but has_tasks(&t) %d", after, (int)h2, (int)h);
    ESX_CHECK(t == et, "next-task-time", "after %s: next task time reported %" PRIu64 ", earliest pending time is %" PRIu64 " (%s %s %s %s)", after, t, et,
              ref_str(0), ref_str(1), g_cfg.nt > 2 ? ref_str(2) : "", g_cfg.nt > 3 ? ref_str(3) : "");
}

/* structural agreement between the public struct and the reference (each clause: a definite future violation) */
static void check_structure(const char *after) {
    ESX_CHECK(aws_task_scheduler_is_valid(S), "structure", "after %s: aws_task_scheduler_is_valid() is false", after);
    if (esx_failed) return;
    int count[MAXT] = {0};
    /* asap list: exactly the pending run-now tasks, in hand-over order */
    uint64_t prev_seq = 0;
    int n = 0;
    for (const struct aws_linked_list_node *nd = S->asap_list.head.next; nd != &S->asap_list.tail; nd = nd->next, ++n) {
        if (!nd || n > g_cfg.nt) {
            esx_fail("structure", "after %s: asap_list is not a well-formed list of at most %d tasks", after, g_cfg.nt);
            return;
        }
        int i = task_index(AWS_CONTAINER_OF(nd, struct aws_task, node));
        if (i < 0) {
            esx_fail("structure", "after %s: asap_list holds a node that is none of the tasks", after);
            return;
        }
        count[i]++;
        ESX_CHECK(ref[i].pending && ref[i].is_now, "structure", "after %s: asap_list holds %s", after, ref_str(i));
        ESX_CHECK(ref[i].seq > prev_seq, "structure", "after %s: asap_list order differs from hand-over order at T%d", after, i);
        prev_seq = ref[i].seq;
    }
    n = 0;
    for (const struct aws_linked_list_node *nd = S->timed_list.head.next; nd != &S->timed_list.tail; nd = nd->next, ++n) {
        if (!nd || n > g_cfg.nt) {
            esx_fail("structure", "after %s: timed_list is not a well-formed list of at most %d tasks", after, g_cfg.nt);
            return;
        }
        int i = task_index(AWS_CONTAINER_OF(nd, struct aws_task, node));
        if (i < 0) {
            esx_fail("structure", "after %s: timed_list holds a node that is none of the tasks", after);
            return;
        }
        count[i]++;
        ESX_CHECK(ref[i].pending && !ref[i].is_now, "structure", "after %s: timed_list holds %s", after, ref_str(i));
    }
    size_t hn = aws_priority_queue_size(&S->timed_queue);
    struct aws_task **d = (struct aws_task **)S->timed_queue.container.data;
    if (hn > (size_t)g_cfg.nt) {
        esx_fail("structure", "after %s: heap holds %zu entries for %d tasks", after, hn, g_cfg.nt);
        return;
    }
    for (size_t s = 0; s < hn; ++s) {
        int i = task_index(d[s]);
        if (i < 0) {
            esx_fail("structure", "after %s: heap slot %zu holds a pointer that is none of the tasks", after, s);
            return;
        }
        count[i]++;
        ESX_CHECK(ref[i].pending && !ref[i].is_now, "structure", "after %s: heap slot %zu holds %s", after, s, ref_str(i));
        ESX_CHECK(T[i]->priority_queue_node.current_index == s, "structure", "after %s: heap handle of T%d says slot %zu but the task sits in slot %zu", after, i, T[i]->priority_queue_node.current_index, s);
    }
    for (int i = 0; i < g_cfg.nt && !esx_failed; ++i) {
        ESX_CHECK(count[i] == (ref[i].pending ? 1 : 0), "structure", "after %s: %s is held %d times by the scheduler's containers", after, ref_str(i), count[i]);
        if (ref[i].pending && !ref[i].is_now)
            ESX_CHECK(T[i]->timestamp == TIMES[ref[i].tix], "structure", "after %s: %s carries timestamp %" PRIu64, after, ref_str(i), T[i]->timestamp);
    }
}

static void m_opname(int op, char *buf, size_t cap);

static void m_apply(int op) {
    int N = g_cfg.nt;
    char nm[64];
    m_opname(op, nm, sizeof(nm));
    g_since_enabled = 1;
    memset(ev, 0, sizeof(ev));
    g_nlog = 0;
    inj_consumed_in_op = 0;
    for (int i = 0; i < N; ++i) ref[i].inv_in_op = 0;

    if (op < N) {
        do_schedule(op, -1, -1);
        ESX_CHECK(g_nlog == 0, "spurious", "%s invoked task functions: [%s]", nm, log_str());
    } else if (op < 6 * N) {
        do_schedule((op - N) / NTIMES, (op - N) % NTIMES, -1);
        ESX_CHECK(g_nlog == 0, "spurious", "%s invoked task functions: [%s]", nm, log_str());
    } else if (op < 7 * N) {
        int j = op - 6 * N;
        int w = where_is(j);
        if (w == 1) ev[EV_OP_CANCEL_ASAP]++;
        if (w == 3) ev[EV_OP_CANCEL_TLIST]++;
        if (w == 2) {
            ev[EV_OP_CANCEL_HEAP]++;
            if (T[j]->priority_queue_node.current_index + 1 < aws_priority_queue_size(&S->timed_queue)) ev[EV_OP_CANCEL_HEAP_INNER]++;
        }
        do_cancel(j);
    } else if (op < 7 * N + NTIMES) {
        int k = op - 7 * N;
        cx.mode = M_RUN;
        cx.now_ix = k;
        cx.timed_started = 0;
        cx.last_now_seq = 0;
        cx.last_tix = 0;
        int n_now = 0, n_timed = 0, n_left = 0, ties = 0, due_tl = 0, due_heap = 0;
        int per_time[NTIMES] = {0};
        for (int i = 0; i < N; ++i) {
            ref[i].in_batch = ref[i].pending && (ref[i].is_now || TIMES[ref[i].tix] <= TIMES[k]);
            if (ref[i].in_batch && ref[i].is_now) n_now++;
            if (ref[i].in_batch && !ref[i].is_now) {
                n_timed++;
                if (++per_time[ref[i].tix] == 2) ties = 1;
                if (where_is(i) == 3) due_tl++;
                else due_heap++;
            }
            if (ref[i].pending && !ref[i].in_batch) n_left++;
        }
        if (ties) ev[EV_RUN_TIES]++;
        if (n_now && n_timed) ev[EV_RUN_MIXED]++;
        if (n_left) ev[EV_RUN_LEFT_NOT_DUE]++;
        if (due_tl) ev[EV_TLIST_RUN] += (uint32_t)due_tl;
        if (due_tl && due_heap) ev[EV_TLIST_MERGE]++;
        aws_task_scheduler_run_all(S, TIMES[k]);
        cx.mode = M_IDLE;
        for (int i = 0; i < N && !esx_failed; ++i)
            ESX_CHECK(!(ref[i].pending && ref[i].in_batch), "not-run-when-due", "%s returned without invoking %s, which was pending and due when the call started; log of this op: [%s]", nm, ref_str(i), log_str());
        for (int i = 0; i < N; ++i) ref[i].in_batch = 0;
    } else if (op == 7 * N + 5) {
        if (!aws_linked_list_empty(&S->timed_list) && aws_linked_list_empty(&S->asap_list)) {
            struct aws_task *f = AWS_CONTAINER_OF(S->timed_list.head.next, struct aws_task, node);
            struct aws_task **top = NULL;
            if (aws_priority_queue_top(&S->timed_queue, (void **)&top) != AWS_OP_SUCCESS || f->timestamp < (*top)->timestamp) ev[EV_TLIST_HAS_TASKS_MIN]++;
        }
        check_has_tasks(nm);
    } else if (op == 7 * N + 6) {
        cx.mode = M_CLEANUP;
        memset(cx.cleanup_fired, 0, sizeof(cx.cleanup_fired));
        aws_task_scheduler_clean_up(S);
        cx.mode = M_IDLE;
        g_cleaned = 1;
        for (int i = 0; i < N && !esx_failed; ++i)
            ESX_CHECK(!ref[i].pending, "cleanup-missed", "clean_up returned without invoking %s; log of this op: [%s]", ref_str(i), log_str());
        if (!esx_failed)
            ESX_CHECK(ga.live_blocks == g_base_blocks, "cleanup-leak", "clean_up left %llu allocator blocks live", (unsigned long long)(ga.live_blocks - g_base_blocks));
    } else {
        inj_armed = 1;
        inj_used++;
    }
    if (!esx_failed && !g_cleaned) {
        ESX_CHECK(cx.cancel_target == -1 && cx.cancel_depth == 0, "harness", "monitor context not unwound");
        if (!g_no_structure) check_structure(nm);
        if (!esx_failed) check_has_tasks(nm);
    }
}

/*
 * Canonical state.  Equal canon => equal futures, because it contains
 *  (a) everything the library reads later: FIFO order, heap array (task, time) slot by slot, timed_list order, and per
 *      task the fields cancel/schedule look at (scheduled flag, node linked?, heap handle index), whether the
 *      back-pointer array exists and its capacity (allocation behaviour only), plus the armed/used state of the injector;
 *  (b) everything the monitor reads later: pending?, run-now/timed, time, relative hand-over order of the pending
 *      run-now tasks (absolute sequence numbers only ever get compared among those), self-reschedule fuel of a pending
 *      B_SELF task (fuel is rewritten by the next hand-over of a non-pending task, so it is dropped there).
 * Left out: stale timestamps of non-pending tasks (every hand-over overwrites them before any read), the log and all
 * counters (verdicts are per operation; nothing is compared across operations), run_all context (idle between ops).
 */
static size_t m_canon(uint8_t *b, size_t cap) {
    (void)cap;
    size_t o = 0;
    if (g_cleaned) {
        b[o++] = 1;
        return o;
    }
    b[o++] = 0;
    b[o++] = (uint8_t)inj_armed;
    b[o++] = (uint8_t)inj_used;
    b[o++] = (uint8_t)(S->timed_queue.backpointers.data != NULL);
    size_t bcap = S->timed_queue.backpointers.item_size ? S->timed_queue.backpointers.current_size / S->timed_queue.backpointers.item_size : 0;
    b[o++] = (uint8_t)(bcap > 250 ? 250 : bcap);
    size_t ccap = S->timed_queue.container.item_size ? S->timed_queue.container.current_size / S->timed_queue.container.item_size : 0;
    b[o++] = (uint8_t)(ccap > 250 ? 250 : ccap);
    int n = 0;
    b[o++] = 0xA0;
    for (const struct aws_linked_list_node *nd = S->asap_list.head.next; nd && nd != &S->asap_list.tail && n <= MAXT; nd = nd->next, ++n)
        b[o++] = (uint8_t)task_index(AWS_CONTAINER_OF(nd, struct aws_task, node));
    b[o++] = 0xA1;
    size_t hn = aws_priority_queue_size(&S->timed_queue);
    struct aws_task **d = (struct aws_task **)S->timed_queue.container.data;
    for (size_t s = 0; s < hn && s <= MAXT; ++s) {
        int i = task_index(d[s]);
        b[o++] = (uint8_t)i;
        b[o++] = (uint8_t)(i >= 0 ? tix_of(d[s]->timestamp) : 0xEE);
    }
    b[o++] = 0xA2;
    n = 0;
    for (const struct aws_linked_list_node *nd = S->timed_list.head.next; nd && nd != &S->timed_list.tail && n <= MAXT; nd = nd->next, ++n) {
        const struct aws_task *t = AWS_CONTAINER_OF(nd, struct aws_task, node);
        b[o++] = (uint8_t)task_index(t);
        b[o++] = (uint8_t)(task_index(t) >= 0 ? tix_of(t->timestamp) : 0xEE);
    }
    b[o++] = 0xA3;
    for (int i = 0; i < g_cfg.nt; ++i) {
        int rank = 0;
        if (ref[i].pending && ref[i].is_now)
            for (int j = 0; j < g_cfg.nt; ++j)
                if (ref[j].pending && ref[j].is_now && ref[j].seq < ref[i].seq) ++rank;
        b[o++] = (uint8_t)ref[i].pending;
        b[o++] = (uint8_t)(ref[i].pending ? ref[i].is_now : 0);
        b[o++] = (uint8_t)(ref[i].pending && !ref[i].is_now ? ref[i].tix : 0);
        b[o++] = (uint8_t)rank;
        b[o++] = (uint8_t)(ref[i].pending && g_cfg.b[i].kind == B_SELF ? ref[i].fuel : 0);
        b[o++] = (uint8_t)(T[i]->abi_extension.scheduled ? 1 : 0);
        b[o++] = (uint8_t)((T[i]->node.next != NULL) | ((T[i]->node.prev != NULL) << 1));
        size_t ci = T[i]->priority_queue_node.current_index;
        b[o++] = (uint8_t)(ci > 250 ? 255 : ci);
    }
    return o;
}

static void m_opname(int op, char *buf, size_t cap) {
    int N = g_cfg.nt;
    if (op < N) snprintf(buf, cap, "schedule_now(T%d)", op);
    else if (op < 6 * N) snprintf(buf, cap, "schedule_future(T%d,%s)", (op - N) / NTIMES, TNAME[(op - N) % NTIMES]);
    else if (op < 7 * N) snprintf(buf, cap, "cancel(T%d)", op - 6 * N);
    else if (op < 7 * N + NTIMES) snprintf(buf, cap, "run_all(%s)", TNAME[op - 7 * N]);
    else if (op == 7 * N + 5) snprintf(buf, cap, "has_tasks");
    else if (op == 7 * N + 6) snprintf(buf, cap, "clean_up");
    else snprintf(buf, cap, "fail-next-push");
}

static void m_teardown(void) {
    /* ev[] holds the events of the last apply(); count them only when that apply was a newly explored transition
     * (engine sequence per expansion: reset, {enabled,apply}* prefix, enabled(o), [apply(o)], teardown) */
    if (g_since_enabled) {
        for (int k = 0; k < EV_N; ++k)
            if (ev[k]) v_sh->slot[v_worker].counters[ev_idx[k]] += ev[k];
    }
    g_since_enabled = 0;
    memset(ev, 0, sizeof(ev));
}

static struct esx_model model = {
    .reset = m_reset, .enabled = m_enabled, .apply = m_apply, .canon = m_canon, .opname = m_opname, .teardown = m_teardown,
};

/* ---- configurations ---------------------------------------------------------------------------------------------- */
/* behaviour spec string per task, separated by '_':  n | N<j> | F<j>t<k> | Rn | Rt<k> | C<j> */
static void set_cfg(int nt, const char *spec) {
    memset(&g_cfg, 0, sizeof(g_cfg));
    g_cfg.nt = nt;
    snprintf(g_cfg.name, sizeof(g_cfg.name), "%s%d_%s", INJ ? "tsi" : "ts", nt, spec);
    const char *p = spec;
    for (int i = 0; i < nt; ++i) {
        struct beh *b = &g_cfg.b[i];
        b->kind = B_NONE;
        if (*p == 'n') {
            ++p;
        } else if (*p == 'N') {
            b->kind = B_NOW;
            b->other = p[1] - '0';
            p += 2;
        } else if (*p == 'F') {
            b->kind = B_FUT;
            b->other = p[1] - '0';
            b->tix = p[3] - '0';
            p += 4;
        } else if (*p == 'R') {
            b->kind = B_SELF;
            if (p[1] == 'n') {
                b->tix = -1;
                p += 2;
            } else {
                b->tix = p[2] - '0';
                p += 3;
            }
        } else if (*p == 'C') {
            b->kind = B_CANCEL;
            b->other = p[1] - '0';
            p += 2;
        } else if (*p == 0) {
            /* fewer entries than tasks: the rest does nothing */
        } else {
            fprintf(stderr, "bad behaviour spec %s\n", spec);
            exit(2);
        }
        if (*p == '_') ++p;
        if ((b->kind == B_NOW || b->kind == B_FUT || b->kind == B_CANCEL) && (b->other < 0 || b->other >= nt || b->other == i)) {
            fprintf(stderr, "bad behaviour target in %s\n", spec);
            exit(2);
        }
        if ((b->kind == B_FUT || (b->kind == B_SELF && b->tix >= 0)) && (b->tix < 0 || b->tix >= NTIMES)) {
            fprintf(stderr, "bad behaviour time in %s\n", spec);
            exit(2);
        }
    }
    model.name = g_cfg.name;
    model.nops = nops();
}

static int g_rc;
static int g_nconfigs;
static int g_workers_cli;
static void run_cfg(int nt, const char *spec) {
    set_cfg(nt, spec);
    if (v_replay_token) {
        if (esx_token_is_for(v_replay_token, g_cfg.name)) g_rc |= esx_replay(&model, v_replay_token);
        return;
    }
    ++g_nconfigs;
    model.max_depth = ESX_MAX_DEPTH;
    /* the 3-task black-box models have ~1.3e3 states and BFS levels of a few hundred: forking 16 ASan workers per level
     * costs more than it saves, 4 are enough (an explicit --workers wins) */
    if (!g_workers_cli) v_nworkers = (nt == 3 && !INJ) ? 4 : 16;
    esx_run(&model);
        ESX_CYCLES(&model);
}

/* one behaviour of the "5^3" families: kind index 0..4 for task i with its fixed parameters */
static void kind_spec(char *out, size_t cap, int i, int kind, int nring, int variant) {
    int next = (i + 1) % nring, prev = (i + nring - 1) % nring;
    /* variant 0: targets = next task, times 1 / now;  variant 1: targets = previous task, times UINT64_MAX / 2 */
    int tgt = variant ? prev : next;
    switch (kind) {
        case 0: snprintf(out, cap, "n"); break;
        case 1: snprintf(out, cap, "N%d", tgt); break;
        case 2: snprintf(out, cap, "F%dt%d", tgt, variant ? 4 : 1); break;
        case 3: snprintf(out, cap, variant ? "Rt2" : "Rn"); break;
        default: snprintf(out, cap, "C%d", tgt); break;
    }
}

static void run_family(int nt, int variant) {
    char s[3][16], spec[64];
    for (int a = 0; a < 5; ++a)
        for (int b = 0; b < 5; ++b)
            for (int c = 0; c < 5; ++c) {
                if (variant && a == 0 && b == 0 && c == 0) continue; /* identical to variant 0 */
                kind_spec(s[0], sizeof(s[0]), 0, a, 3, variant);
                kind_spec(s[1], sizeof(s[1]), 1, b, 3, variant);
                kind_spec(s[2], sizeof(s[2]), 2, c, 3, variant);
                snprintf(spec, sizeof(spec), "%s_%s_%s%s", s[0], s[1], s[2], nt == 4 ? "_n" : "");
                run_cfg(nt, spec);
            }
}

int main(int argc, char **argv) {
    v_init(argc, argv);
    for (int i = 1; i < argc; ++i)
        if (!strcmp(argv[i], "--workers")) g_workers_cli = 1;
    /* mutation experiments only: C07_NO_STRUCTURE=1 switches the early white-box "structure" clause off, to show that the
     * property-level clauses catch the same defects on their own (never set by ./check) */
    g_no_structure = getenv("C07_NO_STRUCTURE") != NULL;
    aws_common_library_init(aws_default_allocator());
    for (int k = 0; k < EV_N; ++k) ev_idx[k] = v_counter(EV_NAME[k]);

    /* (1) exactly one non-trivial behaviour (carrier T0; the model is symmetric under renaming tasks, both targets are
     *     nevertheless enumerated), every parameter value */
    static const char *const single[] = {
        "N1_n_n", "N2_n_n", "F1t0_n_n", "F1t1_n_n", "F1t2_n_n", "F1t3_n_n", "F1t4_n_n", "F2t0_n_n", "F2t1_n_n", "F2t2_n_n",
        "F2t3_n_n", "F2t4_n_n", "Rn_n_n", "Rt0_n_n", "Rt1_n_n", "Rt2_n_n", "Rt3_n_n", "Rt4_n_n", "C1_n_n", "C2_n_n",
    };
    /* (2) hand-picked interplay */
    static const char *const picked[] = {
        "n_n_n",        /* plain scheduler */
        "Rn_C0_n",      /* DESIGN §6: T0 re-schedules itself from RUN, T1 (later in the batch) cancels it: two hand-overs */
        "Rn_Rn_Rn",     /* everybody re-schedules itself */
        "C1_C2_C0",     /* cancel ring: nested cancels out of the running batch */
        "C1_C0_n",      /* mutual cancel */
        "N1_N2_N0",     /* schedule ring (also inside clean_up) */
        "C1_N0_n",      /* T0 cancels T1; T1's CANCELED callback hands T0 over again from inside cancel inside run_all */
        "C1_C2_N0",     /* nested cancel chain of depth 2 ending in a schedule */
        "F1t0_F2t1_F0t4", /* timed schedule ring, times 0 / 1 / UINT64_MAX */
        "Rt1_C0_F0t0",  /* timed self-reschedule, cancelled, re-handed over by a third task */
        "F1t4_Rt4_C1",  /* UINT64_MAX everywhere */
        "Rt0_Rt0_C0",   /* self-reschedule into the heap at time 0 */
    };
    if (INJ) {
        /* timed_list fallback / merge code: plain, every single behaviour, and interplay that puts tasks into / takes
         * tasks out of timed_list re-entrantly */
        static const char *const inj[] = {"n_n_n", "F1t0_C2_Rt4", "C1_C2_C0", "Rt2_C0_F0t1", "F1t2_F2t2_F0t2"};
        for (size_t i = 0; i < sizeof(inj) / sizeof(inj[0]); ++i) run_cfg(3, inj[i]);
        for (size_t i = 0; i < sizeof(single) / sizeof(single[0]); ++i) run_cfg(3, single[i]);
    } else if (!v_thorough()) {
        for (size_t i = 0; i < sizeof(single) / sizeof(single[0]); ++i) run_cfg(3, single[i]);
        for (size_t i = 0; i < sizeof(picked) / sizeof(picked[0]); ++i) run_cfg(3, picked[i]);
    } else {
        for (size_t i = 0; i < sizeof(single) / sizeof(single[0]); ++i) run_cfg(3, single[i]);
        for (size_t i = 1; i < sizeof(picked) / sizeof(picked[0]); ++i) run_cfg(3, picked[i]);
        run_family(3, 0); /* all 5^3 assignments, 3 tasks */
        run_family(3, 1); /* the same with the other target / other times */
        /* four tasks (T3 passive: only the driver hands it over): FIFO of 4, heaps of 4 with inner-slot removals */
        char spec4[64];
        for (size_t i = 0; i < sizeof(single) / sizeof(single[0]); ++i) {
            snprintf(spec4, sizeof(spec4), "%s_n", single[i]);
            run_cfg(4, spec4);
        }
        for (size_t i = 0; i < sizeof(picked) / sizeof(picked[0]); ++i) {
            snprintf(spec4, sizeof(spec4), "%s_n", picked[i]);
            run_cfg(4, spec4);
        }
        run_cfg(4, "C3_Rn_N0_C1");   /* T3 active too: cancel / self-reschedule / schedule / cancel */
        run_cfg(4, "F3t4_C3_Rt0_N2");
    }
    if (!v_replay_token) {
        V_COUNT("configurations", g_nconfigs);
    }
    v_finish();
    return (v_sh->viol_count || g_rc) ? 1 : 0;
}
