/*
 * C03 — the small-block allocator, its pages and its parent in ONE heap ("sbaheap", ESX).
 *
 * sbaseq gives allocator_sba.c a page pool of its own (scrubbed on hand-out, poisoned on return) and a separate
 * parent arena.  In a process the pages (posix_memalign) and the parent's large blocks (malloc) come out of the same
 * heap, and a production malloc neither scrubs what it hands out nor what it gets back: only the first 16 bytes of
 * a free chunk are overwritten by its free-list links, and when a chunk is merged into a free neighbour in front of
 * it, not even those.  allocator_sba.c decides whether a pointer is one of its small blocks by reading two tag words
 * at the page base below the pointer, so what old pages leave behind in such a heap is part of its input - an
 * environment answer this harness enumerates instead of fixing.
 *
 * Environment: a deterministic first-fit heap with 16-byte chunk headers, splitting and coalescing over one arena
 * at a fixed address.  It serves aws_small_block_allocator_new's parent allocator AND the posix_memalign / free calls
 * of allocator_sba.c (the working tree's file is #included, page size 2048 = 3 blocks of the 512 class per page).
 *
 * Alphabet (lowest free slot): acquire(512) written in full; acquire(600) and acquire(1400) NOT written (a buffer
 * reserved ahead and not filled yet - the bytes are whatever the heap left there); acquire(600) written in full;
 * release(slot); and, while nothing is live, "destroy + new allocator" (the second life of the heap: at most three lives
 * per history; destroy must leave the heap whole).  Every history up to the depth bound.
 *
 * Oracle = the property's clauses: every live block keeps the bytes it was given (for an unwritten block: the bytes
 * it had when it was handed out - nobody else may write into it either), live blocks are pairwise disjoint, a block
 * <= 512 lies in the payload of a live page and a larger one is a live parent chunk, a release of a parent-served
 * block reaches the parent during that call and a release of a small block does not, bytes_active equals the sum of
 * the size classes of the live small blocks, the heap never sees a release of something that is not a live chunk,
 * and after releasing everything and destroying the allocator the heap is one free chunk again.
 *
 * Canonical state: chunk list (offset, size, state, kind), slot table, per bin (cursor offset, active pages, free
 * chunks in order), and for every page-aligned address of the arena whether it still carries both tag words together
 * with the bin index and count stored next to them.  Equal canon => equal futures: the library reads heap memory
 * only in its own control block / lists (captured field by field) and in the page header below an address it is
 * asked to release (captured by the tag table); the oracle reads the slot table and the chunk list.
 */
#include "esx.h"

#include <aws/common/allocator.h>
#include <aws/common/array_list.h>
#include <aws/common/assert.h>
#include <aws/common/macros.h>
#include <aws/common/mutex.h>
#include <stdlib.h>
#include <sys/mman.h>

static int h_posix_memalign(void **out, size_t align, size_t size);
static void h_free(void *p);
#if defined(SBAHEAP_BLACKBOX)
/* Third build: public API only, linked against the library's own object code (the shipped optimisation level, the shipped
 * page size), posix_memalign / free redirected at link time.  Nothing here depends on how allocator_sba.c is written, so
 * this build keeps working when its private structures are rearranged; the two white-box builds are skipped on such a tree.
 * Instead of the allocator's own lists the canonical state carries what the harness can know: the order in which the
 * currently unused small blocks were released, and the raw header bytes at every page-aligned address of the heap. */
#    define SBAHEAP_LINKWRAP 1
int __real_posix_memalign(void **out, size_t align, size_t size);
void __real_free(void *p);
static size_t g_page = 4096, g_page_hdr = 32;
#    define PAGE g_page
#    define PAGE_HDR g_page_hdr
#elif defined(SBAHEAP_LINKWRAP)
/* Second build of this harness (-O2, the optimisation level of the shipped library): allocator_sba.c calls posix_memalign
 * and free under their real names and the calls are redirected at link time (-Wl,--wrap), so the compiler knows that it is
 * looking at free() - and may treat stores into the block just before it as dead.  What the source says it erases before
 * giving memory back and what the object code erases are then two things; this build observes the second. */
int __real_posix_memalign(void **out, size_t align, size_t size);
void __real_free(void *p);
#    include "allocator_sba.c"
#    define PAGE ((size_t)AWS_SBA_PAGE_SIZE)
#    define PAGE_HDR sizeof(struct page_header)
#else
#    define posix_memalign h_posix_memalign
#    define free h_free
#    include "allocator_sba.c" /* the working tree's file, found through -I<repo>/source */
#    undef posix_memalign
#    undef free
#    define PAGE ((size_t)AWS_SBA_PAGE_SIZE)
#    define PAGE_HDR sizeof(struct page_header)
#endif

/* ================================================================ the one heap */
#define OH_BASE ((uintptr_t)0x520000000000ull)
#ifdef SBAHEAP_BLACKBOX
#    define OH_SIZE ((size_t)96 * 1024)
#else
#    define OH_SIZE ((size_t)40 * 1024)
#endif
#define OH_HDR 16
#define OH_MIN 32 /* smallest chunk: header + room for the links */
#define OH_MAGIC 0x0e4ea9u
enum { K_FREE = 0, K_PARENT = 1, K_PAGE = 2 };
struct oh_hdr {
    uint32_t size; /* whole chunk, header included */
    uint32_t kind;
    uint32_t magic;
    uint32_t req; /* requested size */
};
static uint8_t *oh;
static int g_new_op, g_verify;
static uint64_t oh_parent_releases, oh_page_frees, oh_parent_acquires;
static void *oh_last_parent_release;

static struct oh_hdr *oh_at(size_t off) { return (struct oh_hdr *)(oh + off); }
static void oh_links(size_t off) { /* what a malloc writes into a chunk it puts on a free list */
    if (oh_at(off)->size >= OH_HDR + 16) memset(oh + off + OH_HDR, 0x11, 16);
}
static void oh_reset(void) {
    if (!oh) {
        void *p = mmap((void *)OH_BASE, OH_SIZE, PROT_READ | PROT_WRITE, MAP_PRIVATE | MAP_ANONYMOUS | MAP_FIXED_NOREPLACE, -1, 0);
        if (p == MAP_FAILED) {
            perror("sbaheap mmap");
            _exit(2);
        }
        oh = (uint8_t *)p;
    }
    memset(oh, 0xA5, OH_SIZE);
    struct oh_hdr *h = oh_at(0);
    h->size = (uint32_t)OH_SIZE;
    h->kind = K_FREE;
    h->magic = OH_MAGIC;
    h->req = 0;
    oh_links(0);
    oh_parent_releases = oh_page_frees = oh_parent_acquires = 0;
    oh_last_parent_release = NULL;
}
static void oh_mk(size_t off, size_t size, uint32_t kind, size_t req) {
    struct oh_hdr *h = oh_at(off);
    h->size = (uint32_t)size;
    h->kind = kind;
    h->magic = OH_MAGIC;
    h->req = (uint32_t)req;
    if (kind == K_FREE) oh_links(off);
}
static void *oh_alloc(size_t size, size_t align, uint32_t kind) {
    size_t need = (size + 15u) & ~(size_t)15u;
    if (need < 16) need = 16;
    for (size_t c = 0; c < OH_SIZE; c += oh_at(c)->size) {
        struct oh_hdr *h = oh_at(c);
        if (h->kind != K_FREE) continue;
        size_t end = c + h->size;
        uintptr_t p = ((uintptr_t)(oh + c + OH_HDR) + align - 1) & ~(uintptr_t)(align - 1);
        size_t po = (size_t)(p - (uintptr_t)oh);
        while (po - OH_HDR != c && po - OH_HDR - c < OH_MIN) po += align; /* a leading remainder must be a chunk of its own */
        if (po + need > end) continue;
        size_t tail = end - (po + need);
        if (tail < OH_MIN) need += tail, tail = 0;
        if (po - OH_HDR != c) oh_mk(c, po - OH_HDR - c, K_FREE, 0);
        oh_mk(po - OH_HDR, OH_HDR + need, kind, size);
        if (tail) oh_mk(po + need, tail, K_FREE, 0);
        return oh + po;
    }
    fprintf(stderr, "sbaheap: arena exhausted (request %zu align %zu)\n", size, align);
    _exit(2);
}
/* returns 0 when ptr is not the payload of a live chunk of that kind */
static int oh_release(void *ptr, uint32_t kind) {
    uint8_t *p = (uint8_t *)ptr;
    if (p < oh + OH_HDR || p >= oh + OH_SIZE) return 0;
    size_t prev = (size_t)-1, c = 0;
    for (; c < OH_SIZE; prev = c, c += oh_at(c)->size)
        if (oh + c + OH_HDR >= p) break;
    if (c >= OH_SIZE || oh + c + OH_HDR != p || oh_at(c)->kind != kind) return 0;
    size_t size = oh_at(c)->size, next = c + size;
    if (next < OH_SIZE && oh_at(next)->kind == K_FREE) size += oh_at(next)->size;
    if (prev != (size_t)-1 && oh_at(prev)->kind == K_FREE) {
        /* merged into the free chunk in front: its links stay where they are, nothing of this chunk is touched */
        oh_at(prev)->size += (uint32_t)size;
        return 1;
    }
    oh_mk(c, size, K_FREE, 0);
    return 1;
}
static struct oh_hdr *oh_chunk_of_payload(const void *ptr, uint32_t kind) {
    const uint8_t *p = (const uint8_t *)ptr;
    for (size_t c = 0; c < OH_SIZE; c += oh_at(c)->size)
        if (oh + c + OH_HDR == p) return oh_at(c)->kind == kind ? oh_at(c) : NULL;
    return NULL;
}
/* the live page chunk whose payload contains [p, p+n), or NULL */
static uint8_t *oh_page_containing(const uint8_t *p, size_t n) {
    for (size_t c = 0; c < OH_SIZE; c += oh_at(c)->size) {
        if (oh_at(c)->kind != K_PAGE) continue;
        uint8_t *pg = oh + c + OH_HDR;
        if (p >= pg + PAGE_HDR && p + n <= pg + PAGE) return pg;
    }
    return NULL;
}

static void rel_forget_range(size_t lo, size_t hi);
static int h_posix_memalign(void **out, size_t align, size_t size) {
    ESX_CHECK(align == PAGE && size == PAGE, "page-request", "allocator_sba.c asked the OS for %zu bytes aligned to %zu; one page is %zu", size, align, PAGE);
    *out = oh_alloc(size, align, K_PAGE);
    if (g_new_op) V_COUNT("pages_allocated", 1);
    return 0;
}
static void h_free(void *p) {
    ++oh_page_frees;
    if (g_new_op) V_COUNT("pages_freed", 1);
    if ((uint8_t *)p >= oh && (uint8_t *)p < oh + OH_SIZE) rel_forget_range((size_t)((uint8_t *)p - oh), (size_t)((uint8_t *)p - oh) + PAGE);
    if (!oh_release(p, K_PAGE)) esx_fail("page-free-invalid", "allocator_sba.c released heap offset %ld as a page; it is not the start of a live page", (long)((uint8_t *)p - oh));
}
#ifdef SBAHEAP_LINKWRAP
int __wrap_posix_memalign(void **out, size_t align, size_t size) {
    if (oh && align == PAGE && size == PAGE) return h_posix_memalign(out, align, size);
    return __real_posix_memalign(out, align, size);
}
void __wrap_free(void *p) {
    if (oh && (uint8_t *)p >= oh && (uint8_t *)p < oh + OH_SIZE) {
        h_free(p);
        return;
    }
    __real_free(p);
}
#endif
static void *par_acquire(struct aws_allocator *a, size_t size) {
    (void)a;
    ++oh_parent_acquires;
    return oh_alloc(size, 16, K_PARENT);
}
static void par_release(struct aws_allocator *a, void *p) {
    (void)a;
    ++oh_parent_releases;
    oh_last_parent_release = p;
    if (!oh_release(p, K_PARENT))
        esx_fail("parent-release-invalid", "the parent allocator was handed heap offset %ld, which is not a live block it served", (long)((uint8_t *)p - oh));
}
static struct aws_allocator par = {.mem_acquire = par_acquire, .mem_release = par_release, .mem_realloc = NULL, .mem_calloc = NULL, .impl = NULL};

/* ================================================================ harness state */
#define NSLOT 7
struct slot {
    int live, written;
    uint8_t *ptr;
    size_t req, cls;
    uint64_t sum; /* checksum of the block's bytes as the owner last knew them */
};
static struct slot sl[NSLOT];
static struct aws_allocator *g_sba;
#ifndef SBAHEAP_BLACKBOX
static struct small_block_allocator *impl(void) { return (struct small_block_allocator *)g_sba->impl; }
/* does the page-aligned heap address a still carry both tag words of a page header? */
static int page_tagged(const void *a, uint32_t *count) {
    const struct page_header *ph = (const struct page_header *)a;
    if ((const uint8_t *)a < oh || (const uint8_t *)a + sizeof(struct page_header) > oh + OH_SIZE) return 0;
    if (count) *count = ph->alloc_count;
    return ph->tag == AWS_SBA_TAG_VALUE && ph->tag2 == AWS_SBA_TAG_VALUE;
}
#else
static int page_tagged(const void *a, uint32_t *count) { /* what a header looks like is the library's business */
    (void)a;
    if (count) *count = 0;
    return 0;
}
#endif
/* black-box image of the allocator's free lists: heap offsets of the small blocks handed back and not handed out again,
 * in the order of their release (part of the canonical state of the black-box build) */
static uint32_t rel_order[64];
static int nrel;
static void rel_forget_range(size_t lo, size_t hi) {
    int w = 0;
    for (int i = 0; i < nrel; ++i)
        if (!(rel_order[i] >= lo && rel_order[i] < hi)) rel_order[w++] = rel_order[i];
    nrel = w;
}

static const size_t op_size[4] = {512, 600, 1400, 600};
static const int op_write[4] = {1, 0, 0, 1};
#define OP_REL 4
static void *g_spacer; /* see OP_RESTART */
#define OP_RESTART (OP_REL + NSLOT) /* second life: destroy the idle allocator (heap must be whole again), create a new one in the same heap */
#define NOPS (OP_RESTART + 1)
static int g_lives;

static uint64_t sum_of(const uint8_t *p, size_t n) {
    uint64_t a = 0xcbf29ce484222325ull;
    for (size_t i = 0; i < n; ++i) a = (a ^ p[i]) * 0x100000001b3ull;
    return a;
}
static int lowest_free(void) {
    for (int i = 0; i < NSLOT; ++i)
        if (!sl[i].live) return i;
    return -1;
}
static void m_reset(void) {
    oh_reset();
    memset(sl, 0, sizeof(sl));
    g_new_op = 0;
    g_lives = 0;
    g_spacer = NULL;
    nrel = 0;
    g_sba = aws_small_block_allocator_new(&par, false);
    if (!g_sba) {
        fprintf(stderr, "sbaheap: aws_small_block_allocator_new failed\n");
        _exit(2);
    }
#ifdef SBAHEAP_BLACKBOX
    g_page = aws_small_block_allocator_page_size(g_sba);
    g_page_hdr = g_page - aws_small_block_allocator_page_size_available(g_sba);
    if (g_page < 1024 || (g_page & (g_page - 1)) || g_page_hdr >= g_page / 2 || g_page * 8 > OH_SIZE) {
        fprintf(stderr, "sbaheap: page size %zu / header %zu is outside what this harness's heap is laid out for\n", g_page, g_page_hdr);
        _exit(2);
    }
#endif
}
static bool m_enabled(int op) {
    if (op < OP_REL) return lowest_free() >= 0;
    if (op == OP_RESTART) {
        for (int i = 0; i < NSLOT; ++i)
            if (sl[i].live) return false;
        return g_lives < 2; /* at most three lives per history */
    }
    return sl[op - OP_REL].live != 0;
}
static void opname(int op, char *buf, size_t cap) {
    if (op < OP_REL)
        snprintf(buf, cap, "acquire(%zu)%s", op_size[op], op_write[op] ? "+fill" : " left unwritten");
    else if (op == OP_RESTART)
        snprintf(buf, cap, "destroy + new allocator");
    else
        snprintf(buf, cap, "release(p%d)", op - OP_REL);
}
static void check_all(const char *what) {
    if (!g_verify) return;
    size_t active = 0;
    for (int s = 0; s < NSLOT && !esx_failed; ++s) {
        if (!sl[s].live) continue;
        ESX_CHECK(sum_of(sl[s].ptr, sl[s].req) == sl[s].sum, "block-damaged", "after %s: live block p%d (%zu bytes at heap offset %ld, %s) no longer holds the bytes its owner left there", what, s,
                  sl[s].req, (long)(sl[s].ptr - oh), sl[s].written ? "written by its owner" : "not written by its owner yet");
        if (sl[s].req <= 512) {
            uint8_t *pg = oh_page_containing(sl[s].ptr, sl[s].req);
            ESX_CHECK(pg != NULL, "not-in-page", "after %s: p%d (%zu bytes at heap offset %ld) is not inside the payload of a live page", what, s, sl[s].req, (long)(sl[s].ptr - oh));
            active += sl[s].cls;
        } else {
            struct oh_hdr *h = oh_chunk_of_payload(sl[s].ptr, K_PARENT);
            ESX_CHECK(h && h->req >= sl[s].req, "parent-block", "after %s: p%d (%zu bytes at heap offset %ld) is not a live block of the parent allocator", what, s, sl[s].req, (long)(sl[s].ptr - oh));
        }
        for (int t = 0; t < s; ++t) {
            if (!sl[t].live) continue;
            bool disjoint = sl[s].ptr + sl[s].req <= sl[t].ptr || sl[t].ptr + sl[t].req <= sl[s].ptr;
            ESX_CHECK(disjoint, "overlap", "after %s: p%d (%zu bytes) and p%d (%zu bytes) overlap (distance %ld)", what, s, sl[s].req, t, sl[t].req, (long)(sl[s].ptr - sl[t].ptr));
        }
    }
    if (esx_failed) return;
    size_t a = aws_small_block_allocator_bytes_active(g_sba);
    ESX_CHECK(a == active, "bytes-active", "after %s: bytes_active = %zu, the live small blocks occupy %zu", what, a, active);
}
static void heap_whole(const char *what) {
    struct oh_hdr *h = oh_at(0);
    if (h->kind == K_FREE && h->size == OH_SIZE) return;
    size_t pages = 0, parents = 0, bytes = 0;
    for (size_t c = 0; c < OH_SIZE; c += oh_at(c)->size) {
        if (oh_at(c)->kind == K_PAGE) ++pages;
        if (oh_at(c)->kind == K_PARENT) ++parents, bytes += oh_at(c)->req;
    }
    esx_fail("memory-not-returned", "%s: the heap still holds %zu page(s) and %zu parent block(s) (%zu bytes)", what, pages, parents, bytes);
}
static void m_apply(int op) {
    char what[64];
    opname(op, what, sizeof(what));
    g_new_op = !esx_in_replay;
    g_verify = g_new_op;
    if (op < OP_REL) {
        int s = lowest_free();
        size_t n = op_size[op];
        size_t active0 = aws_small_block_allocator_bytes_active(g_sba);
        uint8_t *p = (uint8_t *)aws_mem_acquire(g_sba, n);
        if (!p) {
            esx_fail("acquire-null", "%s returned NULL", what);
            return;
        }
        sl[s].live = 1;
        sl[s].ptr = p;
        sl[s].req = n;
#ifndef SBAHEAP_BLACKBOX
        sl[s].cls = n <= 512 ? 512 : 0;
        (void)active0;
#else
        /* the size class of a block is what bytes_active grew by when it was handed out: at least the request for a small
         * block, nothing for a block the parent serves, the same for every block of that request size */
        sl[s].cls = aws_small_block_allocator_bytes_active(g_sba) - active0;
        if (g_verify) {
            if (n <= 512)
                ESX_CHECK(sl[s].cls >= n && sl[s].cls <= 1024, "class-too-small", "%s: bytes_active grew by %zu for a %zu-byte block", what, sl[s].cls, n);
            else
                ESX_CHECK(sl[s].cls == 0, "large-not-forwarded", "%s: bytes_active grew by %zu for a %zu-byte block, which the parent allocator serves", what, sl[s].cls, n);
            if (esx_failed) return;
        }
#endif
        if (p >= oh && p < oh + OH_SIZE) rel_forget_range((size_t)(p - oh), (size_t)(p - oh) + 1);
        sl[s].written = op_write[op];
        if (p < oh || p + n > oh + OH_SIZE) {
            esx_fail("outside-heap", "%s returned memory outside the heap", what);
            return;
        }
        if (op_write[op])
            for (size_t i = 0; i < n; ++i) p[i] = (uint8_t)(0x30 + s * 29 + i * 7);
        sl[s].sum = sum_of(p, n);
        if (g_new_op && !op_write[op]) {
            /* vacuity: did the unwritten block inherit a page header that still carries both tags? */
            for (uintptr_t a = ((uintptr_t)p + PAGE - 1) & ~(uintptr_t)(PAGE - 1); a + PAGE_HDR <= (uintptr_t)p + n; a += PAGE)
                if (page_tagged((const void *)a, NULL)) V_COUNT("unwritten_block_covers_stale_page_header", 1);
        }
    } else if (op == OP_RESTART) {
        aws_small_block_allocator_destroy(g_sba);
        g_sba = NULL;
        if (esx_failed) return;
        if (g_spacer) {
            aws_mem_release(&par, g_spacer);
            g_spacer = NULL;
        }
        if (g_verify) heap_whole("destroy of an idle allocator");
        if (g_new_op) {
            for (size_t a = 0; a + PAGE_HDR <= OH_SIZE; a += PAGE)
                if (page_tagged(oh + a, NULL)) V_COUNT("page_tags_left_in_freed_memory_at_destroy", 1);
        }
        ++g_lives;
        nrel = 0;
        /* every second life starts behind a small parent block, so that the new allocator's control block does not land on the
         * address of the old one (added after a seeded change that memoised pointers into the first allocator's bins in a
         * function-level static: invisible whenever the next allocator happens to occupy the same memory) */
        if (g_lives & 1) g_spacer = aws_mem_acquire(&par, 80);
        g_sba = aws_small_block_allocator_new(&par, false);
        if (!g_sba) {
            esx_fail("new-failed", "aws_small_block_allocator_new failed in the second life");
            return;
        }
    } else {
        int s = op - OP_REL;
        uint64_t pr = oh_parent_releases, pf = oh_page_frees;
        int large = sl[s].req > 512;
        if (g_new_op && large) {
            if (page_tagged((const void *)((uintptr_t)sl[s].ptr & ~(uintptr_t)(PAGE - 1)), NULL)) V_COUNT("large_release_below_stale_tags", 1);
        }
        aws_mem_release(g_sba, sl[s].ptr);
        sl[s].live = 0;
        if (esx_failed) return;
        if (!large && nrel < 64 && oh_page_containing(sl[s].ptr, 1)) rel_order[nrel++] = (uint32_t)(sl[s].ptr - oh);
        if (g_verify) {
            if (large)
                ESX_CHECK(oh_parent_releases == pr + 1 && oh_last_parent_release == sl[s].ptr, "large-release-not-forwarded",
                          "%s: the block (%zu bytes at heap offset %ld) was served by the parent allocator, but its release did not reach the parent (%llu parent releases during the call)", what,
                          sl[s].req, (long)(sl[s].ptr - oh), (unsigned long long)(oh_parent_releases - pr));
            else
                ESX_CHECK(oh_parent_releases == pr && oh_page_frees <= pf + 1, "small-release-forwarded", "%s: release of a small block made %llu parent releases and %llu page frees", what,
                          (unsigned long long)(oh_parent_releases - pr), (unsigned long long)(oh_page_frees - pf));
        }
    }
    if (!esx_failed) check_all(what);
    if (v_replay_token) { /* replays print the heap after every step */
        char d[1500];
        size_t o = 0;
        for (size_t c = 0; c < OH_SIZE && o + 60 < sizeof(d); c += oh_at(c)->size) {
            o += (size_t)snprintf(d + o, sizeof(d) - o, " %zu:%s%u", c, oh_at(c)->kind == K_FREE ? "free" : (oh_at(c)->kind == K_PAGE ? "PAGE" : "blk"), oh_at(c)->size);
        }
        for (size_t a = 0; a + PAGE_HDR <= OH_SIZE && o + 40 < sizeof(d); a += PAGE) {
            uint32_t cnt = 0;
            if (page_tagged(oh + a, &cnt)) o += (size_t)snprintf(d + o, sizeof(d) - o, " tags@%zu(count %u)", a, cnt);
        }
        v_out("INFO   heap after %s:%s", what, d);
    }
}
static void m_teardown(void) {
    g_new_op = 0;
    if (esx_failed) g_spacer = NULL;
    g_verify = 1;
    if (!esx_failed) {
        for (int s = 0; s < NSLOT; ++s)
            if (sl[s].live) {
                aws_mem_release(g_sba, sl[s].ptr);
                sl[s].live = 0;
                if (esx_failed) return;
            }
        size_t a = aws_small_block_allocator_bytes_active(g_sba);
        ESX_CHECK(a == 0, "bytes-active", "teardown: everything released, bytes_active = %zu", a);
        aws_small_block_allocator_destroy(g_sba);
        g_sba = NULL;
        if (esx_failed) return;
        if (g_spacer) {
            aws_mem_release(&par, g_spacer);
            g_spacer = NULL;
        }
        heap_whole("teardown: every block released and the allocator destroyed");
    }
}
static size_t m_canon(uint8_t *buf, size_t cap) {
    size_t o = 0;
#define PUT(v)                                                                                                       \
    do {                                                                                                             \
        uint32_t v__ = (uint32_t)(v);                                                                                \
        if (o + 4 <= cap) memcpy(buf + o, &v__, 4);                                                                  \
        o += 4;                                                                                                      \
    } while (0)
    for (size_t c = 0; c < OH_SIZE; c += oh_at(c)->size) {
        PUT(c);
        PUT(oh_at(c)->size);
        PUT(oh_at(c)->kind);
    }
    PUT(0xffffffffu);
    PUT(g_lives);
    for (int s = 0; s < NSLOT; ++s) {
        PUT(sl[s].live);
        if (sl[s].live) {
            PUT(sl[s].ptr - oh);
            PUT(sl[s].req);
            PUT(sl[s].written);
        }
    }
#ifndef SBAHEAP_BLACKBOX
    struct small_block_allocator *sba = impl();
    for (int b = 0; b < AWS_SBA_BIN_COUNT; ++b) {
        struct sba_bin *bin = &sba->bins[b];
        PUT(bin->page_cursor ? (size_t)(bin->page_cursor - oh) : 0xfffffffeu);
        PUT(bin->active_pages.length);
        for (size_t i = 0; i < bin->active_pages.length; ++i) {
            void *pg = NULL;
            aws_array_list_get_at(&bin->active_pages, &pg, i);
            PUT((uint8_t *)pg - oh);
            PUT(((struct page_header *)pg)->alloc_count);
        }
        PUT(bin->free_chunks.length);
        for (size_t i = 0; i < bin->free_chunks.length; ++i) {
            void *ch = NULL;
            aws_array_list_get_at(&bin->free_chunks, &ch, i);
            PUT((uint8_t *)ch - oh);
        }
    }
    for (size_t a = 0; a + sizeof(struct page_header) <= OH_SIZE; a += PAGE) {
        const struct page_header *ph = (const struct page_header *)(oh + a);
        int tagged = ph->tag == AWS_SBA_TAG_VALUE && ph->tag2 == AWS_SBA_TAG_VALUE;
        PUT(tagged);
        if (tagged) {
            PUT((uint8_t *)ph->bin - oh);
            PUT(ph->alloc_count);
        }
    }
#else
    PUT(nrel);
    for (int i = 0; i < nrel; ++i) PUT(rel_order[i]);
    PUT(aws_small_block_allocator_bytes_active(g_sba));
    PUT(aws_small_block_allocator_bytes_reserved(g_sba));
    /* whatever old and current pages have at their base: the heap is at a fixed address, pointers in there are stable */
    for (size_t a = 0; a + PAGE_HDR <= OH_SIZE; a += PAGE) {
        uint32_t w = 0;
        for (size_t i = 0; i < PAGE_HDR; ++i) w = w * 31u + oh[a + i];
        PUT(w);
    }
#endif
    return o;
}

int main(int argc, char **argv) {
    v_init(argc, argv);
#if defined(SBAHEAP_BLACKBOX)
#    define MODEL_NAME "sbaheap-blackbox"
#elif defined(SBAHEAP_LINKWRAP)
#    define MODEL_NAME "sbaheap-2048-O2"
#else
#    define MODEL_NAME "sbaheap-2048"
#endif
    static struct esx_model model = {.name = MODEL_NAME, .nops = NOPS, .reset = m_reset, .enabled = m_enabled, .apply = m_apply, .canon = m_canon, .opname = opname, .teardown = m_teardown};
    int rc = 0;
    if (v_replay_token) {
        if (esx_token_is_for(v_replay_token, model.name)) rc |= esx_replay(&model, v_replay_token);
    } else {
        model.max_depth = v_thorough() ? 10 : 9; /* depth 11 is 3.3e7 states (4.5e7 in the black-box build): beyond the state cap */
        model.max_states = 20000000ull;
        double t0 = v_now();
        esx_run(&model);
        ESX_CYCLES(&model);
        v_out("INFO %s: page %zu, %d ops, depth %d, %.1f s", model.name, PAGE, NOPS, model.max_depth, v_now() - t0);
    }
    v_finish();
    return (v_sh->viol_count || rc) ? 1 : 0;
}
